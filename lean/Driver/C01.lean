import VivModel.Model.Proto
import VivModel.Model.Engine
/-! Line-protocol driver for the engine layer (C01, C18): the event skeleton of a run under every driving API.

  cfg <start> <step> <stop>      configured clock (integer ticks); resets the world
  sched <s0,s1,…|->              what `step_forward` recomputes at the end of engine step k (`n` = not recomputed)
  init <s|n>                     `initialize_simulants`: the first recomputation of the global step (`n` = none)
  run | loop                     `SimulationContext.run()` / a user loop `while time < stop: step()`   -> `count <k>`
  steps <n>                      `take_steps(n)` / n × `step()`
  take <n> <h> | istep <h>       `take_steps(n, h)` / `step(h)` with an explicit step size
  xloop <h>                      `while time < stop: step(h)`
  chunks <k>                     `while time < stop: take_steps(k)` (may overrun the end)             -> `count <chunks>`
  until <t> | for <d>            `run_until(t)` / `run_for(d)`                                       -> `count <k>`
  backup | restore               `write_backup` / `dill.load` (the contract: the world itself)
  finalize                       the end event
  log                            -> `event:clock:step,…`
Everything is executed by the functions of `Viv.Engine.VSys` on the instance `schedSys`, i.e. by the functions the
theorems of Props/C01.lean and Props/C18.lean are about. -/
open Viv Viv.Proto Viv.Engine

structure St where
  w     : Option SW := none
  saved : Option SW := none

def fuel : Nat := 100000

def showLog (l : List (String × Int × Int)) : String :=
  showStrs (l.map fun (e, c, s) => s!"{e}:{c}:{s}")

def schedList (s : String) : Option (List (Option Int)) :=
  (strList s).mapM fun t => if t = "n" then some none else t.toInt?.map some

def withW (s : St) (f : SW → St × String) : St × String :=
  match s.w with
  | some w => f w
  | none => (s, "err no-cfg")

def step (s : St) : List String → St × String
  | ["cfg", a, b, c] =>
    match a.toInt?, b.toInt?, c.toInt? with
    | some a, some b, some c => if b ≤ 0 then (s, "err step") else ({ w := some { clock := a, step := b, stop := c }, saved := none }, "ok")
    | _, _, _ => (s, "bad-op")
  | ["sched", l] =>
    match schedList l with
    | some l => withW s fun w => ({ s with w := some { w with sched := l } }, "ok")
    | none => (s, "bad-op")
  | ["init", r] =>
    if r = "n" then withW s fun w => ({ s with w := some (w.initSims none) }, "ok")
    else match r.toInt? with
      | some r => withW s fun w => ({ s with w := some (w.initSims (some r)) }, "ok")
      | none => (s, "bad-op")
  | ["run"] => withW s fun w => let r := schedSys.run w.stop fuel w; ({ s with w := some r.2 }, s!"count {r.1}")
  | ["loop"] => withW s fun w => let r := schedSys.run w.stop fuel w; ({ s with w := some r.2 }, s!"count {r.1}")
  | ["steps", n] =>
    match n.toNat? with
    | some n => withW s fun w => ({ s with w := some (schedSys.takeSteps none n w) }, "ok")
    | none => (s, "bad-op")
  | ["take", n, h] =>
    match n.toNat?, h.toInt? with
    | some n, some h => withW s fun w => ({ s with w := some (schedSys.takeSteps (some h) n w) }, "ok")
    | _, _ => (s, "bad-op")
  | ["istep", h] =>
    match h.toInt? with
    | some h => withW s fun w => ({ s with w := some (schedSys.istep (some h) w) }, "ok")
    | none => (s, "bad-op")
  | ["xloop", h] =>
    match h.toInt? with
    | some h => withW s fun w => ({ s with w := some (schedSys.runExplicit h w.stop fuel w) }, "ok")
    | none => (s, "bad-op")
  | ["chunks", k] =>
    match k.toNat? with
    | some k => if k = 0 then (s, "err chunk") else
        withW s fun w => let r := schedSys.runChunks k w.stop fuel w; ({ s with w := some r.2 }, s!"count {r.1}")
    | none => (s, "bad-op")
  | ["until", t] =>
    match t.toInt? with
    | some t => withW s fun w => let r := schedSys.runUntil t fuel w; ({ s with w := some r.2 }, s!"count {r.1}")
    | none => (s, "bad-op")
  | ["for", d] =>
    match d.toInt? with
    | some d => withW s fun w => let r := schedSys.runFor d fuel w; ({ s with w := some r.2 }, s!"count {r.1}")
    | none => (s, "bad-op")
  | ["backup"] => withW s fun w => ({ s with saved := some w }, "ok")
  | ["restore"] =>
    match s.saved with
    | some w => ({ s with w := some w }, "ok")
    | none => (s, "err no-backup")
  | ["finalize"] => withW s fun w => ({ s with w := some w.finalize }, "ok")
  | ["log"] => withW s fun w => (s, showLog w.log)
  | ["clock"] => withW s fun w => (s, s!"{w.clock} {w.step} {w.k}")
  | _ => (s, "bad-op")

def main : IO Unit := Proto.run ({} : St) step
