import VivModel.Model.Proto
import VivModel.Model.Stream
/-! Line-protocol driver for the randomness-stream model, draw addressing only (C02). The C05 driver is a
superset (adds filter / choice) with the same conventions.

Strings travel hex-encoded with an `x` prefix (ASCII only). The index map's content and the random blocks
are DATA handed in by the harness (`pos`, `block`); everything else is computed by `Viv.Stream`.

  size n | crn 0/1 | pos sims positions | block xSEEDSTRING n0,n1,…   (length must equal size)
  stream xDP                                         → ok | err duplicate
  draw  xKEY xTIME xAK xSEED req                     → ok s:p:n,… | err lookup
  idraw xKEY xTIME xAK xSEED req                     → same for an initializes_crn_attributes stream
A seed string without a registered block → `err noblock` (never a default block). -/
open Viv Viv.Proto Viv.Stream

structure St where
  size : Nat := 0
  crn : Bool := false
  map : List (Sim × Nat) := []
  blocks : List (String × List Nat) := []
  streams : List String := []

def hexVal (c : Char) : Option Nat :=
  if '0' ≤ c ∧ c ≤ '9' then some (c.toNat - '0'.toNat)
  else if 'a' ≤ c ∧ c ≤ 'f' then some (c.toNat - 'a'.toNat + 10) else none

def unhexChars : List Char → Option (List Char)
  | [] => some []
  | a :: b :: rest => do
    let h ← hexVal a
    let l ← hexVal b
    let v := h * 16 + l
    if v ≥ 128 then none else
    let cs ← unhexChars rest
    pure (Char.ofNat v :: cs)
  | _ => none

def unhex (s : String) : Option String :=
  match s.toList with
  | 'x' :: cs => (unhexChars cs).map String.ofList
  | _ => none

def errName : Err → String
  | .lookup => "lookup" | .length => "length" | .labels => "labels" | .shape => "shape"
  | .residualCount => "residualCount" | .residualSum => "residualSum" | .index => "index"
  | .duplicate => "duplicate" | .zeroRow => "zeroRow"

def St.pos (s : St) : Sim → Option Nat := if s.crn then posMap s.map else posIdentity s.size

/-- the block function over the registered table (callers check the seed string is registered) -/
def St.blk (s : St) : String → Nat → Nat → Nat := fun ks _ p =>
  (((s.blocks.lookup ks).getD [])[p]?).getD 0

def showDraws (ds : List Draw) : String := showStrs (ds.map fun d => s!"{d.1}:{d.2.1}:{d.2.2}")

def withKey (s : St) (k t a sd : String) (f : String → String) : String :=
  match unhex k, unhex t, unhex a, unhex sd with
  | some k, some t, some a, some sd =>
    let ks := joinKey k t a sd
    if (s.blocks.lookup ks).isNone then "err noblock" else f ks
  | _, _, _, _ => "bad-op"

def step (s : St) : List String → St × String
  | ["size", n] =>
    match n.toNat? with
    | some n => ({ s with size := n }, "ok")
    | none => (s, "bad-op")
  | ["crn", b] =>
    match bool? b with
    | some b => ({ s with crn := b }, "ok")
    | none => (s, "bad-op")
  | ["pos", sims, ps] =>
    match natList sims, natList ps with
    | some a, some b => if a.length = b.length then ({ s with map := a.zip b }, "ok") else (s, "bad-op")
    | _, _ => (s, "bad-op")
  | ["block", ks, nums] =>
    match unhex ks, natList nums with
    | some ks, some ns =>
      if ns.length = s.size then ({ s with blocks := (ks, ns) :: s.blocks }, "ok") else (s, "bad-op")
    | _, _ => (s, "bad-op")
  | ["stream", dp] =>
    match unhex dp with
    | none => (s, "bad-op")
    | some dp =>
      match getStream s.streams dp with
      | .ok l => ({ s with streams := l }, "ok")
      | .error e => (s, s!"err {errName e}")
  | ["draw", k, t, a, sd, req] =>
    match natList req with
    | none => (s, "bad-op")
    | some req => (s, withKey s k t a sd fun ks =>
        match getDraw s.blk s.size s.pos ks req with
        | .ok ds => if ds.all (fun d => decide (d.2.1 < s.size)) then s!"ok {showDraws ds}" else "err range"
        | .error e => s!"err {errName e}")
  | ["idraw", k, t, a, sd, req] =>
    match natList req with
    | none => (s, "bad-op")
    | some req => (s, withKey s k t a sd fun ks =>
        match getDrawInit s.blk s.size ks req with
        | .ok ds => s!"ok {showDraws ds}"
        | .error e => s!"err {errName e}")
  | _ => (s, "bad-op")

def main : IO Unit := Proto.run ({} : St) step
