import VivModel.Model.Proto
import VivModel.Model.Stream
import VivModel.Model.RandomBlock
/-! Line-protocol driver for the randomness-stream model, draw addressing only (C02). The C05 driver is a
superset (adds filter / choice) with the same conventions.

Strings travel hex-encoded with an `x` prefix (ASCII only). The index map's content and the random blocks
are DATA handed in by the harness (`pos`, `block`); everything else is computed by `Viv.Stream`.

  size n | crn 0/1 | pos sims positions | block xSEEDSTRING n0,n1,…   (length must equal size)
  stream xDP                                         → ok | err duplicate
  draw  xKEY xTIME xAK xSEED req                     → ok s:p:n,… | err lookup
  idraw xKEY xTIME xAK xSEED req                     → same for an initializes_crn_attributes stream
A seed string without a registered block → `err noblock` (never a default block).

Bit-level mode (`Model/Sha1.lean`, `Model/MT19937.lean`, `Model/RandomBlock.lean`): after `rng 1` no blocks are
handed over – `draw` / `idraw` compute `RandomState(get_hash(seed string)).random_sample(size)` themselves
(once per seed string, `memoBlk`; `Props/C02Bits.lean::getDraw_memo`).
  rng 0/1                                            → ok
  hash xKEY | hashu cp,cp,…  (unicode scalar values) → ok <get_hash> | err encode (not a scalar value)
  sha xKEY  | shau cp,cp,…                           → ok <40 hex digits of sha1(key.encode("utf8"))>
  mt seed n                                          → ok <n numerators over 2^53 of random_sample(n)> | err seed
  mtw seed n                                         → ok <first n 32-bit outputs> | err seed   (seed ≥ 2^32: ValueError) -/
open Viv Viv.Proto Viv.Stream Viv.RandomBlock

structure St where
  size : Nat := 0
  crn : Bool := false
  map : List (Sim × Nat) := []
  blocks : List (String × List Nat) := []
  streams : List String := []
  rng : Bool := false
  own : List (String × Array Nat) := []       -- blocks the model computed itself (rng mode), per seed string

def hexVal (c : Char) : Option Nat :=
  if '0' ≤ c ∧ c ≤ '9' then some (c.toNat - '0'.toNat)
  else if 'a' ≤ c ∧ c ≤ 'f' then some (c.toNat - 'a'.toNat + 10) else none

def unhexChars : List Char → Option (List Char)
  | [] => some []
  | a :: b :: rest => do
    let h ← hexVal a
    let l ← hexVal b
    let v := h * 16 + l
    if v ≥ 128 then none else
    let cs ← unhexChars rest
    pure (Char.ofNat v :: cs)
  | _ => none

def unhex (s : String) : Option String :=
  match s.toList with
  | 'x' :: cs => (unhexChars cs).map String.ofList
  | _ => none

def errName : Err → String
  | .lookup => "lookup" | .length => "length" | .labels => "labels" | .shape => "shape"
  | .residualCount => "residualCount" | .residualSum => "residualSum" | .index => "index"
  | .duplicate => "duplicate" | .zeroRow => "zeroRow"

def St.pos (s : St) : Sim → Option Nat := if s.crn then posMap s.map else posIdentity s.size

/-- the block function over the registered table (callers check the seed string is registered) -/
def St.blk (s : St) : String → Nat → Nat → Nat := fun ks _ p =>
  (((s.blocks.lookup ks).getD [])[p]?).getD 0

def showDraws (ds : List Draw) : String := showStrs (ds.map fun d => s!"{d.1}:{d.2.1}:{d.2.2}")

/-- the block function for seed string `ks`: the registered data, or (rng mode) the model's own block,
computed on first use -/
def St.blockFor (s : St) (ks : String) : St × Option (String → Nat → Nat → Nat) :=
  if s.rng then
    match s.own.lookup ks with
    | some b => if b.size = s.size then (s, some (memoBlk b)) else
        let b := blockOf ks s.size
        ({ s with own := (ks, b) :: s.own }, some (memoBlk b))
    | none =>
      let b := blockOf ks s.size
      ({ s with own := (ks, b) :: s.own }, some (memoBlk b))
  else if (s.blocks.lookup ks).isNone then (s, none) else (s, some s.blk)

def withKey (s : St) (k t a sd : String) (f : (String → Nat → Nat → Nat) → String → String) : St × String :=
  match unhex k, unhex t, unhex a, unhex sd with
  | some k, some t, some a, some sd =>
    let ks := joinKey k t a sd
    match s.blockFor ks with
    | (s, none) => (s, "err noblock")
    | (s, some blk) => (s, f blk ks)
  | _, _, _, _ => (s, "bad-op")

/-- a string from unicode scalar values (`hashu`): anything else cannot be encoded (`UnicodeEncodeError`) -/
def ofScalars (cps : List Nat) : Option String :=
  if cps.all Nat.isValidChar then some (String.ofList (cps.map Char.ofNat)) else none

def keyArg (op tok : String) : Option (Option String) :=
  if op = "hash" ∨ op = "sha" then (unhex tok).map some
  else (natList tok).map ofScalars

def step (s : St) : List String → St × String
  | ["size", n] =>
    match n.toNat? with
    | some n => ({ s with size := n }, "ok")
    | none => (s, "bad-op")
  | ["crn", b] =>
    match bool? b with
    | some b => ({ s with crn := b }, "ok")
    | none => (s, "bad-op")
  | ["pos", sims, ps] =>
    match natList sims, natList ps with
    | some a, some b => if a.length = b.length then ({ s with map := a.zip b }, "ok") else (s, "bad-op")
    | _, _ => (s, "bad-op")
  | ["block", ks, nums] =>
    match unhex ks, natList nums with
    | some ks, some ns =>
      if ns.length = s.size then ({ s with blocks := (ks, ns) :: s.blocks }, "ok") else (s, "bad-op")
    | _, _ => (s, "bad-op")
  | ["stream", dp] =>
    match unhex dp with
    | none => (s, "bad-op")
    | some dp =>
      match getStream s.streams dp with
      | .ok l => ({ s with streams := l }, "ok")
      | .error e => (s, s!"err {errName e}")
  | ["draw", k, t, a, sd, req] =>
    match natList req with
    | none => (s, "bad-op")
    | some req => withKey s k t a sd fun blk ks =>
        match getDraw blk s.size s.pos ks req with
        | .ok ds => if ds.all (fun d => decide (d.2.1 < s.size)) then s!"ok {showDraws ds}" else "err range"
        | .error e => s!"err {errName e}"
  | ["idraw", k, t, a, sd, req] =>
    match natList req with
    | none => (s, "bad-op")
    | some req => withKey s k t a sd fun blk ks =>
        match getDrawInit blk s.size ks req with
        | .ok ds => s!"ok {showDraws ds}"
        | .error e => s!"err {errName e}"
  | ["rng", b] =>
    match bool? b with
    | some b => ({ s with rng := b }, "ok")
    | none => (s, "bad-op")
  | [op, tok] =>
    if op = "hash" ∨ op = "hashu" ∨ op = "sha" ∨ op = "shau" then
      match keyArg op tok with
      | none => (s, "bad-op")
      | some none => (s, "err encode")
      | some (some key) =>
        if op = "hash" ∨ op = "hashu" then (s, s!"ok {Sha1.getHash key}") else (s, s!"ok {Sha1.hexdigest key}")
    else (s, "bad-op")
  | [op, sd, n] =>
    if op = "mt" ∨ op = "mtw" then
      match sd.toNat?, n.toNat? with
      | some sd, some n =>
        if sd ≥ 4294967296 then (s, "err seed")
        else if op = "mt" then (s, s!"ok {showNats (MT19937.block sd n).toList}")
        else (s, s!"ok {showNats (MT19937.outputs n (MT19937.seed sd))}")
      | _, _ => (s, "bad-op")
    else (s, "bad-op")
  | _ => (s, "bad-op")

def main : IO Unit := Proto.run ({} : St) step
