import VivModel.Model.Proto
import VivModel.Model.IndexMap
/-! Line-protocol driver for the randomness index map (C03, C04).

    imap new <useCrn:0|1> <size>                 → ok
    imap update <salt> <rows>                    → ok <sim>:<pos>;… (the whole map, in `_map` order) | err <class>
    imap get <sims>                              → ok <pos>,… | err <class>
    imap hash <size> <salt> <key>                → <position>
    imap spread <int>                            → <ten-digit integer>

  value  = i<int>  (integer column / salt)  |  c<rank>_<ten>  (float / datetime: order code, ten-digit integer)
  key    = value,value,…        row = <sim>,value,…        rows = row;row;…  (`-` = no rows)
  `which` (second token, free text without blanks) lets one line stream drive several maps: `imap@a update …`. -/
open Viv Viv.Proto Viv.IndexMap

def fuel : Nat := 100000

def kval? (s : String) : Option KVal :=
  match s.toList with
  | 'i' :: rest => (String.ofList rest).toInt?.map KVal.int
  | 'c' :: rest =>
    match (String.ofList rest).splitOn "_" with
    | [r, t] => do
      let r ← r.toInt?
      let t ← t.toInt?
      pure (KVal.conv r t)
    | _ => none
  | _ => none

def key? (ts : List String) : Option Key := ts.mapM kval?

def row? (ts : List String) : Option (Int × Key) :=
  match ts with
  | s :: ks => do
    let s ← s.toInt?
    let k ← key? ks
    pure (s, k)
  | [] => none

def errName : Err → String
  | .randomness => "randomness" | .fuel => "fuel" | .key => "key" | .internal => "internal"

def showMap (m : List Entry) : String :=
  if m.isEmpty then "-" else ";".intercalate (m.map fun e => s!"{e.sim}:{e.pos}")

structure St where
  maps : List (String × IMap) := []

def St.find (s : St) (w : String) : Option IMap := s.maps.lookup w
def St.set (s : St) (w : String) (im : IMap) : St := { maps := (w, im) :: s.maps.filter (·.1 != w) }

def step (s : St) : List String → St × String
  | [w, "new", crn, size] =>
    if !w.startsWith "imap" then (s, "bad-op") else
    match bool? crn, size.toNat? with
    | some c, some n => if n = 0 then (s, "bad-op") else (s.set w { useCrn := c, size := n }, "ok")
    | _, _ => (s, "bad-op")
  | [w, "update", salt, rows] =>
    match s.find w, kval? salt, (strLists rows).mapM row? with
    | some im, some t, some batch =>
      let (im', r) := im.update (hashPos im.size) fuel batch t
      match r with
      | .ok () => (s.set w im', s!"ok {showMap (im'.map.getD [])}")
      | .error e => (s.set w im', s!"err {errName e}")
    | _, _, _ => (s, "bad-op")
  | [w, "get", sims] =>
    match s.find w, intList sims with
    | some im, some idx =>
      match im.get idx with
      | .ok ps => (s, s!"ok {showInts ps}")
      | .error e => (s, s!"err {errName e}")
    | _, _ => (s, "bad-op")
  | ["imap", "hash", size, salt, key] =>
    match size.toNat?, kval? salt, key? (strList key) with
    | some n, some t, some k => if n = 0 then (s, "bad-op") else (s, toString (hashPos n k t))
    | _, _, _ => (s, "bad-op")
  | ["imap", "spread", v] =>
    match v.toInt? with
    | some v => (s, toString (spread v))
    | none => (s, "bad-op")
  | _ => (s, "bad-op")

def main : IO Unit := Proto.run ({} : St) step
