import VivModel.Model.Proto
import VivModel.Model.Stream
/-! Line-protocol driver for the randomness-stream model: draws (C02), filter / choice (C05).

Strings travel hex-encoded with an `x` prefix (ASCII only). The index map's content and the random blocks
are DATA handed in by the harness (`pos`, `block`); everything else is computed by `Viv.Stream`.

  size n | crn 0/1 | pos sims positions | block xSEEDSTRING n0,n1,…   (length must equal size)
  stream xDP                                         → ok | err duplicate
  draw  xKEY xTIME xAK xSEED req                     → ok s:p:n,… | err lookup
  idraw xKEY xTIME xAK xSEED req                     → same for an initializes_crn_attributes stream
  filter xKEY xTIME xAK xSEED shift req probs        → ok kept…          probs: s:p | l:p,p,… | t:p,p,… (tuple) | x:i,i,…:p,p,…
  choice xKEY xTIME xAK xSEED req k weights          → ok i,i,…          weights: none | 1:Q:c,c | 2:Q:c,c;c,c  (c = n | R)
  ifilter / ichoice (same arguments)                 → the same calls on an initializes_crn_attributes stream (positional draw)
  rchoice D draws k weights                          → `_choice` on given draws
A seed string without a registered block → `err noblock` (never a default block). -/
open Viv Viv.Proto Viv.Stream

structure St where
  size : Nat := 0
  crn : Bool := false
  map : List (Sim × Nat) := []
  blocks : List (String × List Nat) := []
  streams : List String := []

def hexVal (c : Char) : Option Nat :=
  if '0' ≤ c ∧ c ≤ '9' then some (c.toNat - '0'.toNat)
  else if 'a' ≤ c ∧ c ≤ 'f' then some (c.toNat - 'a'.toNat + 10) else none

def unhexChars : List Char → Option (List Char)
  | [] => some []
  | a :: b :: rest => do
    let h ← hexVal a
    let l ← hexVal b
    let v := h * 16 + l
    if v ≥ 128 then none else
    let cs ← unhexChars rest
    pure (Char.ofNat v :: cs)
  | _ => none

def unhex (s : String) : Option String :=
  match s.toList with
  | 'x' :: cs => (unhexChars cs).map String.ofList
  | _ => none

def errName : Err → String
  | .lookup => "lookup" | .length => "length" | .labels => "labels" | .shape => "shape"
  | .residualCount => "residualCount" | .residualSum => "residualSum" | .index => "index"
  | .duplicate => "duplicate" | .zeroRow => "zeroRow"

def St.pos (s : St) : Sim → Option Nat := if s.crn then posMap s.map else posIdentity s.size

/-- the block function over the registered table (callers check the seed string is registered) -/
def St.blk (s : St) : String → Nat → Nat → Nat := fun ks _ p =>
  (((s.blocks.lookup ks).getD [])[p]?).getD 0

def showDraws (ds : List Draw) : String := showStrs (ds.map fun d => s!"{d.1}:{d.2.1}:{d.2.2}")

def parseCell (t : String) : Option Cell := if t = "R" then some .residual else t.toNat?.map .val

def parseWeights (t : String) : Option (Nat × Weights) :=
  if t = "none" then some (1, .none) else
  match t.splitOn ":" with
  | ["1", q, row] => do
    let q ← q.toNat?
    let r ← (strList row).mapM parseCell
    pure (q, .oneD r)
  | ["2", q, rows] => do
    let q ← q.toNat?
    let rs ← (rows.splitOn ";").mapM (fun r => (strList r).mapM parseCell)
    pure (q, .twoD rs)
  | _ => none

def parseProbs (t : String) : Option Probs :=
  match t.splitOn ":" with
  | ["s", p] => p.toNat?.map .scalar
  | ["l", ps] => (natList ps).map .list
  | ["t", ps] => (natList ps).map .tuple
  | ["x", i, ps] => do
    let i ← natList i
    let ps ← natList ps
    pure (.series i ps)
  | _ => none

def withKey (s : St) (k t a sd : String) (f : String → String) : String :=
  match unhex k, unhex t, unhex a, unhex sd with
  | some k, some t, some a, some sd =>
    let ks := joinKey k t a sd
    if (s.blocks.lookup ks).isNone then "err noblock" else f ks
  | _, _, _, _ => "bad-op"

def showRes (r : Except Err (List Nat)) : String :=
  match r with
  | .ok xs => s!"ok {showNats xs}"
  | .error e => s!"err {errName e}"

def step (s : St) : List String → St × String
  | ["size", n] =>
    match n.toNat? with
    | some n => ({ s with size := n }, "ok")
    | none => (s, "bad-op")
  | ["crn", b] =>
    match bool? b with
    | some b => ({ s with crn := b }, "ok")
    | none => (s, "bad-op")
  | ["pos", sims, ps] =>
    match natList sims, natList ps with
    | some a, some b => if a.length = b.length then ({ s with map := a.zip b }, "ok") else (s, "bad-op")
    | _, _ => (s, "bad-op")
  | ["block", ks, nums] =>
    match unhex ks, natList nums with
    | some ks, some ns =>
      if ns.length = s.size then ({ s with blocks := (ks, ns) :: s.blocks }, "ok") else (s, "bad-op")
    | _, _ => (s, "bad-op")
  | ["stream", dp] =>
    match unhex dp with
    | none => (s, "bad-op")
    | some dp =>
      match getStream s.streams dp with
      | .ok l => ({ s with streams := l }, "ok")
      | .error e => (s, s!"err {errName e}")
  | ["draw", k, t, a, sd, req] =>
    match natList req with
    | none => (s, "bad-op")
    | some req => (s, withKey s k t a sd fun ks =>
        match getDraw s.blk s.size s.pos ks req with
        | .ok ds => if ds.all (fun d => decide (d.2.1 < s.size)) then s!"ok {showDraws ds}" else "err range"
        | .error e => s!"err {errName e}")
  | ["idraw", k, t, a, sd, req] =>
    match natList req with
    | none => (s, "bad-op")
    | some req => (s, withKey s k t a sd fun ks =>
        match getDrawInit s.blk s.size ks req with
        | .ok ds => s!"ok {showDraws ds}"
        | .error e => s!"err {errName e}")
  | ["filter", k, t, a, sd, shift, req, probs] =>
    match natList req, shift.toNat?, parseProbs probs with
    | some req, some sh, some pr => (s, withKey s k t a sd fun ks =>
        showRes (filterStream s.blk s.size s.pos ks (2 ^ sh) req pr))
    | _, _, _ => (s, "bad-op")
  | ["choice", k, t, a, sd, req, nc, w] =>
    match natList req, nc.toNat?, parseWeights w with
    | some req, some nc, some (q, w) =>
      if nc = 0 then (s, "bad-op") else
      (s, withKey s k t a sd fun ks => showRes (choiceStream s.blk s.size s.pos ks q nc w req))
    | _, _, _ => (s, "bad-op")
  | ["ifilter", k, t, a, sd, shift, req, probs] =>
    match natList req, shift.toNat?, parseProbs probs with
    | some req, some sh, some pr => (s, withKey s k t a sd fun ks =>
        showRes (filterStreamInit s.blk s.size ks (2 ^ sh) req pr))
    | _, _, _ => (s, "bad-op")
  | ["ichoice", k, t, a, sd, req, nc, w] =>
    match natList req, nc.toNat?, parseWeights w with
    | some req, some nc, some (q, w) =>
      if nc = 0 then (s, "bad-op") else
      (s, withKey s k t a sd fun ks => showRes (choiceStreamInit s.blk s.size ks q nc w req))
    | _, _, _ => (s, "bad-op")
  | ["rchoice", d, draws, nc, w] =>
    match d.toNat?, natList draws, nc.toNat?, parseWeights w with
    | some d, some draws, some nc, some (q, w) =>
      if nc = 0 ∨ d = 0 then (s, "bad-op") else (s, showRes (choiceAll q nc w draws d))
    | _, _, _, _ => (s, "bad-op")
  | _ => (s, "bad-op")

def main : IO Unit := Proto.run ({} : St) step
