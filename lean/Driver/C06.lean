import VivModel.Model.Proto
import VivModel.Model.Context
/-! Line-protocol driver for the lifecycle / context-skeleton model (C06, also used by C08). -/
open Viv Viv.Proto Viv.LC Viv.Ctx

structure St where
  lc  : LifeCycle := LC.initial
  cur : String := "initialization"
  sim : Sim := Ctx.init 0 1 0

def failName : Fail → String
  | .transition => "transition" | .unknown => "unknown" | .constraint => "constraint" | .other => "other"

def reply (tag : String) (before : Sim) (s : Sim) : String :=
  s!"{tag} {s.ctl.st} {s.clock} {showStrs (s.ctl.log.drop before.ctl.log.length)}"

def step (s : St) : List String → St × String
  | ["lc", "new"] => ({ s with lc := LC.initial, cur := "initialization" }, "ok")
  | ["lc", "phase", name, states, loop] =>
    match bool? loop with
    | none => (s, "bad-op")
    | some l =>
      match addPhase s.lc ⟨name, strList states, l⟩ with
      | some lc' => ({ s with lc := lc' }, "ok")
      | none => (s, "err")
  | ["lc", "set", t] =>
    match setState s.lc s.cur t with
    | .ok t' => ({ s with cur := t' }, s!"ok {t'}")
    | .error .unknown => (s, s!"err unknown {s.cur}")
    | .error .transition => (s, s!"err transition {s.cur}")
  | ["ctx", "new", a, b, c] =>
    match a.toInt?, b.toInt?, c.toInt? with
    | some a, some b, some c => ({ s with sim := Ctx.init a b c }, "ok")
    | _, _, _ => (s, "bad-op")
  | ["ctx", "call", m] =>
    if (Viv.Gen.skeleton.find? (·.1 == m)).isNone then (s, "bad-op") else
    match call m s.sim with
    | .ok s' => ({ s with sim := s' }, reply "ok" s.sim s')
    | .error (f, s') => ({ s with sim := s' }, reply ("err:" ++ failName f) s.sim s')
  | ["ctx", "isetup"] =>
    -- `InteractiveContext.setup()`: `super().setup()` then `self.initialize_simulants()`
    match call "setup" s.sim with
    | .error (f, s') => ({ s with sim := s' }, reply ("err:" ++ failName f) s.sim s')
    | .ok s1 =>
      match call "initialize_simulants" s1 with
      | .ok s' => ({ s with sim := s' }, reply "ok" s.sim s')
      | .error (f, s') => ({ s with sim := s' }, reply ("err:" ++ failName f) s.sim s')
  | ["ctx", "fail", e] =>
    let s' := { s.sim with ctl := { s.sim.ctl with failOn := e } }
    ({ s with sim := s' }, reply "ok" s.sim s')
  | ["ctx", "run"] =>
    match run 100000 s.sim with
    | .ok s' => ({ s with sim := s' }, reply "ok" s.sim s')
    | .error (f, s') => ({ s with sim := s' }, reply ("err:" ++ failName f) s.sim s')
  | ["ctx", "set", t] =>
    match setState lifecycle s.sim.ctl.st t with
    | .ok t' =>
      let s' := { s.sim with ctl := { s.sim.ctl with st := t' } }
      ({ s with sim := s' }, reply "ok" s.sim s')
    | .error .unknown => (s, reply "err:unknown" s.sim s.sim)
    | .error .transition => (s, reply "err:transition" s.sim s.sim)
  | _ => (s, "bad-op")

def main : IO Unit := Proto.run ({} : St) step
