import VivModel.Model.Proto
import VivModel.Model.Context
/-! Line-protocol driver for the lifecycle / context-skeleton model (C06, also used by C08). -/
open Viv Viv.Proto Viv.LC Viv.Ctx

structure St where
  lc  : LifeCycle := LC.initial
  cur : String := "initialization"
  sim : Sim := Ctx.init 0 1 0
  nest : Nest := {}
  interactive : Bool := false

def failName : Fail → String
  | .transition => "transition" | .unknown => "unknown" | .constraint => "constraint" | .other => "other"

def reply (tag : String) (before : Sim) (s : Sim) : String :=
  s!"{tag} {s.ctl.st} {s.clock} {showStrs (s.ctl.log.drop before.ctl.log.length)}"

/-- reply for a `Sim`-level result without nested request -/
def fin (s : St) : Except (Fail × Sim) Sim → St × String
  | .ok s' => ({ s with sim := s' }, reply "ok" s.sim s')
  | .error (f, s') => ({ s with sim := s' }, reply ("err:" ++ failName f) s.sim s')

/-- reply for a result of the nested-aware runs -/
def finN (s : St) : Except (Fail × Sim × Nest) (Sim × Nest) → St × String
  | .ok (s', n) => ({ s with sim := s', nest := n }, reply "ok" s.sim s')
  | .error (f, s', n) => ({ s with sim := s', nest := n }, reply ("err:" ++ failName f) s.sim s')

def step (s : St) : List String → St × String
  | ["lc", "engine"] => ({ s with lc := Ctx.lifecycle, cur := "initialization" }, "ok")
  | ["lc", "new"] => ({ s with lc := LC.initial, cur := "initialization" }, "ok")
  | ["lc", "phase", name, states, loop] =>
    match bool? loop with
    | none => (s, "bad-op")
    | some l =>
      match addPhase s.lc ⟨name, strList states, l⟩ with
      | some lc' => ({ s with lc := lc' }, "ok")
      | none => (s, "err")
  | ["lc", "set", t] =>
    match setState s.lc s.cur t with
    | .ok t' => ({ s with cur := t' }, s!"ok {t'}")
    | .error .unknown => (s, s!"err unknown {s.cur}")
    | .error .transition => (s, s!"err transition {s.cur}")
  | ["ctx", "new", a, b, c] =>
    match a.toInt?, b.toInt?, c.toInt? with
    | some a, some b, some c => ({ s with sim := Ctx.init a b c, nest := {} }, "ok")
    | _, _, _ => (s, "bad-op")
  | ["ctx", "call", m] =>
    if (Viv.Gen.skeleton.find? (·.1 == m)).isNone then (s, "bad-op") else
    finN s (callN m (s.sim, s.nest))
  | ["ctx", "kind", k] =>
    -- `interactive`: `setup` means `InteractiveContext.setup` (for `runsim` and nested `setup` calls)
    if k = "interactive" then ({ s with interactive := true }, "ok")
    else if k = "simulation" then ({ s with interactive := false }, "ok") else (s, "bad-op")
  | ["ctx", "nest", ev, kind, arg] =>
    if kind = "set" then ({ s with nest := { ev := ev, req := .set arg } }, reply "ok" s.sim s.sim)
    else if kind = "call" then
      if (Viv.Gen.skeleton.find? (·.1 == arg)).isNone then (s, "bad-op")
      else ({ s with nest := { ev := ev, req := .call arg } }, reply "ok" s.sim s.sim)
    else (s, "bad-op")
  | ["ctx", "runsim"] => if s.nest.ev ≠ "" then (s, "bad-op") else fin s (runSimulation s.interactive 100000 s.sim)
  | ["ctx", "xstep", x] =>
    match x.toInt? with
    | some x => if s.nest.ev ≠ "" then (s, "bad-op") else fin s (stepWithSize x s.sim)
    | none => (s, "bad-op")
  | ["ctx", "until", t] =>
    match t.toInt? with
    | some t => if s.nest.ev ≠ "" then (s, "bad-op") else fin s (runUntil 100000 t s.sim)
    | none => (s, "bad-op")
  | ["ctx", "for", d] =>
    -- `run_for(d)` = `run_until(now + d)`
    match d.toInt? with
    | some d => if s.nest.ev ≠ "" then (s, "bad-op") else fin s (runUntil 100000 (s.sim.clock + d) s.sim)
    | none => (s, "bad-op")
  | ["ctx", "take", n] =>
    match n.toNat? with
    | some n => if s.nest.ev ≠ "" then (s, "bad-op") else fin s (takeN n s.sim)
    | none => (s, "bad-op")
  | ["ctx", "isetup"] =>
    -- `InteractiveContext.setup()`: `super().setup()` then `self.initialize_simulants()`
    match callN "setup" (s.sim, s.nest) with
    | .error e => finN s (.error e)
    | .ok x => finN s (callN "initialize_simulants" x)
  | ["ctx", "fail", e] =>
    let s' := { s.sim with ctl := { s.sim.ctl with failOn := e } }
    ({ s with sim := s' }, reply "ok" s.sim s')
  | ["ctx", "run"] =>
    finN s (runN 100000 (s.sim, s.nest))
  | ["ctx", "set", t] =>
    match setState lifecycle s.sim.ctl.st t with
    | .ok t' =>
      let s' := { s.sim with ctl := { s.sim.ctl with st := t' } }
      ({ s with sim := s' }, reply "ok" s.sim s')
    | .error .unknown => (s, reply "err:unknown" s.sim s.sim)
    | .error .transition => (s, reply "err:transition" s.sim s.sim)
  | _ => (s, "bad-op")

def main : IO Unit := Proto.run ({} : St) step
