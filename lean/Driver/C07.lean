import VivModel.Model.Proto
import VivModel.Model.Context
import VivModel.Model.Services
/-! Line-protocol driver for C07: the constraint table (`con`, stateless) and the stateful model of
`ConstraintMaker` + the handle-creating services (`Viv.Svc`): `begin` resets to the registry that exists once the
managers are set up.

    st <state>                                   ok | bad-state
    view <id> | stream <id> | producer <name> | modifier <name> | table <id> scalar|keyed
                                                 ok | refused | dup | err:<class>
    subview <id> <parent> | value <name> | obj <id>          ok | bad-op
    add <obj> <name> <method> <bound 0|1> <allow|-> <restrict|->    ok | err:value | err:lifecycle | err:type | err:constraint
    call <obj> <method> <empty 0|1>              admitted | refused | bad-op
    pcall <pipeline>                             admitted | refused | nosource | bad-op
    svc <file> <target>                          admitted | refused
    create <count>                               admitted | refused        (the simulant creator)
    con <file> <target> <state>                  admitted | refused | unconstrained -/
open Viv Viv.Proto Viv.Ctx Viv.Svc

def parseOp : List String → Option Op
  | ["st", x] => some (.st x)
  | ["view", id] => some (.view id)
  | ["subview", id, p] => some (.subview id p)
  | ["stream", id] => some (.stream id)
  | ["value", n] => some (.value n)
  | ["modifier", n] => some (.modifier n)
  | ["producer", n] => some (.producer n)
  | ["table", id, "scalar"] => some (.table id false)
  | ["table", id, "keyed"] => some (.table id true)
  | ["obj", id] => some (.obj id)
  | ["add", o, n, m, b, a, r] => (bool? b).map fun b => .add o n m b (strList a) (strList r)
  | ["call", o, m, e] => (bool? e).map fun e => .call o m e
  | ["pcall", n] => some (.pcall n)
  | ["svc", f, t] => some (.svc f t)
  | ["create", n] => n.toNat?.map fun n => .create n
  | _ => none

def step (s : S) : List String → S × String
  | ["con", file, method, st] =>
    match permittedAt file method with
    | some ss => (s, if ss.contains st then "admitted" else "refused")
    | none => (s, "unconstrained")
  | ["states"] => (s, showStrs states)
  | ts =>
    match parseOp ts with
    | some op => exec s op
    | none => (s, "bad-op")

def main : IO Unit := Proto.run ({} : S) step
