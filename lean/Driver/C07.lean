import VivModel.Model.Proto
import VivModel.Model.Context
/-! Line-protocol driver for the constraint table (C07): `con <file> <method> <state>`. -/
open Viv Viv.Proto Viv.Ctx

def step (s : Unit) : List String → Unit × String
  | ["con", file, method, st] =>
    match permittedAt file method with
    | some ss => (s, if ss.contains st then "admitted" else "refused")
    | none => (s, "unconstrained")
  | ["states"] => (s, showStrs states)
  | _ => (s, "bad-op")

def main : IO Unit := Proto.run () step
