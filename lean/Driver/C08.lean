import VivModel.Model.Proto
import VivModel.Model.Events
/-! Line-protocol driver for event delivery and the run loop (C08). -/
open Viv Viv.Proto Viv.Ev Viv.Ctx

structure St where
  regs : List CReg := []

def showCall (c : Call) : String := s!"{c.ch}:{c.id}:{c.prio}:{c.clock}:{c.time}:{c.step}"

def step (s : St) : List String → St × String
  | ["reg", ch, p, i] =>
    match p.toNat?, i.toNat? with
    | some p, some i =>
      if p < Viv.Gen.nBuckets then ({ s with regs := s.regs ++ [(ch, p, i)] }, "ok") else (s, "err")
    | _, _ => (s, "bad-op")
  | ["sim", a, b, c] =>
    match a.toInt?, b.toInt?, c.toInt? with
    | some a, some b, some c =>
      match simulate Viv.Gen.nBuckets s.regs a b c 1000000 with
      | .ok (sim, calls) =>
        let creates := ((sim.ctl.log.zip sim.tlog).filter (·.1 == "create")).map (fun x => toString x.2)
        (s, s!"ok {sim.clock} {showStrs creates} {showStrs (calls.map showCall)}")
      | .error (_, sim) => (s, s!"err {sim.ctl.st}")
    | _, _, _ => (s, "bad-op")
  | ["xsim", a, b, c, xs] =>
    match a.toInt?, b.toInt?, c.toInt?, intList xs with
    | some a, some b, some c, some xs =>
      match simulateSizes Viv.Gen.nBuckets s.regs a b c xs 1000000 with
      | .ok (sim, calls) =>
        let creates := ((sim.ctl.log.zip sim.tlog).filter (·.1 == "create")).map (fun x => toString x.2)
        (s, s!"ok {sim.clock} {showStrs creates} {showStrs (calls.map showCall)}")
      | .error (_, sim) => (s, s!"err {sim.ctl.st}")
    | _, _, _, _ => (s, "bad-op")
  | ["split", t, h, stop, a, d] =>
    match t.toInt?, h.toInt?, stop.toInt?, a.toInt?, d.toInt? with
    | some t, some h, some stop, some a, some d =>
      let r := splitRun stop h a d 1000000 t
      (s, s!"{r.1} {r.2.1} {r.2.2.1} {r.2.2.2}")
    | _, _, _, _, _ => (s, "bad-op")
  | ["emit", ch, a, b] =>
    match a.toInt?, b.toInt? with
    | some a, some b => (s, showStrs ((deliver Viv.Gen.nBuckets s.regs ch a b).map showCall))
    | _, _ => (s, "bad-op")
  | ["steps", a, b, c] =>
    match a.toInt?, b.toInt?, c.toInt? with
    | some a, some b, some c => let r := runLoop c b 1000000 a; (s, s!"{r.1} {r.2}")
    | _, _, _ => (s, "bad-op")
  | ["until", a, b, c] =>
    match a.toInt?, b.toInt?, c.toInt? with
    | some a, some b, some c => (s, toString (ceilDiv (c - a) b))
    | _, _, _ => (s, "bad-op")
  | _ => (s, "bad-op")

def main : IO Unit := Proto.run ({} : St) step
