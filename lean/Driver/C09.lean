import VivModel.Model.Proto
import VivModel.Model.Topo
/-! Line-protocol driver for the resource graph / initializer order model (C09).

Declarations (`sim new`, `init`, `src`, `mod`, `getv`, `strm`, `raw`, `post`) follow the real setup: the
first refused registration ends it (later declarations answer `skipped`). `add` talks to a bare
`ResourceManager` and goes on after a refusal, as a caller that catches the exception would.
Queries: `outcome`, `nodes`, `edges`, `graph` (= first access of the cached `graph` property), `kahn`,
`order <observed labels> <unobserved labels>` = the certified check of an OBSERVED initializer order. -/
open Viv Viv.Proto Viv.Topo

structure St where
  sim    : Sim := {}
  failed : Option Err := none

def errName : Err → String
  | .badType => "badtype resource" | .dupResource => "duplicate resource"
  | .dupInitializer => "duplicate initializer" | .dupColumn => "duplicate column"
  | .dupSource => "duplicate source" | .dupStream => "duplicate stream"

def errClass : Err → String
  | .badType => "badtype" | _ => "duplicate"

def callable? (t : String) : Option Callable :=
  match t.splitOn ":" with
  | ["p", k] => some (.pipeline k)
  | ["n", n] => some (.named n)
  | ["m", o, f] => some (.method o f)
  | ["f", n] => some (.func n)
  | ["o", c] => some (.object c)
  | _ => none

/-- a declaration of the setup phase: refused → remember the refusal, keep the state -/
def decl (s : St) (r : Sim → R) : St × String :=
  match s.failed with
  | some _ => (s, "skipped")
  | none =>
    match r s.sim with
    | .ok sim => ({ s with sim := sim }, "ok")
    | .error e => ({ s with failed := some e }, "err " ++ errName e)

def nodeName (m : Manager) (n : Nat) : String := "+".intercalate (groupOf m n).names

/-- the graph as the real `graph` property would hand it out now (and the manager with the cache set) -/
def theGraph (s : St) : St × Graph :=
  let (m, g) := Topo.graph s.sim.rm
  ({ s with sim := { s.sim with rm := m } }, g)

def nodeOfLabel (m : Manager) (g : Graph) (l : String) : Option Nat :=
  g.nodes.find? (fun n => (groupOf m n).producer == l)

def step (s : St) : List String → St × String
  | ["types"] => (s, showStrs resourceTypes ++ " " ++ nullType)
  | ["sim", "new", keys, clock] =>
    match frameworkSetup (strList keys) clock with
    | .ok sim => ({ sim := sim }, "ok")
    | .error e => ({ failed := some e }, "err " ++ errName e)
  | ["bare", "new"] => ({}, "ok")
  | ["init", comp, label, creates, rc, rv, rs] =>
    decl s (fun sim => registerInitializer sim comp label (strList creates) (strList rc) (strList rv) (strList rs))
  | ["src", key, label, c, rc, rv, rs] =>
    match callable? c with
    | none => (s, "bad-op")
    | some c => decl s (fun sim => registerProducer sim key label c (strList rc) (strList rv) (strList rs))
  | ["mod", key, c, rc, rv, rs] =>
    match callable? c with
    | none => (s, "bad-op")
    | some c => decl s (fun sim => registerModifier sim key c (strList rc) (strList rv) (strList rs))
  | ["getv", key] => decl s (fun sim => .ok (getValue sim key))
  | ["strm", name, crn] =>
    match bool? crn with
    | none => (s, "bad-op")
    | some crn => decl s (fun sim => getStream sim name crn)
  | ["raw", rtype, names, label, deps] =>
    decl s (fun sim => rawAdd sim rtype (strList names) label (strList deps))
  | ["post"] => decl s postSetup
  | ["add", rtype, names, label, deps] =>
    match addResources s.sim.rm rtype (strList names) label (strList deps) with
    | .ok m => ({ s with sim := { s.sim with rm := m } }, "ok")
    | .error (e, m) => ({ s with sim := { s.sim with rm := m } }, "err " ++ errName e)
  | ["outcome"] =>
    match s.failed with
    | some e => (s, errClass e)
    | none =>
      let (s, g) := theGraph s
      (s, if (topoSort g).isSome then "ok" else "cycle")
  | ["graph"] =>
    let (s, g) := theGraph s
    (s, s!"ok {g.nodes.length} {g.edges.length}")
  | ["nodes"] =>
    let (s, g) := theGraph s
    let m := s.sim.rm
    (s, showStrs (g.nodes.map fun n => s!"{nodeName m n}|{(groupOf m n).rtype}|{(groupOf m n).producer}"))
  | ["edges"] =>
    let (s, g) := theGraph s
    let m := s.sim.rm
    (s, showStrs (g.edges.map fun e => s!"{nodeName m e.1}>{nodeName m e.2}"))
  | ["kahn"] =>
    let (s, g) := theGraph s
    let m := s.sim.rm
    match iterNodes m g with
    | none => (s, "cycle")
    | some o =>
      let gens := (generations g (g.nodes.length + 1) g.nodes).map (fun gen => gen.filter (isInitializer m))
      (s, showStrs (o.map fun n => (groupOf m n).producer) ++ " " ++
          showStrss ((gens.filter (!·.isEmpty)).map fun gen => gen.map fun n => (groupOf m n).producer))
  | ["order", labels, unobserved] =>
    let (s, g) := theGraph s
    let m := s.sim.rm
    let hidden := strList unobserved
    let inits := (initNodes m g).filter (fun n => !hidden.contains (groupOf m n).producer)
    match (strList labels).mapM (nodeOfLabel m g) with
    | none => (s, "invalid unknown-label")
    | some o =>
      if checkObserved g inits o then
        match extend g o with
        | some full => (s, "valid " ++ showBool (checkOrder g full) ++ " " ++
            showBool ((iterNodes m g).map (·.filter (fun n => inits.contains n)) == some o))
        | none => (s, "invalid extension")
      else if decide (o.Nodup ∧ (∀ v ∈ inits, v ∈ o) ∧ (∀ v ∈ o, v ∈ inits)) then (s, "invalid extension")
      else (s, "invalid permutation")
  | _ => (s, "bad-op")

def main : IO Unit := Proto.run ({} : St) step
