import VivModel.Model.Proto
import VivModel.Model.Clock
/-! Line-protocol driver for the per-simulant clock model (C10).

```
cfg <start> <stop> <minStep> <std> [indiv|global|simple]
                                        DateTimeClock.setup with (indiv, default) / without (global) step-size
                                        modifiers; SimpleClock.setup without modifiers (simple); std 0 = not configured → ok
init <n> <mods>                         SimulationContext.initialize_simulants              → st …
override <s>                            InteractiveContext.step(step_size=s): before the engine step → ok
event                                   index of a main-loop event emitted now              → ev <now> <step> <time> <ids>
birth <k>                               simulant creator called by a listener               → ok <new ids>
snooze <ids>                            move_simulants_to_end(ids)                          → ok <pending ids>
untrack <ids> | retrack <ids>           a listener writes the `tracked` column (the clocks do not look at it) → ok
step <mods> [<calls>]                   SimulationClock.step_forward(population.index), then the restore of an
                                        overridden step (only without individual clocks / with an empty population, F33) → st <now> <step> <pending> <id:next:step;…>
fail                                    the iteration ended in a listener that raised: no clock update, an overridden step stays → st …
```
`init` takes the same optional `<calls>` and then an optional `<ids>`: a move-to-end request made by an initializer of the
initial population (before the first `step_forward`).
`<calls>`: `-` or one entry per registered modifier (registration order) separated by `;`: `_` (nothing), `<ids>` (the modifier calls
`move_simulants_to_end(ids)` while it is evaluated), `<ids>!` (… and then raises), `!<ids>` / `!` (raises, the request is never made).
A `step_forward` that fails replies `err population|raised|key st …` with the state it leaves behind (clock moved, rest untouched,
pending set grown by the requests made before the exception).
`<mods>`: `-` or one entry per existing simulant (label order) separated by `;`, each entry the outputs
of the registered modifiers for that simulant separated by `,`, `_` = NaN / not covered (ignored without modifiers).
Errors of the real code: `err value` (SimpleClock and an explicit step size of 0: ValueError), `err population` (a pending move-to-end label is not in the state table:
KeyError in `step_forward`), `err raised` (a modifier raised), `err key` (after the evaluation the pending set names a simulant that is not being
updated: KeyError in `.loc`). A global step of zero is not an error for a DateTimeClock (`Timedelta(0) == 0`
is False, so the `step_size` property does not raise). -/
open Viv Viv.Proto Viv.Clock

structure St where
  clk   : Option Clock := none
  indiv : Bool := true          -- at least one step-size modifier is registered
  simple : Bool := false        -- SimpleClock: integer step sizes, `step_size == 0` raises ValueError
  saved : Option Int := none    -- `old_step_size` of an `InteractiveContext.step(step_size)` in progress

def optNat? (s : String) : Option (Option Nat) :=
  if s = "_" then some none else s.toNat?.map some

def modTable? (s : String) : Option (List (List (Option Nat))) :=
  if s = "-" then some [] else (s.splitOn ";").mapM fun e => (e.splitOn ",").mapM optNat?

def modsOf (t : List (List (Option Nat))) : Nat → List (Option Nat) := fun i => t.getD i []

def showSims (xs : List SimClk) : String :=
  if xs.isEmpty then "-" else ";".intercalate (xs.map fun s => s!"{s.id}:{s.next}:{s.step}")

def showSt (c : Clock) : String :=
  s!"st {c.now} {c.step} {showNats c.snooze} {showSims c.sims}"

def call? (s : String) : Option ModCall :=
  if s = "_" then some {}
  else if s.startsWith "!" then
    let r := (s.drop 1).toString
    if r = "" then some { raises := true, reqFirst := false }
    else (natList r).map fun ids => { req := ids, raises := true, reqFirst := false }
  else if s.endsWith "!" then (natList (s.dropEnd 1).toString).map fun ids => { req := ids, raises := true }
  else (natList s).map fun ids => { req := ids }

def calls? (s : String) : Option (List ModCall) :=
  if s = "-" then some [] else (s.splitOn ";").mapM call?

/-- `step_forward` the way the real code completes or fails -/
def guardedStep (indiv : Bool) (c : Clock) (t : List (List (Option Nat))) (calls : List ModCall) :
    Except String (Clock × Outcome) :=
  if !indiv then .ok (stepForwardGlobal c, .done)
  else if t.length ≠ c.sims.length then .error "bad-op"
  else .ok (stepForwardRe c (modsOf t) calls)

def showErr : Outcome → String
  | .done => "ok" | .popError => "err population" | .raised => "err raised" | .keyError => "err key"

def finish (s : St) (c' : Clock) : St × String :=
  match s.saved with
  | none => ({ s with clk := some c' }, showSt c')
  | some old =>
    -- F33: with individual clocks and a non-empty population the recomputed step is kept
    let c'' := if s.indiv then (if c'.sims.isEmpty then restoreStep c' old else c')
               else refreshGlobal (restoreStep c' old)
    ({ s with clk := some c'', saved := none }, showSt c'')

def step (s : St) : List String → St × String
  | "cfg" :: a :: b :: m :: d :: rest =>
    match a.toInt?, b.toInt?, m.toInt?, d.toInt? with
    | some a, some b, some m, some d =>
      if m ≤ 0 ∨ d < 0 then (s, "bad-op") else
      match rest with
      | [] | ["indiv"] => ({ clk := some (configure a b m d) }, "ok")
      | ["global"] => ({ clk := some (configure a b m d), indiv := false }, "ok")
      | ["simple"] => ({ clk := some (configureSimple a b m d), indiv := false, simple := true }, "ok")
      | _ => (s, "bad-op")
    | _, _, _, _ => (s, "bad-op")
  | "init" :: n :: mods :: rest =>
    let cs := match rest with | [] => some ("-", "-") | [a] => some (a, "-") | [a, b] => some (a, b) | _ => none
    match s.clk, n.toNat?, modTable? mods, cs with
    | some c, some n, some t, some (a, b) =>
      match calls? a, natList b with
      | some calls, some ids =>
        let c1 := create (stepBackward c) n
        let c1 := if s.indiv then moveToEnd c1 ids else c1
        match guardedStep s.indiv c1 t calls with
        | .ok (c', .done) => ({ s with clk := some c' }, showSt c')
        | .ok (c', o) => ({ s with clk := some c' }, s!"{showErr o} {showSt c'}")
        | .error e => (s, e)
      | _, _ => (s, "bad-op")
    | _, _, _, _ => (s, "bad-op")
  | ["override", x] =>
    match s.clk, x.toInt? with
    | some c, some x =>
      if s.simple && x == 0 then (s, "err value") else
      let c' := if s.indiv then overrideStep c x else refreshGlobal (overrideStep c x)
      ({ s with clk := some c', saved := some c.step }, "ok")
    | _, _ => (s, "bad-op")
  | ["event"] =>
    match s.clk with
    | some c => (s, s!"ev {c.now} {c.step} {eventTime c} {showNats (active c)}")
    | none => (s, "bad-op")
  | ["birth", k] =>
    match s.clk, k.toNat? with
    | some c, some k =>
      let c' := create c k
      ({ s with clk := some c' }, s!"ok {showNats ((c'.sims.drop c.sims.length).map (·.id))}")
    | _, _ => (s, "bad-op")
  | ["snooze", ids] =>
    match s.clk, natList ids with
    | some c, some ids =>
      let c' := if s.indiv then moveToEnd c ids else c
      ({ s with clk := some c' }, s!"ok {showNats c'.snooze}")
    | _, _ => (s, "bad-op")
  | ["untrack", ids] | ["retrack", ids] =>
    match s.clk, natList ids with
    | some c, some ids => if ids.all (knows c) then (s, "ok") else (s, "err population")
    | _, _ => (s, "bad-op")
  | "step" :: mods :: rest =>
    let cs := match rest with | [] => some "-" | [a] => some a | _ => none
    match s.clk, modTable? mods, cs.bind calls? with
    | some c, some t, some calls =>
      match guardedStep s.indiv c t calls with
      | .ok (c', .done) => finish s c'
      | .ok (c', o) => ({ s with clk := some c', saved := none }, s!"{showErr o} {showSt c'}")   -- nothing is restored after an exception
      | .error e => (s, e)
    | _, _, _ => (s, "bad-op")
  | ["fail"] =>
    match s.clk with
    | some c => ({ s with saved := none }, showSt c)
    | none => (s, "bad-op")
  | _ => (s, "bad-op")

def main : IO Unit := Proto.run ({} : St) step
