import VivModel.Model.Proto
import VivModel.Model.Clock
/-! Line-protocol driver for the per-simulant clock model (C10).

```
cfg <start> <stop> <minStep> <std> [indiv|global|simple]
                                        DateTimeClock.setup with (indiv, default) / without (global) step-size
                                        modifiers; SimpleClock.setup without modifiers (simple); std 0 = not configured → ok
init <n> <mods>                         SimulationContext.initialize_simulants              → st …
override <s>                            InteractiveContext.step(step_size=s): before the engine step → ok
event                                   index of a main-loop event emitted now              → ev <now> <step> <time> <ids>
birth <k>                               simulant creator called by a listener               → ok <new ids>
snooze <ids>                            move_simulants_to_end(ids)                          → ok <pending ids>
untrack <ids> | retrack <ids>           a listener writes the `tracked` column (the clocks do not look at it) → ok
step <mods>                             SimulationClock.step_forward(population.index), then the restore of an
                                        overridden step (only without individual clocks / with an empty population, F33) → st <now> <step> <pending> <id:next:step;…>
```
`<mods>`: `-` or one entry per existing simulant (label order) separated by `;`, each entry the outputs
of the registered modifiers for that simulant separated by `,`, `_` = NaN / not covered (ignored without modifiers).
Errors of the real code: `err value` (SimpleClock and an explicit step size of 0: ValueError), `err population` (a pending move-to-end label is not in the state table:
KeyError in `step_forward`). A global step of zero is not an error for a DateTimeClock (`Timedelta(0) == 0`
is False, so the `step_size` property does not raise). -/
open Viv Viv.Proto Viv.Clock

structure St where
  clk   : Option Clock := none
  indiv : Bool := true          -- at least one step-size modifier is registered
  simple : Bool := false        -- SimpleClock: integer step sizes, `step_size == 0` raises ValueError
  saved : Option Int := none    -- `old_step_size` of an `InteractiveContext.step(step_size)` in progress

def optNat? (s : String) : Option (Option Nat) :=
  if s = "_" then some none else s.toNat?.map some

def modTable? (s : String) : Option (List (List (Option Nat))) :=
  if s = "-" then some [] else (s.splitOn ";").mapM fun e => (e.splitOn ",").mapM optNat?

def modsOf (t : List (List (Option Nat))) : Nat → List (Option Nat) := fun i => t.getD i []

def showSims (xs : List SimClk) : String :=
  if xs.isEmpty then "-" else ";".intercalate (xs.map fun s => s!"{s.id}:{s.next}:{s.step}")

def showSt (c : Clock) : String :=
  s!"st {c.now} {c.step} {showNats c.snooze} {showSims c.sims}"

/-- `step_forward` guarded the way the real code fails -/
def guardedStep (indiv : Bool) (c : Clock) (t : List (List (Option Nat))) : Except String Clock :=
  if !indiv then .ok (stepForwardGlobal c)
  else if t.length ≠ c.sims.length then .error "bad-op"
  else if !c.sims.isEmpty && c.snooze.any (fun i => !knows c i) then .error "err population"
  else .ok (stepForward c (modsOf t))

def finish (s : St) (c' : Clock) : St × String :=
  match s.saved with
  | none => ({ s with clk := some c' }, showSt c')
  | some old =>
    -- F33: with individual clocks and a non-empty population the recomputed step is kept
    let c'' := if s.indiv then (if c'.sims.isEmpty then restoreStep c' old else c')
               else refreshGlobal (restoreStep c' old)
    ({ s with clk := some c'', saved := none }, showSt c'')

def step (s : St) : List String → St × String
  | "cfg" :: a :: b :: m :: d :: rest =>
    match a.toInt?, b.toInt?, m.toInt?, d.toInt? with
    | some a, some b, some m, some d =>
      if m ≤ 0 ∨ d < 0 then (s, "bad-op") else
      match rest with
      | [] | ["indiv"] => ({ clk := some (configure a b m d) }, "ok")
      | ["global"] => ({ clk := some (configure a b m d), indiv := false }, "ok")
      | ["simple"] => ({ clk := some (configureSimple a b m d), indiv := false, simple := true }, "ok")
      | _ => (s, "bad-op")
    | _, _, _, _ => (s, "bad-op")
  | ["init", n, mods] =>
    match s.clk, n.toNat?, modTable? mods with
    | some c, some n, some t =>
      let c1 := create (stepBackward c) n
      match guardedStep s.indiv c1 t with
      | .ok c' => ({ s with clk := some c' }, showSt c')
      | .error e => (s, e)
    | _, _, _ => (s, "bad-op")
  | ["override", x] =>
    match s.clk, x.toInt? with
    | some c, some x =>
      if s.simple && x == 0 then (s, "err value") else
      let c' := if s.indiv then overrideStep c x else refreshGlobal (overrideStep c x)
      ({ s with clk := some c', saved := some c.step }, "ok")
    | _, _ => (s, "bad-op")
  | ["event"] =>
    match s.clk with
    | some c => (s, s!"ev {c.now} {c.step} {eventTime c} {showNats (active c)}")
    | none => (s, "bad-op")
  | ["birth", k] =>
    match s.clk, k.toNat? with
    | some c, some k =>
      let c' := create c k
      ({ s with clk := some c' }, s!"ok {showNats ((c'.sims.drop c.sims.length).map (·.id))}")
    | _, _ => (s, "bad-op")
  | ["snooze", ids] =>
    match s.clk, natList ids with
    | some c, some ids =>
      let c' := if s.indiv then moveToEnd c ids else c
      ({ s with clk := some c' }, s!"ok {showNats c'.snooze}")
    | _, _ => (s, "bad-op")
  | ["untrack", ids] | ["retrack", ids] =>
    match s.clk, natList ids with
    | some c, some ids => if ids.all (knows c) then (s, "ok") else (s, "err population")
    | _, _ => (s, "bad-op")
  | ["step", mods] =>
    match s.clk, modTable? mods with
    | some c, some t =>
      match guardedStep s.indiv c t with
      | .ok c' => finish s c'
      | .error e => (s, e)
    | _, _ => (s, "bad-op")
  | _ => (s, "bad-op")

def main : IO Unit := Proto.run ({} : St) step
