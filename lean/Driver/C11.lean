import VivModel.Model.Proto
import VivModel.Model.Table
/-! Line-protocol driver for the state-table model (C11, C12, C13).

```
new                                   fresh PopulationManager, no views
create <k>                            first half of _create_simulants      -> ok <labels>
endcreate                             flags cleared (unless an initializer raised) -> ok | aborted
view <id> <cols|-> <pred>             PopulationManager._get_view          -> ok
sub <id> <parent> <cols|->            PopulationView.subview               -> ok | err subview
get <view> <idx|-> <pred>             PopulationView.get                   -> ok <rows> <cols> | err <kind>
                                      (<idx> = labels `3,1,2`, or a range OBJECT `r<start>:<stop>:<step>`)
upd <view> S <name|~> <dtype> <rows|-> <vals|->     PopulationView.update  -> ok | err <kind>
upd <view> D <rows|-> <name:dtype:vals;...|->
upd <view> X                          (not a pandas object)
                                      (<rows> of an update: labels, or `r<start>:<stop>:<step>` - the update's index is a RangeIndex)
updx …                                the same, exception not caught by the initializer: ends the creation
dump                                  -> ok <initial><adding> <rows> <cols> | ok <flags> none
```
values: `i<int>` `f<num>/<exp>` `s<text>` `b0|b1` `t<ns>` `n`; a table is `<rows> <name:dtype:vals;...>`;
a predicate is reverse Polish, items separated by `;`: `T`, `col,op,val`, `&`, `|`. -/
open Viv Viv.Proto Viv.Table

structure St where
  m       : Mgr := {}
  views   : List (Nat × View) := []
  aborted : Bool := false        -- an initializer raised: `_create_simulants` was left before the flags were cleared

def errName : Err → String
  | .type => "type" | .unnamed => "unnamed" | .foreign => "foreign" | .nocols => "nocols"
  | .unknownRow => "unknownRow" | .missingRows => "missingRows" | .nonew => "nonew" | .conflict => "conflict"
  | .newColumn => "newColumn" | .dtype => "dtype" | .cast => "cast" | .unmodelled => "unmodelled"
  | .subview => "subview" | .noColumn => "noColumn" | .query => "query"

def dtypeName : Dtype → String
  | .int => "int" | .flt => "flt" | .str => "str" | .bool => "bool" | .time => "time" | .obj => "obj"
  | .cat => "cat" | .i32 => "i32" | .f32 => "f32"

def dtype? : String → Option Dtype
  | "int" => some .int | "flt" => some .flt | "str" => some .str | "bool" => some .bool
  | "time" => some .time | "obj" => some .obj | "cat" => some .cat | "i32" => some .i32 | "f32" => some .f32
  | _ => none

/-- `num / 2^exp` in lowest terms -/
def normFlt : Int → Nat → Val
  | n, 0 => .flt n 0
  | n, e + 1 => if n % 2 = 0 then normFlt (n / 2) e else .flt n (e + 1)

def val? (s : String) : Option Val :=
  let body := (s.drop 1).toString
  match s.front with
  | 'i' => body.toInt?.map .int
  | 'f' => match body.splitOn "/" with
    | [a, b] => match a.toInt?, b.toNat? with
      | some a, some b => some (normFlt a b)
      | _, _ => none
    | _ => none
  | 's' => some (.str body)
  | 'b' => if body = "1" then some (.bool true) else if body = "0" then some (.bool false) else none
  | 't' => body.toInt?.map .time
  | 'n' => if body = "" then some .null else none
  | _ => none

def showVal : Val → String
  | .int i => s!"i{i}" | .flt n e => s!"f{n}/{e}" | .str s => "s" ++ s
  | .bool b => if b then "b1" else "b0" | .time t => s!"t{t}" | .null => "n"

def vals? (s : String) : Option (List Val) := (strList s).mapM val?

def showCol (c : Col) : String := s!"{c.name}:{dtypeName c.dtype}:{showStrs (c.cells.map showVal)}"

def showTable (t : Table) : String :=
  s!"{showNats t.rows} {if t.cols.isEmpty then "-" else ";".intercalate (t.cols.map showCol)}"

def cmp? : String → Option Cmp
  | "eq" => some .eq | "ne" => some .ne | "lt" => some .lt | "le" => some .le | "gt" => some .gt | "ge" => some .ge
  | _ => none

/-- reverse Polish predicate -/
def pred? (s : String) : Option Pred :=
  let step (st : Option (List Pred)) (item : String) : Option (List Pred) :=
    match st with
    | none => none
    | some stack =>
      if item = "T" then some (.tt :: stack)
      else if item = "&" then match stack with | b :: a :: r => some (.and a b :: r) | _ => none
      else if item = "|" then match stack with | b :: a :: r => some (.or a b :: r) | _ => none
      else match item.splitOn "," with
        | [c, op, v] => match cmp? op, val? v with
          | some op, some v => some (.atom c op v :: stack)
          | _, _ => none
        | _ => none
  match (s.splitOn ";").foldl step (some []) with
  | some [p] => some p
  | _ => none

/-- `r<start>:<stop>:<step>`: a `pd.RangeIndex` handed over as such (`step = 0` cannot be constructed) -/
def range? (s : String) : Option Req :=
  if s.front = 'r' then
    match ((s.drop 1).toString).splitOn ":" with
    | [a, b, c] => match a.toInt?, b.toInt?, c.toInt? with
      | some a, some b, some c => if c = 0 then none else some (.range a b c)
      | _, _, _ => none
    | _ => none
  else none

/-- a request: a label list or a range object -/
def req? (s : String) : Option Req :=
  if s.front = 'r' then range? s else (natList s).map .labels

/-- the row labels of an update whose index may be a range object (labels of an update that can be written
down are never negative) -/
def rows? (s : String) : Option (List Nat) :=
  match req? s with
  | none => none
  | some r => match r.resolve with
    | .ok l => some l
    | .error _ => none

def ucol? (n : Nat) (s : String) : Option UCol :=
  match s.splitOn ":" with
  | [name, dt, vs] => match dtype? dt, vals? vs with
    | some dt, some vs => if vs.length = n && vs.all (valOk dt) && name ≠ "" then some ⟨name, dt, vs⟩ else none
    | _, _ => none
  | _ => none

def upd? : List String → Option Upd
  | ["X"] => some .other
  | ["S", name, dt, rows, vs] =>
    match dtype? dt, rows? rows, vals? vs with
    | some dt, some rows, some vs =>
      if vs.length = rows.length && vs.all (valOk dt) then
        some (.series (if name = "~" then none else some name) dt rows vs)
      else none
    | _, _, _ => none
  | ["D", rows, cols] =>
    match rows? rows with
    | none => none
    | some rows =>
      if cols = "-" then some (.frame rows [])
      else match (cols.splitOn ";").mapM (ucol? rows.length) with
        | some cs => if (cs.map (·.name)).eraseDups.length = cs.length then some (.frame rows cs) else none
        | none => none
  | _ => none

def findView (s : St) (id : String) : Option View :=
  match id.toNat? with
  | none => none
  | some i => (s.views.find? (·.1 == i)).map (·.2)

def step (s : St) : List String → St × String
  | ["new"] => ({}, "ok")
  | ["create", k] =>
    match k.toNat? with
    | none => (s, "bad-op")
    | some k =>
      let (m', ls) := createBegin s.m k
      ({ s with m := m' }, s!"ok {showNats ls}")
  | ["endcreate"] =>
    if s.aborted then ({ s with aborted := false }, "aborted")
    else ({ s with m := createEnd s.m }, "ok")
  | ["view", id, cols, q] =>
    match id.toNat?, pred? q with
    | some i, some q => ({ s with views := (i, mkView (strList cols) q) :: s.views }, "ok")
    | _, _ => (s, "bad-op")
  | ["sub", id, parent, cols] =>
    match id.toNat?, findView s parent with
    | some i, some pv =>
      match subview s.m.table pv (strList cols) with
      | .ok v => ({ s with views := (i, v) :: s.views }, "ok")
      | .error e => (s, "err " ++ errName e)
    | _, _ => (s, "bad-op")
  | ["get", v, idx, q] =>
    match findView s v, req? idx, pred? q with
    | some v, some idx, some q =>
      match getReq s.m v idx q with
      | .ok t => (s, "ok " ++ showTable t)
      | .error e => (s, "err " ++ errName e)
    | _, _, _ => (s, "bad-op")
  | "upd" :: v :: rest =>
    match findView s v, upd? rest with
    | some v, some u =>
      match applyUpdate s.m v u with
      | (m', none) => ({ s with m := m' }, "ok")
      | (m', some e) => ({ s with m := m' }, "err " ++ errName e)
    | _, _ => (s, "bad-op")
  | "updx" :: v :: rest =>          -- an update whose exception is not caught by the initializer
    match findView s v, upd? rest with
    | some v, some u =>
      match applyUpdate s.m v u with
      | (m', none) => ({ s with m := m' }, "ok")
      | (m', some e) => ({ s with m := m', aborted := true }, "err " ++ errName e)
    | _, _ => (s, "bad-op")
  | ["dump"] =>
    let flags := showBool s.m.initial ++ showBool s.m.adding
    match s.m.pop with
    | none => (s, s!"ok {flags} none")
    | some t => (s, s!"ok {flags} {showTable t}")
  | _ => (s, "bad-op")

def main : IO Unit := Proto.run ({} : St) step
