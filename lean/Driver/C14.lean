import VivModel.Model.Proto
import VivModel.Model.Pipeline
/-! Line-protocol driver for value pipelines (C14).

Probe callables are the harness's probes: each appends its tag to a log when invoked and computes an
exact rational effect. The framework side (manager, `Pipeline.call`, combiners, `rescale`, `union`)
is `Model/Pipeline.lean`, instantiated with a state monad carrying the log and the clock's step sizes.

  mod <pipe> <component> <tag> <effect>
  src <pipe> <component> <replace|list> <none|rescale|union|c:<effect>> <effect>
  clock <global step, ns> <simulant=ns,…|->
  call <pipe> <none|-|i,j,…> <a> <skip 0/1>          → ok <value> <trace> | err nosource
-/
open Viv Viv.Proto Viv.Pipeline

inductive Val
  | item (i : Item)
  | list (xs : List Val)
  | raised (cls : String)   -- the framework code raised (post-processing a value it cannot handle)
  | bad

/-- what a call can see besides its arguments: the probe log, the clock, and the Python list objects
that "shared-list" sources hand out again and again (`list_combiner` appends to them IN PLACE) -/
structure Env where
  log : List String := []
  steps : Steps := ⟨0, fun _ => 0⟩
  /-- current content of the list object owned by the source of a pipeline -/
  shared : List (String × List Val) := []
  /-- the pipeline whose shared list was handed out in this call -/
  touched : Option String := none
  /-- the list as the last `list_combiner` step left it -/
  lastList : Option (List Val) := none

abbrev Logged := StateM Env

def tell (tag : String) : Logged Unit := modify fun e => { e with log := e.log ++ [tag] }

/-- the caller's arguments: an optional index and a number -/
structure Args where
  idx : Option (List Nat)
  a : Rat

/-- exact effects of the probes -/
inductive Eff
  | gen (b c d : Rat)      -- args ↦ b + c·i + d·a (a Series over the index, or a number without index)
  | lgen (b c d : Rat)     -- args ↦ [that]
  | mark (t : Rat)         -- args ↦ [t]
  | fgen (b c d : Rat) (k : Nat)   -- args ↦ DataFrame over the index, column j: (b + j/4) + c·i + d·a
  | lfgen (b c d : Rat) (k : Nat)  -- args ↦ [that]
  | agen (b c d : Rat)     -- args ↦ numpy array over the index (no labels): b + c·i + d·a
  | cmark (t : Rat)        -- args ↦ the number t (a list modifier that ignores the index)
  | aff (p q r s : Rat)    -- (args, v) ↦ p·v + q + r·i + s·a
  | sq                     -- (args, v) ↦ v·v
  | app (t : Rat)          -- (args, v) ↦ v ++ [t]

def genItem (b c d : Rat) (args : Args) : Item :=
  match args.idx with
  | some idx => .se (idx.map fun i => (i, b + c * (i : Rat) + d * args.a))
  | none => .sc (b + d * args.a)

def genFrame (b c d : Rat) (k : Nat) (args : Args) : Option Item :=
  args.idx.map fun idx => .fr ((List.range k).map fun j =>
    (s!"c{j}", idx.map fun i => (i, (b + (j : Rat) / 4) + c * (i : Rat) + d * args.a)))

def Eff.run (e : Eff) (args : Args) (prev : Option Val) : Val :=
  match e, prev with
  | .fgen b c d k, none => match genFrame b c d k args with | some f => .item f | none => .bad
  | .lfgen b c d k, none => match genFrame b c d k args with | some f => .list [.item f] | none => .bad
  | .agen b c d, none => match args.idx with
    | some idx => .item (.arr (idx.map fun (i : Nat) => b + c * (i : Rat) + d * args.a))
    | none => .bad
  | .aff p q r s, some (.item (.fr cols)) =>
    .item (.fr (cols.map fun (c : String × Series) => (c.1, c.2.map fun (i, x) => (i, p * x + q + r * (i : Rat) + s * args.a))))
  | .aff p q _ s, some (.item (.arr xs)) => .item (.arr (xs.map fun x => p * x + q + s * args.a))
  | .sq, some (.item (.fr cols)) => .item (.fr (cols.map fun (c : String × Series) => (c.1, c.2.map fun (i, x) => (i, x * x))))
  | .sq, some (.item (.arr xs)) => .item (.arr (xs.map fun x => x * x))
  | .gen b c d, none => .item (genItem b c d args)
  | .lgen b c d, none => .list [.item (genItem b c d args)]
  | .mark t, none => .list [.item (.sc t)]
  | .cmark t, none => .item (.sc t)
  | .aff p q _ s, some (.item (.sc x)) => .item (.sc (p * x + q + s * args.a))
  | .aff p q r s, some (.item (.se v)) => .item (.se (v.map fun (i, x) => (i, p * x + q + r * (i : Rat) + s * args.a)))
  | .sq, some (.item (.sc x)) => .item (.sc (x * x))
  | .sq, some (.item (.se v)) => .item (.se (v.map fun (i, x) => (i, x * x)))
  | .app t, some (.list xs) => .list (xs ++ [.item (.sc t)])
  | _, _ => .bad

/-- a registered callable: logs its tag, then computes its effect -/
abbrev Mut := Args → Option Val → Logged Val

def probe (tag : String) (e : Eff) : Mut := fun args prev => do
  tell tag
  pure (e.run args prev)

/-- `replace_combiner` on probes: the previous value is the last positional argument -/
def replaceD : Val → Mut → Args → Logged Val :=
  fun v mu a => replaceCombiner v (fun a v => mu a (some v)) a

/-- `list_combiner` on probes: `value.append(mutator(*args))` (a non-list value has no `append`) -/
def listD : Val → Mut → Args → Logged Val := fun v mu a =>
  match v with
  | .list xs => do
    let ys ← listCombiner xs (fun a => mu a none) a
    modify fun e => { e with lastList := some ys }      -- `value.append(…)`: the list object itself has grown
    pure (.list ys)
  | _ => pure .bad

/-- a source that owns ONE Python list and returns that same object on every call (`smark:t`: initially
`[t]`). Whatever `list_combiner` appended in earlier calls is still in it. -/
def sharedSource (pipe : String) (t : Rat) : Args → Logged Val := fun _ => do
  tell "src"
  let e ← get
  let cur := (e.shared.lookup pipe).getD [.item (.sc t)]
  set { e with touched := some pipe, lastList := some cur }
  pure (.list cur)

def items? : List Val → Option (List Item)
  | [] => some []
  | .item i :: rest => (items? rest).map (i :: ·)
  | _ :: _ => none

def rescaleD : Val → Logged Val := fun v => do
  let env ← get
  match v with
  | .item i => pure (match rescale env.steps i with | some r => .item r | none => .bad)
  -- a Python list / tuple: `hasattr(value, "index")` holds (the method), `value.mul` does not exist
  | .list _ => pure (.raised "AttributeError")
  | _ => pure .bad

def unionD : Val → Logged Val := fun v =>
  match v with
  | .list xs => pure (match (items? xs).bind unionItems with | some r => .item r | none => .bad)
  | _ => pure .bad

/-! parsing / printing -/

def rat? (s : String) : Option Rat :=
  match s.splitOn "/" with
  | [n] => n.toInt?.map fun n => (n : Rat)
  | [n, d] => match n.toInt?, d.toNat? with
    | some n, some d => if d = 0 then none else some ((n : Rat) / (d : Rat))
    | _, _ => none
  | _ => none

def eff? (s : String) : Option Eff :=
  match s.splitOn ":" with
  | ["gen", b, c, d] => do pure (.gen (← rat? b) (← rat? c) (← rat? d))
  | ["lgen", b, c, d] => do pure (.lgen (← rat? b) (← rat? c) (← rat? d))
  | ["mark", t] => do pure (.mark (← rat? t))
  | ["cmark", t] => do pure (.cmark (← rat? t))
  | ["fgen", b, c, d, k] => do pure (.fgen (← rat? b) (← rat? c) (← rat? d) (← k.toNat?))
  | ["lfgen", b, c, d, k] => do pure (.lfgen (← rat? b) (← rat? c) (← rat? d) (← k.toNat?))
  | ["agen", b, c, d] => do pure (.agen (← rat? b) (← rat? c) (← rat? d))
  | ["aff", p, q, r, s] => do pure (.aff (← rat? p) (← rat? q) (← rat? r) (← rat? s))
  | ["sq"] => some .sq
  | ["app", t] => do pure (.app (← rat? t))
  | _ => none

def showRat (q : Rat) : String := s!"{q.num}/{q.den}"

def showSeries (v : Series) : String := ",".intercalate (v.map fun (i, x) => s!"{i}={showRat x}")

def showItem : Item → String
  | .sc x => "s:" ++ showRat x
  | .se v => "v:" ++ showSeries v
  | .fr cols => "f:" ++ "|".intercalate (cols.map fun (c : String × Series) => s!"{c.1}[{showSeries c.2}]")
  | .arr xs => "a:" ++ ",".intercalate (xs.map showRat)

def showVal : Val → String
  | .item i => showItem i
  | .list xs => "l:" ++ ";".intercalate (xs.map fun x => match x with | .item i => showItem i | _ => "?")
  | .raised c => "raised:" ++ c
  | .bad => "bad"

def isBad : Val → Bool
  | .bad => true
  | .list xs => xs.any fun x => match x with | .item _ => false | _ => true
  | _ => false

structure St where
  mgr : Manager Logged Args Val Mut := {}
  steps : Steps := ⟨0, fun _ => 0⟩
  /-- pipelines whose source is another pipeline (`source = builder.value.get_value(other)`) -/
  refs : List (String × String) := []
  /-- content of the list objects owned by shared-list sources, carried from call to call -/
  shared : List (String × List Val) := []

/-- `Pipeline.__call__` where the source may be another `Pipeline` object: Python evaluates the inner
pipeline (same arguments, post-processor NOT skipped) when the source is invoked; an inner pipeline
without a source raises there, before any modifier of the outer one has run. `fuel` bounds the depth. -/
def callPipe (s : St) : Nat → String → Args → Bool → Except Err (Logged Val)
  | 0, _, _, _ => .error .noSource
  | fuel + 1, name, args, skip =>
    let p := s.mgr.getValue name
    match s.refs.lookup name, p.cfg with
    | some inner, some c =>
      match callPipe s fuel inner args false with
      | .error e => .error e
      | .ok run => ({ p with cfg := some { c with source := fun _ => run } }).call args skip
    | _, _ => p.call args skip

def nsToSec (ns : Int) : Rat := (ns : Rat) / 1000000000

def simSteps? (s : String) : Option (List (Nat × Rat)) :=
  (strList s).mapM fun e =>
    match e.splitOn "=" with
    | [i, ns] => match i.toNat?, ns.toInt? with
      | some i, some ns => some (i, nsToSec ns)
      | _, _ => none
    | _ => none

def step (s : St) : List String → St × String
  | ["mod", pipe, _comp, tag, eff] =>
    match eff? eff with
    | some e => ({ s with mgr := s.mgr.registerModifier pipe (probe tag e) }, "ok")
    | none => (s, "bad-op")
  | ["src", pipe, _comp, comb, post, eff] =>
    let combiner? : Option (Val → Mut → Args → Logged Val) :=
      if comb = "replace" then some replaceD else if comb = "list" then some listD else none
    let post? : Option (Option (Val → Logged Val)) :=
      if post = "none" then some none
      else if post = "rescale" then some (some rescaleD)
      else if post = "union" then some (some unionD)
      else if post.startsWith "c:" then (eff? (post.drop 2).toString).map fun e => some fun v => probe "post" e ⟨none, 0⟩ (some v)
      else none
    if eff.startsWith "pipe:" then
      match combiner?, post? with
      | some c, some p =>
        match s.mgr.registerProducer pipe { source := fun _ => pure .bad, combiner := c, post := p } with
        | .ok g => ({ s with mgr := g, refs := s.refs ++ [(pipe, (eff.drop 5).toString)] }, "ok")
        | .error .dupSource => (s, "err dup")
        | .error .noSource => (s, "err other")
      | _, _ => (s, "bad-op")
    else if eff.startsWith "smark:" then
      match rat? (eff.drop 6).toString, combiner?, post? with
      | some t, some c, some p =>
        match s.mgr.registerProducer pipe { source := sharedSource pipe t, combiner := c, post := p } with
        | .ok g => ({ s with mgr := g }, "ok")
        | .error .dupSource => (s, "err dup")
        | .error .noSource => (s, "err other")
      | _, _, _ => (s, "bad-op")
    else
    match eff? eff, combiner?, post? with
    | some e, some c, some p =>
      match s.mgr.registerProducer pipe { source := fun a => probe "src" e a none, combiner := c, post := p } with
      | .ok g => ({ s with mgr := g }, "ok")
      | .error .dupSource => (s, "err dup")
      | .error .noSource => (s, "err other")
    | _, _, _ => (s, "bad-op")
  | ["clock", g, sims] =>
    match g.toInt?, simSteps? sims with
    | some g, some sims =>
      -- a simulant the harness did not list has no step of its own in this call: poison (never read)
      ({ s with steps := ⟨nsToSec g, fun i => (sims.lookup i).getD 0⟩ }, "ok")
    | _, _ => (s, "bad-op")
  | ["call", pipe, idx, a, skip] =>
    let idx? : Option (Option (List Nat)) := if idx = "none" then some none else (natList idx).map some
    match idx?, rat? a, bool? skip with
    | some idx, some a, some skip =>
      match callPipe s 8 pipe ⟨idx, a⟩ skip with
      | .error .noSource => (s, "err nosource")
      | .error .dupSource => (s, "err other")
      | .ok run =>
        let (v, env) := (run.run { steps := s.steps, shared := s.shared }).run
        -- the shared list object keeps what this call appended to it
        let s' := match env.touched, env.lastList with
          | some k, some l => { s with shared := (k, l) :: s.shared.filter (·.1 != k) }
          | _, _ => s
        if isBad v then (s', "bad-op")
        else match v with
          | .raised c => (s', s!"err raised:{c} {showStrs env.log}")
          | _ => (s', s!"ok {showVal v} {showStrs env.log}")
    | _, _, _ => (s, "bad-op")
  | _ => (s, "bad-op")

def main : IO Unit := Proto.run ({} : St) step
