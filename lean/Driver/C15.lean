import VivModel.Model.Proto
import VivModel.Model.Lookup
/-! Line-protocol driver for lookup tables (C15).

  table <nk> <np> <extrapolate 0/1> <position of the year parameter | ->
  row <k1,k2|-> <start,…|-> <end,…|-> <v1,v2,…>
  build                                         → ok <wellFormed 0/1> | err <class>
  call <year> <tm_yday> <label|k1,k2|x1,x2> …   → ok <label=v1,v2|label=nan> … | err <class>
  scalar <v1,v2,…> <i,j,…|->                    → ok <label=v1,v2> …
  digitize <b1,b2,…> <x>                        → <np.digitize> <bin index after the clamp>

All numbers are integers (edges / parameter values over the case's common denominator, cell ids). -/
open Viv Viv.Proto Viv.Lookup

structure St where
  nk : Nat := 0
  np : Nat := 0
  extrapolate : Bool := true
  yearAt : Option Nat := none
  rows : List Row := []
  table : Option Table := none

def errName : Err → String
  | .noData => "nodata" | .noColumns => "nocolumns" | .incomplete => "incomplete" | .overlap => "overlap"
  | .gap => "gap" | .key => "key" | .extrapolation => "extrapolation" | .shape => "shape"

def showCells : Nat × Cells → String
  | (l, some vs) => s!"{l}={showInts vs}"
  | (l, none) => s!"{l}=nan"

def showRes (res : List (Nat × Cells)) : String :=
  if res.isEmpty then "ok" else "ok " ++ " ".intercalate (res.map showCells)

def req? (np nk : Nat) (tok : String) : Option Req :=
  match tok.splitOn "|" with
  | [l, ks, xs] =>
    match l.toNat?, intList xs with
    | some l, some xs => if xs.length = np ∧ (strList ks).length = nk then some ⟨l, strList ks, xs⟩ else none
    | _, _ => none
  | _ => none

def step (s : St) : List String → St × String
  | ["table", nk, np, ex, ya] =>
    match nk.toNat?, np.toNat?, bool? ex with
    | some nk, some np, some ex =>
      if ya = "-" then ({ nk, np, extrapolate := ex, yearAt := none }, "ok")
      else match ya.toNat? with
        | some p => if p < np then ({ nk, np, extrapolate := ex, yearAt := some p }, "ok") else (s, "bad-op")
        | none => (s, "bad-op")
    | _, _, _ => (s, "bad-op")
  | ["row", ks, ss, es, vs] =>
    match intList ss, intList es, intList vs with
    | some ss, some es, some vs =>
      if (strList ks).length = s.nk ∧ ss.length = s.np ∧ es.length = s.np ∧ vs ≠ [] then
        ({ s with rows := s.rows ++ [⟨strList ks, ss, es, vs⟩] }, "ok")
      else (s, "bad-op")
    | _, _, _ => (s, "bad-op")
  | ["build"] =>
    match build s.nk s.np s.rows s.extrapolate s.yearAt with
    | .ok t => ({ s with table := some t }, s!"ok {showBool t.wellFormed}")
    | .error e => ({ s with table := none }, s!"err {errName e}")
  | "call" :: y :: d :: reqs =>
    match s.table, y.toNat?, d.toNat?, reqs.mapM (req? s.np s.nk) with
    | some t, some y, some d, some reqs =>
      match t.call y d reqs with
      | .ok res => (s, showRes res)
      | .error e => (s, s!"err {errName e}")
    | _, _, _, _ => (s, "bad-op")
  | ["scalar", vs, idx] =>
    match intList vs, natList idx with
    | some vs, some idx =>
      if vs = [] then (s, "bad-op")
      else (s, showRes ((scalarCall vs idx).map fun (l, v) => (l, some v)))
    | _, _ => (s, "bad-op")
  | ["digitize", bins, x] =>
    match intList bins, x.toInt? with
    | some bins, some x => (s, s!"{digitize bins x} {binIndex bins x}")
    | _, _ => (s, "bad-op")
  | _ => (s, "bad-op")

def main : IO Unit := Proto.run ({} : St) step
