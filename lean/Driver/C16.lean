import VivModel.Model.Proto
import VivModel.Model.Results
/-! Line-protocol driver for the stratified-results model (C16).

  cfgexcl <name> <cats>                       configuration stratification.excluded_categories
  default <names>                             configuration stratification.default
  strat <name> <cats> <codeExcl|none> <edges|none>
  obs add <name> <phase> <additional> <excluded> <filter> [nocb]  |  obs cat <name> <phase> <filter> [nocb]
                                              (filter: a token standing for the bytes of pop_filter; nocb: required callable missing)
  setup                                       on_post_setup
  ev <phase> <time> <inEvent bits> <raw rows> <name:toObserve:pass bits:vals|payloads>*
                                              an exception ends the run (`stopped` afterwards)
  evc <phase> <time> <inEvent bits> <raw rows> <-|prepare|mapper> <name:toObserve:pass bits:vals|payloads:fault>*
                                              the caller catches the exception and carries on; fault: - f(ilter) t(o_observe) g(ather)
  get <name>   |   names <name>
-/
open Viv Viv.Proto Viv.Results

structure St where
  ctx : Ctx := {}
  ready : Bool := false      -- post_setup succeeded
  stopped : Bool := false    -- an event raised

def showKey (k : Key) : String := if k.isEmpty then "all" else "|".intercalate k

def showTable (t : Table) : String :=
  if t.isEmpty then "-" else ";".intercalate (t.map fun e => s!"{showKey e.1}={e.2}")

def showRows (rs : List (List Int)) : String :=
  if rs.isEmpty then "-" else ";".intercalate (rs.map showInts)

def bits (s : String) : Option (List Bool) := (strList s).mapM bool?

/-- mapper output of one simulant: binned stratifications receive the number and bin it here -/
def rawFor (ss : List Strat) (toks : List String) : Option (List String) :=
  if ss.length != toks.length then none else
  (ss.zip toks).mapM fun (s, t) =>
    match s.bins with
    | none => some t
    | some es => if t = nanTok then some nanTok else (t.toInt?).map (binLabel es s.labels)

def fault? : String → Option Fault
  | "-" => some .none | "f" => some .filter | "t" => some .toObserve | "g" => some .gather | _ => none

def parseObsF (c : Ctx) (n : Nat) (name t p v : String) (f : Fault) : Option ObsInput :=
  match c.obs.find? (fun o => o.name = name), bool? t, bits p with
  | some o, some t, some p =>
    if p.length != n then none else
    match o.kind with
    | .adding =>
      match intList v with
      | some vs => if vs.length = n then some ⟨name, t, p, vs, [], f⟩ else none
      | none => none
    | .concat =>
      match (if n = 0 then some [] else intLists v) with
      | some pls => if pls.length = n then some ⟨name, t, p, [], pls, f⟩ else none
      | none => none
  | _, _, _ => none

def parseObs (c : Ctx) (n : Nat) (tok : String) : Option ObsInput :=
  match tok.splitOn ":" with
  | [name, t, p, v] => parseObsF c n name t p v .none
  | _ => none

def parseObsC (c : Ctx) (n : Nat) (tok : String) : Option ObsInput :=
  match tok.splitOn ":" with
  | [name, t, p, v, f] => (fault? f).bind (parseObsF c n name t p v)
  | _ => none

def eventFault? : String → Option EventFault
  | "-" => some {} | "prepare" => some { prepare := true } | "mapper" => some { mapper := true }
  | "prepare,mapper" => some { prepare := true, mapper := true } | _ => none

def step (s : St) : List String → St × String
  | ["cfgexcl", name, cats] =>
    ({ s with ctx := { s.ctx with cfgExcl := s.ctx.cfgExcl ++ [(name, strList cats)] } }, "ok")
  | ["default", names] => ({ s with ctx := { s.ctx with defaults := strList names } }, "ok")
  | ["strat", name, cats, ex, edges] =>
    let codeExcl := if ex = "none" then none else some (strList ex)
    let bins? : Option (Option (List Int)) := if edges = "none" then some none else (intList edges).map some
    match bins? with
    | none => (s, "bad-op")
    | some bins =>
      match addStratification s.ctx.cfgExcl s.ctx.strats name (strList cats) codeExcl bins with
      | .ok ss => ({ s with ctx := { s.ctx with strats := ss } }, "ok")
      | .error e => (s, "err " ++ e.name)
  | ["obs", "add", name, phase, add, exc, flt] =>
    match registerObservation s.ctx name phase .adding (strList add) (strList exc) true flt with
    | .ok c => ({ s with ctx := c }, "ok")
    | .error e => (s, "err " ++ e.name)
  | ["obs", "add", name, phase, add, exc, flt, "nocb"] =>
    match registerObservation s.ctx name phase .adding (strList add) (strList exc) false flt with
    | .ok c => ({ s with ctx := c }, "ok")
    | .error e => (s, "err " ++ e.name)
  | ["obs", "cat", name, phase, flt, "nocb"] =>
    match registerObservation s.ctx name phase .concat [] [] false flt with
    | .ok c => ({ s with ctx := c }, "ok")
    | .error e => (s, "err " ++ e.name)
  | ["obs", "cat", name, phase, flt] =>
    match registerObservation s.ctx name phase .concat [] [] true flt with
    | .ok c => ({ s with ctx := c }, "ok")
    | .error e => (s, "err " ++ e.name)
  | ["setup"] =>
    match postSetup s.ctx with
    | .ok c => ({ s with ctx := c, ready := true }, "ok")
    | .error e => (s, "err " ++ e.name)
  | "ev" :: phase :: time :: inev :: raws :: obsToks =>
    if !s.ready then (s, "bad-op") else
    if s.stopped then (s, "stopped") else
    match time.toInt?, bits inev with
    | some time, some inev =>
      let n := inev.length
      let rawToks : List (List String) := if s.ctx.strats.isEmpty then List.replicate n [] else strLists raws
      if rawToks.length != n then (s, "bad-op") else
      match rawToks.mapM (rawFor s.ctx.strats), obsToks.mapM (parseObs s.ctx n) with
      | some raws, some inputs =>
        let wanted := (s.ctx.obs.filter (fun o => o.phase = phase)).map (·.name)
        if wanted.any (fun w => !(inputs.any (fun i => i.name = w))) then (s, "bad-op") else
        let rows := (inev.zip raws).map fun (b, r) => (⟨b, r⟩ : RawRow)
        match gatherEvent s.ctx phase time rows inputs with
        | .ok c => ({ s with ctx := c }, "ok")
        | .error e => ({ s with stopped := true }, "err " ++ e.name)
      | _, _ => (s, "bad-op")
    | _, _ => (s, "bad-op")
  | "evc" :: phase :: time :: inev :: raws :: ef :: obsToks =>
    if !s.ready then (s, "bad-op") else
    match time.toInt?, bits inev, eventFault? ef with
    | some time, some inev, some ef =>
      let n := inev.length
      let rawToks : List (List String) := if s.ctx.strats.isEmpty then List.replicate n [] else strLists raws
      if rawToks.length != n then (s, "bad-op") else
      match rawToks.mapM (rawFor s.ctx.strats), obsToks.mapM (parseObsC s.ctx n) with
      | some raws, some inputs =>
        let wanted := (s.ctx.obs.filter (fun o => o.phase = phase)).map (·.name)
        if wanted.any (fun w => !(inputs.any (fun i => i.name = w))) then (s, "bad-op") else
        let rows := (inev.zip raws).map fun (b, r) => (⟨b, r⟩ : RawRow)
        match gatherCaught s.ctx phase time rows inputs ef with
        | (c, none) => ({ s with ctx := c }, "ok")
        | (c, some e) => ({ s with ctx := c }, "err " ++ e.name)
      | _, _ => (s, "bad-op")
    | _, _, _ => (s, "bad-op")
  | ["get", name] =>
    match getAssoc name s.ctx.adding, getAssoc name s.ctx.concat with
    | some t, _ => (s, "ok " ++ showTable t)
    | none, some rs => (s, "ok " ++ showRows rs)
    | none, none => (s, "bad-op")
  | ["names", name] =>
    match s.ctx.obs.find? (fun o => o.name = name) with
    | some o => (s, "ok " ++ showStrs o.strats)
    | none => (s, "bad-op")
  | _ => (s, "bad-op")

def main : IO Unit := Proto.run ({} : St) step
