import VivModel.Model.Proto
import VivModel.Model.Machine
/-! Line-protocol driver for the state-machine model (C17).

  sm new <wd> <dd> <n>                      table of n simulants (state 0, other = 7*i+3)
  sm state <self 0/1> <transient 0/1>       append a state                       → ok <position>
  sm trans <from> <to> <trig 0/1> <w,…>     append a transition to state <from>   → ok <position in its set>
  sm active <from> <pos> on|off <sims>      set_active / set_inactive             → ok | err value notTriggered
  sm draws <state> <d,…>                    draws of that transition set's stream (per simulant label)
  sm tab <st,…>                             overwrite the state column
  sm tracked <0/1,…>                        overwrite the tracked column
  sm cleanup <idx,…>                        Machine.cleanup: the cleanup_effect calls  → ok <state>:<i,…>;… | err …
  sm transition <idx,…>                     Machine.transition
        → ok <st,…> <other,…> <path;path;…> <near,…> <tracked,…>  |  err <class> <detail>
     (paths: per element of idx the states entered, pointwise model; near: labels whose decision is within
      2^-40 of a bin edge)
  sm choose <self> <wd> <dd> <row;row;…> <d,…>   normalizeAll + choiceIdx per row   → ok <k,…> | err value <detail> -/
open Viv Viv.Proto Viv.Machine

structure St where
  m : Mach := {}
  tab : Table := []

def errStr : Err → String
  | .multipleDefaults => "value multipleDefaults"
  | .unnormalised => "value unnormalised"
  | .noValidTransition => "value noValidTransition"
  | .loop => "recursion loop"
  | .unknownSimulant => "key unknownSimulant"
  | .notTriggered => "value notTriggered"

/-- is some decision on the pointwise path of simulant `i` (processed as an `s`) near a bin edge? -/
def nearOne (m : Mach) : Nat → Nat → Nat → Bool
  | 0, _, _ => false
  | fuel + 1, s, i =>
    let sd := m.state s
    if sd.trans.isEmpty then false else
    match normalize m.wd sd.selfOk (rowOf sd.trans i) with
    | .error _ => false
    | .ok r =>
      let d := sd.draws.getD i 0
      nearEdge r d m.dd ||
        (match sd.trans[choiceIdx r d m.dd]? with
         | none => false
         | some t => (m.state t.out).transient && nearOne m fuel t.out i)

def modState (m : Mach) (s : Nat) (f : StateDef → StateDef) : Mach :=
  { m with states := m.states.mapIdx (fun k sd => if k == s then f sd else sd) }

def step (s : St) : List String → St × String
  | ["sm", "new", wd, dd, n] =>
    match wd.toNat?, dd.toNat?, n.toNat? with
    | some wd, some dd, some n =>
      if wd == 0 || dd == 0 then (s, "bad-op") else
      ({ m := { wd := wd, dd := dd, states := [] },
         tab := (List.range n).map (fun (i : Nat) => ({ st := 0, other := 7 * (Int.ofNat i) + 3 } : Row)) }, "ok")
    | _, _, _ => (s, "bad-op")
  | ["sm", "state", so, tr] =>
    match bool? so, bool? tr with
    | some so, some tr =>
      ({ s with m := { s.m with states := s.m.states ++ [{ selfOk := so, transient := tr }] } },
       s!"ok {s.m.states.length}")
    | _, _ => (s, "bad-op")
  | ["sm", "trans", a, b, trig, ws] =>
    match a.toNat?, b.toNat?, bool? trig, natList ws with
    | some a, some b, some trig, some ws =>
      if s.m.states.length ≤ a || s.m.states.length ≤ b || ws.length != s.tab.length then (s, "bad-op") else
      let t : Trans := { out := b, w := ws, active := if trig then some [] else none }
      ({ s with m := modState s.m a (fun sd => { sd with trans := sd.trans ++ [t] }) },
       s!"ok {(s.m.state a).trans.length}")
    | _, _, _, _ => (s, "bad-op")
  | ["sm", "active", a, k, onoff, sims] =>
    match a.toNat?, k.toNat?, natList sims with
    | some a, some k, some sims =>
      match (s.m.state a).trans[k]? with
      | none => (s, "bad-op")
      | some t =>
        if onoff != "on" && onoff != "off" then (s, "bad-op") else
        match (if onoff == "on" then t.setActive sims else t.setInactive sims) with
        | .error e => (s, "err " ++ errStr e)
        | .ok t' =>
          ({ s with m := modState s.m a (fun sd =>
              { sd with trans := sd.trans.mapIdx (fun j x => if j == k then t' else x) }) }, "ok")
    | _, _, _ => (s, "bad-op")
  | ["sm", "draws", a, ds] =>
    match a.toNat?, natList ds with
    | some a, some ds =>
      if s.m.states.length ≤ a || ds.length != s.tab.length || ds.any (fun d => s.m.dd ≤ d) then (s, "bad-op") else
      ({ s with m := modState s.m a (fun sd => { sd with draws := ds }) }, "ok")
    | _, _ => (s, "bad-op")
  | ["sm", "tab", sts] =>
    match natList sts with
    | some sts =>
      if sts.length != s.tab.length then (s, "bad-op") else
      ({ s with tab := List.zipWith (fun r st => { r with st := st }) s.tab sts }, "ok")
    | none => (s, "bad-op")
  | ["sm", "tracked", bs] =>
    match natList bs with
    | some bs =>
      if bs.length != s.tab.length then (s, "bad-op") else
      ({ s with tab := List.zipWith (fun r b => { r with tracked := b != 0 }) s.tab bs }, "ok")
    | none => (s, "bad-op")
  | ["sm", "cleanup", idx] =>
    match natList idx with
    | none => (s, "bad-op")
    | some idx =>
      match cleanupCalls s.m s.tab idx with
      | .error e => (s, "err " ++ errStr e)
      | .ok calls =>
        (s, "ok " ++ (if calls.isEmpty then "-" else ";".intercalate (calls.map (fun c => s!"{c.1}:{showNats c.2}"))))
  | ["sm", "transition", idx] =>
    match natList idx with
    | none => (s, "bad-op")
    | some idx =>
      let fuel := s.m.states.length + 1
      match transition s.m fuel s.tab idx with
      | .error e => (s, "err " ++ errStr e)
      | .ok tab' =>
        let seen := fun (i : Nat) => s.tab[i]?.bind Row.seen
        let paths := idx.map (fun i =>
          match seen i with
          | none => "-"                       -- untracked: not shown to the machine, not processed
          | some st =>
            match moveOne s.m fuel st i with
            | .ok p => showNats p
            | .error _ => "!")
        let near := idx.filter (fun i => match seen i with | none => false | some st => nearOne s.m fuel st i)
        ({ s with tab := tab' },
         s!"ok {showNats (tab'.map (·.st))} {showInts (tab'.map (·.other))} {if paths.isEmpty then "-" else ";".intercalate paths} {showNats near} {showNats (tab'.map (fun r => if r.tracked then 1 else 0))}")
  | ["sm", "choose", so, wd, dd, rows, draws] =>
    -- `_normalize_probabilities` on a whole matrix, then `_choice` with the given draws (exact stream: the
    -- harness calls the two functions directly with dyadic draws that hit the bin edges)
    match bool? so, wd.toNat?, dd.toNat?, natLists rows, natList draws with
    | some so, some wd, some dd, some rows, some draws =>
      if wd == 0 || dd == 0 || rows.length != draws.length then (s, "bad-op") else
      match normalizeAll wd so rows with
      | .error e => (s, "err " ++ errStr e)
      | .ok rs => (s, "ok " ++ showNats (List.zipWith (fun r d => choiceIdx r d dd) rs draws))
    | _, _, _, _, _ => (s, "bad-op")
  | _ => (s, "bad-op")

def main : IO Unit := Proto.run ({} : St) step
