import VivModel.Model.Proto
import VivModel.Model.Artifact
/-! Line-protocol driver for the artifact model (C19).

```
data <id> json|table|unser|zerorow|badframe [<qcols> <rows> <cols> <isEmpty> <isSeries>]   -- declare a value (table: what filters see)
op write k=<key> <id|none> | op load k=<key> | op remove k=<key> | op replace k=<key> <id|none> | op clear
op mutate k=<key> <id> -- the caller mutates the object `load` handed out, in place, into the declared value <id>
op reopen <terms>      -- the acting artifact becomes Artifact(path, filter_terms=terms)
op switch <terms>      -- two live artifacts on one file: the acting one is parked and the parked one (or, the first
                       -- time, a new Artifact(path, filter_terms=terms)) acts
obs self|fresh         -- keys, hdf.get_keys, bare groups, a second UNFILTERED Artifact on the path and what every
                       -- reported key loads through it; `self`: also what every key loads through the acting artifact
fload k=<key> <terms>  -- Artifact(path, filter_terms=terms).load(key); terms = `;`-separated RPN token lists
```
Keys are dotted strings behind the prefix `k=` (so the empty key is a token). -/
open Viv Viv.Proto Viv.Artifact

structure St where
  fa     : FArt := {}
  parked : Option FArt := none
  datas  : List (Nat × Data) := []
  tables : List (Nat × Table) := []

def parseKey (t : String) : Option Key :=
  if t.startsWith "k=" then some ((t.drop 2).toString.splitOn ".") else none

def showKey (k : Key) : String := ".".intercalate k

def showKeys (ks : List Key) : String := showStrs (ks.map showKey)

def showNode : Node → String
  | .blob d => s!"blob:{d}"
  | .tbl d => s!"tbl:{d}"
  | .keysNode ks => "keys:" ++ "+".intercalate (ks.map showKey)

def plus (xs : List String) : String := if xs.isEmpty then "-" else "+".intercalate xs

/-- a node as the acting artifact (filter terms `terms`) hands it out: tables as a view -/
def showView (tables : List (Nat × Table)) (terms : List Term) : Node → String
  | .tbl d =>
    match tables.find? (·.1 == d) with
    | none => "unknown-table"
    | some (_, t) =>
      match viewOf t terms with
      | none => "err"
      | some v => s!"tbl:{d}:r{plus (v.rows.map (fun e => toString e.1))}:c{plus v.cols}"
  | n => showNode n

def showOut (s : St) : Out → String
  | .ok => "ok"
  | .rejected => "rejected"
  | .data n =>
    -- a view that cannot be produced (`loadRaises`): `hdf.load` raises inside `Artifact.load`
    let v := showView s.tables s.fa.terms n
    if v = "err" then "rejected" else "data " ++ v

def setArt (s : St) (a : Art) : St := { s with fa := { s.fa with art := a } }

def kind? : String → Option Kind
  | "json" => some .json
  | "table" => some .table
  | "unser" => some .unserJson
  | "zerorow" => some .zeroRow
  | "badframe" => some .badFrame
  | _ => none

/-- `none`: malformed token; `some none`: Python `None`; `some (some d)`: a declared value -/
def dataArg (s : St) (t : String) : Option (Option Data) :=
  if t = "none" then some none
  else match t.toNat? with
    | none => none
    | some i => (s.datas.find? (·.1 == i)).map (fun e => some e.2)

def cmp? : String → Option Cmp
  | "lt" => some .lt | "le" => some .le | "eq" => some .eq
  | "ne" => some .ne | "ge" => some .ge | "gt" => some .gt
  | _ => none

/-- one term in reverse Polish notation: `col:op:val`, `&`, `|`, `draws:n:n:…` -/
def parseTerm (toks : List String) : Option Term :=
  let rec go : List String → List Term → Option Term
    | [], [t] => some t
    | [], _ => none
    | "&" :: rest, r :: l :: st => go rest (.and l r :: st)
    | "|" :: rest, r :: l :: st => go rest (.or l r :: st)
    | tok :: rest, st =>
      match tok.splitOn ":" with
      | "draws" :: ns =>
        match ns.mapM String.toNat? with
        | some ns => go rest (.draws ns :: st)
        | none => none
      | [c, o, v] =>
        match cmp? o, v.toInt? with
        | some o, some v => go rest (.atom c o v :: st)
        | _, _ => none
      | _ => none
  go toks []

def parseTerms (t : String) : Option (List Term) :=
  (strLists t).mapM parseTerm

/-- `Artifact.load` through an artifact whose filter terms make `hdf.load` RAISE for the stored node (a Series the draw
selection does not name, F29): the exception leaves `Artifact.load` before `self._cache[key] = data`, so nothing is
cached - a later load sees whatever the file holds then -/
def loadVia (sh : Node → String) (a : Art) (k : Key) : Art × Out :=
  let (a', o) := load a k
  match o with
  | .data n => if sh n = "err" && (lookup a.cache k).isNone then (a, .rejected) else (a', o)
  | _ => (a', o)

def obsLoads (sh : Node → String) (a : Art) (ks : List Key) : Art × List String :=
  ks.foldl (fun (acc : Art × List String) k =>
    let (a', o) := loadVia sh acc.1 k
    (a', acc.2 ++ [showKey k ++ "=" ++ (match o with | .data n => sh n | _ => "err")])) (a, [])

def doOp (s : St) (o : Op) : St × String :=
  match o with
  | .load k =>
    let (a', out) := loadVia (showView s.tables s.fa.terms) s.fa.art k
    ({ s with fa := { s.fa with art := a' } }, showOut s out)
  | _ =>
    let (fa, out) := s.fa.step (.op o)
    ({ s with fa := fa }, showOut s out)

def step (s : St) : List String → St × String
  | ["data", id, "table", qc, rows, cols, emp, ser] =>
    match id.toNat?, intLists rows, bool? emp, bool? ser with
    | some id, some rows, some emp, some ser =>
      ({ s with datas := s.datas ++ [(id, ⟨.table, id⟩)],
                tables := s.tables ++ [(id, { qcols := strList qc, rows := rows, cols := strList cols, isEmpty := emp,
                                              isSeries := ser })] }, "ok")
    | _, _, _, _ => (s, "bad-op")
  | ["data", id, kind] =>
    match id.toNat?, kind? kind with
    | some id, some k => if k == .table then (s, "bad-op") else ({ s with datas := s.datas ++ [(id, ⟨k, id⟩)] }, "ok")
    | _, _ => (s, "bad-op")
  | ["op", "write", k, d] =>
    match parseKey k, dataArg s d with
    | some k, some d => doOp s (.write k d)
    | _, _ => (s, "bad-op")
  | ["op", "replace", k, d] =>
    match parseKey k, dataArg s d with
    | some k, some d => doOp s (.replace k d)
    | _, _ => (s, "bad-op")
  | ["op", "load", k] =>
    match parseKey k with
    | some k => doOp s (.load k)
    | none => (s, "bad-op")
  | ["op", "remove", k] =>
    match parseKey k with
    | some k => doOp s (.remove k)
    | none => (s, "bad-op")
  | ["op", "mutate", k, d] =>
    -- the caller loads k and mutates the returned object in place; it now equals the declared value d
    match parseKey k, dataArg s d with
    | some k, some (some d) =>
      match nodeOf d with
      | none => (s, "bad-op")
      | some n => let (a, o) := mutateLoaded s.fa.art k n; (setArt s a, showOut s o)
    | _, _ => (s, "bad-op")
  | ["op", "restore", k, d] =>
    -- x = art.load(k); (the caller may mutate x in place); art.replace(k, x): x now denotes the declared value d
    match parseKey k, dataArg s d with
    | some k, some (some d) =>
      match load s.fa.art k with
      | (a1, .data _) => let (a2, o) := replace a1 k (some d); (setArt s a2, showOut s o)
      | (a1, o) => (setArt s a1, showOut s o)
    | _, _ => (s, "bad-op")
  | ["op", "mutkeys", how] =>
    -- `ks = art.keys`; the caller edits ks in place
    let e : Option KeyEdit := match how with
      | "remove-ks" => some .removeKs
      | "reverse" => some .reverse
      | "clear" => some .clear
      | "ghost" => some .append
      | _ => none
    match e with
    | none => (s, "bad-op")
    | some e => let (fa, o) := s.fa.step (.editReturnedKeys e); ({ s with fa := fa }, showOut s o)
  | ["op", "clear"] => doOp s .clearCache
  | ["op", "reopen", terms] =>
    match parseTerms terms with
    | none => (s, "bad-op")
    | some terms => let (fa, o) := s.fa.step (.reopenWith terms); ({ s with fa := fa }, showOut s o)
  | ["op", "switch", terms] =>
    match parseTerms terms with
    | none => (s, "bad-op")
    | some terms =>
      match s.parked with
      | some p => ({ s with fa := p.onFile s.fa.art, parked := some s.fa }, "ok")
      | none =>
        let (fa, o) := s.fa.step (.reopenWith terms)
        match o with
        | .ok => ({ s with fa := fa, parked := some s.fa }, "ok")
        | _ => (s, "rejected")
  | ["obs", mode] =>
    if mode ≠ "self" ∧ mode ≠ "fresh" then (s, "bad-op") else
    let a := s.fa.art
    let keys := showKeys a.keys
    let file := showKeys (fileKeys a) ++ " groups=" ++ showKeys a.groups
    let user := a.keys.filter (· != ksKey)
    -- a second, unfiltered artifact on the path: its keys and what every key (reported by either) loads through it
    let fresh := openArtifact a
    let both := user ++ (match fresh with
      | some f => f.keys.filter (fun k => k != ksKey && !a.keys.contains k)
      | none => [])
    let freshS := match fresh with | some f => showKeys f.keys | none => "err"
    let loads := match fresh with
      | some f => (obsLoads showNode f both).2
      | none => both.map (fun k => showKey k ++ "=nofresh")
    let a1 := (Artifact.step a .probe).1
    -- `self`: the same keys through the acting artifact (its filter terms, its cache)
    let (a2, selfS) :=
      if mode = "self" then
        let (a2, ls) := obsLoads (showView s.tables s.fa.terms) a1 user
        (a2, showStrs ls)
      else (a1, "-")
    (setArt s a2, s!"keys={keys} file={file} fresh={freshS} loads={showStrs loads} self={selfS}")
  | ["fload", k, terms] =>
    match parseKey k, parseTerms terms with
    | some k, some terms =>
      -- Artifact.__init__: _parse_draw_filters first, then create_hdf_with_keyspace / Keys
      match drawColumns terms with
      | none => (s, "ctor-err")
      | some _ =>
        match openArtifact s.fa.art with
        | none => (s, "ctor-err")
        | some f =>
          let s1 := setArt s (Artifact.step s.fa.art .probe).1
          match load f k with
          | (_, .data (.tbl d)) =>
            match s.tables.find? (·.1 == d) with
            | none => (s1, "bad-op")
            | some _ =>
              let v := showView s.tables terms (.tbl d)
              (s1, if v = "err" then "rejected" else v)
          | (_, .data n) => (s1, showNode n)
          | (_, _) => (s1, "rejected")
    | _, _ => (s, "bad-op")
  | _ => (s, "bad-op")

def main : IO Unit := Proto.run ({} : St) step
