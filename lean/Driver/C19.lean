import VivModel.Model.Proto
import VivModel.Model.Artifact
/-! Line-protocol driver for the artifact model (C19).

```
data <id> json|table|unser|zerorow|badframe [<qcols> <rows> <cols> <isEmpty>]   -- declare a value (table: what filters see)
op write k=<key> <id|none> | op load k=<key> | op remove k=<key> | op replace k=<key> <id|none> | op clear | op reopen
obs self|fresh         -- keys, hdf.get_keys, a second Artifact on the path, load of every reported key
fload k=<key> <terms>  -- Artifact(path, filter_terms=terms).load(key); terms = `;`-separated RPN token lists
```
Keys are dotted strings behind the prefix `k=` (so the empty key is a token). -/
open Viv Viv.Proto Viv.Artifact

structure St where
  art    : Art := Artifact.init
  datas  : List (Nat × Data) := []
  tables : List (Nat × Table) := []

def parseKey (t : String) : Option Key :=
  if t.startsWith "k=" then some ((t.drop 2).toString.splitOn ".") else none

def showKey (k : Key) : String := ".".intercalate k

def showKeys (ks : List Key) : String := showStrs (ks.map showKey)

def showNode : Node → String
  | .blob d => s!"blob:{d}"
  | .tbl d => s!"tbl:{d}"
  | .keysNode ks => "keys:" ++ "+".intercalate (ks.map showKey)

def showOut : Out → String
  | .ok => "ok"
  | .rejected => "rejected"
  | .data n => "data " ++ showNode n

def kind? : String → Option Kind
  | "json" => some .json
  | "table" => some .table
  | "unser" => some .unserJson
  | "zerorow" => some .zeroRow
  | "badframe" => some .badFrame
  | _ => none

/-- `none`: malformed token; `some none`: Python `None`; `some (some d)`: a declared value -/
def dataArg (s : St) (t : String) : Option (Option Data) :=
  if t = "none" then some none
  else match t.toNat? with
    | none => none
    | some i => (s.datas.find? (·.1 == i)).map (fun e => some e.2)

def cmp? : String → Option Cmp
  | "lt" => some .lt | "le" => some .le | "eq" => some .eq
  | "ne" => some .ne | "ge" => some .ge | "gt" => some .gt
  | _ => none

/-- one term in reverse Polish notation: `col:op:val`, `&`, `|`, `draws:n:n:…` -/
def parseTerm (toks : List String) : Option Term :=
  let rec go : List String → List Term → Option Term
    | [], [t] => some t
    | [], _ => none
    | "&" :: rest, r :: l :: st => go rest (.and l r :: st)
    | "|" :: rest, r :: l :: st => go rest (.or l r :: st)
    | tok :: rest, st =>
      match tok.splitOn ":" with
      | "draws" :: ns =>
        match ns.mapM String.toNat? with
        | some ns => go rest (.draws ns :: st)
        | none => none
      | [c, o, v] =>
        match cmp? o, v.toInt? with
        | some o, some v => go rest (.atom c o v :: st)
        | _, _ => none
      | _ => none
  go toks []

def parseTerms (t : String) : Option (List Term) :=
  (strLists t).mapM parseTerm

def obsLoads (a : Art) (ks : List Key) : Art × List String :=
  ks.foldl (fun (acc : Art × List String) k =>
    let (a', o) := load acc.1 k
    (a', acc.2 ++ [showKey k ++ "=" ++ (match o with | .data n => showNode n | _ => "err")])) (a, [])

def step (s : St) : List String → St × String
  | ["data", id, "table", qc, rows, cols, emp] =>
    match id.toNat?, intLists rows, bool? emp with
    | some id, some rows, some emp =>
      ({ s with datas := s.datas ++ [(id, ⟨.table, id⟩)],
                tables := s.tables ++ [(id, { qcols := strList qc, rows := rows, cols := strList cols, isEmpty := emp })] }, "ok")
    | _, _, _ => (s, "bad-op")
  | ["data", id, kind] =>
    match id.toNat?, kind? kind with
    | some id, some k => if k == .table then (s, "bad-op") else ({ s with datas := s.datas ++ [(id, ⟨k, id⟩)] }, "ok")
    | _, _ => (s, "bad-op")
  | ["op", "write", k, d] =>
    match parseKey k, dataArg s d with
    | some k, some d => let (a, o) := Artifact.step s.art (.write k d); ({ s with art := a }, showOut o)
    | _, _ => (s, "bad-op")
  | ["op", "replace", k, d] =>
    match parseKey k, dataArg s d with
    | some k, some d => let (a, o) := Artifact.step s.art (.replace k d); ({ s with art := a }, showOut o)
    | _, _ => (s, "bad-op")
  | ["op", "load", k] =>
    match parseKey k with
    | some k => let (a, o) := Artifact.step s.art (.load k); ({ s with art := a }, showOut o)
    | none => (s, "bad-op")
  | ["op", "remove", k] =>
    match parseKey k with
    | some k => let (a, o) := Artifact.step s.art (.remove k); ({ s with art := a }, showOut o)
    | none => (s, "bad-op")
  | ["op", "clear"] => let (a, o) := Artifact.step s.art .clearCache; ({ s with art := a }, showOut o)
  | ["op", "reopen"] => let (a, o) := Artifact.step s.art .reopen; ({ s with art := a }, showOut o)
  | ["obs", mode] =>
    if mode ≠ "self" ∧ mode ≠ "fresh" then (s, "bad-op") else
    let a := s.art
    let keys := showKeys a.keys
    let file := showKeys (fileKeys a) ++ " groups=" ++ showKeys a.groups
    let fresh := openArtifact a
    let (a1, _) := Artifact.step a .probe
    let user := a.keys.filter (· != ksKey)
    match mode, fresh with
    | "self", _ =>
      let (a2, ls) := obsLoads a1 user
      ({ s with art := a2 }, s!"keys={keys} file={file} fresh={match fresh with | some f => showKeys f.keys | none => "err"} loads={showStrs ls}")
    | _, some f =>
      let (_, ls) := obsLoads f user
      ({ s with art := a1 }, s!"keys={keys} file={file} fresh={showKeys f.keys} loads={showStrs ls}")
    | _, none =>
      ({ s with art := a1 }, s!"keys={keys} file={file} fresh=err loads={showStrs (user.map (fun k => showKey k ++ "=nofresh"))}")
  | ["fload", k, terms] =>
    match parseKey k, parseTerms terms with
    | some k, some terms =>
      -- Artifact.__init__: _parse_draw_filters first, then create_hdf_with_keyspace / Keys
      match drawColumns terms with
      | none => (s, "ctor-err")
      | some cf =>
        match openArtifact s.art with
        | none => (s, "ctor-err")
        | some f =>
          let s1 := { s with art := (Artifact.step s.art .probe).1 }
          match load f k with
          | (_, .data (.tbl d)) =>
            match s.tables.find? (·.1 == d) with
            | none => (s1, "bad-op")
            | some (_, t) =>
              (s1, s!"tbl:{d} rows={showNats ((loadRows t terms).map (·.1))} cols={showStrs (loadCols t cf)}")
          | (_, .data n) => (s1, showNode n)
          | (_, _) => (s1, "rejected")
    | _, _ => (s, "bad-op")
  | _ => (s, "bad-op")

def main : IO Unit := Proto.run ({} : St) step
