import VivModel.Model.Proto
import VivModel.Model.Components
/-! Line-protocol driver for component registration / setup / configuration layering (C20).

  user <what> <path> <val>        what ∈ {model_specification, configuration, user_config_path}; layer from Viv.Gen.configUpdates
  mgr <name> <defs>               one iteration of add_managers
  add <k> <nodes>                 SimulationContext.add_components: a forest of k trees, nodes in
                                  pre-order as name:arity:defs
  addk <fault> <k> <nodes>        the same call with the caller catching the refusal: the state the call leaves behind is kept
                                  (earlier members registered, defaults written before the refusal); fault = - | sub | defs:<i>
                                  (a `sub_components` property raises / the `configuration_defaults` of the i-th flattened
                                  component raises); reply `ok <components>` or `err:<class> <components>`
  setup <probes> <attempts>       SimulationContext.setup(): interprets Viv.Gen.skeleton "setup"
  setupk <boom> <probes> <attempts>   setup() in which the `setup` of the object called <boom> raises (caught by the caller):
                                  reply `err:usererror <log> <seen> <tried>` with what happened before, state left behind kept
  get <path>                      value of a leaf path (outermost layer that has it); `val TREE` for an interior key
  set <path> <val>                configuration.update at the outermost layer
  setl <layer> <path> <val>       configuration.update(…, layer=<layer>)
  del <key>                       del configuration.<key> (never refused: the library ignores freeze, F18)
  defs = - | path=val;path=val…   attempts = - | name=path=val;…   probes = - | path,path…
-/
open Viv Viv.Proto Viv.Components

def errName : Err → String
  | .dupName => "dupname" | .dupValue => "dupvalue" | .frozen => "frozen" | .noLayer => "nolayer" | .structure => "structure"
  | .constraint => "constraint" | .transition => "transition" | .userError => "usererror"

def parseDefs (s : String) : Option Defaults :=
  if s = "-" then some [] else
  (s.splitOn ";").mapM fun kv => match kv.splitOn "=" with
    | [k, v] => some (k, v)
    | _ => none

def parseAttempts (s : String) : Option (List (String × Path × Val)) :=
  if s = "-" then some [] else
  (s.splitOn ";").mapM fun a => match a.splitOn "=" with
    | [n, k, v] => some (n, k, v)
    | _ => none

def parseNode (s : String) : Option (String × Nat × Defaults) :=
  match s.splitOn ":" with
  | [n, a, d] => do
    let a ← a.toNat?
    let d ← parseDefs d
    pure (n, a, d)
  | _ => none

/-- rebuild `k` trees from the pre-order node list with arities; returns the unread rest -/
def build : Nat → Nat → List (String × Nat × Defaults) → Option (List Tree × List (String × Nat × Defaults))
  | _, 0, rest => some ([], rest)
  | 0, _ + 1, _ => none
  | _ + 1, _ + 1, [] => none
  | fuel + 1, k + 1, (n, a, d) :: rest => do
    let (cs, rest) ← build fuel a rest
    let (sibs, rest) ← build fuel k rest
    pure (.node n d cs :: sibs, rest)

def parseForest (k nodes : String) : Option (List Tree) := do
  let k ← k.toNat?
  let ns ← (strList nodes).mapM parseNode
  let (ts, rest) ← build (ns.length + k + 1) k ns
  if rest.isEmpty then pure ts else none

def showOpt : Option Val → String
  | some v => v
  | none => "~"

def showSeen (xs : List (String × List (Option Val))) : String :=
  if xs.isEmpty then "-" else
  ",".intercalate (xs.map fun (n, vs) => n ++ "=" ++ "|".intercalate (vs.map showOpt))

def showTried (xs : List (String × Path × Bool)) : String :=
  if xs.isEmpty then "-" else
  ",".intercalate (xs.map fun (n, p, ok) => n ++ "=" ++ p ++ "=" ++ showBool ok)

def fin (s : Sim) (r : Except Err Sim) (okReply : Sim → String) : Sim × String :=
  match r with
  | .ok s' => (s', okReply s')
  | .error e => (s, "err:" ++ errName e)

def parseFault (s : String) : Option Fault :=
  if s = "-" then some .none else if s = "sub" then some .sub else
  match s.splitOn ":" with
  | ["defs", i] => i.toNat?.map Fault.defs
  | _ => none

def finK (r : Sim × Option Err) (reply : Sim → String) : Sim × String :=
  match r.2 with
  | none => (r.1, "ok " ++ reply r.1)
  | some e => (r.1, "err:" ++ errName e ++ " " ++ reply r.1)

def step (s : Sim) : List String → Sim × String
  | ["user", what, p, v] => fin s (userSet s what p v) fun _ => "ok"
  | ["mgr", n, d] =>
    match parseDefs d with
    | none => (s, "bad-op")
    | some d => fin s (addManager s n d) fun _ => "ok"
  | ["add", k, nodes] =>
    match parseForest k nodes with
    | none => (s, "bad-op")
    | some ts => fin s (addComponents s ts) fun s' => "ok " ++ showStrs s'.components
  | ["addk", f, k, nodes] =>
    match parseForest k nodes, parseFault f with
    | some ts, some f => finK (addComponentsK s ts f) fun s' => showStrs s'.components
    | _, _ => (s, "bad-op")
  | ["setupk", boom, probes, attempts] =>
    match parseAttempts attempts with
    | none => (s, "bad-op")
    | some at' =>
      let sc : Script := { probes := strList probes, attempts := at' }
      finK (setupK sc boom s) fun s' =>
        s!"{showStrs (s'.log.drop s.log.length)} {showSeen (s'.seen.drop s.seen.length)} {showTried (s'.tried.drop s.tried.length)}"
  | ["setup", probes, attempts] =>
    match parseAttempts attempts with
    | none => (s, "bad-op")
    | some at' =>
      let sc : Script := { probes := strList probes, attempts := at' }
      fin s (setup sc s) fun s' =>
        s!"ok {showStrs (s'.log.drop s.log.length)} {showSeen (s'.seen.drop s.seen.length)} {showTried (s'.tried.drop s.tried.length)}"
  | ["get", p] =>
    if s.cfg.entries.any (fun e => e.path != p && Config.under p e.path) then (s, "val TREE") else
    (s, match s.cfg.get p with | some v => "val " ++ v | none => "none")
  | ["set", p, v] =>
    fin s ((s.cfg.update outermost p v).map fun c => { s with cfg := c }) fun _ => "ok"
  | ["setl", layer, p, v] =>
    fin s ((s.cfg.update layer p v).map fun c => { s with cfg := c }) fun _ => "ok"
  | ["del", key] => ({ s with cfg := s.cfg.delete key }, "ok")
  | ["flatten", k, nodes] =>
    match parseForest k nodes with
    | none => (s, "bad-op")
    | some ts => (s, "ok " ++ showStrs ((flatten ts).map Tree.name))
  | _ => (s, "bad-op")

def main : IO Unit := Proto.run ({} : Sim) step
