import VivModel.Model.Proto
import VivModel.Model.Whole
/-! Line-protocol driver for the end-to-end model (`Model/Whole.lean`). Everything is computed by the model
from the configuration: SHA-1 of the seed strings, the Mersenne-twister blocks, the index map, the draws,
the decisions, the table.

  init <seed> <pop> <mapSize> <start> <step> <stop> <keyCols> <keyBits> <keyFloat> <sexW> <births> <akPerPhase>
       <order> <birthPrio> <mortPhase> <mortPrio> <disPhase> <disPrio> <mortP> <initW> <selfOk> <trans>
         births / mortP / initW: lists of lists (`;` between rows); selfOk: 0/1 per state;
         trans: per state the flat list out,wm,wf,out,wm,wf,…  (`-` = no transition)
         → ok <clock> <rows> <positions>  |  err <class>  |  bad-config  (a configuration the real code refuses at setup)
  step   → the table after one more `step()`:  ok <clock> <rows> <positions> | err <class> | err dead (after an error)
  run f  → `run()` (the `while clock < stop` loop, at most f iterations) from a FRESH initial population:
           ok <clock> <rows> <positions> | err <class>
rows: `label,tracked,key,entrance,sex,state,exit` joined by `;` (exit `n` = NaN); positions: index-map position per row
(`x` = none). -/
open Viv Viv.Proto Viv.Whole

structure St where
  cfg : Option Config := none
  s : Option State := none

def errName : Err → String
  | .randomness => "randomness" | .lookup => "lookup" | .value => "value" | .fuel => "fuel" | .internal => "internal"

def showRow (r : Row) : String :=
  s!"{r.label},{showBool r.tracked},{r.key},{r.entrance},{r.sex},{r.st}," ++
    (match r.exit with | none => "n" | some t => toString t)

def showState (s : State) : String :=
  let rows := if s.rows.isEmpty then "-" else ";".intercalate (s.rows.map showRow)
  let pos := showStrs (s.rows.map fun r => match posOf s.imap r.label with | some p => toString p | none => "x")
  s!"ok {s.clock} {rows} {pos}"

/-- flat `out,wm,wf,…` → transitions -/
def triples : List Nat → Option (List (Nat × List Nat))
  | [] => some []
  | o :: a :: b :: rest => (triples rest).map fun l => (o, [a, b]) :: l
  | _ => none

def parseCfg : List String → Option Config
  | [seed, pop, map, start, stp, stop, keyCols, bits, flt, sexW, births, akpp, order, bprio, mPh, mPr, dPh, dPr,
     mortP, initW, selfOk, trans] => do
    let pop ← pop.toNat?
    let map ← map.toNat?
    let start ← start.toInt?
    let stp ← stp.toInt?
    let stop ← stop.toInt?
    let keyCols ← natList keyCols
    let bits ← bits.toNat?
    let flt ← bool? flt
    let sexW ← sexW.toNat?
    let births ← natLists births
    let akpp ← bool? akpp
    let order ← natList order
    let bprio ← natList bprio
    let mPh ← mPh.toNat?
    let mPr ← mPr.toNat?
    let dPh ← dPh.toNat?
    let dPr ← dPr.toNat?
    let mortP ← natLists mortP
    let initW ← natLists initW
    let selfOk ← natList selfOk
    let trans ← natLists trans
    let trans ← trans.mapM triples
    if selfOk.length ≠ trans.length then none else
    let states := (selfOk.zip trans).map fun p => (⟨p.1 != 0, p.2⟩ : StSpec)
    pure { seed := seed, pop := pop, mapSize := map, start := start, step := stp, stop := stop, keyCols := keyCols,
           keyBits := bits, keyFloat := flt, sexW := sexW, births := births, akPerPhase := akpp, order := order,
           birthPrio := bprio, mortPhase := mPh, mortPrio := mPr, disPhase := dPh, disPrio := dPr,
           mortP := mortP, initW := initW, states := states }
  | _ => none

def reply (r : Except Err State) : Option State × String :=
  match r with
  | .ok s => (some s, showState s)
  | .error e => (none, s!"err {errName e}")

def step (st : St) : List String → St × String
  | "init" :: toks =>
    match parseCfg toks with
    | none => (st, "bad-op")
    | some cfg =>
      if !cfg.valid then ({ cfg := none, s := none }, "bad-config") else
      let (s, r) := reply (initPop cfg)
      ({ cfg := some cfg, s := s }, r)
  | ["step"] =>
    match st.cfg, st.s with
    | some cfg, some s =>
      let (s', r) := reply (stepWhole RandomBlock.blockOf cfg s)
      ({ st with s := s' }, r)
    | some _, none => (st, "err dead")
    | none, _ => (st, "bad-op")
  | ["run", f] =>
    match st.cfg, f.toNat? with
    | some cfg, some f =>
      match initPop cfg with
      | .error e => (st, s!"err {errName e}")
      | .ok s0 => (st, (reply (runWhole cfg f s0)).2)
    | _, _ => (st, "bad-op")
  | _ => (st, "bad-op")

def main : IO Unit := Proto.run ({} : St) step
