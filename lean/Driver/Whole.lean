import VivModel.Model.Proto
import VivModel.Model.Whole
import VivModel.Model.WholeDt
/-! Line-protocol driver for the end-to-end model (`Model/Whole.lean`). Everything is computed by the model
from the configuration: SHA-1 of the seed strings, the Mersenne-twister blocks, the index map, the draws,
the decisions, the table.

  init <seed> <pop> <mapSize> <start> <step> <stop> <keyCols> <keyBits> <keyFloat> <sexW> <births> <akPerPhase>
       <order> <birthPrio> <mortPhase> <mortPrio> <disPhase> <disPrio> <mortP> <initW> <selfOk> <trans>
         births / mortP / initW: lists of lists (`;` between rows); selfOk: 0/1 per state;
         trans: per state the flat list out,wm,wf,out,wm,wf,…  (`-` = no transition)
         → ok <clock> <rows> <positions>  |  err <class>  |  bad-config  (a configuration the real code refuses at setup)
  step   → the table after one more `step()`:  ok <clock> <rows> <positions> | err <class> | err dead (after an error)
  run f  → `run()` (the `while clock < stop` loop, at most f iterations) from a FRESH initial population:
           ok <clock> <rows> <positions> | err <class>
rows: `label,tracked,key,entrance,sex,state,exit` joined by `;` (exit `n` = NaN); positions: index-map position per row
(`x` = none).

Optional tokens after the 22 of `init` (the opt-in parts of the configuration; strings are `[A-Za-z0-9_]`):
  age=<bits>
  pipe=<union 0/1>,<den>      pkeys=<key columns>   pedges=<age bin edges | ->   prows=<rows `;`>   mods=<kind,den,wm,wf `;`>
  odef=<default stratifications>
  strat=<name>,<kind>/<categories>/<excluded>/<edges>            (one token per stratification, in registration order)
  obs=<name>,<phase>,<filter>,<agg>,<every>/<additional>/<excluded>   (one token per observation)
With any of them every `ok` reply carries two more fields: the log of the last pipeline values `label:num/den,…` and the
running results `name[key=value,…]+…` (key = categories joined by `|`, `all` without stratifications); rows get `,age`.

  dt=<standard step in hours, 0 = none>   dmods=<per modifier: hours per state, -1 = NaT; `;` between modifiers>
With `dt` the run is the one of `Model/WholeDt.lean` (DateTimeClock in hours of January 2021, per-simulant clocks); every
`ok` reply then ends with one more field `<global step>/<label>:<next event time>:<step size>,…`. -/
open Viv Viv.Proto Viv.Whole

structure St where
  cfg : Option Config := none
  s : Option State := none
  dt : Option WholeDt.DtSpec := none
  d : Option WholeDt.DState := none

def errName : Err → String
  | .randomness => "randomness" | .lookup => "lookup" | .value => "value" | .fuel => "fuel" | .internal => "internal"
  | .key => "key"

def showRow (withAge : Bool) (r : Row) : String :=
  s!"{r.label},{showBool r.tracked},{r.key},{r.entrance},{r.sex},{r.st}," ++
    (match r.exit with | none => "n" | some t => toString t) ++ (if withAge then s!",{r.age}" else "")

/-- is any opt-in part configured -/
def hasExt (cfg : Config) : Bool :=
  cfg.age.isSome || cfg.pipe.isSome || !cfg.strats.isEmpty || !cfg.obs.isEmpty || !cfg.obsDefaults.isEmpty

def showKey (k : Results.Key) : String := if k.isEmpty then "all" else "|".intercalate k

def showResults (c : Results.Ctx) : String :=
  if c.obs.isEmpty then "-" else
  "+".intercalate (c.obs.map fun o =>
    o.name ++ "[" ++ ",".intercalate (((Results.getAssoc o.name c.adding).getD []).map fun e => s!"{showKey e.1}={e.2}") ++ "]")

def showPvals (l : List (Nat × Rat)) : String :=
  if l.isEmpty then "-" else ",".intercalate (l.map fun e => s!"{e.1}:{e.2.num}/{e.2.den}")

def showState (cfg : Config) (s : State) : String :=
  let rows := if s.rows.isEmpty then "-" else ";".intercalate (s.rows.map (showRow cfg.age.isSome))
  let pos := showStrs (s.rows.map fun r => match posOf s.imap r.label with | some p => toString p | none => "x")
  s!"ok {s.clock} {rows} {pos}" ++ (if hasExt cfg then s!" {showPvals s.pvals} {showResults s.res}" else "")

/-- flat `out,wm,wf,…` → transitions -/
def triples : List Nat → Option (List (Nat × List Nat))
  | [] => some []
  | o :: a :: b :: rest => (triples rest).map fun l => (o, [a, b]) :: l
  | _ => none

/-- `a/b/c` -/
def slashed (s : String) : List String := s.splitOn "/"

def parseMod : List Int → Option ModSpec
  | [k, d, a, b] => some { kind := k.toNat, den := d.toNat, w := [a, b] }
  | _ => none

/-- one optional token `name=value` -/
def parseExt (cfg : Config) (tok : String) : Option Config :=
  match tok.splitOn "=" with
  | ["age", v] => do let b ← v.toNat?; pure { cfg with age := some b }
  | ["pipe", v] => do
    match ← natList v with
    | [u, d] =>
      let p : PipeSpec := (cfg.pipe.getD ⟨false, 1, [], [], [], []⟩)
      pure { cfg with pipe := some { p with union := u != 0, den := d } }
    | _ => none
  | ["pkeys", v] => do let k ← natList v; let p ← cfg.pipe; pure { cfg with pipe := some { p with keys := k } }
  | ["pedges", v] => do let e ← intList v; let p ← cfg.pipe; pure { cfg with pipe := some { p with edges := e } }
  | ["prows", v] => do let r ← intLists v; let p ← cfg.pipe; pure { cfg with pipe := some { p with rows := r } }
  | ["mods", v] => do
    let ms ← intLists v
    let ms ← ms.mapM parseMod
    let p ← cfg.pipe
    pure { cfg with pipe := some { p with mods := ms } }
  | ["odef", v] => pure { cfg with obsDefaults := strList v }
  | ["strat", v] =>
    match slashed v with
    | [hd, cats, excl, edges] => do
      match strList hd with
      | [name, kind] =>
        let k ← kind.toNat?
        let e ← intList edges
        pure { cfg with strats := cfg.strats ++ [{ name := name, kind := k, cats := strList cats, excl := strList excl, edges := e }] }
      | _ => none
    | _ => none
  | ["obs", v] =>
    match slashed v with
    | [hd, add, exc] => do
      match strList hd with
      | [name, ph, f, a, ev] =>
        let ph ← ph.toNat?
        let f ← f.toNat?
        let a ← a.toNat?
        let ev ← ev.toNat?
        pure { cfg with obs := cfg.obs ++ [{ name := name, phase := ph, filter := f, agg := a, every := ev,
                                               add := strList add, exc := strList exc }] }
      | _ => none
    | _ => none
  | _ => none

def parseExts (cfg : Config) : List String → Option Config
  | [] => some cfg
  | t :: ts => (parseExt cfg t).bind fun c => parseExts c ts

def parseBase : List String → Option Config
  | [seed, pop, map, start, stp, stop, keyCols, bits, flt, sexW, births, akpp, order, bprio, mPh, mPr, dPh, dPr,
     mortP, initW, selfOk, trans] => do
    let pop ← pop.toNat?
    let map ← map.toNat?
    let start ← start.toInt?
    let stp ← stp.toInt?
    let stop ← stop.toInt?
    let keyCols ← natList keyCols
    let bits ← bits.toNat?
    let flt ← bool? flt
    let sexW ← sexW.toNat?
    let births ← natLists births
    let akpp ← bool? akpp
    let order ← natList order
    let bprio ← natList bprio
    let mPh ← mPh.toNat?
    let mPr ← mPr.toNat?
    let dPh ← dPh.toNat?
    let dPr ← dPr.toNat?
    let mortP ← natLists mortP
    let initW ← natLists initW
    let selfOk ← natList selfOk
    let trans ← natLists trans
    let trans ← trans.mapM triples
    if selfOk.length ≠ trans.length then none else
    let states := (selfOk.zip trans).map fun p => (⟨p.1 != 0, p.2⟩ : StSpec)
    pure { seed := seed, pop := pop, mapSize := map, start := start, step := stp, stop := stop, keyCols := keyCols,
           keyBits := bits, keyFloat := flt, sexW := sexW, births := births, akPerPhase := akpp, order := order,
           birthPrio := bprio, mortPhase := mPh, mortPrio := mPr, disPhase := dPh, disPrio := dPr,
           mortP := mortP, initW := initW, states := states }
  | _ => none

def isDtTok (t : String) : Bool := t.startsWith "dt=" || t.startsWith "dmods="

def parseCfg (toks : List String) : Option Config :=
  (parseBase (toks.take 22)).bind fun c => parseExts c ((toks.drop 22).filter fun t => !isDtTok t)

def parseDt (toks : List String) : Option (Option WholeDt.DtSpec) :=
  match (toks.drop 22).filter isDtTok with
  | [] => some none
  | [a, b] =>
    match a.splitOn "=", b.splitOn "=" with
    | ["dt", v], ["dmods", w] => do
      let std ← v.toNat?
      let ms ← intLists w
      pure (some { std := std, mods := ms.map fun m => m.map fun x => if x < 0 then none else some x.toNat })
    | _, _ => none
  | _ => none

def showClk (c : Clock.Clock) : String :=
  s!"{c.step}/" ++ (if c.sims.isEmpty then "-" else ",".intercalate (c.sims.map fun x => s!"{x.id}:{x.next}:{x.step}"))

def replyD (cfg : Config) (r : Except Err WholeDt.DState) : Option WholeDt.DState × String :=
  match r with
  | .ok d => (some d, showState cfg d.base ++ " " ++ showClk d.clk)
  | .error e => (none, s!"err {errName e}")

def reply (cfg : Config) (r : Except Err State) : Option State × String :=
  match r with
  | .ok s => (some s, showState cfg s)
  | .error e => (none, s!"err {errName e}")

def step (st : St) : List String → St × String
  | "init" :: toks =>
    match parseCfg toks, parseDt toks with
    | some cfg, some none =>
      -- `WStep` (component 7) needs the DateTimeClock part of the configuration: without it the kit's setup raises
      if !cfg.valid || cfg.order.contains 7 then ({}, "bad-config") else
      let (s, r) := reply cfg (initPop cfg)
      ({ cfg := some cfg, s := s }, r)
    | some cfg, some (some dt) =>
      if !WholeDt.validD cfg dt then ({}, "bad-config") else
      let (d, r) := replyD cfg (WholeDt.initPopD RandomBlock.blockOf cfg dt)
      ({ cfg := some cfg, dt := some dt, d := d }, r)
    | _, _ => (st, "bad-op")
  | ["step"] =>
    match st.cfg, st.dt with
    | some cfg, some dt =>
      match st.d with
      | some d =>
        let (d', r) := replyD cfg (WholeDt.stepD RandomBlock.blockOf cfg dt d)
        ({ st with d := d' }, r)
      | none => (st, "err dead")
    | some cfg, none =>
      match st.s with
      | some s =>
        let (s', r) := reply cfg (stepWhole RandomBlock.blockOf cfg s)
        ({ st with s := s' }, r)
      | none => (st, "err dead")
    | none, _ => (st, "bad-op")
  | ["run", f] =>
    match st.cfg, f.toNat? with
    | some cfg, some f =>
      match st.dt with
      | some dt =>
        match WholeDt.initPopD RandomBlock.blockOf cfg dt with
        | .error e => (st, s!"err {errName e}")
        | .ok d0 => (st, (replyD cfg (WholeDt.runD RandomBlock.blockOf cfg dt f d0)).2)
      | none =>
        match initPop cfg with
        | .error e => (st, s!"err {errName e}")
        | .ok s0 => (st, (reply cfg (runWhole cfg f s0)).2)
    | _, _ => (st, "bad-op")
  | _ => (st, "bad-op")

def main : IO Unit := Proto.run ({} : St) step
