-- Root of the `VivModel` library; the module list is maintained by hand (one line per module).
import VivModel.Model.Proto
import VivModel.Model.Util
import VivModel.Model.Lifecycle
import VivModel.Gen.Tables
import VivModel.Model.Context
import VivModel.Props.C06
