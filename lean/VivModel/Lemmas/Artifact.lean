import VivModel.Model.Artifact
/-! Helper lemmas for the artifact model (C19): association-list lookup, HDF path prefixes, and what the
HDF-layer primitives do to a file in which nothing sits at or below the addressed path. Core Lean only. -/
namespace Viv.Artifact

/-! ### lookup -/

theorem lookup_eq_none_iff {m : List (Key × Node)} {k : Key} :
    lookup m k = none ↔ ∀ e ∈ m, e.1 ≠ k := by
  simp [lookup, List.find?_eq_none]

theorem lookup_some_mem {m : List (Key × Node)} {k : Key} {n : Node} (h : lookup m k = some n) :
    (k, n) ∈ m := by
  simp only [lookup, Option.map_eq_some_iff] at h
  obtain ⟨x, hx, hx2⟩ := h
  have hmem := List.mem_of_find?_eq_some hx
  have hkey := List.find?_some hx
  simp only [beq_iff_eq] at hkey
  rw [← hkey, ← hx2]; exact hmem

theorem lookup_append (l1 l2 : List (Key × Node)) (k : Key) :
    lookup (l1 ++ l2) k = (lookup l1 k).or (lookup l2 k) := by
  simp only [lookup, List.find?_append]
  cases List.find? (fun e => e.1 == k) l1 <;> simp

theorem lookup_isSome_iff {m : List (Key × Node)} {k : Key} :
    (lookup m k).isSome = true ↔ k ∈ m.map (·.1) := by
  cases h : lookup m k with
  | none =>
    simp only [Option.isSome_none, Bool.false_eq_true, List.mem_map, false_iff]
    rintro ⟨e, he, rfl⟩
    exact lookup_eq_none_iff.mp h e he rfl
  | some n =>
    simp only [Option.isSome_some, List.mem_map, true_iff]
    exact ⟨(k, n), lookup_some_mem h, rfl⟩

theorem lookup_cons (e : Key × Node) (m : List (Key × Node)) (k : Key) :
    lookup (e :: m) k = if e.1 = k then some e.2 else lookup m k := by
  simp only [lookup, List.find?_cons]
  by_cases h : e.1 = k
  · simp [h]
  · have : (e.1 == k) = false := by simpa using h
    simp [this, h]

theorem lookup_of_mem_nodup {m : List (Key × Node)} {k : Key} {n : Node}
    (hn : (m.map (·.1)).Nodup) (h : (k, n) ∈ m) : lookup m k = some n := by
  induction m with
  | nil => cases h
  | cons e m ih =>
    rw [lookup_cons]
    simp only [List.map_cons, List.nodup_cons] at hn
    rcases List.mem_cons.mp h with h | h
    · subst h; simp
    · have : e.1 ≠ k := by
        intro he; apply hn.1; rw [he]; exact List.mem_map.mpr ⟨(k, n), h, rfl⟩
      simp [this, ih hn.2 h]

theorem lookup_filter (m : List (Key × Node)) (p : Key → Bool) (k : Key) :
    lookup (m.filter (fun e => p e.1)) k = if p k then lookup m k else none := by
  induction m with
  | nil => simp [lookup]
  | cons e m ih =>
    by_cases hp : p e.1 = true
    · rw [List.filter_cons_of_pos (by simpa using hp), lookup_cons, lookup_cons, ih]
      by_cases he : e.1 = k
      · subst he; simp [hp]
      · simp [he]
    · rw [List.filter_cons_of_neg (by simpa using hp), lookup_cons, ih]
      by_cases he : e.1 = k
      · subst he; simp [hp]
      · simp [he]

/-! ### HDF paths -/

theorem above_iff {p q : Key} : above p q = true ↔ p <+: q := by
  simp [above, List.isPrefixOf_iff_prefix]

theorem above_self (k : Key) : above k k = true := above_iff.mpr (List.prefix_refl k)

theorem above_take (k : Key) (n : Nat) : above (k.take n) k = true := above_iff.mpr (List.take_prefix n k)

theorem wellFormed_ks : wellFormed ksKey = true := by decide

theorem wellFormed_take2 {k : Key} (h : wellFormed k = true) (h3 : k.length = 3) : wellFormed (k.take 2) = true := by
  match k, h3 with
  | [a, b, c], _ =>
    simp only [wellFormed, List.length_cons, List.length_nil, List.all_cons, List.all_nil, Bool.and_true,
      Bool.and_eq_true, List.take] at h ⊢
    simp_all

theorem take2_ne {k : Key} (h3 : k.length = 3) : k.take 2 ≠ k := by
  intro h
  have := congrArg List.length h
  simp [h3] at this

/-! ### the HDF layer on a file in which nothing sits at or below the addressed path -/

theorem not_mem_filter_above (gs : List Key) (k : Key) : (gs.filter (fun g => !above k g)).contains k = false := by
  apply Bool.eq_false_iff.mpr
  intro h
  have := List.contains_iff_mem.mp h
  simp [List.mem_filter, above_self] at this

theorem lookup_filter_above (m : List (Key × Node)) (k : Key) :
    lookup (m.filter (fun e => !above k e.1)) k = none := by
  rw [lookup_filter m (fun q => !above k q) k]
  simp [above_self]

/-- `Keys.append` / `Keys.remove`, second half: as long as the key space node exists, it is removed and
rewritten with the current in-memory list (it moves to the end of the file). -/
theorem keysRewrite_ok (a : Art) (h : (lookup a.file ksKey).isSome = true) :
    keysRewrite a = ({ a with file := a.file.filter (fun e => !above ksKey e.1) ++ [(ksKey, .keysNode a.keys)],
                              groups := a.groups.filter (fun g => !above ksKey g) }, true) := by
  have h3 : (ksKey.length == 3) = false := by decide
  simp only [keysRewrite, hdfRemove, wellFormed_ks, occupied, h, Bool.true_or, Bool.and_self, if_true, rmTree,
    hdfWriteJson, h3, Bool.false_and, Bool.false_eq_true, if_false, lookup_filter_above, Option.isSome_none,
    not_mem_filter_above, Bool.or_self, ensureParent]

@[simp] theorem ensureParent_file (a : Art) (p : Key) : (ensureParent a p).file = a.file := by
  unfold ensureParent; split <;> rfl
@[simp] theorem ensureParent_keys (a : Art) (p : Key) : (ensureParent a p).keys = a.keys := by
  unfold ensureParent; split <;> rfl
@[simp] theorem ensureParent_cache (a : Art) (p : Key) : (ensureParent a p).cache = a.cache := by
  unfold ensureParent; split <;> rfl

theorem rmTree_file_free (a : Art) (k : Key) (hfree : ∀ e ∈ a.file, above k e.1 = false) :
    (rmTree a k).file = a.file := by
  simp only [rmTree]
  exact List.filter_eq_self.mpr (fun e he => by simp [hfree e he])

theorem hdfWriteJson_some {a a' : Art} {p : Key} {n : Node} (h : hdfWriteJson a p n = some a') :
    a'.file = a.file ++ [(p, n)] ∧ a'.keys = a.keys ∧ a'.cache = a.cache := by
  unfold hdfWriteJson at h
  split at h
  · cases h
  · split at h
    · cases h
    · cases h; simp

/-- `hdf.write` when nothing sits at or below the path: it only ever appends the new node. -/
theorem hdfWrite_spec (a : Art) (k : Key) (d : Data) (hfree : ∀ e ∈ a.file, above k e.1 = false) :
    (hdfWrite a k d).1.keys = a.keys ∧ (hdfWrite a k d).1.cache = a.cache ∧
    ((hdfWrite a k d).2 = true →
      wellFormed k = true ∧ ∃ nd, nodeOf d = some nd ∧ (hdfWrite a k d).1.file = a.file ++ [(k, nd)]) ∧
    ((hdfWrite a k d).2 = false → (hdfWrite a k d).1.file = a.file) := by
  obtain ⟨kind, id⟩ := d
  unfold hdfWrite
  by_cases hw : wellFormed k = true
  · simp only [hw, Bool.not_true, Bool.false_eq_true, if_false]
    cases kind with
    | json =>
      cases h : hdfWriteJson a k (.blob id) with
      | none => simp
      | some a' =>
        obtain ⟨h1, h2, h3⟩ := hdfWriteJson_some h
        simp [nodeOf, h1, h2, h3]
    | unserJson => simp
    | zeroRow => simp
    | table =>
      simp only [hdfPut]
      split
      · simp
      · simp only [ensureParent_keys, ensureParent_cache, ensureParent_file, rmTree_file_free a k hfree]
        simp [nodeOf, rmTree]
    | badFrame =>
      simp only [hdfPut]
      split
      · simp
      · simp only [ensureParent_keys, ensureParent_cache, ensureParent_file, rmTree_file_free a k hfree]
        simp [rmTree]
    | keyList ks =>
      dsimp only
      cases h : hdfWriteJson a k (.keysNode ks) with
      | none => simp
      | some a' =>
        obtain ⟨h1, h2, h3⟩ := hdfWriteJson_some h
        simp [nodeOf, h1, h2, h3]
  · simp [hw]

/-! ### where bare groups come from -/

theorem ensureParent_groups {a : Art} {p g : Key} (h : g ∈ (ensureParent a p).groups) :
    g ∈ a.groups ∨ (p.length = 3 ∧ g = p.take 2) := by
  unfold ensureParent at h
  split at h
  · rename_i hc
    simp only [Bool.and_eq_true, beq_iff_eq] at hc
    simp only [List.mem_append, List.mem_singleton] at h
    rcases h with h | h
    · exact Or.inl h
    · exact Or.inr ⟨hc.1, h⟩
  · exact Or.inl h

theorem hdfWriteJson_groups {a a' : Art} {p : Key} {n : Node} (h : hdfWriteJson a p n = some a') {g : Key}
    (hg : g ∈ a'.groups) : g ∈ a.groups ∨ (p.length = 3 ∧ g = p.take 2) := by
  unfold hdfWriteJson at h
  split at h
  · cases h
  · split at h
    · cases h
    · cases h; exact ensureParent_groups hg

theorem hdfWrite_groups {a : Art} {k : Key} {d : Data} {g : Key} (hg : g ∈ (hdfWrite a k d).1.groups) :
    g ∈ a.groups ∨ (wellFormed k = true ∧ k.length = 3 ∧ g = k.take 2) := by
  obtain ⟨kind, id⟩ := d
  unfold hdfWrite at hg
  by_cases hw : wellFormed k = true
  · simp only [hw, Bool.not_true, Bool.false_eq_true, if_false] at hg
    cases kind with
    | json =>
      cases h : hdfWriteJson a k (.blob id) with
      | none => simp only [h] at hg; exact Or.inl hg
      | some a' =>
        simp only [h] at hg
        rcases hdfWriteJson_groups h hg with h | h
        · exact Or.inl h
        · exact Or.inr ⟨hw, h⟩
    | keyList ks =>
      dsimp only at hg
      cases h : hdfWriteJson a k (.keysNode ks) with
      | none => simp only [h] at hg; exact Or.inl hg
      | some a' =>
        simp only [h] at hg
        rcases hdfWriteJson_groups h hg with h | h
        · exact Or.inl h
        · exact Or.inr ⟨hw, h⟩
    | unserJson => exact Or.inl hg
    | zeroRow => exact Or.inl hg
    | table =>
      simp only [hdfPut] at hg
      split at hg
      · exact Or.inl hg
      · rcases ensureParent_groups hg with h | h
        · exact Or.inl (List.mem_filter.mp h).1
        · exact Or.inr ⟨hw, h⟩
    | badFrame =>
      simp only [hdfPut] at hg
      split at hg
      · exact Or.inl hg
      · rcases ensureParent_groups hg with h | h
        · exact Or.inl (List.mem_filter.mp h).1
        · exact Or.inr ⟨hw, h⟩
  · simp only [hw, Bool.not_false, if_true] at hg
    exact Or.inl hg

theorem keysRewrite_groups {a : Art} {g : Key} (hg : g ∈ (keysRewrite a).1.groups) : g ∈ a.groups := by
  unfold keysRewrite at hg
  cases h : hdfRemove a ksKey with
  | none => simp only [h] at hg; exact hg
  | some a1 =>
    have h1 : ∀ g ∈ a1.groups, g ∈ a.groups := by
      unfold hdfRemove at h
      split at h
      · cases h; intro g hg; exact (List.mem_filter.mp hg).1
      · cases h
    simp only [h] at hg
    cases h2 : hdfWriteJson a1 ksKey (.keysNode a.keys) with
    | none => simp only [h2] at hg; exact h1 g hg
    | some a2 =>
      simp only [h2] at hg
      rcases hdfWriteJson_groups h2 hg with h | h
      · exact h1 g h
      · exact absurd h.1 (by decide)

theorem hdfRemove_groups {a a' : Art} {k g : Key} (h : hdfRemove a k = some a') (hg : g ∈ a'.groups) :
    g ∈ a.groups := by
  unfold hdfRemove at h
  split at h
  · cases h; exact (List.mem_filter.mp hg).1
  · cases h

theorem remove_groups {a : Art} {k g : Key} (hg : g ∈ (remove a k).1.groups) : g ∈ a.groups := by
  unfold remove at hg
  split at hg
  · exact hg
  split at hg
  · exact hg
  · simp only [keysRemove] at hg
    generalize hr : keysRewrite { a with keys := a.keys.erase k } = r at hg
    have hsub : ∀ g ∈ r.1.groups, g ∈ a.groups := by
      intro g hg; rw [← hr] at hg; exact keysRewrite_groups (a := { a with keys := a.keys.erase k }) hg
    obtain ⟨a1, b⟩ := r
    cases b with
    | false => exact hsub g hg
    | true =>
      dsimp only at hg
      cases h2 : hdfRemove { a1 with cache := a1.cache.filter (fun e => e.1 != k) } k with
      | none => simp only [h2] at hg; exact hsub g hg
      | some a3 =>
        simp only [h2] at hg
        have h3 : g ∈ ({ a1 with cache := a1.cache.filter (fun e => e.1 != k) } : Art).groups := hdfRemove_groups h2 hg
        exact hsub g h3

theorem write_groups {a : Art} {k : Key} {d : Option Data} {g : Key} (hg : g ∈ (write a k d).1.groups) :
    g ∈ a.groups ∨ (wellFormed k = true ∧ k.length = 3 ∧ g = k.take 2) := by
  unfold write at hg
  split at hg
  · exact Or.inl hg
  · cases d with
    | none => exact Or.inl hg
    | some d =>
      dsimp only at hg
      have hw := @hdfWrite_groups a k d
      generalize hdfWrite a k d = r at hg hw
      obtain ⟨a1, b⟩ := r
      cases b with
      | false => exact hw hg
      | true =>
        dsimp only at hg
        simp only [keysAppend] at hg
        generalize hr : keysRewrite { a1 with keys := a1.keys ++ [k] } = r2 at hg
        have hsub : ∀ g ∈ r2.1.groups, g ∈ a1.groups := by
          intro g hg; rw [← hr] at hg; exact keysRewrite_groups (a := { a1 with keys := a1.keys ++ [k] }) hg
        obtain ⟨a2, b2⟩ := r2
        cases b2 <;> exact hw (hsub g hg)

theorem openArtifact_groups {a a' : Art} (h : openArtifact a = some a') {g : Key} (hg : g ∈ a'.groups) :
    g ∈ a.groups := by
  unfold openArtifact at h
  dsimp only at h
  split at h
  · cases h
  · rename_i a1 ha1
    have h1 : ∀ g ∈ a1.groups, g ∈ a.groups := by
      intro g hg
      split at ha1
      · rcases hdfWriteJson_groups ha1 hg with h | h
        · exact h
        · exact absurd h.1 (by decide)
      · split at ha1
        · cases ha1; exact hg
        · cases ha1
    split at h
    · cases h; exact h1 g hg
    · cases h

/-! ### nothing in the HDF layer or in `Keys` reads the cache -/

theorem isLeaf_setCache (a : Art) (c : List (Key × Node)) (p : Key) : isLeaf { a with cache := c } p = isLeaf a p := rfl
theorem occupied_setCache (a : Art) (c : List (Key × Node)) (p : Key) : occupied { a with cache := c } p = occupied a p := rfl
theorem isGroup_setCache (a : Art) (c : List (Key × Node)) (p : Key) : isGroup { a with cache := c } p = isGroup a p := rfl

theorem ensureParent_setCache (a : Art) (c : List (Key × Node)) (p : Key) :
    ensureParent { a with cache := c } p = { ensureParent a p with cache := c } := by
  unfold ensureParent
  rw [isGroup_setCache]
  split <;> rfl

theorem hdfWriteJson_setCache (a : Art) (c : List (Key × Node)) (p : Key) (n : Node) :
    hdfWriteJson { a with cache := c } p n = (hdfWriteJson a p n).map (fun x => { x with cache := c }) := by
  unfold hdfWriteJson
  rw [isLeaf_setCache, occupied_setCache, ensureParent_setCache]
  split
  · rfl
  · split <;> rfl

theorem hdfPut_setCache (a : Art) (c : List (Key × Node)) (p : Key) (n : Option Node) :
    hdfPut { a with cache := c } p n = ({ (hdfPut a p n).1 with cache := c }, (hdfPut a p n).2) := by
  unfold hdfPut
  rw [isLeaf_setCache]
  split
  · rfl
  · have : rmTree { a with cache := c } p = { rmTree a p with cache := c } := rfl
    rw [this, ensureParent_setCache]
    cases n <;> rfl

theorem hdfWrite_setCache (a : Art) (c : List (Key × Node)) (k : Key) (d : Data) :
    hdfWrite { a with cache := c } k d = ({ (hdfWrite a k d).1 with cache := c }, (hdfWrite a k d).2) := by
  obtain ⟨kind, id⟩ := d
  unfold hdfWrite
  split
  · rfl
  · cases kind with
    | json =>
      simp only [hdfWriteJson_setCache]
      cases hdfWriteJson a k (.blob id) <;> rfl
    | keyList ks =>
      simp only [hdfWriteJson_setCache]
      cases hdfWriteJson a k (.keysNode ks) <;> rfl
    | unserJson => rfl
    | zeroRow => rfl
    | table => exact hdfPut_setCache a c k _
    | badFrame => exact hdfPut_setCache a c k _

theorem hdfRemove_setCache (a : Art) (c : List (Key × Node)) (p : Key) :
    hdfRemove { a with cache := c } p = (hdfRemove a p).map (fun x => { x with cache := c }) := by
  unfold hdfRemove
  rw [occupied_setCache]
  split <;> rfl

theorem keysRewrite_setCache (a : Art) (c : List (Key × Node)) :
    keysRewrite { a with cache := c } = ({ (keysRewrite a).1 with cache := c }, (keysRewrite a).2) := by
  unfold keysRewrite
  rw [hdfRemove_setCache]
  cases hdfRemove a ksKey with
  | none => rfl
  | some a1 =>
    simp only [Option.map_some]
    have := hdfWriteJson_setCache a1 c ksKey (.keysNode a.keys)
    rw [this]
    cases hdfWriteJson a1 ksKey (.keysNode a.keys) <;> rfl


end Viv.Artifact
