import VivModel.Model.Clock
/-! Helper lemmas about the per-simulant clock model (core Lean only). -/
namespace Viv.Clock

/-! ### `minOpt` -/

theorem foldl_min_le (xs : List Int) (x : Int) :
    xs.foldl min x ≤ x ∧ ∀ y ∈ xs, xs.foldl min x ≤ y := by
  induction xs generalizing x with
  | nil => simp
  | cons a as ih =>
    simp only [List.foldl_cons, List.mem_cons, forall_eq_or_imp]
    have h := ih (min x a)
    exact ⟨Int.le_trans h.1 (Int.min_le_left x a), Int.le_trans h.1 (Int.min_le_right x a), h.2⟩

theorem foldl_min_mem (xs : List Int) (x : Int) : xs.foldl min x = x ∨ xs.foldl min x ∈ xs := by
  induction xs generalizing x with
  | nil => simp
  | cons a as ih =>
    simp only [List.foldl_cons, List.mem_cons]
    rcases ih (min x a) with h | h
    · rw [h]
      have : min x a = x ∨ min x a = a := by
        rw [Int.min_def]; split <;> simp
      rcases this with h' | h'
      · exact Or.inl h'
      · exact Or.inr (Or.inl h')
    · exact Or.inr (Or.inr h)

theorem minOpt_spec {xs : List Int} {m : Int} (h : minOpt xs = some m) : m ∈ xs ∧ ∀ y ∈ xs, m ≤ y := by
  cases xs with
  | nil => simp [minOpt] at h
  | cons x xs =>
    simp only [minOpt, Option.some.injEq] at h
    subst h
    have h1 := foldl_min_le xs x
    have h2 := foldl_min_mem xs x
    refine ⟨?_, ?_⟩
    · rcases h2 with h | h
      · rw [h]; exact List.mem_cons_self
      · exact List.mem_cons_of_mem _ h
    · intro y hy
      rcases List.mem_cons.mp hy with rfl | hy
      · exact h1.1
      · exact h1.2 y hy

theorem minOpt_isSome {xs : List Int} (h : xs ≠ []) : ∃ m, minOpt xs = some m := by
  cases xs with
  | nil => exact absurd rfl h
  | cons x xs => exact ⟨_, rfl⟩

theorem minOpt_eq_none {xs : List Int} (h : minOpt xs = none) : xs = [] := by
  cases xs with
  | nil => rfl
  | cons x xs => simp [minOpt] at h

/-- the minimum is characterised by membership and being a lower bound -/
theorem minOpt_unique {xs : List Int} {m : Int} (hm : m ∈ xs) (hle : ∀ y ∈ xs, m ≤ y) :
    minOpt xs = some m := by
  obtain ⟨m', h'⟩ := minOpt_isSome (List.ne_nil_of_mem hm)
  obtain ⟨hm', hle'⟩ := minOpt_spec h'
  have : m' = m := Int.le_antisymm (hle' m hm) (hle m' hm')
  rw [h', this]

/-! ### the step-size pipeline -/

theorem requested_nonneg (std : Int) (mods : List (Option Nat)) (hstd : 0 ≤ std) :
    0 ≤ requested std mods := by
  unfold requested
  cases h : minOpt ((mods.filterMap id).map Int.ofNat) with
  | none => simpa using hstd
  | some m =>
    obtain ⟨hm, _⟩ := minOpt_spec h
    obtain ⟨v, _, rfl⟩ := List.mem_map.mp hm
    simp

theorem postProcess_ge (minStep std : Int) (mods : List (Option Nat)) (hm : 0 < minStep) (hstd : 0 ≤ std) :
    minStep ≤ postProcess minStep std mods := by
  unfold postProcess
  simp only
  have hq : 0 ≤ requested std mods / minStep :=
    Int.ediv_nonneg (requested_nonneg std mods hstd) (Int.le_of_lt hm)
  split
  · simp
  · rename_i h
    have : 1 ≤ requested std mods / minStep := by omega
    calc minStep = 1 * minStep := by simp
      _ ≤ _ := Int.mul_le_mul_of_nonneg_right this (Int.le_of_lt hm)

/-! ### field projections of the operations -/

@[simp] theorem updSim_id (c : Clock) (t : Int) (mods : Nat → List (Option Nat)) (s : SimClk) :
    (updSim c t mods s).id = s.id := by
  unfold updSim; split <;> rfl

/-- `step_forward` on a non-empty population, written out -/
theorem stepForward_nonempty (c : Clock) (mods : Nat → List (Option Nat)) (hne : c.sims ≠ []) :
    ∃ m, minOpt ((c.sims.map (updSim c (c.now + c.step) mods)).map (·.next)) = some m ∧
      stepForward c mods =
        { c with now := c.now + c.step, sims := c.sims.map (updSim c (c.now + c.step) mods),
                 snooze := if c.sims.any (needsUpdate c (c.now + c.step)) then [] else c.snooze,
                 step := m - (c.now + c.step) } := by
  have hne' : (c.sims.map (updSim c (c.now + c.step) mods)).map (·.next) ≠ [] := by
    cases hc : c.sims with
    | nil => exact absurd hc hne
    | cons a as => simp
  obtain ⟨m, hm⟩ := minOpt_isSome hne'
  refine ⟨m, hm, ?_⟩
  have he : c.sims.isEmpty = false := by
    cases hc : c.sims with
    | nil => exact absurd hc hne
    | cons a as => rfl
  unfold stepForward
  simp only [he, Bool.false_eq_true, ↓reduceIte, hm]

theorem stepForward_empty (c : Clock) (mods : Nat → List (Option Nat)) (he : c.sims = []) :
    stepForward c mods = { c with now := c.now + c.step } := by
  unfold stepForward
  simp [he]

@[simp] theorem stepForward_now (c : Clock) (mods : Nat → List (Option Nat)) :
    (stepForward c mods).now = c.now + c.step := by
  by_cases he : c.sims = []
  · rw [stepForward_empty c mods he]
  · obtain ⟨m, _, h⟩ := stepForward_nonempty c mods he
    rw [h]

@[simp] theorem stepForward_stop (c : Clock) (mods : Nat → List (Option Nat)) :
    (stepForward c mods).stop = c.stop := by
  by_cases he : c.sims = []
  · rw [stepForward_empty c mods he]
  · obtain ⟨m, _, h⟩ := stepForward_nonempty c mods he
    rw [h]

@[simp] theorem stepForward_minStep (c : Clock) (mods : Nat → List (Option Nat)) :
    (stepForward c mods).minStep = c.minStep := by
  by_cases he : c.sims = []
  · rw [stepForward_empty c mods he]
  · obtain ⟨m, _, h⟩ := stepForward_nonempty c mods he
    rw [h]

@[simp] theorem stepForward_stdStep (c : Clock) (mods : Nat → List (Option Nat)) :
    (stepForward c mods).stdStep = c.stdStep := by
  by_cases he : c.sims = []
  · rw [stepForward_empty c mods he]
  · obtain ⟨m, _, h⟩ := stepForward_nonempty c mods he
    rw [h]

theorem stepForward_sims (c : Clock) (mods : Nat → List (Option Nat)) :
    (stepForward c mods).sims = c.sims.map (updSim c (c.now + c.step) mods) := by
  by_cases he : c.sims = []
  · rw [stepForward_empty c mods he]; simp [he]
  · obtain ⟨m, _, h⟩ := stepForward_nonempty c mods he
    rw [h]

@[simp] theorem act_now (c : Clock) (a : Act) : (act c a).now = c.now := by
  cases a <;> simp [act, create, moveToEnd] <;> split <;> rfl

@[simp] theorem act_step (c : Clock) (a : Act) : (act c a).step = c.step := by
  cases a <;> simp [act, create, moveToEnd] <;> split <;> rfl

@[simp] theorem act_stop (c : Clock) (a : Act) : (act c a).stop = c.stop := by
  cases a <;> simp [act, create, moveToEnd] <;> split <;> rfl

@[simp] theorem act_minStep (c : Clock) (a : Act) : (act c a).minStep = c.minStep := by
  cases a <;> simp [act, create, moveToEnd] <;> split <;> rfl

@[simp] theorem act_stdStep (c : Clock) (a : Act) : (act c a).stdStep = c.stdStep := by
  cases a <;> simp [act, create, moveToEnd] <;> split <;> rfl

@[simp] theorem moveToEnd_sims (c : Clock) (ids : List Nat) : (moveToEnd c ids).sims = c.sims := by
  unfold moveToEnd; split <;> rfl

theorem mem_create (c : Clock) (k : Nat) (s : SimClk) :
    s ∈ (create c k).sims ↔ s ∈ c.sims ∨ ∃ j, j < k ∧ s = ⟨c.sims.length + j, eventTime c, c.step⟩ := by
  simp only [create, List.mem_append, List.mem_map, List.mem_range]
  constructor
  · rintro (h | ⟨j, hj, rfl⟩)
    · exact Or.inl h
    · exact Or.inr ⟨j, hj, rfl⟩
  · rintro (h | ⟨j, hj, rfl⟩)
    · exact Or.inl h
    · exact Or.inr ⟨j, hj, rfl⟩

/-! ### user code inside `step_forward`: `evalCalls`, `stepForwardRe` -/

/-- the labels handed to `move_simulants_to_end` before the pipeline evaluation ended (normally, or in the first
modifier that raised) -/
def made : List ModCall → List Nat
  | [] => []
  | m :: ms => if m.raises then (if m.reqFirst then m.req else []) else m.req ++ made ms

theorem moveToEnd_eq (c : Clock) (ids : List Nat) : ∃ sn, moveToEnd c ids = { c with snooze := sn } := by
  unfold moveToEnd; split
  · exact ⟨c.snooze, rfl⟩
  · exact ⟨_, rfl⟩

theorem mem_moveToEnd' (c : Clock) (ids : List Nat) (i : Nat) :
    i ∈ (moveToEnd c ids).snooze ↔ i ∈ c.snooze ∨ i ∈ ids := by
  unfold moveToEnd
  split
  · rename_i h; simp at h; subst h; simp
  · simp only [List.mem_append, List.mem_filter]
    constructor
    · rintro (h | ⟨h, _⟩)
      · exact Or.inl h
      · exact Or.inr h
    · rintro (h | h)
      · exact Or.inl h
      · by_cases hc : i ∈ c.snooze
        · exact Or.inl hc
        · exact Or.inr ⟨h, by simpa using hc⟩

/-- the evaluation touches nothing but the pending set -/
theorem evalCalls_eq (c : Clock) (calls : List ModCall) : ∃ sn, (evalCalls c calls).1 = { c with snooze := sn } := by
  induction calls generalizing c with
  | nil => exact ⟨c.snooze, rfl⟩
  | cons m ms ih =>
    unfold evalCalls
    split
    · split
      · exact moveToEnd_eq c m.req
      · exact ⟨c.snooze, rfl⟩
    · obtain ⟨sn, h⟩ := ih (moveToEnd c m.req)
      obtain ⟨sn', h'⟩ := moveToEnd_eq c m.req
      rw [h, h']; exact ⟨sn, rfl⟩

/-- … which it grows by exactly the requests that were made -/
theorem mem_evalCalls (c : Clock) (calls : List ModCall) (i : Nat) :
    i ∈ (evalCalls c calls).1.snooze ↔ i ∈ c.snooze ∨ i ∈ made calls := by
  induction calls generalizing c with
  | nil => simp [evalCalls, made]
  | cons m ms ih =>
    unfold evalCalls made
    split
    · split
      · exact mem_moveToEnd' c m.req i
      · simp
    · rw [ih, mem_moveToEnd', List.mem_append, or_assoc]

/-- it raises exactly when one of the modifiers does -/
theorem evalCalls_raised (c : Clock) (calls : List ModCall) : (evalCalls c calls).2 = calls.any (·.raises) := by
  induction calls generalizing c with
  | nil => rfl
  | cons m ms ih =>
    unfold evalCalls
    split
    · rename_i h; simp [h]
    · rename_i h; simp [h, ih]

/-- when nobody raises, the requests made during the evaluation are the same as requests made by listeners
(`Act.toEnd`) just before the update -/
theorem evalCalls_as_acts (c : Clock) (calls : List ModCall) (h : (evalCalls c calls).2 = false) :
    (evalCalls c calls).1 = (calls.map fun m => Act.toEnd m.req).foldl act c := by
  induction calls generalizing c with
  | nil => rfl
  | cons m ms ih =>
    unfold evalCalls at h ⊢
    split at h
    · simp at h
    · rename_i hr
      simp only [hr, Bool.false_eq_true, ↓reduceIte, List.map_cons, List.foldl_cons, act]
      exact ih _ h

/-- the pipeline is evaluated: non-empty population, every pending label has a row, somebody is updated -/
def Evaluated (c : Clock) : Prop :=
  c.sims.isEmpty = false ∧ c.snooze.all (knows c) = true ∧ c.sims.any (needsUpdate c (c.now + c.step)) = true

/-- the `.loc` assignment of the parked step finds all its rows -/
def locOk (c c1 : Clock) : Bool :=
  c1.snooze.all (knows c) && c.sims.all (fun s => !c1.snooze.contains s.id || needsUpdate c (c.now + c.step) s)

/-- the five ways a call of `step_forward` can go -/
theorem stepForwardRe_cases (c : Clock) (mods : Nat → List (Option Nat)) (calls : List ModCall) :
    (¬ Evaluated c ∧ (c.sims.isEmpty = true ∨ c.snooze.all (knows c) = true) ∧
        stepForwardRe c mods calls = (stepForward c mods, .done)) ∨
    (c.sims.isEmpty = false ∧ c.snooze.all (knows c) = false ∧
        stepForwardRe c mods calls = (failedAt c (c.now + c.step), .popError)) ∨
    (Evaluated c ∧ (evalCalls c calls).2 = true ∧
        stepForwardRe c mods calls = (failedAt (evalCalls c calls).1 (c.now + c.step), .raised)) ∨
    (Evaluated c ∧ (evalCalls c calls).2 = false ∧ locOk c (evalCalls c calls).1 = true ∧
        stepForwardRe c mods calls = (stepForward (evalCalls c calls).1 mods, .done)) ∨
    (Evaluated c ∧ (evalCalls c calls).2 = false ∧ locOk c (evalCalls c calls).1 = false ∧
        stepForwardRe c mods calls = (failedAt (evalCalls c calls).1 (c.now + c.step), .keyError)) := by
  by_cases h1 : c.sims.isEmpty = true
  · left
    refine ⟨fun h => (by rw [h.1] at h1; cases h1), Or.inl h1, ?_⟩
    unfold stepForwardRe; simp [h1]
  · have h1' : c.sims.isEmpty = false := by simpa using h1
    by_cases h2 : c.snooze.all (knows c) = true
    · by_cases h3 : c.sims.any (needsUpdate c (c.now + c.step)) = true
      · have hev : Evaluated c := ⟨h1', h2, h3⟩
        by_cases h4 : (evalCalls c calls).2 = true
        · right; right; left
          refine ⟨hev, h4, ?_⟩
          unfold stepForwardRe; simp [h1', h2, h3, h4]
        · have h4' : (evalCalls c calls).2 = false := by simpa using h4
          by_cases h5 : locOk c (evalCalls c calls).1 = true
          · right; right; right; left
            refine ⟨hev, h4', h5, ?_⟩
            unfold locOk at h5
            unfold stepForwardRe; simp only [h1', h2, h3, h4', h5]; simp
          · right; right; right; right
            have h5' : locOk c (evalCalls c calls).1 = false := by simpa using h5
            refine ⟨hev, h4', h5', ?_⟩
            unfold locOk at h5
            unfold stepForwardRe; simp only [h1', h2, h3, h4', h5]; simp
      · left
        refine ⟨fun h => h3 h.2.2, Or.inr h2, ?_⟩
        have h3' : c.sims.any (needsUpdate c (c.now + c.step)) = false := by simpa using h3
        unfold stepForwardRe; simp only [h1', h2, h3']; simp
    · right; left
      have h2' : c.snooze.all (knows c) = false := by simpa using h2
      refine ⟨h1', h2', ?_⟩
      unfold stepForwardRe; simp only [h1', h2']; simp

theorem locOk_self (c : Clock) (hk : c.snooze.all (knows c) = true) : locOk c c = true := by
  unfold locOk
  simp only [hk, Bool.true_and, List.all_eq_true]
  intro s _
  cases h : c.snooze.contains s.id
  · simp
  · simp only [needsUpdate, h, Bool.or_true, Bool.not_true]

/-- a pending label that has a row puts that row into the update set -/
theorem pending_known_updates (c : Clock) (t : Int) (i : Nat) (hi : i ∈ c.snooze) (hk : knows c i = true) :
    c.sims.any (needsUpdate c t) = true := by
  simp only [knows, List.any_eq_true, beq_iff_eq] at hk ⊢
  obtain ⟨s, hs, rfl⟩ := hk
  exact ⟨s, hs, by simp [needsUpdate, hi]⟩

end Viv.Clock
