import VivModel.Model.Clock
/-! Helper lemmas about the per-simulant clock model (core Lean only). -/
namespace Viv.Clock

/-! ### `minOpt` -/

theorem foldl_min_le (xs : List Int) (x : Int) :
    xs.foldl min x ≤ x ∧ ∀ y ∈ xs, xs.foldl min x ≤ y := by
  induction xs generalizing x with
  | nil => simp
  | cons a as ih =>
    simp only [List.foldl_cons, List.mem_cons, forall_eq_or_imp]
    have h := ih (min x a)
    exact ⟨Int.le_trans h.1 (Int.min_le_left x a), Int.le_trans h.1 (Int.min_le_right x a), h.2⟩

theorem foldl_min_mem (xs : List Int) (x : Int) : xs.foldl min x = x ∨ xs.foldl min x ∈ xs := by
  induction xs generalizing x with
  | nil => simp
  | cons a as ih =>
    simp only [List.foldl_cons, List.mem_cons]
    rcases ih (min x a) with h | h
    · rw [h]
      have : min x a = x ∨ min x a = a := by
        rw [Int.min_def]; split <;> simp
      rcases this with h' | h'
      · exact Or.inl h'
      · exact Or.inr (Or.inl h')
    · exact Or.inr (Or.inr h)

theorem minOpt_spec {xs : List Int} {m : Int} (h : minOpt xs = some m) : m ∈ xs ∧ ∀ y ∈ xs, m ≤ y := by
  cases xs with
  | nil => simp [minOpt] at h
  | cons x xs =>
    simp only [minOpt, Option.some.injEq] at h
    subst h
    have h1 := foldl_min_le xs x
    have h2 := foldl_min_mem xs x
    refine ⟨?_, ?_⟩
    · rcases h2 with h | h
      · rw [h]; exact List.mem_cons_self
      · exact List.mem_cons_of_mem _ h
    · intro y hy
      rcases List.mem_cons.mp hy with rfl | hy
      · exact h1.1
      · exact h1.2 y hy

theorem minOpt_isSome {xs : List Int} (h : xs ≠ []) : ∃ m, minOpt xs = some m := by
  cases xs with
  | nil => exact absurd rfl h
  | cons x xs => exact ⟨_, rfl⟩

theorem minOpt_eq_none {xs : List Int} (h : minOpt xs = none) : xs = [] := by
  cases xs with
  | nil => rfl
  | cons x xs => simp [minOpt] at h

/-- the minimum is characterised by membership and being a lower bound -/
theorem minOpt_unique {xs : List Int} {m : Int} (hm : m ∈ xs) (hle : ∀ y ∈ xs, m ≤ y) :
    minOpt xs = some m := by
  obtain ⟨m', h'⟩ := minOpt_isSome (List.ne_nil_of_mem hm)
  obtain ⟨hm', hle'⟩ := minOpt_spec h'
  have : m' = m := Int.le_antisymm (hle' m hm) (hle m' hm')
  rw [h', this]

/-! ### the step-size pipeline -/

theorem requested_nonneg (std : Int) (mods : List (Option Nat)) (hstd : 0 ≤ std) :
    0 ≤ requested std mods := by
  unfold requested
  cases h : minOpt ((mods.filterMap id).map Int.ofNat) with
  | none => simpa using hstd
  | some m =>
    obtain ⟨hm, _⟩ := minOpt_spec h
    obtain ⟨v, _, rfl⟩ := List.mem_map.mp hm
    simp

theorem postProcess_ge (minStep std : Int) (mods : List (Option Nat)) (hm : 0 < minStep) (hstd : 0 ≤ std) :
    minStep ≤ postProcess minStep std mods := by
  unfold postProcess
  simp only
  have hq : 0 ≤ requested std mods / minStep :=
    Int.ediv_nonneg (requested_nonneg std mods hstd) (Int.le_of_lt hm)
  split
  · simp
  · rename_i h
    have : 1 ≤ requested std mods / minStep := by omega
    calc minStep = 1 * minStep := by simp
      _ ≤ _ := Int.mul_le_mul_of_nonneg_right this (Int.le_of_lt hm)

/-! ### field projections of the operations -/

@[simp] theorem updSim_id (c : Clock) (t : Int) (mods : Nat → List (Option Nat)) (s : SimClk) :
    (updSim c t mods s).id = s.id := by
  unfold updSim; split <;> rfl

/-- `step_forward` on a non-empty population, written out -/
theorem stepForward_nonempty (c : Clock) (mods : Nat → List (Option Nat)) (hne : c.sims ≠ []) :
    ∃ m, minOpt ((c.sims.map (updSim c (c.now + c.step) mods)).map (·.next)) = some m ∧
      stepForward c mods =
        { c with now := c.now + c.step, sims := c.sims.map (updSim c (c.now + c.step) mods),
                 snooze := if c.sims.any (needsUpdate c (c.now + c.step)) then [] else c.snooze,
                 step := m - (c.now + c.step) } := by
  have hne' : (c.sims.map (updSim c (c.now + c.step) mods)).map (·.next) ≠ [] := by
    cases hc : c.sims with
    | nil => exact absurd hc hne
    | cons a as => simp
  obtain ⟨m, hm⟩ := minOpt_isSome hne'
  refine ⟨m, hm, ?_⟩
  have he : c.sims.isEmpty = false := by
    cases hc : c.sims with
    | nil => exact absurd hc hne
    | cons a as => rfl
  unfold stepForward
  simp only [he, Bool.false_eq_true, ↓reduceIte, hm]

theorem stepForward_empty (c : Clock) (mods : Nat → List (Option Nat)) (he : c.sims = []) :
    stepForward c mods = { c with now := c.now + c.step } := by
  unfold stepForward
  simp [he]

@[simp] theorem stepForward_now (c : Clock) (mods : Nat → List (Option Nat)) :
    (stepForward c mods).now = c.now + c.step := by
  by_cases he : c.sims = []
  · rw [stepForward_empty c mods he]
  · obtain ⟨m, _, h⟩ := stepForward_nonempty c mods he
    rw [h]

@[simp] theorem stepForward_stop (c : Clock) (mods : Nat → List (Option Nat)) :
    (stepForward c mods).stop = c.stop := by
  by_cases he : c.sims = []
  · rw [stepForward_empty c mods he]
  · obtain ⟨m, _, h⟩ := stepForward_nonempty c mods he
    rw [h]

@[simp] theorem stepForward_minStep (c : Clock) (mods : Nat → List (Option Nat)) :
    (stepForward c mods).minStep = c.minStep := by
  by_cases he : c.sims = []
  · rw [stepForward_empty c mods he]
  · obtain ⟨m, _, h⟩ := stepForward_nonempty c mods he
    rw [h]

@[simp] theorem stepForward_stdStep (c : Clock) (mods : Nat → List (Option Nat)) :
    (stepForward c mods).stdStep = c.stdStep := by
  by_cases he : c.sims = []
  · rw [stepForward_empty c mods he]
  · obtain ⟨m, _, h⟩ := stepForward_nonempty c mods he
    rw [h]

theorem stepForward_sims (c : Clock) (mods : Nat → List (Option Nat)) :
    (stepForward c mods).sims = c.sims.map (updSim c (c.now + c.step) mods) := by
  by_cases he : c.sims = []
  · rw [stepForward_empty c mods he]; simp [he]
  · obtain ⟨m, _, h⟩ := stepForward_nonempty c mods he
    rw [h]

@[simp] theorem act_now (c : Clock) (a : Act) : (act c a).now = c.now := by
  cases a <;> simp [act, create, moveToEnd] <;> split <;> rfl

@[simp] theorem act_step (c : Clock) (a : Act) : (act c a).step = c.step := by
  cases a <;> simp [act, create, moveToEnd] <;> split <;> rfl

@[simp] theorem act_stop (c : Clock) (a : Act) : (act c a).stop = c.stop := by
  cases a <;> simp [act, create, moveToEnd] <;> split <;> rfl

@[simp] theorem act_minStep (c : Clock) (a : Act) : (act c a).minStep = c.minStep := by
  cases a <;> simp [act, create, moveToEnd] <;> split <;> rfl

@[simp] theorem act_stdStep (c : Clock) (a : Act) : (act c a).stdStep = c.stdStep := by
  cases a <;> simp [act, create, moveToEnd] <;> split <;> rfl

@[simp] theorem moveToEnd_sims (c : Clock) (ids : List Nat) : (moveToEnd c ids).sims = c.sims := by
  unfold moveToEnd; split <;> rfl

theorem mem_create (c : Clock) (k : Nat) (s : SimClk) :
    s ∈ (create c k).sims ↔ s ∈ c.sims ∨ ∃ j, j < k ∧ s = ⟨c.sims.length + j, eventTime c, c.step⟩ := by
  simp only [create, List.mem_append, List.mem_map, List.mem_range]
  constructor
  · rintro (h | ⟨j, hj, rfl⟩)
    · exact Or.inl h
    · exact Or.inr ⟨j, hj, rfl⟩
  · rintro (h | ⟨j, hj, rfl⟩)
    · exact Or.inl h
    · exact Or.inr ⟨j, hj, rfl⟩

end Viv.Clock
