import VivModel.Model.Components
/-! Helper lemmas for the component / configuration model (C20). Core Lean only. -/
namespace Viv.Components
open Viv.Gen (Act)

/-! ### `Except` plumbing -/

theorem bind_ok {ε α β : Type} (x : Except ε α) (g : α → Except ε β) (b : β) :
    (x >>= g) = .ok b ↔ ∃ a, x = .ok a ∧ g a = .ok b := by
  cases x <;> simp [bind, Except.bind]

theorem foldlM_cons_ok {σ α ε : Type} (f : σ → α → Except ε σ) (a : α) (l : List α) (s s' : σ) :
    (a :: l).foldlM f s = .ok s' ↔ ∃ s1, f s a = .ok s1 ∧ l.foldlM f s1 = .ok s' := by
  rw [List.foldlM_cons]; exact bind_ok _ _ _

theorem foldlM_nil_ok {σ α ε : Type} (f : σ → α → Except ε σ) (s s' : σ) :
    ([] : List α).foldlM f s = .ok s' ↔ s' = s := by
  simp [List.foldlM_nil, pure, Except.pure]; exact eq_comm

/-! ### Flattening -/

theorem sizeL_append (a b : List Tree) : sizeL (a ++ b) = sizeL a + sizeL b := by
  induction a with
  | nil => simp [sizeL]
  | cons t ts ih => simp [sizeL, ih]; omega

theorem sizeL_reverse (a : List Tree) : sizeL a.reverse = sizeL a := by
  induction a with
  | nil => simp
  | cons t ts ih => simp [sizeL_append, sizeL, ih]; omega

theorem preorderL_append (a b : List Tree) : preorderL (a ++ b) = preorderL a ++ preorderL b := by
  induction a with
  | nil => simp [preorderL]
  | cons t ts ih => simp [preorderL, ih]

theorem flattenLoop_eq (fuel : Nat) (stack out : List Tree) (h : sizeL stack < fuel) :
    flattenLoop fuel stack out = out ++ preorderL stack.reverse := by
  induction fuel generalizing stack out with
  | zero => omega
  | succ f ih =>
    unfold flattenLoop
    split
    · rename_i heq; simp [heq, preorderL]
    · rename_i n d cs below heq
      have hs : stack = below.reverse ++ [.node n d cs] := by
        have := congrArg List.reverse heq; simpa using this
      rw [ih]
      · simp [heq, preorderL, preorder, preorderL_append]
      · subst hs; simp [sizeL_append, sizeL_reverse, sizeL, size] at h ⊢; omega

theorem flatten_eq (ts : List Tree) : flatten ts = preorderL ts := by
  unfold flatten
  rw [flattenLoop_eq _ _ _ (by rw [sizeL_reverse]; omega)]
  simp

mutual
/-- occurrences of nodes satisfying `p` in a tree / forest (structural) -/
def countT (p : Tree → Bool) : Tree → Nat
  | .node n d cs => (if p (.node n d cs) then 1 else 0) + countL p cs
def countL (p : Tree → Bool) : List Tree → Nat
  | [] => 0
  | t :: ts => countT p t + countL p ts
end

mutual
theorem preorder_countP (p : Tree → Bool) : ∀ t, (preorder t).countP p = countT p t
  | .node n d cs => by
    simp only [preorder, countT, List.countP_cons, preorderL_countP p cs]; omega
theorem preorderL_countP (p : Tree → Bool) : ∀ ts, (preorderL ts).countP p = countL p ts
  | [] => by simp [preorderL, countL]
  | t :: ts => by
    simp only [preorderL, countL, List.countP_append, preorder_countP p t, preorderL_countP p ts]
end

mutual
theorem preorder_length : ∀ t, (preorder t).length = size t
  | .node n d cs => by simp only [preorder, size, List.length_cons, preorderL_length cs]; omega
theorem preorderL_length : ∀ ts, (preorderL ts).length = sizeL ts
  | [] => by simp [preorderL, sizeL]
  | t :: ts => by simp only [preorderL, sizeL, List.length_append, preorder_length t, preorderL_length ts]
end

mutual
theorem preorder_block : ∀ t x, x ∈ preorder t → ∃ a b, preorder t = a ++ preorder x ++ b
  | .node n d cs, x, h => by
    simp only [preorder, List.mem_cons] at h
    rcases h with h | h
    · subst h; exact ⟨[], [], by simp⟩
    · obtain ⟨a, b, hab⟩ := preorderL_block cs x h
      exact ⟨.node n d cs :: a, b, by simp [preorder, hab]⟩
theorem preorderL_block : ∀ ts x, x ∈ preorderL ts → ∃ a b, preorderL ts = a ++ preorder x ++ b
  | [], x, h => by simp [preorderL] at h
  | t :: ts, x, h => by
    simp only [preorderL, List.mem_append] at h
    rcases h with h | h
    · obtain ⟨a, b, hab⟩ := preorder_block t x h
      exact ⟨a, b ++ preorderL ts, by simp [preorderL, hab]⟩
    · obtain ⟨a, b, hab⟩ := preorderL_block ts x h
      exact ⟨preorder t ++ a, b, by simp [preorderL, hab]⟩
end

theorem preorder_eq (x : Tree) : preorder x = x :: preorderL x.children := by
  cases x; simp [preorder, Tree.children]

theorem mem_preorderL_of_mem (c : Tree) : ∀ cs : List Tree, c ∈ cs → c ∈ preorderL cs
  | [], h => by cases h
  | t :: ts, h => by
    simp only [preorderL, List.mem_append]
    rcases List.mem_cons.mp h with h | h
    · subst h; left; rw [preorder_eq]; exact List.mem_cons_self
    · right; exact mem_preorderL_of_mem c ts h

/-! ### Configuration and ordered sets -/
def Entry.key (e : Entry) : String × Path := (e.layer, e.path)
def Config.keys (c : Config) : List (String × Path) := c.entries.map Entry.key
/-- no leaf path lies strictly below another one (every key is either a leaf or a sub-tree, in all layers) -/
def Config.PF (c : Config) : Prop :=
  ∀ e1 ∈ c.entries, ∀ e2 ∈ c.entries, e1.path ≠ e2.path → Config.under e1.path e2.path = false

/-- at most one value per (layer, path): what `ConfigNode._values` (a dict per leaf) guarantees; and the
tree shape is consistent -/
def Config.WF (c : Config) : Prop := c.keys.Nodup ∧ c.PF

theorem wf_empty (c : Config) (h : c.entries = []) : c.WF := by
  simp [Config.WF, Config.keys, Config.PF, h]

theorem wf_of_entries (c c' : Config) (h : c'.entries = c.entries) (hwf : c.WF) : c'.WF := by
  simpa [Config.WF, Config.keys, Config.PF, h] using hwf

theorem has_iff (c : Config) (l : String) (p : Path) : c.has l p = true ↔ (l, p) ∈ c.keys := by
  simp [Config.has, Config.keys, Entry.key, List.any_eq_true]

theorem update_ok (c c' : Config) (l : String) (p : Path) (v : Val) :
    c.update l p v = .ok c' ↔
      c.frozen = false ∧ l ∈ layers ∧ (l, p) ∉ c.keys ∧
      c' = { c with entries := c.entries ++ [⟨l, p, v⟩] } ∧ c.conflicts p = false := by
  unfold Config.update
  by_cases hf : c.frozen = true
  · simp [hf]
  · by_cases hx : c.conflicts p = true
    · simp [hf, hx]
    · simp only [Bool.not_eq_true] at hx
      simp only [hx, and_true]
      by_cases hl : l ∈ layers
      · by_cases hh : c.has l p = true
        · have := (has_iff c l p).mp hh
          simp [hf, hl, hh, this]
        · have : (l, p) ∉ c.keys := fun h => hh ((has_iff c l p).mpr h)
          simp [hf, hl, hh, this]; exact eq_comm
      · simp [hf, hl]

theorem update_frozen (c : Config) (l : String) (p : Path) (v : Val) (h : c.frozen = true) :
    c.update l p v = .error .frozen := by simp [Config.update, h]

theorem update_wf (c c' : Config) (l p v) (h : c.update l p v = .ok c') (hwf : c.WF) : c'.WF := by
  obtain ⟨_, _, hk, rfl, hx⟩ := (update_ok c c' l p v).mp h
  have hx' : ∀ e ∈ c.entries, e.path ≠ p → Config.under e.path p = false ∧ Config.under p e.path = false := by
    intro e he hne
    have := hx
    simp only [Config.conflicts, List.any_eq_false, Bool.and_eq_true, Bool.or_eq_true, bne_iff_ne, ne_eq, not_and,
      not_or, Bool.not_eq_true] at this
    exact this e he hne
  constructor
  · have hwf := hwf.1
    unfold Config.keys at *
    simp only [List.map_append, List.map_cons, List.map_nil]
    rw [List.nodup_append]
    refine ⟨hwf, by simp, ?_⟩
    intro a ha b hb hab
    simp at hb; subst hb; subst hab
    exact hk ha
  · intro e1 h1 e2 h2 hne
    simp only [List.mem_append, List.mem_singleton] at h1 h2
    rcases h1 with h1 | h1 <;> rcases h2 with h2 | h2
    · exact hwf.2 e1 h1 e2 h2 hne
    · subst h2; exact (hx' e1 h1 hne).1
    · subst h1; exact (hx' e2 h2 (fun h => hne h.symm)).2
    · subst h1; subst h2; exact absurd rfl hne

def mkEntries (l : String) (kvs : Defaults) : List Entry := kvs.map fun kv => ⟨l, kv.1, kv.2⟩

theorem updateAll_ok (l : String) : ∀ (kvs : Defaults) (c c' : Config), c.updateAll l kvs = .ok c' →
    c'.frozen = c.frozen ∧ c'.entries = c.entries ++ mkEntries l kvs ∧ (c.WF → c'.WF)
  | [], c, c', h => by
    have := (foldlM_nil_ok _ c c').mp h
    subst this; simp [mkEntries]
  | kv :: kvs, c, c', h => by
    obtain ⟨c1, h1, h2⟩ := (foldlM_cons_ok _ kv kvs c c').mp h
    obtain ⟨hf, he, hw⟩ := updateAll_ok l kvs c1 c' h2
    have hwf1 := update_wf c c1 l kv.1 kv.2 h1
    obtain ⟨_, _, _, rfl, _⟩ := (update_ok c c1 l kv.1 kv.2).mp h1
    refine ⟨by simpa using hf, by simp [he, mkEntries], fun hwf => hw (hwf1 hwf)⟩

theorem add_ok (s s' : OrderedSet) (n : String) :
    OrderedSet.add s n = .ok s' ↔ n ∉ s ∧ s' = s ++ [n] := by
  unfold OrderedSet.add
  by_cases h : s.contains n = true
  · have : n ∈ s := by simpa using h
    simp [this]
  · have : n ∉ s := by simpa using h
    simp [this]; exact eq_comm

theorem addAll_ok : ∀ (ns : List String) (s s' : OrderedSet), OrderedSet.addAll s ns = .ok s' →
    s' = s ++ ns ∧ (s.Nodup → s'.Nodup)
  | [], s, s', h => by
    have := (foldlM_nil_ok _ s s').mp h
    subst this; simp
  | n :: ns, s, s', h => by
    obtain ⟨s1, h1, h2⟩ := (foldlM_cons_ok _ n ns s s').mp h
    obtain ⟨hn, rfl⟩ := (add_ok s s1 n).mp h1
    obtain ⟨he, hnd⟩ := addAll_ok ns _ s' h2
    refine ⟨by simp [he], fun hs => hnd ?_⟩
    rw [List.nodup_append]
    refine ⟨hs, by simp, ?_⟩
    intro a ha b hb hab
    simp at hb; subst hb; subst hab; exact hn ha

/-! ### Lookup -/
theorem key_inj_of_nodup : ∀ (es : List Entry), (es.map Entry.key).Nodup → ∀ a ∈ es, ∀ b ∈ es, a.key = b.key → a = b
  | [], _, a, ha, _, _, _ => by cases ha
  | e :: es, hnd, a, ha, b, hb, hk => by
    simp only [List.map_cons, List.nodup_cons] at hnd
    rcases List.mem_cons.mp ha with ha' | ha' <;> rcases List.mem_cons.mp hb with hb' | hb'
    · rw [ha', hb']
    · subst ha'; exact absurd (hk ▸ List.mem_map_of_mem hb') hnd.1
    · subst hb'; exact absurd (hk ▸ List.mem_map_of_mem ha') hnd.1
    · exact key_inj_of_nodup es hnd.2 a ha' b hb' hk

theorem atLayer_of_mem (c : Config) (hwf : c.WF) (l : String) (p : Path) (v : Val)
    (h : (⟨l, p, v⟩ : Entry) ∈ c.entries) : c.atLayer l p = some v := by
  unfold Config.atLayer
  cases hf : c.entries.find? (fun e => e.layer == l && e.path == p) with
  | none =>
    have := List.find?_eq_none.mp hf _ h
    simp at this
  | some e =>
    have hm := List.mem_of_find?_eq_some hf
    have hp := List.find?_some hf
    simp only [Bool.and_eq_true, beq_iff_eq] at hp
    have : e = ⟨l, p, v⟩ := key_inj_of_nodup c.entries hwf.1 e hm _ h (by simp [Entry.key, hp.1, hp.2])
    simp [this]

theorem atLayer_none (c : Config) (l : String) (p : Path)
    (h : ∀ e ∈ c.entries, ¬ (e.layer = l ∧ e.path = p)) : c.atLayer l p = none := by
  unfold Config.atLayer
  rw [Option.map_eq_none_iff, List.find?_eq_none]
  intro e he
  simpa using h e he

/-- the outermost layer that has a value for `p` determines what `get` returns -/
theorem getIn_split (c : Config) (p : Path) (v : Val) (pre post : List String) (l : String)
    (hl : c.atLayer l p = some v) (hpost : ∀ l' ∈ post, c.atLayer l' p = none) :
    Config.getIn (pre ++ l :: post) c p = some v := by
  unfold Config.getIn
  simp only [List.reverse_append, List.reverse_cons, List.findSome?_append, List.append_assoc]
  have : post.reverse.findSome? (fun l => c.atLayer l p) = none := by
    rw [List.findSome?_eq_none_iff]
    intro x hx; exact hpost x (by simpa using hx)
  simp [this, hl]

/-- after `del cfg.<key>` nothing at or below `key` has a value any more – frozen or not -/
theorem get_delete_none (c : Config) (key : String) (p : Path) (h : Config.under key p = true) :
    (c.delete key).get p = none := by
  unfold Config.get Config.getIn
  rw [List.findSome?_eq_none_iff]
  intro l _
  apply atLayer_none
  intro e he ⟨_, hp⟩
  simp only [Config.delete, List.mem_filter] at he
  rw [hp, h] at he
  simp at he

/-! ### Registration -/

/-- a registration step only appends configuration entries; everything about setup is untouched -/
structure Grows (s s' : Sim) (added : List Entry) : Prop where
  entries : s'.cfg.entries = s.cfg.entries ++ added
  frozen  : s'.cfg.frozen = s.cfg.frozen
  started : s'.started = s.started
  log     : s'.log = s.log
  seen    : s'.seen = s.seen
  tried   : s'.tried = s.tried
  wf      : s.cfg.WF → s'.cfg.WF

theorem Grows.refl (s : Sim) : Grows s s [] := ⟨by simp, rfl, rfl, rfl, rfl, rfl, id⟩

theorem Grows.trans {s s1 s2 : Sim} {a b : List Entry} (h1 : Grows s s1 a) (h2 : Grows s1 s2 b) :
    Grows s s2 (a ++ b) :=
  ⟨by rw [h2.entries, h1.entries, List.append_assoc], h2.frozen.trans h1.frozen, h2.started.trans h1.started,
   h2.log.trans h1.log, h2.seen.trans h1.seen, h2.tried.trans h1.tried, fun h => h2.wf (h1.wf h)⟩

def userEntry (u : String × Path × Val) : Entry := ⟨(layerOfUpdate u.1).getD "", u.2.1, u.2.2⟩

theorem userSet_ok (s s' : Sim) (what : String) (p : Path) (v : Val) (h : userSet s what p v = .ok s') :
    (what = "model_specification" ∨ what = "configuration" ∨ what = "user_config_path") ∧
    Grows s s' [userEntry (what, p, v)] ∧ s'.managers = s.managers ∧ s'.components = s.components := by
  unfold userSet at h
  split at h
  · cases h
  · rename_i hw
    have hw' : what = "model_specification" ∨ what = "configuration" ∨ what = "user_config_path" := by
      by_cases h1 : what = "model_specification"
      · exact Or.inl h1
      · by_cases h2 : what = "configuration"
        · exact Or.inr (Or.inl h2)
        · by_cases h3 : what = "user_config_path"
          · exact Or.inr (Or.inr h3)
          · exact absurd ⟨h1, h2, h3⟩ hw
    split at h
    · cases h
    · rename_i l hl
      obtain ⟨cfg, hc, hp⟩ := (bind_ok _ _ _).mp h
      simp only [pure, Except.pure, Except.ok.injEq] at hp
      subst hp
      have hwf := update_wf _ _ _ _ _ hc
      obtain ⟨_, _, _, rfl, _⟩ := (update_ok _ _ _ _ _).mp hc
      exact ⟨hw', ⟨by simp [userEntry, hl], rfl, rfl, rfl, rfl, rfl, hwf⟩, rfl, rfl⟩

theorem applyDefaults_ok (c c' : Config) (d : Defaults) (h : applyDefaults c d = .ok c') :
    c'.frozen = c.frozen ∧ c'.entries = c.entries ++ mkEntries defaultsLayer d ∧ (c.WF → c'.WF) :=
  updateAll_ok defaultsLayer d c c' h

theorem addManager_ok (s s' : Sim) (n : String) (d : Defaults) (h : addManager s n d = .ok s') :
    Grows s s' (mkEntries defaultsLayer d) ∧ s'.managers = s.managers ++ [n] ∧ n ∉ s.managers ∧
    s'.components = s.components := by
  unfold addManager at h
  obtain ⟨cfg, hc, h⟩ := (bind_ok _ _ _).mp h
  obtain ⟨ms, hm, h⟩ := (bind_ok _ _ _).mp h
  simp only [pure, Except.pure, Except.ok.injEq] at h
  subst h
  obtain ⟨hf, he, hw⟩ := applyDefaults_ok _ _ _ hc
  obtain ⟨hn, rfl⟩ := (add_ok _ _ _).mp hm
  exact ⟨⟨he, hf, rfl, rfl, rfl, rfl, hw⟩, rfl, hn, rfl⟩

theorem registerOne_ok (s s' : Sim) (t : Tree) (h : registerOne s t = .ok s') :
    Grows s s' (mkEntries defaultsLayer t.defaults) ∧ s'.components = s.components ++ [t.name] ∧
    t.name ∉ s.components ∧ s'.managers = s.managers := by
  unfold registerOne at h
  obtain ⟨cfg, hc, h⟩ := (bind_ok _ _ _).mp h
  obtain ⟨cs, hm, h⟩ := (bind_ok _ _ _).mp h
  simp only [pure, Except.pure, Except.ok.injEq] at h
  subst h
  obtain ⟨hf, he, hw⟩ := applyDefaults_ok _ _ _ hc
  obtain ⟨hn, rfl⟩ := (add_ok _ _ _).mp hm
  exact ⟨⟨he, hf, rfl, rfl, rfl, rfl, hw⟩, rfl, hn, rfl⟩

theorem nodup_of_map {α β : Type} (f : α → β) : ∀ l : List α, (l.map f).Nodup → l.Nodup
  | [], _ => List.nodup_nil
  | a :: l, h => by
    simp only [List.map_cons, List.nodup_cons] at h ⊢
    exact ⟨fun ha => h.1 (List.mem_map_of_mem ha), nodup_of_map f l h.2⟩

theorem nodup_snoc {α : Type} (l : List α) (a : α) (h : l.Nodup) (ha : a ∉ l) : (l ++ [a]).Nodup := by
  rw [List.nodup_append]
  refine ⟨h, by simp, ?_⟩
  intro x hx y hy hxy
  simp at hy; subst hy; subst hxy; exact ha hx

theorem users_ok : ∀ (us : List (String × Path × Val)) (s s' : Sim),
    us.foldlM (fun s u => userSet s u.1 u.2.1 u.2.2) s = .ok s' →
    (∀ u ∈ us, u.1 = "model_specification" ∨ u.1 = "configuration" ∨ u.1 = "user_config_path") ∧
    Grows s s' (us.map userEntry) ∧ s'.managers = s.managers ∧ s'.components = s.components
  | [], s, s', h => by
    have := (foldlM_nil_ok _ s s').mp h
    subst this; exact ⟨by simp, Grows.refl _, rfl, rfl⟩
  | u :: us, s, s', h => by
    obtain ⟨s1, h1, h2⟩ := (foldlM_cons_ok _ u us s s').mp h
    obtain ⟨hw, hg, hm, hc⟩ := userSet_ok _ _ _ _ _ h1
    obtain ⟨hw', hg', hm', hc'⟩ := users_ok us s1 s' h2
    refine ⟨?_, by simpa using hg.trans hg', hm'.trans hm, hc'.trans hc⟩
    intro x hx
    rcases List.mem_cons.mp hx with hx | hx
    · subst hx; exact hw
    · exact hw' x hx

def mgrEntries (ms : List (String × Defaults)) : List Entry := ms.flatMap fun m => mkEntries defaultsLayer m.2

theorem mgrs_ok : ∀ (ms : List (String × Defaults)) (s s' : Sim),
    ms.foldlM (fun s m => addManager s m.1 m.2) s = .ok s' →
    Grows s s' (mgrEntries ms) ∧ s'.managers = s.managers ++ ms.map (·.1) ∧
    (s.managers.Nodup → s'.managers.Nodup) ∧ s'.components = s.components
  | [], s, s', h => by
    have := (foldlM_nil_ok _ s s').mp h
    subst this; exact ⟨by simpa [mgrEntries] using Grows.refl s', by simp, id, rfl⟩
  | m :: ms, s, s', h => by
    obtain ⟨s1, h1, h2⟩ := (foldlM_cons_ok _ m ms s s').mp h
    obtain ⟨hg, hm, hn, hc⟩ := addManager_ok _ _ _ _ h1
    obtain ⟨hg', hm', hn', hc'⟩ := mgrs_ok ms s1 s' h2
    refine ⟨by simpa [mgrEntries] using hg.trans hg', by simp [hm', hm], ?_, hc'.trans hc⟩
    intro hs; apply hn'; rw [hm]; exact nodup_snoc _ _ hs hn

def compEntries (l : List Tree) : List Entry := l.flatMap fun t => mkEntries defaultsLayer t.defaults

theorem registerAll_ok : ∀ (l : List Tree) (s s' : Sim), l.foldlM registerOne s = .ok s' →
    Grows s s' (compEntries l) ∧ s'.components = s.components ++ l.map Tree.name ∧
    (s.components.Nodup → s'.components.Nodup) ∧ s'.managers = s.managers
  | [], s, s', h => by
    have := (foldlM_nil_ok _ s s').mp h
    subst this; exact ⟨by simpa [compEntries] using Grows.refl s', by simp, id, rfl⟩
  | t :: l, s, s', h => by
    obtain ⟨s1, h1, h2⟩ := (foldlM_cons_ok _ t l s s').mp h
    obtain ⟨hg, hc, hn, hm⟩ := registerOne_ok _ _ _ h1
    obtain ⟨hg', hc', hn', hm'⟩ := registerAll_ok l s1 s' h2
    refine ⟨by simpa [compEntries] using hg.trans hg', by simp [hc', hc], ?_, hm'.trans hm⟩
    intro hs; apply hn'; rw [hc]; exact nodup_snoc _ _ hs hn

theorem addComponents_ok (s s' : Sim) (ts : List Tree) (h : addComponents s ts = .ok s') :
    s.started = false ∧ Grows s s' (compEntries (preorderL ts)) ∧
    s'.components = s.components ++ (preorderL ts).map Tree.name ∧
    (s.components.Nodup → s'.components.Nodup) ∧ s'.managers = s.managers := by
  unfold addComponents at h
  split at h
  · cases h
  · rename_i hs
    unfold register at h
    rw [flatten_eq] at h
    exact ⟨by simpa using hs, registerAll_ok _ _ _ h⟩

/-! ### Setup -/

theorem get_of_entries (c c' : Config) (h : c'.entries = c.entries) : c'.get = c.get := by
  funext p; simp [Config.get, Config.getIn, Config.atLayer, h]

/-- a setup step never touches the two sets, the frozen flag or the lifecycle flag, and appends to
the three logs -/
structure Steps (s s' : Sim) (names : List String) : Prop where
  managers   : s'.managers = s.managers
  components : s'.components = s.components
  frozen     : s'.cfg.frozen = s.cfg.frozen
  started    : s'.started = s.started
  log        : s'.log = s.log ++ names

theorem Steps.refl (s : Sim) : Steps s s [] := ⟨rfl, rfl, rfl, rfl, by simp⟩
theorem Steps.trans {s s1 s2 : Sim} {a b : List String} (h1 : Steps s s1 a) (h2 : Steps s1 s2 b) :
    Steps s s2 (a ++ b) :=
  ⟨h2.managers.trans h1.managers, h2.components.trans h1.components, h2.frozen.trans h1.frozen,
   h2.started.trans h1.started, by rw [h2.log, h1.log, List.append_assoc]⟩

theorem tryWrite_steps (s : Sim) (a : String × Path × Val) : Steps s (tryWrite s a) [] := by
  unfold tryWrite
  split
  · rename_i c hc
    obtain ⟨_, _, _, rfl, _⟩ := (update_ok _ _ _ _ _).mp hc
    exact ⟨rfl, rfl, rfl, rfl, by simp⟩
  · exact ⟨rfl, rfl, rfl, rfl, by simp⟩

theorem foldl_tryWrite_steps : ∀ (as : List (String × Path × Val)) (s : Sim), Steps s (as.foldl tryWrite s) []
  | [], s => Steps.refl s
  | a :: as, s => by
    simpa using (tryWrite_steps s a).trans (foldl_tryWrite_steps as (tryWrite s a))

theorem setupOne_steps (sc : Script) (s : Sim) (n : String) : Steps s (setupOne sc s n) [n] := by
  unfold setupOne
  have h1 : Steps s { s with log := s.log ++ [n], seen := s.seen ++ [(n, sc.probes.map s.cfg.get)] } [n] :=
    ⟨rfl, rfl, rfl, rfl, rfl⟩
  simpa using h1.trans (foldl_tryWrite_steps _ _)

theorem foldl_setupOne_steps (sc : Script) : ∀ (ns : List String) (s : Sim), Steps s (ns.foldl (setupOne sc) s) ns
  | [], s => Steps.refl s
  | n :: ns, s => by
    simpa using (setupOne_steps sc s n).trans (foldl_setupOne_steps sc ns (setupOne sc s n))

theorem setupComponents_ok (sc : Script) (s s' : Sim) (h : setupComponents sc s = .ok s') :
    (s.managers ++ s.components).Nodup ∧ Steps s s' (s.managers ++ s.components) := by
  unfold setupComponents at h
  obtain ⟨all, ha, h⟩ := (bind_ok _ _ _).mp h
  simp only [pure, Except.pure, Except.ok.injEq] at h
  subst h
  obtain ⟨he, hn⟩ := addAll_ok _ _ _ ha
  simp only [List.nil_append] at he
  subst he
  exact ⟨hn List.nodup_nil, foldl_setupOne_steps sc _ s⟩

/-- with a frozen configuration nothing is written: entries unchanged, every attempt refused, and every
object that is set up reads the values the configuration had before -/
structure Quiet (sc : Script) (s s' : Sim) : Prop where
  entries : s'.cfg.entries = s.cfg.entries
  tried   : ∃ new, s'.tried = s.tried ++ new ∧ ∀ x ∈ new, x.2.2 = false
  seen    : ∃ new, s'.seen = s.seen ++ new ∧ ∀ x ∈ new, x.2 = sc.probes.map s.cfg.get

theorem Quiet.refl (sc : Script) (s : Sim) : Quiet sc s s := ⟨rfl, ⟨[], by simp⟩, ⟨[], by simp⟩⟩

theorem Quiet.trans {sc : Script} {s s1 s2 : Sim} (h1 : Quiet sc s s1) (h2 : Quiet sc s1 s2) : Quiet sc s s2 := by
  obtain ⟨t1, ht1, hf1⟩ := h1.tried
  obtain ⟨t2, ht2, hf2⟩ := h2.tried
  obtain ⟨n1, hn1, hs1⟩ := h1.seen
  obtain ⟨n2, hn2, hs2⟩ := h2.seen
  refine ⟨h2.entries.trans h1.entries, ⟨t1 ++ t2, by rw [ht2, ht1, List.append_assoc], ?_⟩,
          ⟨n1 ++ n2, by rw [hn2, hn1, List.append_assoc], ?_⟩⟩
  · intro x hx; rcases List.mem_append.mp hx with hx | hx
    · exact hf1 x hx
    · exact hf2 x hx
  · intro x hx; rcases List.mem_append.mp hx with hx | hx
    · exact hs1 x hx
    · rw [hs2 x hx, get_of_entries s.cfg s1.cfg h1.entries]

theorem tryWrite_frozen (sc : Script) (s : Sim) (a : String × Path × Val) (hf : s.cfg.frozen = true) :
    Quiet sc s (tryWrite s a) ∧ (tryWrite s a).cfg.frozen = true := by
  unfold tryWrite
  rw [update_frozen _ _ _ _ hf]
  exact ⟨⟨rfl, ⟨[(a.1, a.2.1, false)], rfl, by simp⟩, ⟨[], by simp⟩⟩, hf⟩

theorem foldl_tryWrite_frozen (sc : Script) : ∀ (as : List (String × Path × Val)) (s : Sim),
    s.cfg.frozen = true → Quiet sc s (as.foldl tryWrite s) ∧ (as.foldl tryWrite s).cfg.frozen = true
  | [], s, hf => ⟨Quiet.refl sc s, hf⟩
  | a :: as, s, hf => by
    obtain ⟨q1, f1⟩ := tryWrite_frozen sc s a hf
    obtain ⟨q2, f2⟩ := foldl_tryWrite_frozen sc as (tryWrite s a) f1
    exact ⟨q1.trans q2, f2⟩

theorem setupOne_frozen (sc : Script) (s : Sim) (n : String) (hf : s.cfg.frozen = true) :
    Quiet sc s (setupOne sc s n) ∧ (setupOne sc s n).cfg.frozen = true := by
  unfold setupOne
  have q1 : Quiet sc s { s with log := s.log ++ [n], seen := s.seen ++ [(n, sc.probes.map s.cfg.get)] } :=
    ⟨rfl, ⟨[], by simp⟩, ⟨[(n, sc.probes.map s.cfg.get)], rfl, by simp⟩⟩
  obtain ⟨q2, f2⟩ := foldl_tryWrite_frozen sc (sc.attempts.filter (·.1 == n))
    { s with log := s.log ++ [n], seen := s.seen ++ [(n, sc.probes.map s.cfg.get)] } hf
  exact ⟨q1.trans q2, f2⟩

theorem foldl_setupOne_frozen (sc : Script) : ∀ (ns : List String) (s : Sim), s.cfg.frozen = true →
    Quiet sc s (ns.foldl (setupOne sc) s)
  | [], s, _ => Quiet.refl sc s
  | n :: ns, s, hf => by
    obtain ⟨q1, f1⟩ := setupOne_frozen sc s n hf
    exact q1.trans (foldl_setupOne_frozen sc ns _ f1)

theorem setupComponents_frozen (sc : Script) (s s' : Sim) (h : setupComponents sc s = .ok s')
    (hf : s.cfg.frozen = true) : Quiet sc s s' := by
  unfold setupComponents at h
  obtain ⟨all, _, h⟩ := (bind_ok _ _ _).mp h
  simp only [pure, Except.pure, Except.ok.injEq] at h
  subst h
  exact foldl_setupOne_frozen sc all s hf

/-! ### The generated action list of `SimulationContext.setup` -/

/-- every `.setupComponents` of the action list is preceded by a `.freeze` (or the configuration is
frozen to begin with) -/
def frozenFirst : Bool → List Act → Bool
  | _, [] => true
  | fr, a :: r =>
    match a with
    | .freeze => frozenFirst true r
    | .setupComponents => fr && frozenFirst fr r
    | _ => frozenFirst fr r

def endsFrozen : Bool → List Act → Bool
  | fr, [] => fr
  | fr, a :: r => match a with
    | .freeze => endsFrozen true r
    | _ => endsFrozen fr r

def endsStarted : Bool → List Act → Bool
  | st, [] => st
  | st, a :: r => match a with
    | .set _ => endsStarted true r
    | _ => endsStarted st r

def nSetup : List Act → Nat
  | [] => 0
  | a :: r => match a with
    | .setupComponents => nSetup r + 1
    | _ => nSetup r

theorem runActs_quiet (sc : Script) : ∀ (acts : List Act) (s s' : Sim), runActs sc acts s = .ok s' →
    frozenFirst s.cfg.frozen acts = true → Quiet sc s s'
  | [], s, s', h, _ => by
    have := (foldlM_nil_ok _ s s').mp h
    subst this; exact Quiet.refl sc _
  | a :: r, s, s', h, hff => by
    obtain ⟨s1, h1, h2⟩ := (foldlM_cons_ok _ a r s s').mp h
    cases a with
    | freeze =>
      simp only [act, Except.ok.injEq] at h1
      subst h1
      have q : Quiet sc s { s with cfg := s.cfg.freeze } := ⟨rfl, ⟨[], by simp⟩, ⟨[], by simp⟩⟩
      exact q.trans (runActs_quiet sc r _ s' h2 (by simpa [frozenFirst, Config.freeze] using hff))
    | setupComponents =>
      simp only [act] at h1
      simp only [frozenFirst, Bool.and_eq_true] at hff
      have q1 := setupComponents_frozen sc s s1 h1 hff.1
      have st := (setupComponents_ok sc s s1 h1).2
      exact q1.trans (runActs_quiet sc r s1 s' h2 (by rw [st.frozen]; exact hff.2))
    | set x =>
      simp only [act, Except.ok.injEq] at h1
      subst h1
      have q : Quiet sc s { s with started := true } := ⟨rfl, ⟨[], by simp⟩, ⟨[], by simp⟩⟩
      exact q.trans (runActs_quiet sc r _ s' h2 (by simpa [frozenFirst] using hff))
    | _ =>
      simp only [act, Except.ok.injEq] at h1
      subst h1
      exact runActs_quiet sc r _ s' h2 (by simpa [frozenFirst] using hff)

theorem runActs_steps (sc : Script) : ∀ (acts : List Act) (s s' : Sim), runActs sc acts s = .ok s' →
    s'.managers = s.managers ∧ s'.components = s.components ∧
    s'.cfg.frozen = endsFrozen s.cfg.frozen acts ∧ s'.started = endsStarted s.started acts ∧
    s'.log = s.log ++ (List.replicate (nSetup acts) (s.managers ++ s.components)).flatten ∧
    (0 < nSetup acts → (s.managers ++ s.components).Nodup)
  | [], s, s', h => by
    have := (foldlM_nil_ok _ s s').mp h
    subst this; simp [endsFrozen, endsStarted, nSetup]
  | a :: r, s, s', h => by
    obtain ⟨s1, h1, h2⟩ := (foldlM_cons_ok _ a r s s').mp h
    obtain ⟨hm, hc, hf, hs, hl, hn⟩ := runActs_steps sc r s1 s' h2
    cases a with
    | freeze =>
      simp only [act, Except.ok.injEq] at h1
      subst h1
      exact ⟨hm, hc, by simpa [endsFrozen, Config.freeze] using hf, by simpa [endsStarted] using hs,
             by simpa [nSetup] using hl, by simpa [nSetup] using hn⟩
    | setupComponents =>
      simp only [act] at h1
      obtain ⟨hnd, st⟩ := setupComponents_ok sc s s1 h1
      refine ⟨hm.trans st.managers, hc.trans st.components, by simpa [endsFrozen, st.frozen] using hf,
              by simpa [endsStarted, st.started] using hs, ?_, fun _ => hnd⟩
      rw [hl, st.log, st.managers, st.components]
      simp [nSetup, List.replicate_succ]
    | set x =>
      simp only [act, Except.ok.injEq] at h1
      subst h1
      exact ⟨hm, hc, by simpa [endsFrozen] using hf, by simpa [endsStarted] using hs,
             by simpa [nSetup] using hl, by simpa [nSetup] using hn⟩
    | _ =>
      simp only [act, Except.ok.injEq] at h1
      subst h1
      exact ⟨hm, hc, by simpa [endsFrozen] using hf, by simpa [endsStarted] using hs,
             by simpa [nSetup] using hl, by simpa [nSetup] using hn⟩

theorem setup_ok (sc : Script) (s s' : Sim) (h : setup sc s = .ok s') :
    s.started = false ∧ runActs sc setupActs s = .ok s' := by
  unfold setup at h
  split at h
  · cases h
  · rename_i hs; exact ⟨by simpa using hs, h⟩

/-- the four stages of `simulate` -/
theorem simulate_ok (sc : Script) (user : List (String × Path × Val)) (mgrs : List (String × Defaults))
    (ts : List Tree) (s : Sim) (h : simulate sc user mgrs ts = .ok s) :
    ∃ s1 s2 s3, user.foldlM (fun s u => userSet s u.1 u.2.1 u.2.2) ({} : Sim) = .ok s1 ∧
      mgrs.foldlM (fun s m => addManager s m.1 m.2) s1 = .ok s2 ∧
      addComponents s2 ts = .ok s3 ∧ setup sc s3 = .ok s := by
  unfold simulate at h
  obtain ⟨s1, h1, h⟩ := (bind_ok _ _ _).mp h
  obtain ⟨s2, h2, h⟩ := (bind_ok _ _ _).mp h
  obtain ⟨s3, h3, h⟩ := (bind_ok _ _ _).mp h
  exact ⟨s1, s2, s3, h1, h2, h3, h⟩

/-- state in which `setup()` is entered after a successful bootstrap -/
theorem bootstrap_ok (user : List (String × Path × Val)) (mgrs : List (String × Defaults)) (ts : List Tree)
    (s1 s2 s3 : Sim)
    (h1 : user.foldlM (fun s u => userSet s u.1 u.2.1 u.2.2) ({} : Sim) = .ok s1)
    (h2 : mgrs.foldlM (fun s m => addManager s m.1 m.2) s1 = .ok s2)
    (h3 : addComponents s2 ts = .ok s3) :
    (∀ u ∈ user, u.1 = "model_specification" ∨ u.1 = "configuration" ∨ u.1 = "user_config_path") ∧
    s3.cfg.entries = user.map userEntry ++ mgrEntries mgrs ++ compEntries (preorderL ts) ∧
    s3.cfg.WF ∧ s3.cfg.frozen = false ∧ s3.started = false ∧ s3.log = [] ∧ s3.seen = [] ∧ s3.tried = [] ∧
    s3.managers = mgrs.map (·.1) ∧ s3.components = (preorderL ts).map Tree.name := by
  obtain ⟨hu, g1, m1, c1⟩ := users_ok _ _ _ h1
  obtain ⟨g2, m2, _, c2⟩ := mgrs_ok _ _ _ h2
  obtain ⟨_, g3, c3, _, m3⟩ := addComponents_ok _ _ _ h3
  have g := (g1.trans g2).trans g3
  refine ⟨hu, by simpa using g.entries, g.wf (wf_empty _ rfl), by simpa using g.frozen,
          by simpa using g.started, by simpa using g.log, by simpa using g.seen, by simpa using g.tried, ?_, ?_⟩
  · rw [m3, m2, m1]; simp
  · rw [c3, c2, c1]; simp

end Viv.Components
