import VivModel.Model.Components
/-! Helper lemmas for the component / configuration model (C20). Core Lean only. -/
namespace Viv.Components
open Viv.Gen (Act)

/-! ### `Except` plumbing -/

theorem bind_ok {ε α β : Type} (x : Except ε α) (g : α → Except ε β) (b : β) :
    (x >>= g) = .ok b ↔ ∃ a, x = .ok a ∧ g a = .ok b := by
  cases x <;> simp [bind, Except.bind]

theorem foldlM_cons_ok {σ α ε : Type} (f : σ → α → Except ε σ) (a : α) (l : List α) (s s' : σ) :
    (a :: l).foldlM f s = .ok s' ↔ ∃ s1, f s a = .ok s1 ∧ l.foldlM f s1 = .ok s' := by
  rw [List.foldlM_cons]; exact bind_ok _ _ _

theorem foldlM_nil_ok {σ α ε : Type} (f : σ → α → Except ε σ) (s s' : σ) :
    ([] : List α).foldlM f s = .ok s' ↔ s' = s := by
  simp [List.foldlM_nil, pure, Except.pure]; exact eq_comm

/-! ### Flattening -/

theorem sizeL_append (a b : List Tree) : sizeL (a ++ b) = sizeL a + sizeL b := by
  induction a with
  | nil => simp [sizeL]
  | cons t ts ih => simp [sizeL, ih]; omega

theorem sizeL_reverse (a : List Tree) : sizeL a.reverse = sizeL a := by
  induction a with
  | nil => simp
  | cons t ts ih => simp [sizeL_append, sizeL, ih]; omega

theorem preorderL_append (a b : List Tree) : preorderL (a ++ b) = preorderL a ++ preorderL b := by
  induction a with
  | nil => simp [preorderL]
  | cons t ts ih => simp [preorderL, ih]

theorem flattenLoop_eq (fuel : Nat) (stack out : List Tree) (h : sizeL stack < fuel) :
    flattenLoop fuel stack out = out ++ preorderL stack.reverse := by
  induction fuel generalizing stack out with
  | zero => omega
  | succ f ih =>
    unfold flattenLoop
    split
    · rename_i heq; simp [heq, preorderL]
    · rename_i n d cs below heq
      have hs : stack = below.reverse ++ [.node n d cs] := by
        have := congrArg List.reverse heq; simpa using this
      rw [ih]
      · simp [heq, preorderL, preorder, preorderL_append]
      · subst hs; simp [sizeL_append, sizeL_reverse, sizeL, size] at h ⊢; omega

theorem flatten_eq (ts : List Tree) : flatten ts = preorderL ts := by
  unfold flatten
  rw [flattenLoop_eq _ _ _ (by rw [sizeL_reverse]; omega)]
  simp

mutual
/-- occurrences of nodes satisfying `p` in a tree / forest (structural) -/
def countT (p : Tree → Bool) : Tree → Nat
  | .node n d cs => (if p (.node n d cs) then 1 else 0) + countL p cs
def countL (p : Tree → Bool) : List Tree → Nat
  | [] => 0
  | t :: ts => countT p t + countL p ts
end

mutual
theorem preorder_countP (p : Tree → Bool) : ∀ t, (preorder t).countP p = countT p t
  | .node n d cs => by
    simp only [preorder, countT, List.countP_cons, preorderL_countP p cs]; omega
theorem preorderL_countP (p : Tree → Bool) : ∀ ts, (preorderL ts).countP p = countL p ts
  | [] => by simp [preorderL, countL]
  | t :: ts => by
    simp only [preorderL, countL, List.countP_append, preorder_countP p t, preorderL_countP p ts]
end

mutual
theorem preorder_length : ∀ t, (preorder t).length = size t
  | .node n d cs => by simp only [preorder, size, List.length_cons, preorderL_length cs]; omega
theorem preorderL_length : ∀ ts, (preorderL ts).length = sizeL ts
  | [] => by simp [preorderL, sizeL]
  | t :: ts => by simp only [preorderL, sizeL, List.length_append, preorder_length t, preorderL_length ts]
end

mutual
theorem preorder_block : ∀ t x, x ∈ preorder t → ∃ a b, preorder t = a ++ preorder x ++ b
  | .node n d cs, x, h => by
    simp only [preorder, List.mem_cons] at h
    rcases h with h | h
    · subst h; exact ⟨[], [], by simp⟩
    · obtain ⟨a, b, hab⟩ := preorderL_block cs x h
      exact ⟨.node n d cs :: a, b, by simp [preorder, hab]⟩
theorem preorderL_block : ∀ ts x, x ∈ preorderL ts → ∃ a b, preorderL ts = a ++ preorder x ++ b
  | [], x, h => by simp [preorderL] at h
  | t :: ts, x, h => by
    simp only [preorderL, List.mem_append] at h
    rcases h with h | h
    · obtain ⟨a, b, hab⟩ := preorder_block t x h
      exact ⟨a, b ++ preorderL ts, by simp [preorderL, hab]⟩
    · obtain ⟨a, b, hab⟩ := preorderL_block ts x h
      exact ⟨preorder t ++ a, b, by simp [preorderL, hab]⟩
end

theorem preorder_eq (x : Tree) : preorder x = x :: preorderL x.children := by
  cases x; simp [preorder, Tree.children]

theorem mem_preorderL_of_mem (c : Tree) : ∀ cs : List Tree, c ∈ cs → c ∈ preorderL cs
  | [], h => by cases h
  | t :: ts, h => by
    simp only [preorderL, List.mem_append]
    rcases List.mem_cons.mp h with h | h
    · subst h; left; rw [preorder_eq]; exact List.mem_cons_self
    · right; exact mem_preorderL_of_mem c ts h

/-! ### Configuration and ordered sets -/
def Entry.key (e : Entry) : String × Path := (e.layer, e.path)
def Config.keys (c : Config) : List (String × Path) := c.entries.map Entry.key
/-- no leaf path lies strictly below another one (every key is either a leaf or a sub-tree, in all layers) -/
def Config.PF (c : Config) : Prop :=
  ∀ e1 ∈ c.entries, ∀ e2 ∈ c.entries, e1.path ≠ e2.path → Config.under e1.path e2.path = false

/-- at most one value per (layer, path): what `ConfigNode._values` (a dict per leaf) guarantees; and the
tree shape is consistent -/
def Config.WF (c : Config) : Prop := c.keys.Nodup ∧ c.PF

theorem wf_empty (c : Config) (h : c.entries = []) : c.WF := by
  simp [Config.WF, Config.keys, Config.PF, h]

theorem wf_of_entries (c c' : Config) (h : c'.entries = c.entries) (hwf : c.WF) : c'.WF := by
  simpa [Config.WF, Config.keys, Config.PF, h] using hwf

theorem has_iff (c : Config) (l : String) (p : Path) : c.has l p = true ↔ (l, p) ∈ c.keys := by
  simp [Config.has, Config.keys, Entry.key, List.any_eq_true]

theorem update_ok (c c' : Config) (l : String) (p : Path) (v : Val) :
    c.update l p v = .ok c' ↔
      c.frozen = false ∧ l ∈ layers ∧ (l, p) ∉ c.keys ∧
      c' = { c with entries := c.entries ++ [⟨l, p, v⟩] } ∧ c.conflicts p = false := by
  unfold Config.update
  by_cases hf : c.frozen = true
  · simp [hf]
  · by_cases hx : c.conflicts p = true
    · simp [hf, hx]
    · simp only [Bool.not_eq_true] at hx
      simp only [hx, and_true]
      by_cases hl : l ∈ layers
      · by_cases hh : c.has l p = true
        · have := (has_iff c l p).mp hh
          simp [hf, hl, hh, this]
        · have : (l, p) ∉ c.keys := fun h => hh ((has_iff c l p).mpr h)
          simp [hf, hl, hh, this]; exact eq_comm
      · simp [hf, hl]

theorem update_frozen (c : Config) (l : String) (p : Path) (v : Val) (h : c.frozen = true) :
    c.update l p v = .error .frozen := by simp [Config.update, h]

theorem update_wf (c c' : Config) (l p v) (h : c.update l p v = .ok c') (hwf : c.WF) : c'.WF := by
  obtain ⟨_, _, hk, rfl, hx⟩ := (update_ok c c' l p v).mp h
  have hx' : ∀ e ∈ c.entries, e.path ≠ p → Config.under e.path p = false ∧ Config.under p e.path = false := by
    intro e he hne
    have := hx
    simp only [Config.conflicts, List.any_eq_false, Bool.and_eq_true, Bool.or_eq_true, bne_iff_ne, ne_eq, not_and,
      not_or, Bool.not_eq_true] at this
    exact this e he hne
  constructor
  · have hwf := hwf.1
    unfold Config.keys at *
    simp only [List.map_append, List.map_cons, List.map_nil]
    rw [List.nodup_append]
    refine ⟨hwf, by simp, ?_⟩
    intro a ha b hb hab
    simp at hb; subst hb; subst hab
    exact hk ha
  · intro e1 h1 e2 h2 hne
    simp only [List.mem_append, List.mem_singleton] at h1 h2
    rcases h1 with h1 | h1 <;> rcases h2 with h2 | h2
    · exact hwf.2 e1 h1 e2 h2 hne
    · subst h2; exact (hx' e1 h1 hne).1
    · subst h1; exact (hx' e2 h2 (fun h => hne h.symm)).2
    · subst h1; subst h2; exact absurd rfl hne

def mkEntries (l : String) (kvs : Defaults) : List Entry := kvs.map fun kv => ⟨l, kv.1, kv.2⟩

theorem updateAll_ok (l : String) : ∀ (kvs : Defaults) (c c' : Config), c.updateAll l kvs = .ok c' →
    c'.frozen = c.frozen ∧ c'.entries = c.entries ++ mkEntries l kvs ∧ (c.WF → c'.WF)
  | [], c, c', h => by
    have := (foldlM_nil_ok _ c c').mp h
    subst this; simp [mkEntries]
  | kv :: kvs, c, c', h => by
    obtain ⟨c1, h1, h2⟩ := (foldlM_cons_ok _ kv kvs c c').mp h
    obtain ⟨hf, he, hw⟩ := updateAll_ok l kvs c1 c' h2
    have hwf1 := update_wf c c1 l kv.1 kv.2 h1
    obtain ⟨_, _, _, rfl, _⟩ := (update_ok c c1 l kv.1 kv.2).mp h1
    refine ⟨by simpa using hf, by simp [he, mkEntries], fun hwf => hw (hwf1 hwf)⟩

theorem add_ok (s s' : OrderedSet) (n : String) :
    OrderedSet.add s n = .ok s' ↔ n ∉ s ∧ s' = s ++ [n] := by
  unfold OrderedSet.add
  by_cases h : s.contains n = true
  · have : n ∈ s := by simpa using h
    simp [this]
  · have : n ∉ s := by simpa using h
    simp [this]; exact eq_comm

theorem addAll_ok : ∀ (ns : List String) (s s' : OrderedSet), OrderedSet.addAll s ns = .ok s' →
    s' = s ++ ns ∧ (s.Nodup → s'.Nodup)
  | [], s, s', h => by
    have := (foldlM_nil_ok _ s s').mp h
    subst this; simp
  | n :: ns, s, s', h => by
    obtain ⟨s1, h1, h2⟩ := (foldlM_cons_ok _ n ns s s').mp h
    obtain ⟨hn, rfl⟩ := (add_ok s s1 n).mp h1
    obtain ⟨he, hnd⟩ := addAll_ok ns _ s' h2
    refine ⟨by simp [he], fun hs => hnd ?_⟩
    rw [List.nodup_append]
    refine ⟨hs, by simp, ?_⟩
    intro a ha b hb hab
    simp at hb; subst hb; subst hab; exact hn ha

/-! ### Lookup -/
theorem key_inj_of_nodup : ∀ (es : List Entry), (es.map Entry.key).Nodup → ∀ a ∈ es, ∀ b ∈ es, a.key = b.key → a = b
  | [], _, a, ha, _, _, _ => by cases ha
  | e :: es, hnd, a, ha, b, hb, hk => by
    simp only [List.map_cons, List.nodup_cons] at hnd
    rcases List.mem_cons.mp ha with ha' | ha' <;> rcases List.mem_cons.mp hb with hb' | hb'
    · rw [ha', hb']
    · subst ha'; exact absurd (hk ▸ List.mem_map_of_mem hb') hnd.1
    · subst hb'; exact absurd (hk ▸ List.mem_map_of_mem ha') hnd.1
    · exact key_inj_of_nodup es hnd.2 a ha' b hb' hk

theorem atLayer_of_mem (c : Config) (hwf : c.WF) (l : String) (p : Path) (v : Val)
    (h : (⟨l, p, v⟩ : Entry) ∈ c.entries) : c.atLayer l p = some v := by
  unfold Config.atLayer
  cases hf : c.entries.find? (fun e => e.layer == l && e.path == p) with
  | none =>
    have := List.find?_eq_none.mp hf _ h
    simp at this
  | some e =>
    have hm := List.mem_of_find?_eq_some hf
    have hp := List.find?_some hf
    simp only [Bool.and_eq_true, beq_iff_eq] at hp
    have : e = ⟨l, p, v⟩ := key_inj_of_nodup c.entries hwf.1 e hm _ h (by simp [Entry.key, hp.1, hp.2])
    simp [this]

theorem atLayer_none (c : Config) (l : String) (p : Path)
    (h : ∀ e ∈ c.entries, ¬ (e.layer = l ∧ e.path = p)) : c.atLayer l p = none := by
  unfold Config.atLayer
  rw [Option.map_eq_none_iff, List.find?_eq_none]
  intro e he
  simpa using h e he

/-- the outermost layer that has a value for `p` determines what `get` returns -/
theorem getIn_split (c : Config) (p : Path) (v : Val) (pre post : List String) (l : String)
    (hl : c.atLayer l p = some v) (hpost : ∀ l' ∈ post, c.atLayer l' p = none) :
    Config.getIn (pre ++ l :: post) c p = some v := by
  unfold Config.getIn
  simp only [List.reverse_append, List.reverse_cons, List.findSome?_append, List.append_assoc]
  have : post.reverse.findSome? (fun l => c.atLayer l p) = none := by
    rw [List.findSome?_eq_none_iff]
    intro x hx; exact hpost x (by simpa using hx)
  simp [this, hl]

/-- after `del cfg.<key>` nothing at or below `key` has a value any more – frozen or not -/
theorem get_delete_none (c : Config) (key : String) (p : Path) (h : Config.under key p = true) :
    (c.delete key).get p = none := by
  unfold Config.get Config.getIn
  rw [List.findSome?_eq_none_iff]
  intro l _
  apply atLayer_none
  intro e he ⟨_, hp⟩
  simp only [Config.delete, List.mem_filter] at he
  rw [hp, h] at he
  simp at he

/-! ### Registration -/

/-- a registration step only appends configuration entries; everything about setup is untouched -/
structure Grows (s s' : Sim) (added : List Entry) : Prop where
  entries : s'.cfg.entries = s.cfg.entries ++ added
  frozen  : s'.cfg.frozen = s.cfg.frozen
  started : s'.started = s.started
  log     : s'.log = s.log
  seen    : s'.seen = s.seen
  tried   : s'.tried = s.tried
  wf      : s.cfg.WF → s'.cfg.WF

theorem Grows.refl (s : Sim) : Grows s s [] := ⟨by simp, rfl, rfl, rfl, rfl, rfl, id⟩

theorem Grows.trans {s s1 s2 : Sim} {a b : List Entry} (h1 : Grows s s1 a) (h2 : Grows s1 s2 b) :
    Grows s s2 (a ++ b) :=
  ⟨by rw [h2.entries, h1.entries, List.append_assoc], h2.frozen.trans h1.frozen, h2.started.trans h1.started,
   h2.log.trans h1.log, h2.seen.trans h1.seen, h2.tried.trans h1.tried, fun h => h2.wf (h1.wf h)⟩

def userEntry (u : String × Path × Val) : Entry := ⟨(layerOfUpdate u.1).getD "", u.2.1, u.2.2⟩

theorem userSet_ok (s s' : Sim) (what : String) (p : Path) (v : Val) (h : userSet s what p v = .ok s') :
    (what = "model_specification" ∨ what = "configuration" ∨ what = "user_config_path") ∧
    Grows s s' [userEntry (what, p, v)] ∧ s'.managers = s.managers ∧ s'.components = s.components := by
  unfold userSet at h
  split at h
  · cases h
  · rename_i hw
    have hw' : what = "model_specification" ∨ what = "configuration" ∨ what = "user_config_path" := by
      by_cases h1 : what = "model_specification"
      · exact Or.inl h1
      · by_cases h2 : what = "configuration"
        · exact Or.inr (Or.inl h2)
        · by_cases h3 : what = "user_config_path"
          · exact Or.inr (Or.inr h3)
          · exact absurd ⟨h1, h2, h3⟩ hw
    split at h
    · cases h
    · rename_i l hl
      obtain ⟨cfg, hc, hp⟩ := (bind_ok _ _ _).mp h
      simp only [pure, Except.pure, Except.ok.injEq] at hp
      subst hp
      have hwf := update_wf _ _ _ _ _ hc
      obtain ⟨_, _, _, rfl, _⟩ := (update_ok _ _ _ _ _).mp hc
      exact ⟨hw', ⟨by simp [userEntry, hl], rfl, rfl, rfl, rfl, rfl, hwf⟩, rfl, rfl⟩

theorem applyDefaults_ok (c c' : Config) (d : Defaults) (h : applyDefaults c d = .ok c') :
    c'.frozen = c.frozen ∧ c'.entries = c.entries ++ mkEntries defaultsLayer d ∧ (c.WF → c'.WF) :=
  updateAll_ok defaultsLayer d c c' h

theorem addManager_ok (s s' : Sim) (n : String) (d : Defaults) (h : addManager s n d = .ok s') :
    Grows s s' (mkEntries defaultsLayer d) ∧ s'.managers = s.managers ++ [n] ∧ n ∉ s.managers ∧
    s'.components = s.components := by
  unfold addManager at h
  obtain ⟨cfg, hc, h⟩ := (bind_ok _ _ _).mp h
  obtain ⟨ms, hm, h⟩ := (bind_ok _ _ _).mp h
  simp only [pure, Except.pure, Except.ok.injEq] at h
  subst h
  obtain ⟨hf, he, hw⟩ := applyDefaults_ok _ _ _ hc
  obtain ⟨hn, rfl⟩ := (add_ok _ _ _).mp hm
  exact ⟨⟨he, hf, rfl, rfl, rfl, rfl, hw⟩, rfl, hn, rfl⟩

theorem registerOne_ok (s s' : Sim) (t : Tree) (h : registerOne s t = .ok s') :
    Grows s s' (mkEntries defaultsLayer t.defaults) ∧ s'.components = s.components ++ [t.name] ∧
    t.name ∉ s.components ∧ s'.managers = s.managers := by
  unfold registerOne at h
  obtain ⟨cfg, hc, h⟩ := (bind_ok _ _ _).mp h
  obtain ⟨cs, hm, h⟩ := (bind_ok _ _ _).mp h
  simp only [pure, Except.pure, Except.ok.injEq] at h
  subst h
  obtain ⟨hf, he, hw⟩ := applyDefaults_ok _ _ _ hc
  obtain ⟨hn, rfl⟩ := (add_ok _ _ _).mp hm
  exact ⟨⟨he, hf, rfl, rfl, rfl, rfl, hw⟩, rfl, hn, rfl⟩

theorem nodup_of_map {α β : Type} (f : α → β) : ∀ l : List α, (l.map f).Nodup → l.Nodup
  | [], _ => List.nodup_nil
  | a :: l, h => by
    simp only [List.map_cons, List.nodup_cons] at h ⊢
    exact ⟨fun ha => h.1 (List.mem_map_of_mem ha), nodup_of_map f l h.2⟩

theorem nodup_snoc {α : Type} (l : List α) (a : α) (h : l.Nodup) (ha : a ∉ l) : (l ++ [a]).Nodup := by
  rw [List.nodup_append]
  refine ⟨h, by simp, ?_⟩
  intro x hx y hy hxy
  simp at hy; subst hy; subst hxy; exact ha hx

theorem users_ok : ∀ (us : List (String × Path × Val)) (s s' : Sim),
    us.foldlM (fun s u => userSet s u.1 u.2.1 u.2.2) s = .ok s' →
    (∀ u ∈ us, u.1 = "model_specification" ∨ u.1 = "configuration" ∨ u.1 = "user_config_path") ∧
    Grows s s' (us.map userEntry) ∧ s'.managers = s.managers ∧ s'.components = s.components
  | [], s, s', h => by
    have := (foldlM_nil_ok _ s s').mp h
    subst this; exact ⟨by simp, Grows.refl _, rfl, rfl⟩
  | u :: us, s, s', h => by
    obtain ⟨s1, h1, h2⟩ := (foldlM_cons_ok _ u us s s').mp h
    obtain ⟨hw, hg, hm, hc⟩ := userSet_ok _ _ _ _ _ h1
    obtain ⟨hw', hg', hm', hc'⟩ := users_ok us s1 s' h2
    refine ⟨?_, by simpa using hg.trans hg', hm'.trans hm, hc'.trans hc⟩
    intro x hx
    rcases List.mem_cons.mp hx with hx | hx
    · subst hx; exact hw
    · exact hw' x hx

def mgrEntries (ms : List (String × Defaults)) : List Entry := ms.flatMap fun m => mkEntries defaultsLayer m.2

theorem mgrs_ok : ∀ (ms : List (String × Defaults)) (s s' : Sim),
    ms.foldlM (fun s m => addManager s m.1 m.2) s = .ok s' →
    Grows s s' (mgrEntries ms) ∧ s'.managers = s.managers ++ ms.map (·.1) ∧
    (s.managers.Nodup → s'.managers.Nodup) ∧ s'.components = s.components
  | [], s, s', h => by
    have := (foldlM_nil_ok _ s s').mp h
    subst this; exact ⟨by simpa [mgrEntries] using Grows.refl s', by simp, id, rfl⟩
  | m :: ms, s, s', h => by
    obtain ⟨s1, h1, h2⟩ := (foldlM_cons_ok _ m ms s s').mp h
    obtain ⟨hg, hm, hn, hc⟩ := addManager_ok _ _ _ _ h1
    obtain ⟨hg', hm', hn', hc'⟩ := mgrs_ok ms s1 s' h2
    refine ⟨by simpa [mgrEntries] using hg.trans hg', by simp [hm', hm], ?_, hc'.trans hc⟩
    intro hs; apply hn'; rw [hm]; exact nodup_snoc _ _ hs hn

def compEntries (l : List Tree) : List Entry := l.flatMap fun t => mkEntries defaultsLayer t.defaults

theorem registerAll_ok : ∀ (l : List Tree) (s s' : Sim), l.foldlM registerOne s = .ok s' →
    Grows s s' (compEntries l) ∧ s'.components = s.components ++ l.map Tree.name ∧
    (s.components.Nodup → s'.components.Nodup) ∧ s'.managers = s.managers
  | [], s, s', h => by
    have := (foldlM_nil_ok _ s s').mp h
    subst this; exact ⟨by simpa [compEntries] using Grows.refl s', by simp, id, rfl⟩
  | t :: l, s, s', h => by
    obtain ⟨s1, h1, h2⟩ := (foldlM_cons_ok _ t l s s').mp h
    obtain ⟨hg, hc, hn, hm⟩ := registerOne_ok _ _ _ h1
    obtain ⟨hg', hc', hn', hm'⟩ := registerAll_ok l s1 s' h2
    refine ⟨by simpa [compEntries] using hg.trans hg', by simp [hc', hc], ?_, hm'.trans hm⟩
    intro hs; apply hn'; rw [hc]; exact nodup_snoc _ _ hs hn

theorem addComponents_ok (s s' : Sim) (ts : List Tree) (h : addComponents s ts = .ok s') :
    s.started = false ∧ Grows s s' (compEntries (preorderL ts)) ∧
    s'.components = s.components ++ (preorderL ts).map Tree.name ∧
    (s.components.Nodup → s'.components.Nodup) ∧ s'.managers = s.managers := by
  unfold addComponents at h
  split at h
  · cases h
  · rename_i hs
    unfold register at h
    rw [flatten_eq] at h
    exact ⟨by simpa using hs, registerAll_ok _ _ _ h⟩

/-! ### Setup -/

theorem get_of_entries (c c' : Config) (h : c'.entries = c.entries) : c'.get = c.get := by
  funext p; simp [Config.get, Config.getIn, Config.atLayer, h]

/-- a setup step never touches the two sets, the frozen flag or the lifecycle flag, and appends to
the three logs -/
structure Steps (s s' : Sim) (names : List String) : Prop where
  managers   : s'.managers = s.managers
  components : s'.components = s.components
  frozen     : s'.cfg.frozen = s.cfg.frozen
  started    : s'.started = s.started
  log        : s'.log = s.log ++ names

theorem Steps.refl (s : Sim) : Steps s s [] := ⟨rfl, rfl, rfl, rfl, by simp⟩
theorem Steps.trans {s s1 s2 : Sim} {a b : List String} (h1 : Steps s s1 a) (h2 : Steps s1 s2 b) :
    Steps s s2 (a ++ b) :=
  ⟨h2.managers.trans h1.managers, h2.components.trans h1.components, h2.frozen.trans h1.frozen,
   h2.started.trans h1.started, by rw [h2.log, h1.log, List.append_assoc]⟩

theorem tryWrite_steps (s : Sim) (a : String × Path × Val) : Steps s (tryWrite s a) [] := by
  unfold tryWrite
  split
  · rename_i c hc
    obtain ⟨_, _, _, rfl, _⟩ := (update_ok _ _ _ _ _).mp hc
    exact ⟨rfl, rfl, rfl, rfl, by simp⟩
  · exact ⟨rfl, rfl, rfl, rfl, by simp⟩

theorem foldl_tryWrite_steps : ∀ (as : List (String × Path × Val)) (s : Sim), Steps s (as.foldl tryWrite s) []
  | [], s => Steps.refl s
  | a :: as, s => by
    simpa using (tryWrite_steps s a).trans (foldl_tryWrite_steps as (tryWrite s a))

theorem setupOne_steps (sc : Script) (s : Sim) (n : String) : Steps s (setupOne sc s n) [n] := by
  unfold setupOne
  have h1 : Steps s { s with log := s.log ++ [n], seen := s.seen ++ [(n, sc.probes.map s.cfg.get)] } [n] :=
    ⟨rfl, rfl, rfl, rfl, rfl⟩
  simpa using h1.trans (foldl_tryWrite_steps _ _)

theorem foldl_setupOne_steps (sc : Script) : ∀ (ns : List String) (s : Sim), Steps s (ns.foldl (setupOne sc) s) ns
  | [], s => Steps.refl s
  | n :: ns, s => by
    simpa using (setupOne_steps sc s n).trans (foldl_setupOne_steps sc ns (setupOne sc s n))

theorem setupComponents_ok (sc : Script) (s s' : Sim) (h : setupComponents sc s = .ok s') :
    (s.managers ++ s.components).Nodup ∧ Steps s s' (s.managers ++ s.components) := by
  unfold setupComponents at h
  obtain ⟨all, ha, h⟩ := (bind_ok _ _ _).mp h
  simp only [pure, Except.pure, Except.ok.injEq] at h
  subst h
  obtain ⟨he, hn⟩ := addAll_ok _ _ _ ha
  simp only [List.nil_append] at he
  subst he
  exact ⟨hn List.nodup_nil, foldl_setupOne_steps sc _ s⟩

/-- with a frozen configuration nothing is written: entries unchanged, every attempt refused, and every
object that is set up reads the values the configuration had before -/
structure Quiet (sc : Script) (s s' : Sim) : Prop where
  entries : s'.cfg.entries = s.cfg.entries
  tried   : ∃ new, s'.tried = s.tried ++ new ∧ ∀ x ∈ new, x.2.2 = false
  seen    : ∃ new, s'.seen = s.seen ++ new ∧ ∀ x ∈ new, x.2 = sc.probes.map s.cfg.get

theorem Quiet.refl (sc : Script) (s : Sim) : Quiet sc s s := ⟨rfl, ⟨[], by simp⟩, ⟨[], by simp⟩⟩

theorem Quiet.trans {sc : Script} {s s1 s2 : Sim} (h1 : Quiet sc s s1) (h2 : Quiet sc s1 s2) : Quiet sc s s2 := by
  obtain ⟨t1, ht1, hf1⟩ := h1.tried
  obtain ⟨t2, ht2, hf2⟩ := h2.tried
  obtain ⟨n1, hn1, hs1⟩ := h1.seen
  obtain ⟨n2, hn2, hs2⟩ := h2.seen
  refine ⟨h2.entries.trans h1.entries, ⟨t1 ++ t2, by rw [ht2, ht1, List.append_assoc], ?_⟩,
          ⟨n1 ++ n2, by rw [hn2, hn1, List.append_assoc], ?_⟩⟩
  · intro x hx; rcases List.mem_append.mp hx with hx | hx
    · exact hf1 x hx
    · exact hf2 x hx
  · intro x hx; rcases List.mem_append.mp hx with hx | hx
    · exact hs1 x hx
    · rw [hs2 x hx, get_of_entries s.cfg s1.cfg h1.entries]

theorem tryWrite_frozen (sc : Script) (s : Sim) (a : String × Path × Val) (hf : s.cfg.frozen = true) :
    Quiet sc s (tryWrite s a) ∧ (tryWrite s a).cfg.frozen = true := by
  unfold tryWrite
  rw [update_frozen _ _ _ _ hf]
  exact ⟨⟨rfl, ⟨[(a.1, a.2.1, false)], rfl, by simp⟩, ⟨[], by simp⟩⟩, hf⟩

theorem foldl_tryWrite_frozen (sc : Script) : ∀ (as : List (String × Path × Val)) (s : Sim),
    s.cfg.frozen = true → Quiet sc s (as.foldl tryWrite s) ∧ (as.foldl tryWrite s).cfg.frozen = true
  | [], s, hf => ⟨Quiet.refl sc s, hf⟩
  | a :: as, s, hf => by
    obtain ⟨q1, f1⟩ := tryWrite_frozen sc s a hf
    obtain ⟨q2, f2⟩ := foldl_tryWrite_frozen sc as (tryWrite s a) f1
    exact ⟨q1.trans q2, f2⟩

theorem setupOne_frozen (sc : Script) (s : Sim) (n : String) (hf : s.cfg.frozen = true) :
    Quiet sc s (setupOne sc s n) ∧ (setupOne sc s n).cfg.frozen = true := by
  unfold setupOne
  have q1 : Quiet sc s { s with log := s.log ++ [n], seen := s.seen ++ [(n, sc.probes.map s.cfg.get)] } :=
    ⟨rfl, ⟨[], by simp⟩, ⟨[(n, sc.probes.map s.cfg.get)], rfl, by simp⟩⟩
  obtain ⟨q2, f2⟩ := foldl_tryWrite_frozen sc (sc.attempts.filter (·.1 == n))
    { s with log := s.log ++ [n], seen := s.seen ++ [(n, sc.probes.map s.cfg.get)] } hf
  exact ⟨q1.trans q2, f2⟩

theorem foldl_setupOne_frozen (sc : Script) : ∀ (ns : List String) (s : Sim), s.cfg.frozen = true →
    Quiet sc s (ns.foldl (setupOne sc) s)
  | [], s, _ => Quiet.refl sc s
  | n :: ns, s, hf => by
    obtain ⟨q1, f1⟩ := setupOne_frozen sc s n hf
    exact q1.trans (foldl_setupOne_frozen sc ns _ f1)

theorem setupComponents_frozen (sc : Script) (s s' : Sim) (h : setupComponents sc s = .ok s')
    (hf : s.cfg.frozen = true) : Quiet sc s s' := by
  unfold setupComponents at h
  obtain ⟨all, _, h⟩ := (bind_ok _ _ _).mp h
  simp only [pure, Except.pure, Except.ok.injEq] at h
  subst h
  exact foldl_setupOne_frozen sc all s hf

/-! ### The generated action list of `SimulationContext.setup` -/

/-- every `.setupComponents` of the action list is preceded by a `.freeze` (or the configuration is
frozen to begin with) -/
def frozenFirst : Bool → List Act → Bool
  | _, [] => true
  | fr, a :: r =>
    match a with
    | .freeze => frozenFirst true r
    | .setupComponents => fr && frozenFirst fr r
    | _ => frozenFirst fr r

def endsFrozen : Bool → List Act → Bool
  | fr, [] => fr
  | fr, a :: r => match a with
    | .freeze => endsFrozen true r
    | _ => endsFrozen fr r

def endsStarted : Bool → List Act → Bool
  | st, [] => st
  | st, a :: r => match a with
    | .set _ => endsStarted true r
    | _ => endsStarted st r

def nSetup : List Act → Nat
  | [] => 0
  | a :: r => match a with
    | .setupComponents => nSetup r + 1
    | _ => nSetup r

theorem runActs_quiet (sc : Script) : ∀ (acts : List Act) (s s' : Sim), runActs sc acts s = .ok s' →
    frozenFirst s.cfg.frozen acts = true → Quiet sc s s'
  | [], s, s', h, _ => by
    have := (foldlM_nil_ok _ s s').mp h
    subst this; exact Quiet.refl sc _
  | a :: r, s, s', h, hff => by
    obtain ⟨s1, h1, h2⟩ := (foldlM_cons_ok _ a r s s').mp h
    cases a with
    | freeze =>
      simp only [act, Except.ok.injEq] at h1
      subst h1
      have q : Quiet sc s { s with cfg := s.cfg.freeze } := ⟨rfl, ⟨[], by simp⟩, ⟨[], by simp⟩⟩
      exact q.trans (runActs_quiet sc r _ s' h2 (by simpa [frozenFirst, Config.freeze] using hff))
    | setupComponents =>
      simp only [act] at h1
      simp only [frozenFirst, Bool.and_eq_true] at hff
      have q1 := setupComponents_frozen sc s s1 h1 hff.1
      have st := (setupComponents_ok sc s s1 h1).2
      exact q1.trans (runActs_quiet sc r s1 s' h2 (by rw [st.frozen]; exact hff.2))
    | set x =>
      simp only [act, Except.ok.injEq] at h1
      subst h1
      have q : Quiet sc s { s with started := true } := ⟨rfl, ⟨[], by simp⟩, ⟨[], by simp⟩⟩
      exact q.trans (runActs_quiet sc r _ s' h2 (by simpa [frozenFirst] using hff))
    | _ =>
      simp only [act, Except.ok.injEq] at h1
      subst h1
      exact runActs_quiet sc r _ s' h2 (by simpa [frozenFirst] using hff)

theorem runActs_steps (sc : Script) : ∀ (acts : List Act) (s s' : Sim), runActs sc acts s = .ok s' →
    s'.managers = s.managers ∧ s'.components = s.components ∧
    s'.cfg.frozen = endsFrozen s.cfg.frozen acts ∧ s'.started = endsStarted s.started acts ∧
    s'.log = s.log ++ (List.replicate (nSetup acts) (s.managers ++ s.components)).flatten ∧
    (0 < nSetup acts → (s.managers ++ s.components).Nodup)
  | [], s, s', h => by
    have := (foldlM_nil_ok _ s s').mp h
    subst this; simp [endsFrozen, endsStarted, nSetup]
  | a :: r, s, s', h => by
    obtain ⟨s1, h1, h2⟩ := (foldlM_cons_ok _ a r s s').mp h
    obtain ⟨hm, hc, hf, hs, hl, hn⟩ := runActs_steps sc r s1 s' h2
    cases a with
    | freeze =>
      simp only [act, Except.ok.injEq] at h1
      subst h1
      exact ⟨hm, hc, by simpa [endsFrozen, Config.freeze] using hf, by simpa [endsStarted] using hs,
             by simpa [nSetup] using hl, by simpa [nSetup] using hn⟩
    | setupComponents =>
      simp only [act] at h1
      obtain ⟨hnd, st⟩ := setupComponents_ok sc s s1 h1
      refine ⟨hm.trans st.managers, hc.trans st.components, by simpa [endsFrozen, st.frozen] using hf,
              by simpa [endsStarted, st.started] using hs, ?_, fun _ => hnd⟩
      rw [hl, st.log, st.managers, st.components]
      simp [nSetup, List.replicate_succ]
    | set x =>
      simp only [act, Except.ok.injEq] at h1
      subst h1
      exact ⟨hm, hc, by simpa [endsFrozen] using hf, by simpa [endsStarted] using hs,
             by simpa [nSetup] using hl, by simpa [nSetup] using hn⟩
    | _ =>
      simp only [act, Except.ok.injEq] at h1
      subst h1
      exact ⟨hm, hc, by simpa [endsFrozen] using hf, by simpa [endsStarted] using hs,
             by simpa [nSetup] using hl, by simpa [nSetup] using hn⟩

theorem setup_ok (sc : Script) (s s' : Sim) (h : setup sc s = .ok s') :
    s.started = false ∧ runActs sc setupActs s = .ok s' := by
  unfold setup at h
  split at h
  · cases h
  · rename_i hs; exact ⟨by simpa using hs, h⟩

/-- the four stages of `simulate` -/
theorem simulate_ok (sc : Script) (user : List (String × Path × Val)) (mgrs : List (String × Defaults))
    (ts : List Tree) (s : Sim) (h : simulate sc user mgrs ts = .ok s) :
    ∃ s1 s2 s3, user.foldlM (fun s u => userSet s u.1 u.2.1 u.2.2) ({} : Sim) = .ok s1 ∧
      mgrs.foldlM (fun s m => addManager s m.1 m.2) s1 = .ok s2 ∧
      addComponents s2 ts = .ok s3 ∧ setup sc s3 = .ok s := by
  unfold simulate at h
  obtain ⟨s1, h1, h⟩ := (bind_ok _ _ _).mp h
  obtain ⟨s2, h2, h⟩ := (bind_ok _ _ _).mp h
  obtain ⟨s3, h3, h⟩ := (bind_ok _ _ _).mp h
  exact ⟨s1, s2, s3, h1, h2, h3, h⟩

/-- state in which `setup()` is entered after a successful bootstrap -/
theorem bootstrap_ok (user : List (String × Path × Val)) (mgrs : List (String × Defaults)) (ts : List Tree)
    (s1 s2 s3 : Sim)
    (h1 : user.foldlM (fun s u => userSet s u.1 u.2.1 u.2.2) ({} : Sim) = .ok s1)
    (h2 : mgrs.foldlM (fun s m => addManager s m.1 m.2) s1 = .ok s2)
    (h3 : addComponents s2 ts = .ok s3) :
    (∀ u ∈ user, u.1 = "model_specification" ∨ u.1 = "configuration" ∨ u.1 = "user_config_path") ∧
    s3.cfg.entries = user.map userEntry ++ mgrEntries mgrs ++ compEntries (preorderL ts) ∧
    s3.cfg.WF ∧ s3.cfg.frozen = false ∧ s3.started = false ∧ s3.log = [] ∧ s3.seen = [] ∧ s3.tried = [] ∧
    s3.managers = mgrs.map (·.1) ∧ s3.components = (preorderL ts).map Tree.name := by
  obtain ⟨hu, g1, m1, c1⟩ := users_ok _ _ _ h1
  obtain ⟨g2, m2, _, c2⟩ := mgrs_ok _ _ _ h2
  obtain ⟨_, g3, c3, _, m3⟩ := addComponents_ok _ _ _ h3
  have g := (g1.trans g2).trans g3
  refine ⟨hu, by simpa using g.entries, g.wf (wf_empty _ rfl), by simpa using g.frozen,
          by simpa using g.started, by simpa using g.log, by simpa using g.seen, by simpa using g.tried, ?_, ?_⟩
  · rw [m3, m2, m1]; simp
  · rw [c3, c2, c1]; simp

/-! ### Refused operations: what they leave behind (lesson 16) -/

/-- the all-or-nothing `updateAll` is the partial one with the state forgotten on a refusal -/
theorem updateAllK_agree (l : String) : ∀ (kvs : Defaults) (c : Config),
    c.updateAll l kvs = match c.updateAllK l kvs with
      | (c', none) => .ok c'
      | (_, some e) => .error e
  | [], c => by simp [Config.updateAll, Config.updateAllK, pure, Except.pure]
  | kv :: kvs, c => by
    have ih := updateAllK_agree l kvs
    unfold Config.updateAll at ih ⊢
    rw [List.foldlM_cons]
    cases h : c.update l kv.1 kv.2 with
    | ok c' => simp only [Config.updateAllK, h, bind, Except.bind]; exact ih c'
    | error e => simp [Config.updateAllK, h, bind, Except.bind]

/-- what a (possibly refused) `update` of a dictionary leaves behind: a prefix of the dictionary, at the layer asked for -/
theorem updateAllK_spec (l : String) : ∀ (kvs : Defaults) (c : Config),
    ∃ k, (c.updateAllK l kvs).1.entries = c.entries ++ mkEntries l (kvs.take k) ∧
      (c.updateAllK l kvs).1.frozen = c.frozen ∧ (c.WF → (c.updateAllK l kvs).1.WF) ∧
      ((c.updateAllK l kvs).2 = none → k = kvs.length)
  | [], c => ⟨0, by simp [Config.updateAllK, mkEntries]⟩
  | kv :: kvs, c => by
    cases h : c.update l kv.1 kv.2 with
    | error e => exact ⟨0, by simp [Config.updateAllK, h, mkEntries]⟩
    | ok c' =>
      obtain ⟨k, he, hf, hw, hk⟩ := updateAllK_spec l kvs c'
      have hwf1 := update_wf c c' l kv.1 kv.2 h
      obtain ⟨_, _, _, rfl, _⟩ := (update_ok c c' l kv.1 kv.2).mp h
      refine ⟨k + 1, ?_, ?_, ?_, ?_⟩
      · simp only [Config.updateAllK, h]; rw [he]; simp [mkEntries]
      · simp only [Config.updateAllK, h]; rw [hf]
      · intro hwf; simp only [Config.updateAllK, h]; exact hw (hwf1 hwf)
      · intro hn; simp only [Config.updateAllK, h] at hn; simp [hk hn]

theorem mkEntries_take_prefix (l : String) (d : Defaults) (k : Nat) : mkEntries l (d.take k) <+: mkEntries l d := by
  unfold mkEntries
  rw [List.map_take]
  exact List.take_prefix _ _

theorem mkEntries_layer (l : String) (d : Defaults) : ∀ e ∈ mkEntries l d, e.layer = l := by
  intro e he
  simp only [mkEntries, List.mem_map] at he
  obtain ⟨_, _, rfl⟩ := he
  rfl

theorem compEntries_layer (l : List Tree) : ∀ e ∈ compEntries l, e.layer = defaultsLayer := by
  intro e he
  simp only [compEntries, List.mem_flatMap] at he
  obtain ⟨t, _, h⟩ := he
  exact mkEntries_layer _ _ e h

theorem registerOneK_agree (s : Sim) (t : Tree) :
    registerOne s t = match registerOneK s t with
      | (s', none) => .ok s'
      | (_, some e) => .error e := by
  unfold registerOne registerOneK applyDefaults applyDefaultsK
  rw [updateAllK_agree]
  rcases h : s.cfg.updateAllK defaultsLayer t.defaults with ⟨cfg, _ | e⟩
  · simp only [bind, Except.bind]
    cases h2 : OrderedSet.add s.components t.name <;> simp [pure, Except.pure]
  · simp [bind, Except.bind]

/-- one iteration of `add_components`, whatever its verdict: a prefix of the component's defaults is written at the
defaults layer, the component is registered exactly when nothing was refused, nothing else changes -/
theorem registerOneK_spec (s : Sim) (t : Tree) :
    ∃ k, Grows s (registerOneK s t).1 (mkEntries defaultsLayer (t.defaults.take k)) ∧
      (registerOneK s t).1.managers = s.managers ∧
      (((registerOneK s t).2 = none ∧ k = t.defaults.length ∧ t.name ∉ s.components ∧
          (registerOneK s t).1.components = s.components ++ [t.name]) ∨
       ((registerOneK s t).2 ≠ none ∧ (registerOneK s t).1.components = s.components)) := by
  obtain ⟨k, he, hf, hw, hk⟩ := updateAllK_spec defaultsLayer t.defaults s.cfg
  unfold registerOneK applyDefaultsK
  rcases h : s.cfg.updateAllK defaultsLayer t.defaults with ⟨cfg, _ | e⟩
  · rw [h] at he hf hw hk
    simp only at he hf hw hk
    cases h2 : OrderedSet.add s.components t.name with
    | ok cs =>
      obtain ⟨hn, rfl⟩ := (add_ok _ _ _).mp h2
      exact ⟨k, ⟨he, hf, rfl, rfl, rfl, rfl, hw⟩, rfl, Or.inl ⟨rfl, hk trivial, hn, rfl⟩⟩
    | error e => exact ⟨k, ⟨he, hf, rfl, rfl, rfl, rfl, hw⟩, rfl, Or.inr ⟨by simp, rfl⟩⟩
  · rw [h] at he hf hw
    simp only at he hf hw
    exact ⟨k, ⟨he, hf, rfl, rfl, rfl, rfl, hw⟩, rfl, Or.inr ⟨by simp, rfl⟩⟩

theorem registerListK_agree : ∀ (l : List Tree) (s : Sim),
    l.foldlM registerOne s = match registerListK s l none with
      | (s', none) => .ok s'
      | (_, some e) => .error e
  | [], s => by simp [registerListK, pure, Except.pure]
  | t :: l, s => by
    rw [List.foldlM_cons, registerOneK_agree]
    rcases h : registerOneK s t with ⟨s1, _ | e⟩
    · simp only [registerListK, h, bind, Except.bind, Option.map_none]
      simpa using registerListK_agree l s1
    · simp [registerListK, h, bind, Except.bind]

/-- the loop of `add_components`, whatever its verdict and whichever `configuration_defaults` raises: what is written is
a PREFIX of the defaults of the flattened list (all at the defaults layer), what is registered is a prefix of its names -/
theorem registerListK_spec : ∀ (l : List Tree) (s : Sim) (b : Option Nat),
    ∃ added k, Grows s (registerListK s l b).1 added ∧ added <+: compEntries l ∧
      (registerListK s l b).1.components = s.components ++ (l.take k).map Tree.name ∧
      (s.components.Nodup → (registerListK s l b).1.components.Nodup) ∧
      (registerListK s l b).1.managers = s.managers ∧
      ((registerListK s l b).2 = none → k = l.length ∧ added = compEntries l)
  | [], s, b => ⟨[], 0, by simp [registerListK, compEntries, Grows.refl]⟩
  | t :: l, s, b => by
    by_cases hb : b = some 0
    · exact ⟨[], 0, by simp [registerListK, hb, Grows.refl]⟩
    · obtain ⟨k1, hg, hm, hc⟩ := registerOneK_spec s t
      rcases h : registerOneK s t with ⟨s1, _ | e⟩
      · rw [h] at hg hm hc
        simp only at hg hm hc
        rcases hc with ⟨_, hk1, hn, hc⟩ | ⟨hne, _⟩
        · obtain ⟨added, k, hg', hp, hc', hnd, hm', hfull⟩ := registerListK_spec l s1 (b.map (· - 1))
          have hstep : registerListK s (t :: l) b = registerListK s1 l (b.map (· - 1)) := by
            simp [registerListK, hb, h]
          rw [hstep]
          subst hk1
          rw [List.take_length] at hg
          refine ⟨mkEntries defaultsLayer t.defaults ++ added, k + 1, hg.trans hg', ?_, ?_, ?_, hm'.trans hm, ?_⟩
          · have hcons : compEntries (t :: l) = mkEntries defaultsLayer t.defaults ++ compEntries l := by
              simp [compEntries]
            rw [hcons]; exact (List.prefix_append_right_inj _).mpr hp
          · rw [hc', hc]; simp
          · intro hs; apply hnd; rw [hc]; exact nodup_snoc _ _ hs hn
          · intro hr
            obtain ⟨hk, ha⟩ := hfull hr
            exact ⟨by simp [hk], by simp [compEntries, ha]⟩
        · exact absurd rfl hne
      · rw [h] at hg hm hc
        simp only at hg hm hc
        have hstep : registerListK s (t :: l) b = (s1, some e) := by simp [registerListK, hb, h]
        rw [hstep]
        rcases hc with ⟨hr, _⟩ | ⟨_, hc⟩
        · cases hr
        · refine ⟨_, 0, hg, ?_, by simp [hc], fun hs => by rw [hc]; exact hs, hm, by simp⟩
          simp only [compEntries, List.flatMap_cons]
          exact (mkEntries_take_prefix _ _ _).trans (List.prefix_append _ _)

theorem addComponentsK_agree (s : Sim) (ts : List Tree) :
    addComponents s ts = match addComponentsK s ts .none with
      | (s', none) => .ok s'
      | (_, some e) => .error e := by
  unfold addComponents addComponentsK
  by_cases hs : s.started = true
  · simp [hs]
  · simp only [hs, Bool.false_eq_true, if_false, register, registerK]
    exact registerListK_agree _ _

/-- what ANY `add_components` call leaves behind, accepted or refused, whichever property of the user's raises -/
theorem addComponentsK_spec (s : Sim) (ts : List Tree) (f : Fault) :
    ∃ added k, Grows s (addComponentsK s ts f).1 added ∧ added <+: compEntries (flatten ts) ∧
      (addComponentsK s ts f).1.components = s.components ++ ((flatten ts).take k).map Tree.name ∧
      (s.components.Nodup → (addComponentsK s ts f).1.components.Nodup) ∧
      (addComponentsK s ts f).1.managers = s.managers ∧
      ((addComponentsK s ts f).2 = none → k = (flatten ts).length ∧ added = compEntries (flatten ts)) := by
  unfold addComponentsK
  by_cases hs : s.started = true
  · exact ⟨[], 0, by simp [hs, Grows.refl]⟩
  · simp only [hs, Bool.false_eq_true, if_false]
    cases f with
    | none => exact registerListK_spec _ _ _
    | defs i => exact registerListK_spec _ _ _
    | sub => exact ⟨[], 0, by simp [registerK, Grows.refl]⟩

/-- a whole history of calls, the caller catching every refusal: only the defaults layer is written, components are
only appended, the managers are untouched -/
theorem addManyK_spec : ∀ (bs : List (List Tree × Fault)) (s : Sim),
    ∃ added more, Grows s (addManyK s bs) added ∧ (∀ e ∈ added, e.layer = defaultsLayer) ∧
      (addManyK s bs).components = s.components ++ more ∧
      (s.components.Nodup → (addManyK s bs).components.Nodup) ∧ (addManyK s bs).managers = s.managers
  | [], s => ⟨[], [], by simp [addManyK, Grows.refl]⟩
  | b :: bs, s => by
    obtain ⟨a1, k, hg, hp, hc, hn, hm, _⟩ := addComponentsK_spec s b.1 b.2
    obtain ⟨a2, more, hg', hl, hc', hn', hm'⟩ := addManyK_spec bs (addComponentsK s b.1 b.2).1
    have hstep : addManyK s (b :: bs) = addManyK (addComponentsK s b.1 b.2).1 bs := by simp [addManyK]
    rw [hstep]
    refine ⟨a1 ++ a2, _, hg.trans hg', ?_, by rw [hc', hc, List.append_assoc], fun hs => hn' (hn hs), hm'.trans hm⟩
    intro e he
    rcases List.mem_append.mp he with he | he
    · exact compEntries_layer _ e (hp.subset he)
    · exact hl e he

theorem addManyK_append (s : Sim) (a b : List (List Tree × Fault)) :
    addManyK s (a ++ b) = addManyK (addManyK s a) b := by simp [addManyK]

/-! ### A `setup` that raises -/

/-- every `.setupComponents` of the action list is preceded by a `.set` (the lifecycle has left `initialization`) -/
def startedFirst : Bool → List Act → Bool
  | _, [] => true
  | st, a :: r =>
    match a with
    | .set _ => startedFirst true r
    | .setupComponents => st && startedFirst st r
    | _ => startedFirst st r

theorem takeWhile_boom_prefix (boom : String) : ∀ all : List String, all.contains boom = true →
    all.takeWhile (· != boom) ++ [boom] <+: all
  | [], h => by simp at h
  | a :: all, h => by
    by_cases ha : a = boom
    · subst ha; simp [List.takeWhile]
    · have h' : all.contains boom = true := by
        simp only [List.contains_cons, Bool.or_eq_true, beq_iff_eq] at h
        rcases h with h | h
        · exact absurd h.symm ha
        · exact h
      have := takeWhile_boom_prefix boom all h'
      have hne : (a != boom) = true := by simpa using ha
      have hcons : List.takeWhile (fun x => x != boom) (a :: all) = a :: List.takeWhile (fun x => x != boom) all :=
        List.takeWhile_cons_of_pos (p := fun x => x != boom) hne
      rw [hcons, List.cons_append]
      exact (List.cons_prefix_cons).mpr ⟨rfl, this⟩

/-- `_setup_components` when one `setup` raises: a prefix of the objects (each once) has been set up, nothing else has
changed, and with a frozen configuration nothing was written -/
theorem setupComponentsK_spec (sc : Script) (boom : String) (s : Sim) :
    ∃ names, Steps s (setupComponentsK sc boom s).1 names ∧ names <+: (s.managers ++ s.components) ∧ names.Nodup ∧
      (s.cfg.frozen = true → Quiet sc s (setupComponentsK sc boom s).1) := by
  unfold setupComponentsK
  cases ha : OrderedSet.addAll [] (s.managers ++ s.components) with
  | error e => exact ⟨[], Steps.refl s, List.nil_prefix, List.nodup_nil, fun _ => Quiet.refl sc s⟩
  | ok all =>
    obtain ⟨he, hn⟩ := addAll_ok _ _ _ ha
    simp only [List.nil_append] at he
    subst he
    have hnd := hn List.nodup_nil
    by_cases hb : (s.managers ++ s.components).contains boom = true
    · simp only [hb, if_true]
      have hp := takeWhile_boom_prefix boom _ hb
      exact ⟨_, foldl_setupOne_steps sc _ s, hp, hnd.sublist hp.sublist, fun hf => foldl_setupOne_frozen sc _ s hf⟩
    · simp only [hb]
      exact ⟨_, foldl_setupOne_steps sc _ s, List.prefix_refl _, hnd, fun hf => foldl_setupOne_frozen sc _ s hf⟩

theorem setupComponentsK_agree (sc : Script) (boom : String) (s : Sim)
    (hb : (s.managers ++ s.components).contains boom = false) :
    setupComponents sc s = match setupComponentsK sc boom s with
      | (s', none) => .ok s'
      | (_, some e) => .error e := by
  unfold setupComponents setupComponentsK
  cases ha : OrderedSet.addAll [] (s.managers ++ s.components) with
  | error e => simp [bind, Except.bind]
  | ok all =>
    obtain ⟨he, _⟩ := addAll_ok _ _ _ ha
    simp only [List.nil_append] at he
    subst he
    simp only [bind, Except.bind, pure, Except.pure, hb, Bool.false_eq_true, if_false]

/-- the body of `setup()` left at the statement that raises: nothing is written (the configuration was frozen before
any object was set up), the two sets are untouched, at most a prefix of the objects has been set up, each once; and
when something did raise, the configuration IS frozen and the lifecycle HAS left `initialization` -/
theorem runActsK_spec (sc : Script) (boom : String) : ∀ (acts : List Act) (s : Sim),
    frozenFirst s.cfg.frozen acts = true → startedFirst s.started acts = true →
    ∃ names, Quiet sc s (runActsK sc boom acts s).1 ∧
      (runActsK sc boom acts s).1.managers = s.managers ∧ (runActsK sc boom acts s).1.components = s.components ∧
      (runActsK sc boom acts s).1.log = s.log ++ names ∧
      (nSetup acts = 0 → names = []) ∧
      (nSetup acts ≤ 1 → names <+: (s.managers ++ s.components) ∧ names.Nodup) ∧
      ((runActsK sc boom acts s).2 ≠ none →
        (runActsK sc boom acts s).1.cfg.frozen = true ∧ (runActsK sc boom acts s).1.started = true)
  | [], s, _, _ => ⟨[], Quiet.refl sc s, rfl, rfl, by simp [runActsK], fun _ => rfl,
      fun _ => ⟨List.nil_prefix, List.nodup_nil⟩, by simp [runActsK]⟩
  | a :: r, s, hff, hsf => by
    cases a with
    | freeze =>
      obtain ⟨names, q, hm, hc, hl, h0, h1, he⟩ := runActsK_spec sc boom r { s with cfg := s.cfg.freeze }
        (by simpa [frozenFirst, Config.freeze] using hff) (by simpa [startedFirst] using hsf)
      have q0 : Quiet sc s { s with cfg := s.cfg.freeze } := ⟨rfl, ⟨[], by simp⟩, ⟨[], by simp⟩⟩
      exact ⟨names, by simpa [runActsK, actK] using q0.trans q, by simpa [runActsK, actK] using hm,
        by simpa [runActsK, actK] using hc, by simpa [runActsK, actK] using hl, by simpa [nSetup] using h0,
        by simpa [nSetup] using h1, by simpa [runActsK, actK] using he⟩
    | set x =>
      obtain ⟨names, q, hm, hc, hl, h0, h1, he⟩ := runActsK_spec sc boom r { s with started := true }
        (by simpa [frozenFirst] using hff) (by simpa [startedFirst] using hsf)
      have q0 : Quiet sc s { s with started := true } := ⟨rfl, ⟨[], by simp⟩, ⟨[], by simp⟩⟩
      exact ⟨names, by simpa [runActsK, actK] using q0.trans q, by simpa [runActsK, actK] using hm,
        by simpa [runActsK, actK] using hc, by simpa [runActsK, actK] using hl, by simpa [nSetup] using h0,
        by simpa [nSetup] using h1, by simpa [runActsK, actK] using he⟩
    | setupComponents =>
      simp only [frozenFirst, Bool.and_eq_true] at hff
      simp only [startedFirst, Bool.and_eq_true] at hsf
      obtain ⟨n1, st, hp, hnd, hq⟩ := setupComponentsK_spec sc boom s
      rcases h : setupComponentsK sc boom s with ⟨s1, _ | e⟩
      · rw [h] at st hq
        simp only at st hq
        obtain ⟨names, q, hm, hc, hl, h0, h1, he⟩ := runActsK_spec sc boom r s1
          (by rw [st.frozen]; exact hff.2) (by rw [st.started]; exact hsf.2)
        have hstep : runActsK sc boom (Act.setupComponents :: r) s = runActsK sc boom r s1 := by
          simp [runActsK, actK, h]
        rw [hstep]
        refine ⟨n1 ++ names, (hq hff.1).trans q, hm.trans st.managers, hc.trans st.components,
          by rw [hl, st.log, List.append_assoc], by simp [nSetup], ?_, he⟩
        intro hle
        have hr0 : nSetup r = 0 := by simp only [nSetup] at hle; omega
        rw [h0 hr0, List.append_nil]
        exact ⟨hp, hnd⟩
      · rw [h] at st hq
        simp only at st hq
        have hstep : runActsK sc boom (Act.setupComponents :: r) s = (s1, some e) := by
          simp [runActsK, actK, h]
        rw [hstep]
        exact ⟨n1, hq hff.1, st.managers, st.components, st.log, by simp [nSetup], fun _ => ⟨hp, hnd⟩,
          fun _ => ⟨by rw [st.frozen]; exact hff.1, by rw [st.started]; exact hsf.1⟩⟩
    | _ =>
      obtain ⟨names, q, hm, hc, hl, h0, h1, he⟩ := runActsK_spec sc boom r s
        (by simpa [frozenFirst] using hff) (by simpa [startedFirst] using hsf)
      exact ⟨names, by simpa [runActsK, actK] using q, by simpa [runActsK, actK] using hm,
        by simpa [runActsK, actK] using hc, by simpa [runActsK, actK] using hl, by simpa [nSetup] using h0,
        by simpa [nSetup] using h1, by simpa [runActsK, actK] using he⟩

/-- when the object that would raise is not registered, `setupK` is `setup` -/
theorem runActsK_agree (sc : Script) (boom : String) : ∀ (acts : List Act) (s : Sim),
    (s.managers ++ s.components).contains boom = false →
    runActs sc acts s = match runActsK sc boom acts s with
      | (s', none) => .ok s'
      | (_, some e) => .error e
  | [], s, _ => by simp [runActs, runActsK, pure, Except.pure]
  | a :: r, s, hb => by
    unfold runActs
    rw [List.foldlM_cons]
    cases a with
    | freeze =>
      simp only [act, runActsK, actK, bind, Except.bind]
      exact runActsK_agree sc boom r _ hb
    | set x =>
      simp only [act, runActsK, actK, bind, Except.bind]
      exact runActsK_agree sc boom r _ hb
    | setupComponents =>
      simp only [act, runActsK, actK]
      rw [setupComponentsK_agree sc boom s hb]
      obtain ⟨n1, st, _, _, _⟩ := setupComponentsK_spec sc boom s
      rcases h : setupComponentsK sc boom s with ⟨s1, _ | e⟩
      · rw [h] at st
        simp only [bind, Except.bind]
        exact runActsK_agree sc boom r s1 (by rw [st.managers, st.components]; exact hb)
      · simp [bind, Except.bind]
    | _ =>
      simp only [act, runActsK, actK, bind, Except.bind]
      exact runActsK_agree sc boom r _ hb

end Viv.Components
