import VivModel.Model.IndexMap
/-! Lemmas about the index-map model (`Model/IndexMap.lean`): `dropDup`, `diff`, the collision loop
invariant, `attach`, and the specification of one `update`. Core Lean only. -/
namespace Viv.IndexMap

/-! ### `dropDup` (`Series.drop_duplicates`, keep first) -/

theorem dropDup_sublist (m : List KV) : (dropDup m).Sublist m := by
  induction m with
  | nil => simp [dropDup]
  | cons e es ih =>
    simp only [dropDup]
    exact List.Sublist.cons_cons _ ((List.filter_sublist).trans ih)

theorem mem_dropDup_of_mem {m : List KV} {e : KV} (h : e ∈ dropDup m) : e ∈ m :=
  (dropDup_sublist m).subset h

theorem dropDup_nodup_vals (m : List KV) : (valsOf (dropDup m)).Nodup := by
  induction m with
  | nil => simp [dropDup, valsOf]
  | cons e es ih =>
    simp only [dropDup, valsOf, List.map_cons, List.nodup_cons]
    constructor
    · intro hmem
      simp only [List.mem_map, List.mem_filter] at hmem
      obtain ⟨x, ⟨_, hx⟩, hxe⟩ := hmem
      simp [hxe] at hx
    · exact (ih.sublist ((List.filter_sublist).map _))

/-- a prefix whose values are pairwise distinct survives `dropDup` unchanged; what is kept of the rest
is exactly what `dropDup` keeps of the rest alone, minus the values of the prefix -/
theorem dropDup_append_eq (a b : List KV) (ha : (valsOf a).Nodup) :
    dropDup (a ++ b) = a ++ (dropDup b).filter (fun x => !(valsOf a).contains x.2) := by
  induction a with
  | nil => simp only [valsOf, List.map_nil, List.nil_append, List.contains_nil, Bool.not_false]; exact (List.filter_eq_self.mpr (fun _ _ => rfl)).symm
  | cons e es ih =>
    simp only [valsOf, List.map_cons, List.nodup_cons] at ha
    have hes : es.filter (fun x => x.2 != e.2) = es := by
      apply List.filter_eq_self.mpr
      intro x hx
      have : x.2 ≠ e.2 := by
        intro h; apply ha.1; rw [← h]; exact List.mem_map_of_mem hx
      simpa using this
    simp only [List.cons_append, dropDup, ih ha.2, List.filter_append, hes, List.filter_filter]
    congr 2
    apply List.filter_congr
    intro x _
    simp only [valsOf, List.map_cons, List.contains_cons, Bool.not_or, bne]

theorem dropDup_append_of_nodup (a b : List KV) (ha : (valsOf a).Nodup) :
    ∃ c, dropDup (a ++ b) = a ++ c ∧ c.Sublist b :=
  ⟨_, dropDup_append_eq a b ha, (List.filter_sublist).trans (dropDup_sublist b)⟩

/-- every position that occurs in `m` still occurs after `dropDup` -/
theorem vals_dropDup (m : List KV) (p : Nat) : p ∈ valsOf m → p ∈ valsOf (dropDup m) := by
  induction m with
  | nil => simp [valsOf]
  | cons e es ih =>
    intro hp
    simp only [valsOf, List.map_cons, List.mem_cons] at hp
    simp only [dropDup, valsOf, List.map_cons, List.mem_cons]
    by_cases hpe : p = e.2
    · exact Or.inl hpe
    · right
      have : p ∈ valsOf es := by rcases hp with h | h; exact absurd h hpe; exact h
      have := ih this
      simp only [valsOf, List.mem_map] at this ⊢
      obtain ⟨x, hx, hxp⟩ := this
      exact ⟨x, List.mem_filter.mpr ⟨hx, by simp [hxp, hpe]⟩, hxp⟩

/-- an entry whose position does not occur earlier in the list survives `dropDup` -/
theorem mem_dropDup_of_fresh (a b : List KV) (e : KV) (h : e.2 ∉ valsOf a) :
    e ∈ dropDup (a ++ e :: b) := by
  induction a with
  | nil => simp [dropDup]
  | cons x xs ih =>
    simp only [valsOf, List.map_cons, List.mem_cons, not_or] at h
    simp only [List.cons_append, dropDup, List.mem_cons, List.mem_filter]
    right
    exact ⟨ih (by simpa [valsOf] using h.2), by simpa using h.1⟩

/-! ### `isort`, `uniq`, `sortKeys`, `diff` (`Index.difference`) -/

theorem insertBy_perm {α : Type} (le : α → α → Bool) (a : α) : ∀ l : List α, (insertBy le a l).Perm (a :: l)
  | [] => List.Perm.refl _
  | b :: bs => by
    unfold insertBy
    split
    · exact List.Perm.refl _
    · exact ((insertBy_perm le a bs).cons b).trans (List.Perm.swap a b bs)

theorem isort_perm {α : Type} (le : α → α → Bool) : ∀ l : List α, (isort le l).Perm l
  | [] => List.Perm.refl _
  | a :: as => (insertBy_perm le a _).trans ((isort_perm le as).cons a)

theorem mem_uniq {k : Key} {l : List Key} : k ∈ uniq l ↔ k ∈ l := by
  induction l with
  | nil => simp [uniq]
  | cons a as ih =>
    simp only [uniq, List.mem_cons, List.mem_filter, ih]
    constructor
    · rintro (h | ⟨h, _⟩)
      · exact Or.inl h
      · exact Or.inr h
    · rintro (h | h)
      · exact Or.inl h
      · by_cases hk : k = a
        · exact Or.inl hk
        · exact Or.inr ⟨h, by simpa using hk⟩

theorem uniq_nodup (l : List Key) : (uniq l).Nodup := by
  induction l with
  | nil => simp [uniq]
  | cons a as ih =>
    simp only [uniq, List.nodup_cons, List.mem_filter]
    refine ⟨?_, ih.sublist List.filter_sublist⟩
    rintro ⟨_, h⟩
    simp at h

theorem mem_diff {k : Key} {a b : List Key} : k ∈ diff a b ↔ k ∈ a ∧ k ∉ b := by
  simp [diff, sortKeys, (isort_perm keyLe _).mem_iff, mem_uniq, List.mem_filter]

theorem diff_nodup (a b : List Key) : (diff a b).Nodup := by
  unfold diff sortKeys
  exact ((isort_perm _ _).nodup_iff).mpr (uniq_nodup _)

/-- `diff` looks at its second argument only through membership -/
theorem diff_congr_right (a b b' : List Key) (h : ∀ k, k ∈ b ↔ k ∈ b') : diff a b = diff a b' := by
  unfold diff
  congr 2
  apply List.filter_congr
  intro k _
  have := h k
  cases h1 : b.contains k <;> cases h2 : b'.contains k <;> simp_all

/-! ### the collision loop -/

theorem keysOf_map_pair (coll : List Key) (f : Key → Nat) : keysOf (coll.map fun k => (k, f k)) = coll := by
  simp [keysOf, List.map_map, Function.comp_def]

theorem keysOf_append (a b : List KV) : keysOf (a ++ b) = keysOf a ++ keysOf b := by simp [keysOf]
theorem valsOf_append (a b : List KV) : valsOf (a ++ b) = valsOf a ++ valsOf b := by simp [valsOf]

/-- Invariant of `_resolve_collisions`' loop, for every hash function, every fuel and every salt the loop
is entered with: if it finishes, the mapping it started from is a prefix of the result (nothing already
placed is moved), positions and keys stay pairwise distinct, every colliding key has been placed, and every
entry added is a colliding key at one of its salted hashes. -/
theorem resolveLoop_spec (h : Key → Salt → Nat) :
    ∀ (fuel salt : Nat) (coll : List Key) (cur res : List KV),
      (valsOf cur).Nodup → (keysOf cur).Nodup → coll.Nodup → (∀ k ∈ coll, k ∉ keysOf cur) →
      resolveLoop h fuel salt coll cur = some res →
      (∃ c, res = cur ++ c ∧ ∀ e ∈ c, e.1 ∈ coll ∧ ∃ s, e.2 = h e.1 (.int s)) ∧
      (valsOf res).Nodup ∧ (keysOf res).Nodup ∧ (∀ k ∈ coll, k ∈ keysOf res) := by
  intro fuel
  induction fuel with
  | zero => intro _ _ _ _ _ _ _ _ h; simp [resolveLoop] at h
  | succ f ih =>
    intro salt coll cur res hv hk hc hdis hres
    unfold resolveLoop at hres
    split at hres
    · rename_i hemp
      cases hres
      have : coll = [] := by simpa using hemp
      subst this
      exact ⟨⟨[], by simp, by simp⟩, hv, hk, by simp⟩
    · simp only at hres
      obtain ⟨c1, hc1, hsub⟩ := dropDup_append_of_nodup cur (coll.map fun k => (k, h k (.int salt))) hv
      have hk1sub : (keysOf c1).Sublist coll := by
        have := hsub.map (fun x : KV => x.1)
        rw [show List.map (fun x : KV => x.1) (coll.map fun k => (k, h k (.int salt))) = coll from
          keysOf_map_pair coll _] at this
        exact this
      have hc1mem : ∀ e ∈ c1, e.1 ∈ coll ∧ ∃ s, e.2 = h e.1 (.int s) := by
        intro e he
        have := hsub.subset he
        simp only [List.mem_map] at this
        obtain ⟨k, hk, rfl⟩ := this
        exact ⟨hk, salt, rfl⟩
      have hk' : (keysOf (cur ++ c1)).Nodup := by
        rw [keysOf_append, List.nodup_append]
        refine ⟨hk, hc.sublist hk1sub, ?_⟩
        intro a ha b hb hab
        subst hab
        exact hdis a (hk1sub.subset hb) ha
      rw [hc1] at hres
      have hv' : (valsOf (cur ++ c1)).Nodup := by rw [← hc1]; exact dropDup_nodup_vals _
      rw [keysOf_map_pair] at hres
      have hdis' : ∀ k ∈ diff coll (keysOf (cur ++ c1)), k ∉ keysOf (cur ++ c1) := fun k hk => (mem_diff.mp hk).2
      obtain ⟨⟨c', hc', hc'mem⟩, hvr, hkr, hall⟩ :=
        ih (salt + 1) _ (cur ++ c1) res hv' hk' (diff_nodup _ _) hdis' hres
      refine ⟨⟨c1 ++ c', by rw [hc', List.append_assoc], ?_⟩, hvr, hkr, ?_⟩
      · intro e he
        rcases List.mem_append.mp he with he | he
        · exact hc1mem e he
        · obtain ⟨h1, h2⟩ := hc'mem e he
          exact ⟨(mem_diff.mp h1).1, h2⟩
      · intro k hkc
        by_cases hin : k ∈ keysOf (cur ++ c1)
        · rw [hc', keysOf_append]; exact List.mem_append_left _ hin
        · exact hall k (mem_diff.mpr ⟨hkc, hin⟩)

/-- `_resolve_collisions` entered with `old ++ first hashes of the new keys` -/
theorem resolve_spec (h : Key → Salt → Nat) (fuel : Nat) (newKeys : List Key) (old upd0 res : List KV)
    (hvo : (valsOf old).Nodup) (hk : (keysOf old ++ newKeys).Nodup) (hupd : keysOf upd0 = newKeys)
    (hres : resolve h fuel newKeys (old ++ upd0) = some res) :
    (∃ c, res = old ++ c ∧ ∀ e ∈ c, e.1 ∈ newKeys ∧ (e ∈ upd0 ∨ ∃ s, e.2 = h e.1 (.int s))) ∧
    (valsOf res).Nodup ∧ (keysOf res).Nodup ∧ (∀ k ∈ newKeys, k ∈ keysOf res) := by
  unfold resolve at hres
  simp only at hres
  obtain ⟨c0, hc0, hsub⟩ := dropDup_append_of_nodup old upd0 hvo
  rw [hc0] at hres
  have hk0sub : (keysOf c0).Sublist newKeys := by rw [← hupd]; exact hsub.map _
  have hkcur : (keysOf (old ++ c0)).Nodup := by
    rw [keysOf_append]
    exact hk.sublist ((List.Sublist.refl _).append hk0sub)
  have hvcur : (valsOf (old ++ c0)).Nodup := by rw [← hc0]; exact dropDup_nodup_vals _
  obtain ⟨⟨c, hc, hcmem⟩, hvr, hkr, hall⟩ :=
    resolveLoop_spec h fuel 1 _ (old ++ c0) res hvcur hkcur (diff_nodup _ _)
      (fun k hk => (mem_diff.mp hk).2) hres
  refine ⟨⟨c0 ++ c, by rw [hc, List.append_assoc], ?_⟩, hvr, hkr, ?_⟩
  · intro e he
    rcases List.mem_append.mp he with he | he
    · have hm := hsub.subset he
      exact ⟨by rw [← hupd]; exact List.mem_map_of_mem hm, Or.inl hm⟩
    · obtain ⟨h1, h2⟩ := hcmem e he
      exact ⟨(mem_diff.mp h1).1, Or.inr h2⟩
  · intro k hkn
    by_cases hin : k ∈ keysOf (old ++ c0)
    · rw [hc, keysOf_append]; exact List.mem_append_left _ hin
    · exact hall k (mem_diff.mpr ⟨hkn, hin⟩)

/-! ### `lookup` (`Series.reindex`) and `attach` -/

theorem lookup_of_mem : ∀ (l : List KV), (keysOf l).Nodup → ∀ {k : Key} {p : Nat}, (k, p) ∈ l → l.lookup k = some p
  | [], _, _, _, h => by cases h
  | (k', p') :: es, hk, k, p, h => by
    simp only [keysOf, List.map_cons, List.nodup_cons] at hk
    rcases List.mem_cons.mp h with h0 | h1
    · cases h0; simp [List.lookup]
    · have hne : k ≠ k' := by
        intro heq; subst heq
        exact hk.1 (List.mem_map_of_mem (f := fun x : KV => x.1) h1)
      have hb : (k == k') = false := by simpa using hne
      simp only [List.lookup, hb]
      exact lookup_of_mem es hk.2 h1

theorem mem_of_lookup : ∀ (l : List KV) {k : Key} {p : Nat}, l.lookup k = some p → (k, p) ∈ l
  | [], _, _, h => by simp [List.lookup] at h
  | (k', p') :: es, k, p, h => by
    simp only [List.lookup] at h
    split at h
    · rename_i heq
      have : k = k' := by simpa using heq
      cases h; subst this; exact List.mem_cons_self
    · exact List.mem_cons_of_mem _ (mem_of_lookup es h)

theorem lookup_isSome_of_mem_keys (l : List KV) (hk : (keysOf l).Nodup) {k : Key} (h : k ∈ keysOf l) :
    ∃ p, l.lookup k = some p := by
  simp only [keysOf, List.mem_map] at h
  obtain ⟨⟨k', p⟩, hm, rfl⟩ := h
  exact ⟨p, lookup_of_mem l hk hm⟩

/-- positions pairwise distinct ⇒ a position determines its key -/
theorem key_eq_of_val_eq : ∀ (l : List KV), (valsOf l).Nodup → ∀ {k1 k2 : Key} {p : Nat},
    (k1, p) ∈ l → (k2, p) ∈ l → k1 = k2
  | [], _, _, _, _, h, _ => by cases h
  | (k', p') :: es, hv, k1, k2, p, h1, h2 => by
    simp only [valsOf, List.map_cons, List.nodup_cons] at hv
    rcases List.mem_cons.mp h1 with a1 | a1 <;> rcases List.mem_cons.mp h2 with a2 | a2
    · cases a1; cases a2; rfl
    · cases a1; exact absurd (List.mem_map_of_mem (f := fun x : KV => x.2) a2) hv.1
    · cases a2; exact absurd (List.mem_map_of_mem (f := fun x : KV => x.2) a1) hv.1
    · exact key_eq_of_val_eq es hv.2 a1 a2

theorem attach_spec : ∀ (final : List KV) (rows : List (Int × Key)) (es : List Entry),
    attach final rows = some es ↔ (es.map rowOf = rows ∧ ∀ e ∈ es, final.lookup e.key = some e.pos)
  | final, [], es => by
    simp only [attach, Option.some.injEq]
    constructor
    · intro h; subst h; simp
    · rintro ⟨h, _⟩; simpa using h.symm
  | final, (s, k) :: rows, es => by
    simp only [attach]
    constructor
    · intro h
      split at h
      · rename_i p es' hp hes'
        cases h
        obtain ⟨h1, h2⟩ := (attach_spec final rows es').mp hes'
        refine ⟨by simp [rowOf, h1], ?_⟩
        intro e he
        rcases List.mem_cons.mp he with he | he
        · subst he; exact hp
        · exact h2 e he
      · cases h
    · rintro ⟨h1, h2⟩
      cases es with
      | nil => simp at h1
      | cons e es' =>
        simp only [List.map_cons, List.cons.injEq] at h1
        obtain ⟨hr, hrows⟩ := h1
        have hp := h2 e List.mem_cons_self
        have hes' := (attach_spec final rows es').mpr ⟨hrows, fun e' he' => h2 e' (List.mem_cons_of_mem _ he')⟩
        have hk : k = e.key := by simp [rowOf] at hr; exact hr.2.symm
        have hs : s = e.sim := by simp [rowOf] at hr; exact hr.1.symm
        subst hk; subst hs
        simp [hp, hes']

theorem attach_total (final : List KV) (hk : (keysOf final).Nodup) :
    ∀ (rows : List (Int × Key)), (∀ r ∈ rows, r.2 ∈ keysOf final) → ∃ es, attach final rows = some es
  | [], _ => ⟨[], rfl⟩
  | (s, k) :: rows, h => by
    obtain ⟨p, hp⟩ := lookup_isSome_of_mem_keys final hk (h (s, k) List.mem_cons_self)
    obtain ⟨es, hes⟩ := attach_total final hk rows (fun r hr => h r (List.mem_cons_of_mem _ hr))
    exact ⟨⟨s, k, p⟩ :: es, by simp [attach, hp, hes]⟩

theorem nodupB_iff : ∀ (l : List Key), nodupB l = true ↔ l.Nodup
  | [] => by simp [nodupB]
  | k :: ks => by
    simp only [nodupB, Bool.and_eq_true, Bool.not_eq_true', List.nodup_cons, nodupB_iff ks]
    constructor
    · rintro ⟨h1, h2⟩; exact ⟨by simpa using h1, h2⟩
    · rintro ⟨h1, h2⟩; exact ⟨by simpa using h1, h2⟩

theorem sortEntries_perm (es : List Entry) : (sortEntries es).Perm es := isort_perm _ _

theorem entries_eq_of_rows_lookup (final : List KV) : ∀ (es1 es2 : List Entry),
    es1.map rowOf = es2.map rowOf → (∀ e ∈ es1, final.lookup e.key = some e.pos) →
    (∀ e ∈ es2, final.lookup e.key = some e.pos) → es1 = es2
  | [], [], _, _, _ => rfl
  | [], _ :: _, h, _, _ => by simp at h
  | _ :: _, [], h, _, _ => by simp at h
  | a :: as, b :: bs, h, h1, h2 => by
    simp only [List.map_cons, List.cons.injEq] at h
    have ha := h1 a List.mem_cons_self
    have hb := h2 b List.mem_cons_self
    have hr : a.sim = b.sim ∧ a.key = b.key := by simpa [rowOf] using h.1
    have hp : a.pos = b.pos := by
      rw [hr.2] at ha; rw [ha] at hb; exact Option.some.inj hb
    have : a = b := by
      cases a; cases b; simp_all
    rw [this, entries_eq_of_rows_lookup final as bs h.2 (fun e he => h1 e (List.mem_cons_of_mem _ he))
      (fun e he => h2 e (List.mem_cons_of_mem _ he))]

/-! ### one `update` -/

theorem valsOf_kvOf (old : List Entry) : valsOf (old.map kvOf) = old.map (·.pos) := by
  simp [valsOf, kvOf, List.map_map, Function.comp_def]
theorem keysOf_kvOf (old : List Entry) : keysOf (old.map kvOf) = old.map (·.key) := by
  simp [keysOf, kvOf, List.map_map, Function.comp_def]

/-- What a successful `update` did, for every hash function and every fuel: the union of old and new
keys was duplicate-free; the key-indexed mapping `res` it built extends the old one by entries for batch
keys, each at its first hash (salt = clock time) or at a salted re-hash; keys and positions of `res` are
pairwise distinct; the new map is, up to the order of rows, the old map plus one row per batch row, each
row carrying the position `res` holds for its key. Needs only that the old positions are distinct. -/
theorem update_ok_spec (h : Key → Salt → Nat) (fuel : Nat) (old : List Entry) (batch : List (Int × Key))
    (t : Salt) (m' : List Entry) (hpos : (old.map (·.pos)).Nodup)
    (hu : update h fuel old batch t = .ok m') :
    ∃ (res : List KV) (newE : List Entry),
      buildFinal h fuel old batch t = some res ∧
      (old.map (·.key) ++ batch.map (·.2)).Nodup ∧
      m'.Perm (old ++ newE) ∧ newE.map rowOf = batch ∧
      (∃ c, res = old.map kvOf ++ c ∧
        ∀ e ∈ c, e.1 ∈ batch.map (·.2) ∧ (e.2 = h e.1 t ∨ ∃ s, e.2 = h e.1 (.int s))) ∧
      (valsOf res).Nodup ∧ (keysOf res).Nodup ∧
      (∀ e ∈ old ++ newE, (e.key, e.pos) ∈ res) := by
  unfold update at hu
  simp only at hu
  split at hu
  · cases hu
  rename_i hnd
  have hnd' : (old.map (·.key) ++ batch.map (·.2)).Nodup := by
    have : nodupB (List.map (fun x => x.2) (old.map rowOf ++ batch)) = true := by simpa using hnd
    have := (nodupB_iff _).mp this
    simpa [rowOf, List.map_append, List.map_map, Function.comp_def] using this
  split at hu
  · cases hu
  rename_i res hbf
  split at hu
  · cases hu
  rename_i es hat
  cases hu
  have hbf' := hbf
  unfold buildFinal at hbf'
  simp only at hbf'
  obtain ⟨⟨c, hc, hcmem⟩, hvr, hkr, hall⟩ :=
    resolve_spec h fuel (batch.map (·.2)) (old.map kvOf) ((batch.map (·.2)).map fun k => (k, h k t)) res
      (by rw [valsOf_kvOf]; exact hpos) (by rw [keysOf_kvOf]; exact hnd') (keysOf_map_pair _ _) hbf'
  obtain ⟨hrows, hlook⟩ := (attach_spec res _ es).mp hat
  obtain ⟨es1, es2, hes, hes1, hes2⟩ := List.map_eq_append_iff.mp hrows
  have hold : ∀ e ∈ old, res.lookup e.key = some e.pos := by
    intro e he
    apply lookup_of_mem res hkr
    rw [hc]
    exact List.mem_append_left _ (List.mem_map_of_mem (f := kvOf) he)
  have h1 : es1 = old := by
    apply entries_eq_of_rows_lookup res es1 old hes1 _ hold
    intro e he; exact hlook e (by rw [hes]; exact List.mem_append_left _ he)
  subst h1
  refine ⟨res, es2, hbf, hnd', ?_, hes2, ⟨c, hc, ?_⟩, hvr, hkr, ?_⟩
  · rw [← hes]; exact sortEntries_perm es
  · intro e he
    obtain ⟨h1, h2⟩ := hcmem e he
    refine ⟨h1, ?_⟩
    rcases h2 with h2 | h2
    · left
      simp only [List.mem_map] at h2
      obtain ⟨k, _, rfl⟩ := h2
      rfl
    · exact Or.inr h2
  · intro e he
    rw [← hes] at he
    exact mem_of_lookup res (hlook e he)

/-! ### the collision loop sees what is already placed only as a set

`resolveLoop` started from `a ++ c` and from `a' ++ c`, where `a` and `a'` hold the same positions and
the same keys (in any order, under any labels), adds exactly the same entries. This is what makes the
positions of new keys independent of simulant labels and of the order of the old map. -/

theorem resolveLoop_prefix (h : Key → Salt → Nat) :
    ∀ (fuel salt : Nat) (coll : List Key) (cur res : List KV),
      (valsOf cur).Nodup → resolveLoop h fuel salt coll cur = some res → ∃ c, res = cur ++ c := by
  intro fuel
  induction fuel with
  | zero => intro _ _ _ _ _ h; simp [resolveLoop] at h
  | succ f ih =>
    intro salt coll cur res hv hres
    unfold resolveLoop at hres
    split at hres
    · cases hres; exact ⟨[], by simp⟩
    · simp only at hres
      obtain ⟨c1, hc1, _⟩ := dropDup_append_of_nodup cur (coll.map fun k => (k, h k (.int salt))) hv
      obtain ⟨c', hc'⟩ := ih _ _ _ res (dropDup_nodup_vals _) hres
      exact ⟨c1 ++ c', by rw [hc', hc1, List.append_assoc]⟩

theorem contains_congr {α : Type} [BEq α] [LawfulBEq α] (l l' : List α) (h : ∀ x, x ∈ l ↔ x ∈ l') (x : α) :
    l.contains x = l'.contains x := by
  have := h x
  cases h1 : l.contains x <;> cases h2 : l'.contains x <;> simp_all

theorem resolveLoop_congr (h : Key → Salt → Nat) (a a' : List KV)
    (hvm : ∀ p, p ∈ valsOf a ↔ p ∈ valsOf a') (hkm : ∀ k, k ∈ keysOf a ↔ k ∈ keysOf a') :
    ∀ (fuel salt : Nat) (coll : List Key) (c r : List KV),
      (valsOf (a ++ c)).Nodup → (valsOf (a' ++ c)).Nodup →
      resolveLoop h fuel salt coll (a ++ c) = some (a ++ r) →
      resolveLoop h fuel salt coll (a' ++ c) = some (a' ++ r) := by
  intro fuel
  induction fuel with
  | zero => intro _ _ _ _ _ _ h; simp [resolveLoop] at h
  | succ f ih =>
    intro salt coll c r hv hv' hres
    unfold resolveLoop at hres ⊢
    split
    · rename_i hemp
      rw [if_pos hemp] at hres
      have : a ++ c = a ++ r := Option.some.inj hres
      rw [List.append_cancel_left this]
    · rename_i hemp
      rw [if_neg hemp] at hres
      simp only at hres ⊢
      have hF : ∀ upd : List KV,
          (dropDup upd).filter (fun x => !(valsOf (a ++ c)).contains x.2) =
          (dropDup upd).filter (fun x => !(valsOf (a' ++ c)).contains x.2) := by
        intro upd
        apply List.filter_congr
        intro x _
        congr 1
        apply contains_congr
        intro p
        simp only [valsOf_append, List.mem_append, hvm p]
      rw [dropDup_append_eq _ _ hv, List.append_assoc] at hres
      rw [dropDup_append_eq _ _ hv', List.append_assoc, ← hF]
      have hd : diff (keysOf (coll.map fun k => (k, h k (.int salt))))
            (keysOf (a' ++ (c ++ (dropDup (coll.map fun k => (k, h k (.int salt)))).filter
              (fun x => !(valsOf (a ++ c)).contains x.2)))) =
          diff (keysOf (coll.map fun k => (k, h k (.int salt))))
            (keysOf (a ++ (c ++ (dropDup (coll.map fun k => (k, h k (.int salt)))).filter
              (fun x => !(valsOf (a ++ c)).contains x.2)))) := by
        apply diff_congr_right
        intro k
        simp only [keysOf_append, List.mem_append, hkm k]
      rw [hd]
      apply ih _ _ _ _ _ _ hres
      · rw [← List.append_assoc, ← dropDup_append_eq _ _ hv]; exact dropDup_nodup_vals _
      · rw [← List.append_assoc, hF, ← dropDup_append_eq _ _ hv']; exact dropDup_nodup_vals _

theorem resolve_prefix (h : Key → Salt → Nat) (fuel : Nat) (newKeys : List Key) (a upd0 res : List KV)
    (hv : (valsOf a).Nodup) (hres : resolve h fuel newKeys (a ++ upd0) = some res) : ∃ r, res = a ++ r := by
  unfold resolve at hres
  simp only at hres
  obtain ⟨c0, hc0, _⟩ := dropDup_append_of_nodup a upd0 hv
  obtain ⟨c, hc⟩ := resolveLoop_prefix h fuel 1 _ _ res (dropDup_nodup_vals _) hres
  exact ⟨c0 ++ c, by rw [hc, hc0, List.append_assoc]⟩

/-- `_resolve_collisions` adds the same entries whatever the order of the already registered part -/
theorem resolve_congr (h : Key → Salt → Nat) (fuel : Nat) (newKeys : List Key) (a a' upd0 r : List KV)
    (hperm : a'.Perm a) (hv : (valsOf a).Nodup)
    (hres : resolve h fuel newKeys (a ++ upd0) = some (a ++ r)) :
    resolve h fuel newKeys (a' ++ upd0) = some (a' ++ r) := by
  have hpv : (valsOf a').Perm (valsOf a) := hperm.map _
  have hpk : (keysOf a').Perm (keysOf a) := hperm.map _
  have hv' : (valsOf a').Nodup := hpv.nodup_iff.mpr hv
  have hvm : ∀ p, p ∈ valsOf a ↔ p ∈ valsOf a' := fun p => hpv.mem_iff.symm
  have hkm : ∀ k, k ∈ keysOf a ↔ k ∈ keysOf a' := fun k => hpk.mem_iff.symm
  unfold resolve at hres ⊢
  simp only at hres ⊢
  have hF : (dropDup upd0).filter (fun x => !(valsOf a).contains x.2) =
      (dropDup upd0).filter (fun x => !(valsOf a').contains x.2) := by
    apply List.filter_congr
    intro x _
    congr 1
    exact contains_congr _ _ hvm x.2
  rw [dropDup_append_eq _ _ hv] at hres
  rw [dropDup_append_eq _ _ hv', ← hF]
  have hd : diff newKeys (keysOf (a' ++ (dropDup upd0).filter (fun x => !(valsOf a).contains x.2))) =
      diff newKeys (keysOf (a ++ (dropDup upd0).filter (fun x => !(valsOf a).contains x.2))) := by
    apply diff_congr_right
    intro k
    simp only [keysOf_append, List.mem_append, hkm k]
  rw [hd]
  apply resolveLoop_congr h a a' hvm hkm _ _ _ _ _ _ _ hres
  · rw [← dropDup_append_eq _ _ hv]; exact dropDup_nodup_vals _
  · rw [hF, ← dropDup_append_eq _ _ hv']; exact dropDup_nodup_vals _

/-- whatever survives the first `drop_duplicates` is in the final mapping -/
theorem resolve_keeps_first (h : Key → Salt → Nat) (fuel : Nat) (newKeys : List Key) (current res : List KV)
    (hres : resolve h fuel newKeys current = some res) : ∀ e ∈ dropDup current, e ∈ res := by
  unfold resolve at hres
  simp only at hres
  obtain ⟨c, hc⟩ := resolveLoop_prefix h fuel 1 _ _ res (dropDup_nodup_vals _) hres
  intro e he
  rw [hc]; exact List.mem_append_left _ he

theorem posOfKey_of_mem : ∀ (m : List Entry), (m.map (·.key)).Nodup → ∀ e ∈ m, posOfKey m e.key = some e.pos
  | [], _, _, he => by cases he
  | a :: as, hnd, e, he => by
    simp only [List.map_cons, List.nodup_cons] at hnd
    rcases List.mem_cons.mp he with he | he
    · subst he; simp [posOfKey, List.find?]
    · have hne : a.key ≠ e.key := by
        intro heq; exact hnd.1 (by rw [heq]; exact List.mem_map_of_mem (f := (·.key)) he)
      have hb : (a.key == e.key) = false := by simpa using hne
      have := posOfKey_of_mem as hnd.2 e he
      simpa [posOfKey, List.find?, hb] using this

theorem posOfSim_of_mem : ∀ (m : List Entry), (m.map (·.sim)).Nodup → ∀ e ∈ m, posOfSim m e.sim = some e.pos
  | [], _, _, he => by cases he
  | a :: as, hnd, e, he => by
    simp only [List.map_cons, List.nodup_cons] at hnd
    rcases List.mem_cons.mp he with he | he
    · subst he; simp [posOfSim, List.find?]
    · have hne : a.sim ≠ e.sim := by
        intro heq; exact hnd.1 (by rw [heq]; exact List.mem_map_of_mem (f := (·.sim)) he)
      have hb : (a.sim == e.sim) = false := by simpa using hne
      have := posOfSim_of_mem as hnd.2 e he
      simpa [posOfSim, List.find?, hb] using this


/-- the `internal` error of the model (a row without position after collision resolution, which the
real code would turn into a NaN position) cannot occur -/
theorem update_never_internal (h : Key → Salt → Nat) (fuel : Nat) (m : List Entry) (batch : List (Int × Key))
    (t : Salt) (hpos : (m.map (·.pos)).Nodup) : update h fuel m batch t ≠ .error .internal := by
  unfold update
  simp only
  split
  · simp
  rename_i hnd
  split
  · simp
  rename_i res hbf
  split
  · rename_i hat
    exfalso
    have hnd' : (m.map (·.key) ++ batch.map (·.2)).Nodup := by
      have : nodupB (List.map (fun x => x.2) (m.map rowOf ++ batch)) = true := by simpa using hnd
      have := (nodupB_iff _).mp this
      simpa [rowOf, List.map_append, List.map_map, Function.comp_def] using this
    unfold buildFinal at hbf
    simp only at hbf
    obtain ⟨⟨c, hc, _⟩, _, hkr, hall⟩ :=
      resolve_spec h fuel (batch.map (·.2)) (m.map kvOf) ((batch.map (·.2)).map fun k => (k, h k t)) res
        (by rw [valsOf_kvOf]; exact hpos) (by rw [keysOf_kvOf]; exact hnd') (keysOf_map_pair _ _) hbf
    obtain ⟨es, hes⟩ := attach_total res hkr (m.map rowOf ++ batch) (by
      intro r hr
      rcases List.mem_append.mp hr with hr | hr
      · simp only [List.mem_map] at hr
        obtain ⟨e, he, rfl⟩ := hr
        rw [hc, keysOf_append, keysOf_kvOf]
        exact List.mem_append_left _ (List.mem_map_of_mem (f := (·.key)) he)
      · exact hall _ (List.mem_map_of_mem (f := (·.2)) hr))
    rw [hes] at hat
    cases hat
  · simp


end Viv.IndexMap
