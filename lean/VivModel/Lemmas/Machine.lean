import VivModel.Model.Machine
/-! Helper lemmas for C17: the pandas/numpy idioms of `state_machine.py` written as list functions
(`probability` = concat + reindex, `matrix` = transpose, `normalizeAll`, `decisions`, `group`, `setSt`) are what
one expects pointwise; inverse-CDF facts about `choiceIdx`. Core Lean only. -/
set_option linter.unusedSimpArgs false
namespace Viv.Machine

/-! ### `Transition.probability`: concat + reindex is the per-simulant lookup -/

theorem lookup_map_filter_pos (l : List Nat) (p : Nat → Bool) (f : Nat → Nat) (i : Nat)
    (hi : i ∈ l) (hp : p i = true) :
    ((l.filter p).map (fun j => (j, f j))).lookup i = some (f i) := by
  induction l with
  | nil => cases hi
  | cons a l ih =>
    by_cases ha : p a = true
    · by_cases hai : i = a
      · subst hai; simp [List.filter_cons, ha, List.lookup_cons]
      · have : i ∈ l := by
          cases hi with
          | head => exact absurd rfl hai
          | tail _ h => exact h
        have hne : (i == a) = false := by simpa using hai
        simp [List.filter_cons, ha, List.lookup_cons, hne, ih this]
    · have : i ∈ l := by
        cases hi with
        | head => exact absurd hp ha
        | tail _ h => exact h
      simp [List.filter_cons, ha, ih this]

theorem lookup_map_filter_neg (l : List Nat) (p : Nat → Bool) (f : Nat → Nat) (i : Nat)
    (hp : p i = false) :
    ((l.filter p).map (fun j => (j, f j))).lookup i = none := by
  induction l with
  | nil => rfl
  | cons a l ih =>
    by_cases ha : p a = true
    · have hne : (i == a) = false := by
        apply Bool.eq_false_iff.mpr
        intro h
        have : i = a := by simpa using h
        subst this
        rw [hp] at ha; cases ha
      simp [List.filter_cons, ha, List.lookup_cons, hne, ih]
    · simp [List.filter_cons, ha, ih]

/-- the vector `Transition.probability(index)` returns is aligned with `index`: position by position
it is the simulant's own probability (0 when the simulant is outside the active index). -/
theorem probability_eq (t : Trans) (index : List Nat) : probability t index = index.map (prob t) := by
  unfold probability prob
  cases h : t.active with
  | none => rfl
  | some a =>
    simp only
    apply List.map_congr_left
    intro i hi
    rw [List.lookup_append]
    by_cases hc : i ∈ a
    · have hc1 : a.contains i = true := by simpa using hc
      rw [lookup_map_filter_pos index (fun i => a.contains i) (fun i => t.w.getD i 0) i hi hc1]
      simp [hc]
    · have hc' : a.contains i = false := by simpa using hc
      rw [lookup_map_filter_neg index (fun i => a.contains i) (fun i => t.w.getD i 0) i hc']
      rw [lookup_map_filter_pos index (fun i => !a.contains i) (fun _ => 0) i hi (by simp [hc])]
      simp [hc]

/-- `np.transpose` of the per-transition vectors: row `k` is the weight row of the `k`-th simulant of the index -/
theorem matrix_eq (trs : List Trans) (index : List Nat) : matrix trs index = index.map (rowOf trs) := by
  unfold matrix
  apply List.ext_getElem?
  intro k
  simp only [List.getElem?_map]
  by_cases hk : k < index.length
  · rw [List.getElem?_range hk, List.getElem?_eq_getElem hk]
    simp only [Option.map_some, rowOf, List.map_map]
    congr 1
    apply List.map_congr_left
    intro t _
    simp [Function.comp, probability_eq, List.getD_eq_getElem?_getD, List.getElem?_map, List.getElem?_eq_getElem hk]
  · have h1 : (List.range index.length)[k]? = none := by
      apply List.getElem?_eq_none; simpa using Nat.le_of_not_lt hk
    have h2 : index[k]? = none := List.getElem?_eq_none (Nat.le_of_not_lt hk)
    rw [h1, h2]; rfl

/-! ### `_normalize_probabilities`: the matrix test is the row test for every row -/

theorem normalize_ok_eq {wd : Nat} {so : Bool} {r r' : List Nat} (h : normalize wd so r = .ok r') :
    r' = normRow wd so r := by
  unfold normalize at h
  split at h
  · cases h
  · split at h
    · split at h
      · cases h
      · cases h; rfl
    · split at h
      · cases h
      · cases h; rfl

theorem normalizeAll_ok {wd : Nat} {so : Bool} {rows rs : List (List Nat)}
    (h : normalizeAll wd so rows = .ok rs) :
    rs = rows.map (normRow wd so) ∧ ∀ r ∈ rows, normalize wd so r = .ok (normRow wd so r) := by
  unfold normalizeAll at h
  split at h
  · cases h
  · rename_i h1
    split at h
    · rename_i hso
      split at h
      · cases h
      · rename_i h2
        cases h
        refine ⟨rfl, ?_⟩
        intro r hr
        have a1 : ¬ (1 < ones wd r) := by
          intro hh; apply h1; exact List.any_eq_true.mpr ⟨r, hr, by simpa using hh⟩
        have a2 : (ones wd r == 0 && decide (wd < r.sum)) = false := by
          apply Bool.eq_false_iff.mpr
          intro hh; apply h2; exact List.any_eq_true.mpr ⟨r, hr, hh⟩
        simp [normalize, a1, hso, a2]
    · rename_i hso
      split at h
      · cases h
      · rename_i h2
        cases h
        refine ⟨rfl, ?_⟩
        intro r hr
        have a1 : ¬ (1 < ones wd r) := by
          intro hh; apply h1; exact List.any_eq_true.mpr ⟨r, hr, by simpa using hh⟩
        have a2 : (r.sum == 0) = false := by
          apply Bool.eq_false_iff.mpr
          intro hh; apply h2; exact List.any_eq_true.mpr ⟨r, hr, hh⟩
        simp [normalize, a1, hso, a2]

theorem normalizeAll_complete {wd : Nat} {so : Bool} {rows : List (List Nat)}
    (h : ∀ r ∈ rows, ∃ r', normalize wd so r = .ok r') :
    normalizeAll wd so rows = .ok (rows.map (normRow wd so)) := by
  have key : ∀ r ∈ rows, ¬ (1 < ones wd r) ∧
      (so = true → (ones wd r == 0 && decide (wd < r.sum)) = false) ∧ (so = false → (r.sum == 0) = false) := by
    intro r hr
    obtain ⟨r', h'⟩ := h r hr
    unfold normalize at h'
    split at h'
    · cases h'
    · rename_i a1
      refine ⟨a1, ?_, ?_⟩
      · intro hso
        simp only [hso, if_true] at h'
        split at h'
        · cases h'
        · rename_i a2; simpa using a2
      · intro hso
        simp only [hso, Bool.false_eq_true, if_false] at h'
        split at h'
        · cases h'
        · rename_i a2; simpa using a2
  unfold normalizeAll
  have n1 : ¬ (rows.any (fun r => decide (1 < ones wd r)) = true) := by
    intro hh
    obtain ⟨r, hr, hp⟩ := List.any_eq_true.mp hh
    exact (key r hr).1 (by simpa using hp)
  rw [if_neg n1]
  cases so with
  | true =>
    have n2 : ¬ (rows.any (fun r => ones wd r == 0 && decide (wd < r.sum)) = true) := by
      intro hh
      obtain ⟨r, hr, hp⟩ := List.any_eq_true.mp hh
      rw [(key r hr).2.1 rfl] at hp; cases hp
    simp [n2]
  | false =>
    have n2 : ¬ (rows.any (fun r => r.sum == 0) = true) := by
      intro hh
      obtain ⟨r, hr, hp⟩ := List.any_eq_true.mp hh
      rw [(key r hr).2.2 rfl] at hp; cases hp
    simp [n2]

/-! ### `random.choice` per row, `_groupby_new_state`, `population_view.update` -/

theorem decisions_map (sd : StateDef) (dd : Nat) (g : Nat → List Nat) (index : List Nat) :
    decisions sd dd (index.map g) index = index.map (fun i => choiceIdx (g i) (sd.draws.getD i 0) dd) := by
  unfold decisions
  induction index with
  | nil => rfl
  | cons a l ih => simp only [List.map_cons, List.zipWith_cons_cons, ih]

theorem group_map (index : List Nat) (f : Nat → Nat) (k : Nat) :
    group index (index.map f) k = index.filter (fun i => f i == k) := by
  unfold group
  induction index with
  | nil => rfl
  | cons a l ih =>
    simp only [List.map_cons, List.zip_cons_cons, List.filter_cons]
    by_cases h : (f a == k) = true
    · simp [h, ih]
    · simp [h, ih]

theorem length_setSt (tab : Table) (grp : List Nat) (s : Nat) : (setSt tab grp s).length = tab.length := by
  simp [setSt]

theorem getElem?_setSt (tab : Table) (grp : List Nat) (s i : Nat) :
    (setSt tab grp s)[i]? = (tab[i]?).map (fun r => if grp.contains i then { r with st := s } else r) := by
  simp [setSt, List.getElem?_mapIdx]

theorem getElem?_setSt_of_mem (tab : Table) (grp : List Nat) (s i : Nat) (h : i ∈ grp) :
    (setSt tab grp s)[i]? = (tab[i]?).map (fun r => { r with st := s }) := by
  rw [getElem?_setSt]
  simp [h]

theorem getElem?_setSt_of_not_mem (tab : Table) (grp : List Nat) (s i : Nat) (h : i ∉ grp) :
    (setSt tab grp s)[i]? = tab[i]? := by
  rw [getElem?_setSt]
  simp [h]

/-! ### inverse CDF: `choiceIdx` -/

theorem length_cumsumFrom (a : Nat) (ws : List Nat) : (cumsumFrom a ws).length = ws.length := by
  induction ws generalizing a with
  | nil => rfl
  | cons w ws ih => simp [cumsumFrom, ih]

/-- the last cumulative bin is the total -/
theorem sum_mem_cumsumFrom (a : Nat) (ws : List Nat) (h : ws ≠ []) : a + ws.sum ∈ cumsumFrom a ws := by
  induction ws generalizing a with
  | nil => exact absurd rfl h
  | cons w ws ih =>
    by_cases hws : ws = []
    · subst hws; simp [cumsumFrom]
    · have := ih (a + w) hws
      simp only [cumsumFrom, List.sum_cons, List.mem_cons]
      right
      rw [← Nat.add_assoc]; exact this

/-- cumulative bins never decrease: once a bin is not below the draw, no later one is -/
theorem count_zero_of_not_below (dd T : Nat) (ws : List Nat) (a : Nat) (h : ¬ a * dd < T) :
    ((cumsumFrom a ws).filter (fun c => decide (c * dd < T))).length = 0 := by
  induction ws generalizing a with
  | nil => rfl
  | cons w ws ih =>
    have h1 : ¬ (a + w) * dd < T := by
      intro hh
      have : a * dd ≤ (a + w) * dd := Nat.mul_le_mul_right dd (Nat.le_add_right a w)
      omega
    simp only [cumsumFrom, List.filter_cons, h1, decide_false, Bool.false_eq_true, if_false]
    exact ih (a + w) h1

/-- a zero weight is never chosen, provided the running total before the row is already below the draw -/
theorem count_ne_of_zero (dd T : Nat) (ws : List Nat) (a k : Nat) (hk : ws[k]? = some 0) (ha : a * dd < T) :
    ((cumsumFrom a ws).filter (fun c => decide (c * dd < T))).length ≠ k := by
  induction ws generalizing a k with
  | nil => simp at hk
  | cons w ws ih =>
    cases k with
    | zero =>
      simp only [List.getElem?_cons_zero, Option.some.injEq] at hk
      subst hk
      simp [cumsumFrom, List.filter_cons, ha]
    | succ k =>
      simp only [List.getElem?_cons_succ] at hk
      by_cases h1 : (a + w) * dd < T
      · simp only [cumsumFrom, List.filter_cons, h1, decide_true, if_true, List.length_cons]
        have := ih (a + w) k hk h1
        omega
      · simp only [cumsumFrom, List.filter_cons, h1, decide_false, Bool.false_eq_true, if_false]
        rw [count_zero_of_not_below dd T ws (a + w) h1]
        omega

/-- **probability 0 is never chosen** – GIVEN a positive draw (and a positive total) or a positive first
weight. (Without the hypothesis it is false: `choiceIdx [0, 16] 0 dd = 0`, finding F9.) -/
theorem choiceIdx_ne_of_zero (row : List Nat) (d dd k : Nat) (hk : row[k]? = some 0)
    (h : 0 < d * row.sum ∨ 0 < row.head?.getD 0) : choiceIdx row d dd ≠ k := by
  unfold choiceIdx
  cases h with
  | inl h => exact count_ne_of_zero dd (d * row.sum) row 0 k hk (by omega)
  | inr h =>
    cases row with
    | nil => simp at hk
    | cons w ws =>
      simp only [List.head?_cons, Option.getD_some] at h
      cases k with
      | zero => simp only [List.getElem?_cons_zero, Option.some.injEq] at hk; omega
      | succ k =>
        simp only [List.getElem?_cons_succ] at hk
        by_cases h1 : (0 + w) * dd < d * (w :: ws).sum
        · simp only [cumsumFrom, List.filter_cons, h1, decide_true, if_true, List.length_cons]
          have := count_ne_of_zero dd (d * (w :: ws).sum) ws (0 + w) k hk h1
          omega
        · simp only [cumsumFrom, List.filter_cons, h1, decide_false, Bool.false_eq_true, if_false]
          rw [count_zero_of_not_below dd _ ws (0 + w) h1]
          omega

/-- a draw in [0,1] never runs past the last option (`np.array(choices)[choice_index]` is in range) -/
theorem choiceIdx_lt_length (row : List Nat) (d dd : Nat) (hne : row ≠ []) (hd : d ≤ dd) :
    choiceIdx row d dd < row.length := by
  unfold choiceIdx
  have hl := length_cumsumFrom 0 row
  rw [← hl]
  apply List.length_filter_lt_length_iff_exists.mpr
  refine ⟨0 + row.sum, sum_mem_cumsumFrom 0 row hne, ?_⟩
  simp only [decide_eq_true_eq, Nat.zero_add, Nat.not_lt]
  rw [Nat.mul_comm row.sum dd]
  exact Nat.mul_le_mul_right _ hd

theorem choiceIdx_le_length (row : List Nat) (d dd : Nat) : choiceIdx row d dd ≤ row.length := by
  unfold choiceIdx
  have := List.length_filter_le (fun c => decide (c * dd < d * row.sum)) (cumsumFrom 0 row)
  rw [length_cumsumFrom] at this
  exact this

theorem le_sum_of_getElem? (row : List Nat) (k x : Nat) (h : row[k]? = some x) : x ≤ row.sum := by
  induction row generalizing k with
  | nil => simp at h
  | cons w ws ih =>
    cases k with
    | zero => simp only [List.getElem?_cons_zero, Option.some.injEq] at h; subst h; simp
    | succ k =>
      simp only [List.getElem?_cons_succ] at h
      have := ih k h
      simp only [List.sum_cons]; omega

/-- exactly one entry is a probability 1 when one entry is `wd` and all the others are 0 -/
theorem ones_eq_one (wd : Nat) (hwd : 0 < wd) (row : List Nat) (k : Nat) (hk : row[k]? = some wd)
    (hz : ∀ j x, j ≠ k → row[j]? = some x → x = 0) : ones wd row = 1 := by
  unfold ones
  induction row generalizing k with
  | nil => simp at hk
  | cons w ws ih =>
    cases k with
    | zero =>
      simp only [List.getElem?_cons_zero, Option.some.injEq] at hk
      subst hk
      have hall : ws.filter (· == w) = [] := by
        apply List.filter_eq_nil_iff.mpr
        intro x hx
        obtain ⟨j, hj⟩ := List.mem_iff_getElem?.mp hx
        have := hz (j + 1) x (by omega) (by simpa using hj)
        simp; omega
      simp [List.filter_cons, hall]
    | succ k =>
      simp only [List.getElem?_cons_succ] at hk
      have hw : w = 0 := hz 0 w (by omega) (by simp)
      have hne : (w == wd) = false := by simp; omega
      simp only [List.filter_cons, hne, Bool.false_eq_true, if_false]
      exact ih k hk (fun j x hj hx => hz (j + 1) x (by omega) (by simpa using hx))

/-! ### the vectorised `_next_state` refines the pointwise `moveOne` -/

/-- where simulant `i` ends up after it has been decided for transition `t` (the tail of `moveOne`) -/
def landing (m : Mach) (fuel : Nat) (t : Trans) (i : Nat) : Except Err (List Nat) :=
  if (m.state t.out).transient then
    match moveOne m fuel t.out i with
    | .error e => .error e
    | .ok p => .ok (t.out :: p)
  else .ok [t.out]

theorem moveOne_empty (m : Mach) (fuel s i : Nat) (h : (m.state s).trans.isEmpty = true) :
    moveOne m fuel s i = .ok [] := by
  cases fuel <;> simp [moveOne, h]

theorem moveOne_zero (m : Mach) (s i : Nat) (h : (m.state s).trans.isEmpty = false) :
    moveOne m 0 s i = .error .loop := by
  simp [moveOne, h]

theorem moveOne_succ (m : Mach) (fuel s i : Nat) (h : (m.state s).trans.isEmpty = false) :
    moveOne m (fuel + 1) s i =
      match hop m s i with
      | .error e => .error e
      | .ok k =>
        match (m.state s).trans[k]? with
        | none => .ok []
        | some t => landing m fuel t i := by
  simp only [moveOne, h, Bool.false_eq_true, if_false, landing]
  rfl

theorem final_nil (s : Nat) : final s [] = s := rfl

theorem final_cons (s a : Nat) (p : List Nat) : final s (a :: p) = final a p := by
  cases p with
  | nil => rfl
  | cons b p =>
    obtain ⟨x, hx⟩ : ∃ x, (b :: p).getLast? = some x := ⟨_, List.getLast?_eq_some_getLast (by simp)⟩
    simp [final, List.getLast?_cons_cons, hx]

/-- what a correct implementation of "process the sub-index `pop`, all of whose members are in state `s`"
does to the table -/
def Sound (m : Mach) (fuel : Nat) (again : Nat → List Nat → Table → Except Err Table) : Prop :=
  ∀ (s : Nat) (pop : List Nat) (tab tab' : Table),
    (∀ i ∈ pop, ∃ r, tab[i]? = some r ∧ r.st = s) →
    again s pop tab = .ok tab' →
      tab'.length = tab.length ∧
      (∀ i, i ∉ pop → tab'[i]? = tab[i]?) ∧
      (∀ i ∈ pop, ∃ path, moveOne m fuel s i = .ok path ∧
        tab'[i]? = (tab[i]?).map (fun r => { r with st := final s path }))

theorem map_st_map_st (o : Option Row) (a b : Nat) :
    (o.map (fun r => ({ r with st := a } : Row))).map (fun r => ({ r with st := b } : Row)) =
      o.map (fun r => ({ r with st := b } : Row)) := by
  cases o <;> rfl

/-- one group of `_next_state`: write the output state, transient outputs transition again -/
theorem groupStep_sound (m : Mach) (fuel : Nat) (again : Nat → List Nat → Table → Except Err Table)
    (hrec : Sound m fuel again) (s : Nat) (grp : List Nat) (t : Trans) (tab tab2 : Table)
    (hpres : ∀ i ∈ grp, ∃ r, tab[i]? = some r)
    (h : (if (m.state t.out).transient then again t.out grp (setSt tab grp t.out) else .ok (setSt tab grp t.out)) = .ok tab2) :
    tab2.length = tab.length ∧
    (∀ i, i ∉ grp → tab2[i]? = tab[i]?) ∧
    (∀ i ∈ grp, ∃ path, landing m fuel t i = .ok path ∧
      tab2[i]? = (tab[i]?).map (fun r => { r with st := final s path })) := by
  by_cases htr : (m.state t.out).transient = true
  · rw [if_pos htr] at h
    have hpre : ∀ i ∈ grp, ∃ r, (setSt tab grp t.out)[i]? = some r ∧ r.st = t.out := by
      intro i hi
      obtain ⟨r, hr⟩ := hpres i hi
      exact ⟨{ r with st := t.out }, by rw [getElem?_setSt_of_mem _ _ _ _ hi, hr]; rfl, rfl⟩
    obtain ⟨hl, hf, hp⟩ := hrec t.out grp _ tab2 hpre h
    refine ⟨by rw [hl, length_setSt], ?_, ?_⟩
    · intro i hi
      rw [hf i hi, getElem?_setSt_of_not_mem _ _ _ _ hi]
    · intro i hi
      obtain ⟨path, hm, ht⟩ := hp i hi
      refine ⟨t.out :: path, by simp [landing, htr, hm], ?_⟩
      rw [ht, getElem?_setSt_of_mem _ _ _ _ hi, map_st_map_st, final_cons]
  · rw [if_neg htr] at h
    cases h
    refine ⟨length_setSt _ _ _, fun i hi => getElem?_setSt_of_not_mem _ _ _ _ hi, ?_⟩
    intro i hi
    refine ⟨[t.out], by simp [landing, htr], ?_⟩
    rw [getElem?_setSt_of_mem _ _ _ _ hi]
    rfl

/-- the loop over the groups: every simulant is in exactly one group (its decision), groups already
processed are not touched again, groups still to come have not been touched yet -/
theorem applyGroups_sound (m : Mach) (fuel : Nat) (again : Nat → List Nat → Table → Except Err Table)
    (hrec : Sound m fuel again) (s : Nat) (pop : List Nat) (g : Nat → Nat) :
    ∀ (ks : List (Nat × Trans)) (tab tab' : Table),
      (ks.map (·.1)).Nodup →
      (∀ i ∈ pop, g i ∈ ks.map (·.1) → ∃ r, tab[i]? = some r) →
      applyGroups (fun o => (m.state o).transient) again pop (pop.map g) ks tab = .ok tab' →
        tab'.length = tab.length ∧
        (∀ i, (i ∉ pop ∨ g i ∉ ks.map (·.1)) → tab'[i]? = tab[i]?) ∧
        (∀ i ∈ pop, ∀ p ∈ ks, g i = p.1 → ∃ path, landing m fuel p.2 i = .ok path ∧
          tab'[i]? = (tab[i]?).map (fun r => { r with st := final s path })) := by
  intro ks
  induction ks with
  | nil =>
    intro tab tab' _ _ h
    simp only [applyGroups] at h
    cases h
    exact ⟨rfl, fun _ _ => rfl, fun _ _ p hp => by cases hp⟩
  | cons kt rest ih =>
    obtain ⟨k, t⟩ := kt
    intro tab tab' hnd hpres h
    simp only [applyGroups, group_map] at h
    generalize hgrp : pop.filter (fun i => g i == k) = grp at h
    have hmem : ∀ i, i ∈ grp ↔ i ∈ pop ∧ g i = k := by
      intro i; rw [← hgrp]; simp [List.mem_filter]
    split at h
    · cases h
    · rename_i tab2 hstep
      have hnd' : (rest.map (·.1)).Nodup := (List.nodup_cons.mp (by simpa using hnd)).2
      have hk_notin : k ∉ rest.map (·.1) := (List.nodup_cons.mp (by simpa using hnd)).1
      have hpres_grp : ∀ i ∈ grp, ∃ r, tab[i]? = some r := by
        intro i hi
        obtain ⟨hip, hik⟩ := (hmem i).mp hi
        exact hpres i hip (by simp [hik])
      obtain ⟨hl2, hf2, hp2⟩ := groupStep_sound m fuel again hrec s grp t tab tab2 hpres_grp hstep
      have hpres2 : ∀ i ∈ pop, g i ∈ rest.map (·.1) → ∃ r, tab2[i]? = some r := by
        intro i hi hgi
        have hni : i ∉ grp := by
          intro hh; have := ((hmem i).mp hh).2; rw [this] at hgi; exact hk_notin hgi
        rw [hf2 i hni]
        exact hpres i hi (by simp only [List.map_cons, List.mem_cons]; right; exact hgi)
      obtain ⟨hl, hf, hp⟩ := ih tab2 tab' hnd' hpres2 h
      refine ⟨by rw [hl, hl2], ?_, ?_⟩
      · intro i hi
        have hni : i ∉ grp := by
          intro hh
          obtain ⟨hip, hik⟩ := (hmem i).mp hh
          cases hi with
          | inl h1 => exact h1 hip
          | inr h1 => apply h1; simp [hik]
        have hi' : i ∉ pop ∨ g i ∉ rest.map (·.1) := by
          cases hi with
          | inl h1 => exact Or.inl h1
          | inr h1 => right; intro hh; apply h1; simp only [List.map_cons, List.mem_cons]; right; exact hh
        rw [hf i hi', hf2 i hni]
      · intro i hi p hp' hgi
        cases hp' with
        | head =>
          have hig : i ∈ grp := (hmem i).mpr ⟨hi, hgi⟩
          obtain ⟨path, hland, ht⟩ := hp2 i hig
          refine ⟨path, hland, ?_⟩
          rw [hf i (Or.inr (by rw [hgi]; exact hk_notin)), ht]
        | tail _ hpr =>
          have hne : g i ≠ k := by
            intro hh; apply hk_notin; rw [← hh, hgi]; exact List.mem_map_of_mem hpr
          have hni : i ∉ grp := fun hh => hne ((hmem i).mp hh).2
          obtain ⟨path, hland, ht⟩ := hp i hi p hpr hgi
          exact ⟨path, hland, by rw [ht, hf2 i hni]⟩

theorem mem_zip_range {α : Type} (l : List α) (k : Nat) (x : α) (h : (k, x) ∈ (List.range l.length).zip l) :
    l[k]? = some x := by
  obtain ⟨j, hj⟩ := List.mem_iff_getElem?.mp h
  obtain ⟨h1, h2⟩ := List.getElem?_zip_eq_some.mp hj
  simp only at h1 h2
  have hjl : j < l.length := by
    by_cases hh : j < l.length
    · exact hh
    · rw [List.getElem?_eq_none (Nat.le_of_not_lt hh)] at h2; cases h2
  rw [List.getElem?_range hjl] at h1
  cases h1
  exact h2

theorem zip_range_mem {α : Type} (l : List α) (k : Nat) (x : α) (h : l[k]? = some x) :
    (k, x) ∈ (List.range l.length).zip l := by
  apply List.mem_iff_getElem?.mpr
  refine ⟨k, ?_⟩
  apply List.getElem?_zip_eq_some.mpr
  have hk : k < l.length := by
    by_cases hh : k < l.length
    · exact hh
    · rw [List.getElem?_eq_none (Nat.le_of_not_lt hh)] at h; cases h
  exact ⟨List.getElem?_range hk, h⟩

theorem row_st_self (o : Option Row) (s : Nat) (h : ∃ r, o = some r ∧ r.st = s) :
    o.map (fun r => ({ r with st := s } : Row)) = o := by
  obtain ⟨r, rfl, rfl⟩ := h
  rfl

/-- the decision function of the vectorised code for state `s` -/
def decisionOf (m : Mach) (s i : Nat) : Nat :=
  choiceIdx (normRow m.wd (m.state s).selfOk (rowOf (m.state s).trans i)) ((m.state s).draws.getD i 0) m.dd

theorem hop_of_normalize (m : Mach) (s i : Nat)
    (h : normalize m.wd (m.state s).selfOk (rowOf (m.state s).trans i) =
      .ok (normRow m.wd (m.state s).selfOk (rowOf (m.state s).trans i))) :
    hop m s i = .ok (decisionOf m s i) := by
  simp [hop, h, decisionOf]

/-- **`_next_state` is sound** w.r.t. the pointwise description, for every fuel -/
theorem nextState_sound (m : Mach) : ∀ fuel, Sound m fuel (nextState m fuel) := by
  intro fuel
  induction fuel with
  | zero =>
    intro s pop tab tab' hpre h
    unfold nextState at h
    by_cases hc : ((m.state s).trans.isEmpty || pop.isEmpty) = true
    · simp only [hc, if_true] at h
      cases h
      refine ⟨rfl, fun _ _ => rfl, ?_⟩
      intro i hi
      have hne : pop.isEmpty = false := by cases pop with | nil => cases hi | cons _ _ => rfl
      have hte : (m.state s).trans.isEmpty = true := by simpa [hne] using hc
      exact ⟨[], moveOne_empty m 0 s i hte, by rw [final_nil, row_st_self _ _ (hpre i hi)]⟩
    · simp [hc] at h
  | succ fuel ih =>
    intro s pop tab tab' hpre h
    unfold nextState at h
    by_cases hc : ((m.state s).trans.isEmpty || pop.isEmpty) = true
    · simp only [hc, if_true] at h
      cases h
      refine ⟨rfl, fun _ _ => rfl, ?_⟩
      intro i hi
      have hne : pop.isEmpty = false := by cases pop with | nil => cases hi | cons _ _ => rfl
      have hte : (m.state s).trans.isEmpty = true := by simpa [hne] using hc
      exact ⟨[], moveOne_empty m _ s i hte, by rw [final_nil, row_st_self _ _ (hpre i hi)]⟩
    · simp only [hc, Bool.false_eq_true, if_false] at h
      have hte : (m.state s).trans.isEmpty = false := by
        cases hh : (m.state s).trans.isEmpty with
        | false => rfl
        | true => simp [hh] at hc
      split at h
      · cases h
      · rename_i rows hnorm
        obtain ⟨hrows, hrow_ok⟩ := normalizeAll_ok hnorm
        rw [matrix_eq] at hrows hrow_ok
        rw [hrows, List.map_map, decisions_map] at h
        have hdec : (pop.map fun i => choiceIdx ((normRow m.wd (m.state s).selfOk ∘ rowOf (m.state s).trans) i)
            ((m.state s).draws.getD i 0) m.dd) = pop.map (decisionOf m s) := rfl
        rw [hdec] at h
        have hnd : (((List.range (m.state s).trans.length).zip (m.state s).trans).map (·.1)).Nodup := by
          rw [List.map_fst_zip (by simp)]; exact List.nodup_range
        obtain ⟨hl, hf, hp⟩ := applyGroups_sound m fuel (nextState m fuel) ih s pop (decisionOf m s)
          _ tab tab' hnd (fun i hi _ => (hpre i hi).imp fun r hr => hr.1) h
        refine ⟨hl, fun i hi => hf i (Or.inl hi), ?_⟩
        intro i hi
        have hn := hrow_ok (rowOf (m.state s).trans i) (List.mem_map_of_mem hi)
        have hhop := hop_of_normalize m s i hn
        have hmv : moveOne m (fuel + 1) s i =
            match (m.state s).trans[decisionOf m s i]? with
            | none => .ok []
            | some t => landing m fuel t i := by
          rw [moveOne_succ m fuel s i hte, hhop]
        rw [hmv]
        cases hk : (m.state s).trans[decisionOf m s i]? with
        | none =>
          refine ⟨[], rfl, ?_⟩
          have hnotin : decisionOf m s i ∉ ((List.range (m.state s).trans.length).zip (m.state s).trans).map (·.1) := by
            rw [List.map_fst_zip (by simp)]
            intro hh
            have hlt : decisionOf m s i < (m.state s).trans.length := by simpa using hh
            rw [List.getElem?_eq_getElem hlt] at hk; cases hk
          rw [hf i (Or.inr hnotin), final_nil, row_st_self _ _ (hpre i hi)]
        | some t =>
          exact hp i hi (decisionOf m s i, t) (zip_range_mem _ _ _ hk) rfl

/-! ### … and complete: it is rejected only if some simulant's own path is -/

theorem hop_ok {m : Mach} {s i k : Nat} (h : hop m s i = .ok k) :
    normalize m.wd (m.state s).selfOk (rowOf (m.state s).trans i) =
      .ok (normRow m.wd (m.state s).selfOk (rowOf (m.state s).trans i)) ∧ k = decisionOf m s i := by
  unfold hop at h
  simp only at h
  split at h
  · cases h
  · rename_i r hr
    have := normalize_ok_eq hr
    subst this
    cases h
    exact ⟨hr, rfl⟩

theorem moveOne_succ_ok {m : Mach} {fuel s i : Nat} {path : List Nat}
    (hte : (m.state s).trans.isEmpty = false) (h : moveOne m (fuel + 1) s i = .ok path) :
    hop m s i = .ok (decisionOf m s i) ∧
      (match (m.state s).trans[decisionOf m s i]? with
       | none => (.ok [] : Except Err (List Nat))
       | some t => landing m fuel t i) = .ok path := by
  rw [moveOne_succ m fuel s i hte] at h
  cases hh : hop m s i with
  | error e => rw [hh] at h; cases h
  | ok k =>
    obtain ⟨_, hk⟩ := hop_ok hh
    subst hk
    rw [hh] at h
    exact ⟨rfl, h⟩

def Complete (m : Mach) (fuel : Nat) (again : Nat → List Nat → Table → Except Err Table) : Prop :=
  ∀ (s : Nat) (pop : List Nat) (tab : Table),
    (∀ i ∈ pop, ∃ p, moveOne m fuel s i = .ok p) → ∃ tab', again s pop tab = .ok tab'

theorem applyGroups_complete (m : Mach) (fuel : Nat) (again : Nat → List Nat → Table → Except Err Table)
    (hrec : Complete m fuel again) (pop : List Nat) (g : Nat → Nat) :
    ∀ (ks : List (Nat × Trans)) (tab : Table),
      (∀ i ∈ pop, ∀ p ∈ ks, g i = p.1 → ∃ path, landing m fuel p.2 i = .ok path) →
      ∃ tab', applyGroups (fun o => (m.state o).transient) again pop (pop.map g) ks tab = .ok tab' := by
  intro ks
  induction ks with
  | nil => intro tab _; exact ⟨tab, rfl⟩
  | cons kt rest ih =>
    obtain ⟨k, t⟩ := kt
    intro tab hall
    simp only [applyGroups, group_map]
    have hstep : ∃ tab2, (if (m.state t.out).transient = true
        then again t.out (pop.filter fun i => g i == k) (setSt tab (pop.filter fun i => g i == k) t.out)
        else .ok (setSt tab (pop.filter fun i => g i == k) t.out)) = .ok tab2 := by
      by_cases htr : (m.state t.out).transient = true
      · rw [if_pos htr]
        apply hrec
        intro i hi
        obtain ⟨hip, hik⟩ := List.mem_filter.mp hi
        obtain ⟨path, hl⟩ := hall i hip (k, t) List.mem_cons_self (by simpa using hik)
        simp only [landing, htr, if_true] at hl
        cases hm : moveOne m fuel t.out i with
        | error e => rw [hm] at hl; cases hl
        | ok p => exact ⟨p, rfl⟩
      · rw [if_neg htr]; exact ⟨_, rfl⟩
    obtain ⟨tab2, h2⟩ := hstep
    rw [h2]
    exact ih tab2 (fun i hi p hp hg => hall i hi p (List.mem_cons_of_mem _ hp) hg)

theorem nextState_complete (m : Mach) : ∀ fuel, Complete m fuel (nextState m fuel) := by
  intro fuel
  induction fuel with
  | zero =>
    intro s pop tab hall
    unfold nextState
    by_cases hc : ((m.state s).trans.isEmpty || pop.isEmpty) = true
    · simp only [hc, if_true]; exact ⟨tab, rfl⟩
    · exfalso
      cases pop with
      | nil => simp at hc
      | cons a l =>
        have hte : (m.state s).trans.isEmpty = false := by
          cases hh : (m.state s).trans.isEmpty with
          | false => rfl
          | true => simp [hh] at hc
        obtain ⟨p, hp⟩ := hall a List.mem_cons_self
        rw [moveOne_zero m s a hte] at hp; cases hp
  | succ fuel ih =>
    intro s pop tab hall
    unfold nextState
    by_cases hc : ((m.state s).trans.isEmpty || pop.isEmpty) = true
    · simp only [hc, if_true]; exact ⟨tab, rfl⟩
    · have hte : (m.state s).trans.isEmpty = false := by
        cases hh : (m.state s).trans.isEmpty with
        | false => rfl
        | true => simp [hh] at hc
      simp only [hc, Bool.false_eq_true, if_false]
      have hnorm : normalizeAll m.wd (m.state s).selfOk (matrix (m.state s).trans pop) =
          .ok ((matrix (m.state s).trans pop).map (normRow m.wd (m.state s).selfOk)) := by
        apply normalizeAll_complete
        intro r hr
        rw [matrix_eq] at hr
        obtain ⟨i, hi, rfl⟩ := List.mem_map.mp hr
        obtain ⟨p, hp⟩ := hall i hi
        exact ⟨_, (hop_ok (moveOne_succ_ok hte hp).1).1⟩
      rw [hnorm]
      simp only
      rw [matrix_eq, List.map_map, decisions_map]
      have hdec : (pop.map fun i => choiceIdx ((normRow m.wd (m.state s).selfOk ∘ rowOf (m.state s).trans) i)
          ((m.state s).draws.getD i 0) m.dd) = pop.map (decisionOf m s) := rfl
      rw [hdec]
      apply applyGroups_complete m fuel (nextState m fuel) ih pop (decisionOf m s)
      intro i hi p hp hg
      obtain ⟨path, hpath⟩ := hall i hi
      have h2 := (moveOne_succ_ok hte hpath).2
      obtain ⟨k, t⟩ := p
      simp only at hg
      subst hg
      rw [mem_zip_range _ _ _ hp] at h2
      exact ⟨path, h2⟩

/-! ### `Machine.transition`: the loop over the state populations -/

theorem seen_st {r : Row} {s : Nat} (h : r.seen = some s) : r.st = s := by
  unfold Row.seen at h
  split at h
  · simpa using h
  · cases h

theorem seen_tracked {r : Row} {s : Nat} (h : r.seen = some s) : r.tracked = true := by
  unfold Row.seen at h
  split at h
  · assumption
  · cases h


theorem runPops_sound (m : Mach) (fuel : Nat) (idx : List Nat) (tab0 : Table) :
    ∀ (ps : List (Nat × List Nat)) (tab tab' : Table),
      (∀ p ∈ ps, p.2 = idx.filter (fun i => (tab0[i]?.bind Row.seen) == some p.1)) →
      (ps.map (·.1)).Nodup →
      (∀ i ∈ idx, ∀ p ∈ ps, tab0[i]?.bind Row.seen = some p.1 → tab[i]? = tab0[i]?) →
      runPops m fuel ps tab = .ok tab' →
        tab'.length = tab.length ∧
        (∀ i, (i ∉ idx ∨ ∀ p ∈ ps, tab0[i]?.bind Row.seen ≠ some p.1) → tab'[i]? = tab[i]?) ∧
        (∀ i ∈ idx, ∀ p ∈ ps, tab0[i]?.bind Row.seen = some p.1 →
          ∃ path, moveOne m fuel p.1 i = .ok path ∧
            tab'[i]? = (tab0[i]?).map (fun r => { r with st := final p.1 path })) := by
  intro ps
  induction ps with
  | nil =>
    intro tab tab' _ _ _ h
    simp only [runPops] at h
    cases h
    exact ⟨rfl, fun _ _ => rfl, fun _ _ p hp => by cases hp⟩
  | cons sp rest ih =>
    obtain ⟨s, pop⟩ := sp
    intro tab tab' hdef hnd hun h
    simp only [runPops] at h
    split at h
    · cases h
    · rename_i tab1 hstep
      have hpop : pop = idx.filter (fun i => (tab0[i]?.bind Row.seen) == some s) := hdef (s, pop) List.mem_cons_self
      have hmem : ∀ i, i ∈ pop ↔ i ∈ idx ∧ tab0[i]?.bind Row.seen = some s := by
        intro i; rw [hpop]; simp [List.mem_filter]
      have hnd' : (rest.map (·.1)).Nodup := (List.nodup_cons.mp (by simpa using hnd)).2
      have hs_notin : s ∉ rest.map (·.1) := (List.nodup_cons.mp (by simpa using hnd)).1
      have hpre : ∀ i ∈ pop, ∃ r, tab[i]? = some r ∧ r.st = s := by
        intro i hi
        obtain ⟨hii, hst⟩ := (hmem i).mp hi
        rw [hun i hii (s, pop) List.mem_cons_self hst]
        cases hr : tab0[i]? with
        | none => rw [hr] at hst; cases hst
        | some r => rw [hr] at hst; exact ⟨r, rfl, seen_st (by simpa using hst)⟩
      obtain ⟨hl1, hf1, hp1⟩ := nextState_sound m fuel s pop tab tab1 hpre hstep
      have hun' : ∀ i ∈ idx, ∀ p ∈ rest, tab0[i]?.bind Row.seen = some p.1 → tab1[i]? = tab0[i]? := by
        intro i hi p hp hst
        have hni : i ∉ pop := by
          intro hh
          have := ((hmem i).mp hh).2
          rw [this] at hst
          cases hst
          exact hs_notin (List.mem_map_of_mem hp)
        rw [hf1 i hni]
        exact hun i hi p (List.mem_cons_of_mem _ hp) hst
      obtain ⟨hl, hf, hp⟩ := ih tab1 tab' (fun p hp => hdef p (List.mem_cons_of_mem _ hp)) hnd' hun' h
      refine ⟨by rw [hl, hl1], ?_, ?_⟩
      · intro i hi
        have hni : i ∉ pop := by
          intro hh
          obtain ⟨hii, hst⟩ := (hmem i).mp hh
          cases hi with
          | inl h1 => exact h1 hii
          | inr h1 => exact h1 (s, pop) List.mem_cons_self hst
        have hi' : i ∉ idx ∨ ∀ p ∈ rest, tab0[i]?.bind Row.seen ≠ some p.1 := by
          cases hi with
          | inl h1 => exact Or.inl h1
          | inr h1 => exact Or.inr (fun p hp => h1 p (List.mem_cons_of_mem _ hp))
        rw [hf i hi', hf1 i hni]
      · intro i hi p hp' hst
        cases hp' with
        | head =>
          have hip : i ∈ pop := (hmem i).mpr ⟨hi, hst⟩
          obtain ⟨path, hmv, ht⟩ := hp1 i hip
          refine ⟨path, hmv, ?_⟩
          have hrest : ∀ p ∈ rest, tab0[i]?.bind Row.seen ≠ some p.1 := by
            intro p hp hh
            rw [hst] at hh
            cases hh
            exact hs_notin (List.mem_map_of_mem hp)
          rw [hf i (Or.inr hrest), ht, hun i hi (s, pop) List.mem_cons_self hst]
        | tail _ hpr => exact hp i hi p hpr hst

theorem runPops_complete (m : Mach) (fuel : Nat) :
    ∀ (ps : List (Nat × List Nat)) (tab : Table),
      (∀ p ∈ ps, ∀ i ∈ p.2, ∃ path, moveOne m fuel p.1 i = .ok path) →
      ∃ tab', runPops m fuel ps tab = .ok tab' := by
  intro ps
  induction ps with
  | nil => intro tab _; exact ⟨tab, rfl⟩
  | cons sp rest ih =>
    obtain ⟨s, pop⟩ := sp
    intro tab hall
    obtain ⟨tab1, h1⟩ := nextState_complete m fuel s pop tab (hall (s, pop) List.mem_cons_self)
    simp only [runPops, h1]
    exact ih tab1 (fun p hp => hall p (List.mem_cons_of_mem _ hp))

theorem statePops_keys (m : Mach) (tab : Table) (idx : List Nat) :
    (statePops m tab idx).map (·.1) = List.range m.states.length := by
  simp [statePops, Function.comp_def]

theorem state_default (m : Mach) (s : Nat) (h : m.states.length ≤ s) : m.state s = {} := by
  simp [Mach.state, List.getD_eq_getElem?_getD, List.getElem?_eq_none h]

/-! ### facts about accepted rows -/

theorem wd_le_sum_of_ones (wd : Nat) (r : List Nat) (h : 0 < ones wd r) : wd ≤ r.sum := by
  unfold ones at h
  obtain ⟨x, hx⟩ := List.exists_mem_of_length_pos h
  obtain ⟨hxr, hxe⟩ := List.mem_filter.mp hx
  have hxe' : x = wd := by simpa using hxe
  obtain ⟨j, hj⟩ := List.mem_iff_getElem?.mp hxr
  rw [hxe'] at hj
  exact le_sum_of_getElem? r j wd hj

theorem normRow_sum_pos {wd : Nat} {so : Bool} {r : List Nat} (hwd : 0 < wd)
    (h : normalize wd so r = .ok (normRow wd so r)) : 0 < (normRow wd so r).sum := by
  unfold normalize at h
  split at h
  · cases h
  · rename_i h1
    cases so with
    | true =>
      simp only [if_true] at h
      split at h
      · cases h
      · rename_i h2
        unfold normRow
        simp only [if_true]
        by_cases h3 : (ones wd r == 1) = true
        · simp only [h3, if_true, List.sum_append, List.sum_cons, List.sum_nil]
          have : 0 < ones wd r := by have : ones wd r = 1 := by simpa using h3
                                     omega
          have := wd_le_sum_of_ones wd r this
          omega
        · simp only [h3, Bool.false_eq_true, if_false, List.sum_append, List.sum_cons, List.sum_nil]
          have h0 : ones wd r = 0 := by
            have : ones wd r ≠ 1 := by simpa using h3
            omega
          have : ¬ (wd < r.sum) := by
            intro hh; apply h2; simp [h0, hh]
          omega
    | false =>
      simp only [Bool.false_eq_true, if_false] at h
      split at h
      · cases h
      · rename_i h2
        have : r.sum ≠ 0 := by simpa using h2
        simp only [normRow, Bool.false_eq_true, if_false]
        omega

theorem normRow_getElem? (wd : Nat) (so : Bool) (r : List Nat) (k : Nat) (hk : k < r.length) :
    (normRow wd so r)[k]? = r[k]? := by
  unfold normRow
  split
  · split <;> rw [List.getElem?_append_left hk]
  · rfl

theorem normRow_head? (wd : Nat) (so : Bool) (r : List Nat) (h : r ≠ []) :
    (normRow wd so r).head? = r.head? := by
  cases r with
  | nil => exact absurd rfl h
  | cons a l =>
    unfold normRow
    split
    · split <;> rfl
    · rfl

theorem length_normRow_false (wd : Nat) (r : List Nat) : (normRow wd false r).length = r.length := by
  simp [normRow]

end Viv.Machine
