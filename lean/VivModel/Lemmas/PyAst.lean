import VivModel.Model.PyAst
/-! Lemmas for symbolic evaluation of translated Python functions (`Model/PyAst.lean`). Core Lean only. -/
namespace Viv.Py

variable {m : Type → Type} [Monad m] {V : Type}

@[simp] theorem Locals.get_nil (n : String) : Locals.get ([] : Locals V) n = none := rfl

@[simp] theorem Locals.get_cons (k n : String) (v : V) (l : Locals V) :
    Locals.get ((k, v) :: l) n = if k == n then some v else Locals.get l n := by
  simp only [Locals.get, List.find?]
  cases h : (k == n) <;> simp

theorem Locals.get_filter_ne (l : Locals V) (n k : String) (h : (k == n) = false) :
    Locals.get (l.filter (·.1 != k)) n = Locals.get l n := by
  induction l with
  | nil => rfl
  | cons x xs ih =>
    obtain ⟨x1, x2⟩ := x
    by_cases hx : x1 = k
    · subst hx
      simp [List.filter, Locals.get_cons, h, ih]
    · have : (x1 != k) = true := by simpa using hx
      simp [List.filter, this, Locals.get_cons, ih]

/-- reading a local after an assignment -/
@[simp] theorem Locals.get_set (l : Locals V) (k n : String) (v : V) :
    Locals.get (l.set k v) n = if k == n then some v else Locals.get l n := by
  unfold Locals.set
  rw [Locals.get_cons]
  cases h : (k == n)
  · simp [Locals.get_filter_ne l n k h]
  · simp

/-- A `for` loop whose body never returns early and whose effect on the locals is described by a state `s`
(the invariant `Inv s loc` ties the two): the loop is `foldlM` of the state transformer, for every
continuation that reads the locals only through the invariant. -/
theorem forLoop_foldlM [LawfulMonad m] {σ β : Type} (Inv : σ → Locals V → Prop) (f : σ → V → m σ)
    (body : Locals V → V → m (Ctl V × Locals V))
    (hbody : ∀ (s : σ) (loc : Locals V) (x : V) (k : Ctl V × Locals V → m β) (k' : σ → m β),
      Inv s loc → (∀ s' loc', Inv s' loc' → k (.next, loc') = k' s') → body loc x >>= k = f s x >>= k')
    (xs : List V) (s : σ) (loc : Locals V) (k : Ctl V × Locals V → m β) (k' : σ → m β)
    (hinv : Inv s loc) (hk : ∀ s' loc', Inv s' loc' → k (.next, loc') = k' s') :
    forLoop body xs loc >>= k = xs.foldlM f s >>= k' := by
  induction xs generalizing s loc with
  | nil => simp [forLoop, hk s loc hinv]
  | cons x xs ih =>
    simp only [forLoop, List.foldlM_cons, bind_assoc]
    refine hbody s loc x _ _ hinv ?_
    intro s' loc' h'
    simpa using ih s' loc' h'

end Viv.Py
