import VivModel.Model.PyAst
/-! Running a program of `ExceptT String (StateM σ)` – the monad in which translated Python methods with mutable
object state are evaluated (state survives a raised exception) – one primitive at a time. Core Lean only. -/
namespace Viv.Py

abbrev SM (σ : Type) := ExceptT String (StateM σ)

/-- outcome and final state of `x` started in `s` -/
def runM {σ α : Type} (x : SM σ α) (s : σ) : Except String α × σ := x.run.run s

variable {σ α β : Type}

@[simp] theorem runM_pure (a : α) (s : σ) : runM (pure a : SM σ α) s = (.ok a, s) := rfl

@[simp] theorem runM_bind (x : SM σ α) (f : α → SM σ β) (s : σ) :
    runM (x >>= f) s = match runM x s with
      | (.ok a, s') => runM (f a) s'
      | (.error e, s') => (.error e, s') := by
  simp only [runM, ExceptT.run_bind, StateT.run_bind]
  show (match (x.run.run s) with | (r, s') => _) = _
  rcases h : x.run.run s with ⟨r, s'⟩
  cases r <;> rfl

@[simp] theorem runM_get (s : σ) : runM (get : SM σ σ) s = (.ok s, s) := rfl
@[simp] theorem runM_set (s' s : σ) : runM (set s' : SM σ Unit) s = (.ok (), s') := rfl
@[simp] theorem runM_modify (g : σ → σ) (s : σ) : runM (modify g : SM σ Unit) s = (.ok (), g s) := rfl
@[simp] theorem runM_throw (e : String) (s : σ) : runM (throw e : SM σ α) s = (.error e, s) := rfl

@[simp] theorem runM_map (g : α → β) (x : SM σ α) (s : σ) :
    runM (g <$> x) s = match runM x s with
      | (.ok a, s') => (.ok (g a), s')
      | (.error e, s') => (.error e, s') := by
  rw [map_eq_pure_bind, runM_bind]
  rcases runM x s with ⟨r, s'⟩
  cases r <;> rfl

@[simp] theorem runM_tryCatch (x : SM σ α) (h : String → SM σ α) (s : σ) :
    runM (tryCatch x h) s = match runM x s with
      | (.ok a, s') => (.ok a, s')
      | (.error e, s') => runM (h e) s' := by
  simp only [runM, tryCatch, tryCatchThe, MonadExceptOf.tryCatch, ExceptT.tryCatch, ExceptT.run, ExceptT.mk, StateT.run, bind, StateT.bind]
  rcases hx : x s with ⟨r, s'⟩
  cases r <;> rfl

@[simp] theorem runM_ite (c : Prop) [Decidable c] (x y : SM σ α) (s : σ) :
    runM (if c then x else y) s = if c then runM x s else runM y s := by
  split <;> rfl


/-- one statement at a time: the rest of a block is only looked at when its first statement has fallen through -/
theorem runM_block_cons {V : Type} (w : World (SM σ) V) (loc : Locals V) (s : Stmt) (rest : List Stmt) (st : σ) :
    runM (evalBlock w loc (s :: rest)) st = match runM (evalStmt w loc s) st with
      | (.ok (.next, loc'), st') => runM (evalBlock w loc' rest) st'
      | (.ok (c, loc'), st') => (.ok (c, loc'), st')
      | (.error e, st') => (.error e, st') := by
  rw [evalBlock, runM_bind]
  rcases runM (evalStmt w loc s) st with ⟨r, st'⟩
  cases r with
  | error e => rfl
  | ok cl =>
    rcases cl with ⟨c, loc'⟩
    cases c <;> rfl

@[simp] theorem runM_block_nil {V : Type} (w : World (SM σ) V) (loc : Locals V) (st : σ) :
    runM (evalBlock w loc []) st = (.ok (.next, loc), st) := by
  rw [evalBlock]; rfl

/-- the value a function call produces, from the run of its body -/
theorem runM_func {V : Type} (w : World (SM σ) V) (f : Func) (args : Locals V) (st : σ) :
    runM (f.run w args) st = match runM (evalBlock w args f.body) st with
      | (.ok (.ret v, _), st') => (.ok v, st')
      | (.ok (_, _), st') => (.ok w.none, st')
      | (.error e, st') => (.error e, st') := by
  rw [Func.run, runM_bind]
  rcases runM (evalBlock w args f.body) st with ⟨r, st'⟩
  cases r with
  | error e => rfl
  | ok cl =>
    rcases cl with ⟨c, loc'⟩
    cases c <;> rfl


/-- a `for` loop run statement by statement: if one pass of the body on an element `x` of the list in state `st` either
falls through in the state `step x st` (keeping the invariant on the locals) or raises when `step x st` is `none`, the
loop is the fold of `step` over the elements, and raises as soon as a pass does -/
theorem runM_forLoop {V : Type} (Inv : Locals V → Prop) (step : V → σ → Option σ)
    (body : Locals V → V → SM σ (Ctl V × Locals V)) :
    ∀ (xs : List V) (loc : Locals V) (st : σ),
      (∀ loc x st, x ∈ xs → Inv loc →
        match step x st with
        | some st' => ∃ loc', runM (body loc x) st = (.ok (.next, loc'), st') ∧ Inv loc'
        | none => ∃ e st', runM (body loc x) st = (.error e, st')) →
      Inv loc →
      match xs.foldlM (fun st x => step x st) st with
      | some st' => ∃ loc', runM (forLoop body xs loc) st = (.ok (.next, loc'), st') ∧ Inv loc'
      | none => ∃ e st', runM (forLoop body xs loc) st = (.error e, st')
  | [], loc, st, _, hinv => by
    simp only [List.foldlM_nil, forLoop]
    exact ⟨loc, rfl, hinv⟩
  | x :: xs, loc, st, hbody, hinv => by
    have hb := hbody loc x st (List.mem_cons_self) hinv
    simp only [List.foldlM_cons, forLoop, runM_bind]
    cases hs : step x st with
    | none =>
      rw [hs] at hb
      obtain ⟨e, st', he⟩ := hb
      simp only [Option.bind_eq_bind, Option.bind_none, he]
      exact ⟨e, st', rfl⟩
    | some st1 =>
      rw [hs] at hb
      obtain ⟨loc1, h1, hinv1⟩ := hb
      simp only [Option.bind_eq_bind, Option.bind_some, h1]
      exact runM_forLoop Inv step body xs loc1 st1
        (fun loc y st hy => hbody loc y st (List.mem_cons_of_mem _ hy)) hinv1

/-- `runM_forLoop` when the fold is known to succeed -/
theorem runM_forLoop_some {V : Type} {Inv : Locals V → Prop} {step : V → σ → Option σ}
    {body : Locals V → V → SM σ (Ctl V × Locals V)} {xs : List V} {loc : Locals V} {st st' : σ}
    (hfold : xs.foldlM (fun st x => step x st) st = some st')
    (hbody : ∀ loc x st, x ∈ xs → Inv loc →
      match step x st with
      | some st' => ∃ loc', runM (body loc x) st = (.ok (.next, loc'), st') ∧ Inv loc'
      | none => ∃ e st', runM (body loc x) st = (.error e, st'))
    (hinv : Inv loc) :
    ∃ loc', runM (forLoop body xs loc) st = (.ok (.next, loc'), st') ∧ Inv loc' := by
  have h := runM_forLoop Inv step body xs loc st hbody hinv
  rw [hfold] at h
  exact h

/-- `runM_forLoop` when some pass raises -/
theorem runM_forLoop_none {V : Type} {Inv : Locals V → Prop} {step : V → σ → Option σ}
    {body : Locals V → V → SM σ (Ctl V × Locals V)} {xs : List V} {loc : Locals V} {st : σ}
    (hfold : xs.foldlM (fun st x => step x st) st = none)
    (hbody : ∀ loc x st, x ∈ xs → Inv loc →
      match step x st with
      | some st' => ∃ loc', runM (body loc x) st = (.ok (.next, loc'), st') ∧ Inv loc'
      | none => ∃ e st', runM (body loc x) st = (.error e, st'))
    (hinv : Inv loc) :
    ∃ e st', runM (forLoop body xs loc) st = (.error e, st') := by
  have h := runM_forLoop Inv step body xs loc st hbody hinv
  rw [hfold] at h
  exact h

/-- `while c: step` on the state alone, with the models' fuel convention -/
def iterWhile (c : σ → Bool) (step : σ → σ) : Nat → σ → σ
  | 0, s => s
  | n + 1, s => if c s then iterWhile c step n (step s) else s

/-- a `while` loop whose condition reads the state and whose body is a state transformer that falls through (the
invariant ties the locals to the state): the loop is `iterWhile` -/
theorem runM_whileFuel {V : Type} (Inv : Locals V → σ → Prop) (c : σ → Bool) (step : σ → σ)
    (cond : Locals V → SM σ Bool) (body : Locals V → SM σ (Ctl V × Locals V))
    (hcond : ∀ loc st, Inv loc st → runM (cond loc) st = (.ok (c st), st))
    (hbody : ∀ loc st, Inv loc st → c st = true →
      ∃ loc', runM (body loc) st = (.ok (.next, loc'), step st) ∧ Inv loc' (step st)) :
    ∀ (fuel : Nat) (loc : Locals V) (st : σ), Inv loc st →
      ∃ loc', runM (whileFuel cond body fuel loc) st = (.ok (.next, loc'), iterWhile c step fuel st) ∧
        Inv loc' (iterWhile c step fuel st)
  | 0, loc, st, hinv => ⟨loc, rfl, hinv⟩
  | fuel + 1, loc, st, hinv => by
    simp only [whileFuel, runM_bind, hcond loc st hinv, iterWhile]
    cases hc : c st with
    | false => exact ⟨loc, by simp, by simpa using hinv⟩
    | true =>
      obtain ⟨loc1, h1, hinv1⟩ := hbody loc st hinv hc
      obtain ⟨loc2, h2, hinv2⟩ := runM_whileFuel Inv c step cond body hcond hbody fuel loc1 (step st) hinv1
      refine ⟨loc2, ?_, by simpa using hinv2⟩
      simp [h1, h2]


/-- `runM_whileFuel` up to an abstraction `abs` of the state (the body may leave garbage the abstraction does not see) -/
theorem runM_whileAbs {V A : Type} (Inv : Locals V → σ → Prop) (abs : σ → A) (c : A → Bool) (step : A → A)
    (cond : Locals V → SM σ Bool) (body : Locals V → SM σ (Ctl V × Locals V))
    (hcond : ∀ loc st, Inv loc st → runM (cond loc) st = (.ok (c (abs st)), st))
    (hbody : ∀ loc st, Inv loc st → c (abs st) = true →
      ∃ loc' st', runM (body loc) st = (.ok (.next, loc'), st') ∧ Inv loc' st' ∧ abs st' = step (abs st)) :
    ∀ (fuel : Nat) (loc : Locals V) (st : σ), Inv loc st →
      ∃ loc' st', runM (whileFuel cond body fuel loc) st = (.ok (.next, loc'), st') ∧ Inv loc' st' ∧
        abs st' = iterWhile c step fuel (abs st)
  | 0, loc, st, hinv => ⟨loc, st, rfl, hinv, rfl⟩
  | fuel + 1, loc, st, hinv => by
    simp only [whileFuel, runM_bind, hcond loc st hinv, iterWhile]
    cases hc : c (abs st) with
    | false => exact ⟨loc, st, by simp, hinv, by simp⟩
    | true =>
      obtain ⟨loc1, st1, h1, hinv1, ha1⟩ := hbody loc st hinv hc
      obtain ⟨loc2, st2, h2, hinv2, ha2⟩ := runM_whileAbs Inv abs c step cond body hcond hbody fuel loc1 st1 hinv1
      refine ⟨loc2, st2, ?_, hinv2, by simpa [ha1] using ha2⟩
      simp [h1, h2]

/-- the states a fuelled `while` can end in when one pass of its body relates the state before to the state after by
`R` (a relation: what the pass does may depend on things the statement does not fix, a wall clock for instance) -/
inductive Reach (c : σ → Bool) (R : σ → σ → Prop) : Nat → σ → σ → Prop
  | fuel (s : σ) : Reach c R 0 s s
  | done (n : Nat) (s : σ) : c s = false → Reach c R (n + 1) s s
  | step (n : Nat) (s s1 s2 : σ) : c s = true → R s s1 → Reach c R n s1 s2 → Reach c R (n + 1) s s2

theorem runM_whileRel {V : Type} (Inv : Locals V → σ → Prop) (c : σ → Bool) (R : σ → σ → Prop)
    (cond : Locals V → SM σ Bool) (body : Locals V → SM σ (Ctl V × Locals V))
    (hcond : ∀ loc st, Inv loc st → runM (cond loc) st = (.ok (c st), st))
    (hbody : ∀ loc st, Inv loc st → c st = true →
      ∃ loc' st', runM (body loc) st = (.ok (.next, loc'), st') ∧ Inv loc' st' ∧ R st st') :
    ∀ (fuel : Nat) (loc : Locals V) (st : σ), Inv loc st →
      ∃ loc' st', runM (whileFuel cond body fuel loc) st = (.ok (.next, loc'), st') ∧ Inv loc' st' ∧ Reach c R fuel st st'
  | 0, loc, st, hinv => ⟨loc, st, rfl, hinv, .fuel st⟩
  | fuel + 1, loc, st, hinv => by
    simp only [whileFuel, runM_bind, hcond loc st hinv]
    cases hc : c st with
    | false => exact ⟨loc, st, by simp, hinv, .done fuel st hc⟩
    | true =>
      obtain ⟨loc1, st1, h1, hinv1, hr1⟩ := hbody loc st hinv hc
      obtain ⟨loc2, st2, h2, hinv2, hr2⟩ := runM_whileRel Inv c R cond body hcond hbody fuel loc1 st1 hinv1
      refine ⟨loc2, st2, ?_, hinv2, .step fuel st st1 st2 hc hr1 hr2⟩
      simp [h1, h2]

/-- final state of a run that did not raise -/
def stOut {α : Type} (r : Except String α × σ) : Option σ := match r.1 with | .ok _ => some r.2 | .error _ => none

/-- `runM_forLoop` as an equation (what the loop leaves in the locals is forgotten) -/
theorem stOut_forLoop {V : Type} (Inv : Locals V → Prop) (step : V → σ → Option σ)
    (body : Locals V → V → SM σ (Ctl V × Locals V)) (xs : List V) (loc : Locals V) (st : σ)
    (hbody : ∀ loc x st, x ∈ xs → Inv loc →
      match step x st with
      | some st' => ∃ loc', runM (body loc x) st = (.ok (.next, loc'), st') ∧ Inv loc'
      | none => ∃ e st', runM (body loc x) st = (.error e, st'))
    (hinv : Inv loc) :
    stOut (runM (forLoop body xs loc) st) = xs.foldlM (fun st x => step x st) st := by
  have h := runM_forLoop Inv step body xs loc st hbody hinv
  cases hf : xs.foldlM (fun st x => step x st) st with
  | none => rw [hf] at h; obtain ⟨e, st', he⟩ := h; simp [stOut, he]
  | some st' => rw [hf] at h; obtain ⟨loc', he, _⟩ := h; simp [stOut, he]

/-- a pass of a loop body that lets the loop go on: it fell through or executed `continue` -/
def Ctl.goesOn {V : Type} : Ctl V → Bool
  | .next => true
  | .cont => true
  | _ => false

/-- `runM_forLoop` for bodies that may `continue` -/
theorem runM_forLoopC {V : Type} (Inv : Locals V → Prop) (step : V → σ → Option σ)
    (body : Locals V → V → SM σ (Ctl V × Locals V)) :
    ∀ (xs : List V) (loc : Locals V) (st : σ),
      (∀ loc x st, x ∈ xs → Inv loc →
        match step x st with
        | some st' => ∃ c loc', runM (body loc x) st = (.ok (c, loc'), st') ∧ c.goesOn = true ∧ Inv loc'
        | none => ∃ e st', runM (body loc x) st = (.error e, st')) →
      Inv loc →
      match xs.foldlM (fun st x => step x st) st with
      | some st' => ∃ loc', runM (forLoop body xs loc) st = (.ok (.next, loc'), st') ∧ Inv loc'
      | none => ∃ e st', runM (forLoop body xs loc) st = (.error e, st')
  | [], loc, st, _, hinv => by
    simp only [List.foldlM_nil, forLoop]
    exact ⟨loc, rfl, hinv⟩
  | x :: xs, loc, st, hbody, hinv => by
    have hb := hbody loc x st (List.mem_cons_self) hinv
    simp only [List.foldlM_cons, forLoop, runM_bind]
    cases hs : step x st with
    | none =>
      rw [hs] at hb
      obtain ⟨e, st', he⟩ := hb
      simp only [Option.bind_eq_bind, Option.bind_none, he]
      exact ⟨e, st', rfl⟩
    | some st1 =>
      rw [hs] at hb
      obtain ⟨c, loc1, h1, hc, hinv1⟩ := hb
      have ih := runM_forLoopC Inv step body xs loc1 st1
        (fun loc y st hy => hbody loc y st (List.mem_cons_of_mem _ hy)) hinv1
      cases c <;> simp [Ctl.goesOn] at hc <;> simpa only [Option.bind_eq_bind, Option.bind_some, h1] using ih

/-- equation form -/
theorem stOut_forLoopC {V : Type} (Inv : Locals V → Prop) (step : V → σ → Option σ)
    (body : Locals V → V → SM σ (Ctl V × Locals V)) (xs : List V) (loc : Locals V) (st : σ)
    (hbody : ∀ loc x st, x ∈ xs → Inv loc →
      match step x st with
      | some st' => ∃ c loc', runM (body loc x) st = (.ok (c, loc'), st') ∧ c.goesOn = true ∧ Inv loc'
      | none => ∃ e st', runM (body loc x) st = (.error e, st'))
    (hinv : Inv loc) :
    stOut (runM (forLoop body xs loc) st) = xs.foldlM (fun st x => step x st) st := by
  have h := runM_forLoopC Inv step body xs loc st hbody hinv
  cases hf : xs.foldlM (fun st x => step x st) st with
  | none => rw [hf] at h; obtain ⟨e, st', he⟩ := h; simp [stOut, he]
  | some st' => rw [hf] at h; obtain ⟨loc', he, _⟩ := h; simp [stOut, he]

/-- a function whose body is one statement that does not return a value early -/
theorem stOut_func_single {V : Type} (w : World (SM σ) V) (params : List String) (s : Stmt) (args : Locals V) (st : σ) :
    stOut (runM (Func.run w ⟨params, [s]⟩ args) st) = stOut (runM (evalStmt w args s) st) := by
  rw [runM_func, runM_block_cons]
  rcases runM (evalStmt w args s) st with ⟨r, st'⟩
  cases r with
  | error e => rfl
  | ok cl =>
    rcases cl with ⟨c, loc'⟩
    cases c <;> simp [stOut]


/-! ### loops whose state at the moment of a raise matters (the caller catches the exception and carries on) -/

/-- a fold that stops at the first element whose step raises (`true`), keeping the state that step left -/
def foldK {V : Type} (step : V → σ → σ × Bool) : List V → σ → σ × Bool
  | [], s => (s, false)
  | x :: xs, s => match step x s with
    | (s', true) => (s', true)
    | (s', false) => foldK step xs s'

/-- final state of a run and whether it raised -/
def outK {α : Type} (r : Except String α × σ) : σ × Bool := (r.2, match r.1 with | .ok _ => false | .error _ => true)

/-- a `for` loop, state kept at a raise, up to an abstraction `abs` of the state: if one pass of the body on `x` either
falls through or raises, according to `(step x (abs st)).2`, leaving a state whose abstraction is `(step x (abs st)).1`,
the loop is `foldK step` on the abstraction -/
theorem absK_forLoop {V A : Type} (Inv : Locals V → σ → Prop) (abs : σ → A) (step : V → A → A × Bool)
    (body : Locals V → V → SM σ (Ctl V × Locals V)) :
    ∀ (xs : List V) (loc : Locals V) (st : σ),
      (∀ loc x st, x ∈ xs → Inv loc st →
        (∃ loc' st', runM (body loc x) st = (.ok (.next, loc'), st') ∧ abs st' = (step x (abs st)).1 ∧
            (step x (abs st)).2 = false ∧ Inv loc' st') ∨
        (∃ e st', runM (body loc x) st = (.error e, st') ∧ abs st' = (step x (abs st)).1 ∧ (step x (abs st)).2 = true)) →
      Inv loc st →
      (∃ loc' st', runM (forLoop body xs loc) st = (.ok (.next, loc'), st') ∧ (abs st', false) = foldK step xs (abs st)
          ∧ Inv loc' st') ∨
      (∃ e st', runM (forLoop body xs loc) st = (.error e, st') ∧ (abs st', true) = foldK step xs (abs st))
  | [], loc, st, _, hinv => by
    left
    exact ⟨loc, st, by simp [forLoop], by simp [foldK], hinv⟩
  | x :: xs, loc, st, hbody, hinv => by
    simp only [forLoop, runM_bind, foldK]
    rcases hbody loc x st List.mem_cons_self hinv with ⟨loc1, st1, h1, ha, h2, hinv1⟩ | ⟨e, st1, h1, ha, h2⟩
    · rcases hs : step x (abs st) with ⟨a1, b⟩
      rw [hs] at ha h2
      simp only at ha h2
      subst h2
      subst ha
      simp only [h1]
      exact absK_forLoop Inv abs step body xs loc1 st1 (fun loc y st hy => hbody loc y st (List.mem_cons_of_mem _ hy)) hinv1
    · rcases hs : step x (abs st) with ⟨a1, b⟩
      rw [hs] at ha h2
      simp only at ha h2
      subst h2
      subst ha
      right
      exact ⟨e, st1, by simp [h1], rfl⟩

/-! ### the same for functions without object state, evaluated in `Except String` -/

@[simp] theorem exc_pure {ε α : Type} (a : α) : (pure a : Except ε α) = .ok a := rfl
@[simp] theorem exc_throw {ε α : Type} (e : ε) : (throw e : Except ε α) = .error e := rfl
@[simp] theorem exc_bind_ok {ε α β : Type} (a : α) (f : α → Except ε β) : (Except.ok a >>= f) = f a := rfl
@[simp] theorem exc_bind_error {ε α β : Type} (e : ε) (f : α → Except ε β) : (Except.error e >>= f) = .error e := rfl
@[simp] theorem exc_map_ok {ε α β : Type} (a : α) (f : α → β) : (f <$> (Except.ok a : Except ε α)) = .ok (f a) := rfl
@[simp] theorem exc_map_error {ε α β : Type} (e : ε) (f : α → β) : (f <$> (Except.error e : Except ε α)) = .error e := rfl

theorem exc_block_cons {V : Type} (w : World (Except String) V) (loc : Locals V) (s : Stmt) (rest : List Stmt) :
    evalBlock w loc (s :: rest) = match evalStmt w loc s with
      | .ok (.next, loc') => evalBlock w loc' rest
      | .ok (c, loc') => .ok (c, loc')
      | .error e => .error e := by
  rw [evalBlock]
  cases evalStmt w loc s with
  | error e => rfl
  | ok cl =>
    rcases cl with ⟨c, loc'⟩
    cases c <;> rfl

@[simp] theorem exc_block_nil {V : Type} (w : World (Except String) V) (loc : Locals V) :
    evalBlock w loc [] = .ok (.next, loc) := by
  rw [evalBlock]; rfl

theorem exc_func {V : Type} (w : World (Except String) V) (f : Func) (args : Locals V) :
    f.run w args = match evalBlock w args f.body with
      | .ok (.ret v, _) => .ok v
      | .ok (_, _) => .ok w.none
      | .error e => .error e := by
  rw [Func.run]
  cases evalBlock w args f.body with
  | error e => rfl
  | ok cl =>
    rcases cl with ⟨c, loc'⟩
    cases c <;> rfl

open Lean.Parser.Tactic in
/-- `pystep` for `Except String` -/
macro "pystepE" "[" ls:simpLemma,* "]" : tactic =>
  `(tactic| (rw [exc_block_cons]
             conv in (evalStmt _ _ _) =>
               simp [evalStmt, evalExpr, evalBlock, evalArgs, evalKws, assignTo, bindNames, $ls,*]
             try dsimp only))

open Lean.Parser.Tactic in
/-- evaluate the first statement of the block being run (and only it: the rest of the block stays folded), then move on -/
macro "pystep" "[" ls:simpLemma,* "]" : tactic =>
  `(tactic| (rw [runM_block_cons]
             conv in (runM (evalStmt _ _ _) _) =>
               simp [evalStmt, evalExpr, evalBlock, evalArgs, evalKws, assignTo, bindNames, $ls,*]
             try dsimp only))

end Viv.Py
