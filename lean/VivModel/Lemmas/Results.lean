import VivModel.Model.Results
/-! Helper lemmas for the stratified-results model (core Lean only). -/
namespace Viv.Results

/-! ### sums over lists -/

theorem sum_map_zero {β : Type} (l : List β) (g : β → Int) (h : ∀ c ∈ l, g c = 0) : (l.map g).sum = 0 := by
  induction l with
  | nil => rfl
  | cons c cs ih =>
    simp only [List.map_cons, List.sum_cons, h c List.mem_cons_self, Int.zero_add]
    exact ih (fun c' hc' => h c' (List.mem_cons_of_mem _ hc'))

theorem sum_map_add {β : Type} (l : List β) (a b : β → Int) :
    (l.map (fun c => a c + b c)).sum = (l.map a).sum + (l.map b).sum := by
  induction l with
  | nil => rfl
  | cons c cs ih => simp only [List.map_cons, List.sum_cons, ih]; omega

/-- over a duplicate-free list of strata exactly one indicator fires -/
theorem indicator_sum {β : Type} [DecidableEq β] (l : List β) (hnd : l.Nodup) (c0 : β) (h : c0 ∈ l) (w : Int) :
    (l.map (fun c => if c0 = c then w else 0)).sum = w := by
  induction l with
  | nil => cases h
  | cons c cs ih =>
    rw [List.nodup_cons] at hnd
    rw [List.map_cons, List.sum_cons]
    by_cases hc : c0 = c
    · subst hc
      rw [if_pos rfl, sum_map_zero cs _ ?_, Int.add_zero]
      intro c hc'
      have : c0 ≠ c := fun e => hnd.1 (e ▸ hc')
      rw [if_neg this]
    · have hmem : c0 ∈ cs := by
        rcases List.mem_cons.mp h with e | e
        · exact absurd e hc
        · exact e
      rw [if_neg hc, Int.zero_add]
      exact ih hnd.2 hmem

/-- an indicator that fires nowhere (the stratum is not in the list) -/
theorem indicator_sum_absent {β : Type} [DecidableEq β] (l : List β) (c0 : β) (h : c0 ∉ l) (w : Int) :
    (l.map (fun c => if c0 = c then w else 0)).sum = 0 := by
  apply sum_map_zero
  intro c hc
  have : c0 ≠ c := fun e => h (e ▸ hc)
  rw [if_neg this]

/-- Σ over strata of the per-stratum sums = the sum over the population, when the strata are distinct and
every member falls into one of them (the generic conservation law) -/
theorem strata_sum {α β : Type} [DecidableEq β] (ks : List β) (hnd : ks.Nodup) (key : α → β) (val : α → Int)
    (pop : List α) (hall : ∀ x ∈ pop, key x ∈ ks) :
    (ks.map fun k => ((pop.filter (fun x => key x = k)).map val).sum).sum = (pop.map val).sum := by
  induction pop with
  | nil => simp only [List.filter_nil, List.map_nil, List.sum_nil]; exact sum_map_zero ks _ (fun _ _ => rfl)
  | cons x xs ih =>
    have hx : key x ∈ ks := hall x List.mem_cons_self
    have hxs : ∀ y ∈ xs, key y ∈ ks := fun y hy => hall y (List.mem_cons_of_mem _ hy)
    have step : (ks.map fun k => (((x :: xs).filter (fun y => key y = k)).map val).sum) =
        ks.map (fun k => (if key x = k then val x else 0) + ((xs.filter (fun y => key y = k)).map val).sum) := by
      apply List.map_congr_left
      intro k _
      by_cases hc : key x = k
      · simp [hc]
      · simp [hc]
    rw [step, sum_map_add, indicator_sum ks hnd (key x) hx (val x), ih hxs, List.map_cons, List.sum_cons]

theorem sum_ones {α : Type} (l : List α) : (l.map (fun _ => (1 : Int))).sum = l.length := by
  induction l with
  | nil => rfl
  | cons a as ih => simp only [List.map_cons, List.sum_cons, ih, List.length_cons]; omega

/-! ### the product of the levels -/

theorem mem_product_nil (k : Key) : k ∈ product [] ↔ k = [] := by simp [product]

theorem mem_product_cons (l : List String) (ls : List (List String)) (k : Key) :
    k ∈ product (l :: ls) ↔ ∃ c t, k = c :: t ∧ c ∈ l ∧ t ∈ product ls := by
  simp only [product, List.mem_flatMap, List.mem_map]
  constructor
  · rintro ⟨c, hc, t, ht, rfl⟩; exact ⟨c, t, rfl, hc, ht⟩
  · rintro ⟨c, t, rfl, hc, ht⟩; exact ⟨c, hc, t, ht, rfl⟩

/-- every element of the product has one category per level -/
theorem length_of_mem_product (ls : List (List String)) (k : Key) (h : k ∈ product ls) : k.length = ls.length := by
  induction ls generalizing k with
  | nil => rw [mem_product_nil] at h; subst h; rfl
  | cons l ls ih =>
    obtain ⟨c, t, rfl, _, ht⟩ := (mem_product_cons l ls k).mp h
    simp [ih t ht]

/-- `itertools.product` of duplicate-free levels is duplicate-free: one row per combination -/
theorem nodup_product (ls : List (List String)) (h : ∀ l ∈ ls, l.Nodup) : (product ls).Nodup := by
  induction ls with
  | nil => simp [product]
  | cons l ls ih =>
    have hl : l.Nodup := h l List.mem_cons_self
    have hls : (product ls).Nodup := ih (fun l' hl' => h l' (List.mem_cons_of_mem _ hl'))
    unfold product
    rw [List.Nodup, List.pairwise_flatMap]
    constructor
    · intro c _
      rw [List.pairwise_map]
      exact List.Pairwise.imp (fun hne he => hne (List.cons.inj he).2) hls
    · exact List.Pairwise.imp (fun hne x hx y hy he => by
        obtain ⟨_, _, rfl⟩ := List.mem_map.mp hx
        obtain ⟨_, _, rfl⟩ := List.mem_map.mp hy
        exact hne (List.cons.inj he).1) hl

theorem length_product (ls : List (List String)) :
    (product ls).length = (ls.map List.length).foldr (· * ·) 1 := by
  induction ls with
  | nil => rfl
  | cons l ls ih =>
    have aux : ∀ (l : List String), (l.flatMap fun c => (product ls).map (c :: ·)).length = l.length * (product ls).length := by
      intro l
      induction l with
      | nil => simp
      | cons c cs ihc =>
        rw [List.flatMap_cons, List.length_append, ihc, List.length_map, List.length_cons, Nat.succ_mul, Nat.add_comm]
    simp only [product, aux, List.map_cons, List.foldr_cons, ih]

/-! ### lookups -/

theorem lookupD_nil (k : Key) : lookupD k [] = 0 := rfl

theorem lookupD_cons (k k' : Key) (w : Int) (t : Table) :
    lookupD k ((k', w) :: t) = if k' = k then w else lookupD k t := by
  unfold lookupD
  by_cases h : k' = k <;> simp [h]

theorem lookupD_addTo (k k' : Key) (v : Int) (t : Table) :
    lookupD k (addTo k' v t) = lookupD k t + (if k' = k then v else 0) := by
  induction t with
  | nil => simp [addTo, lookupD_cons, lookupD_nil]
  | cons e t ih =>
    obtain ⟨k'', w⟩ := e
    unfold addTo
    by_cases h1 : k'' = k'
    · subst h1
      by_cases h2 : k'' = k
      · simp [lookupD_cons, h2]
      · simp [lookupD_cons, h2]
    · by_cases h2 : k'' = k
      · subst h2
        have : ¬ k' = k'' := fun e => h1 e.symm
        simp [h1, lookupD_cons, this]
      · simp [h1, lookupD_cons, h2, ih]

/-- the aggregate the group-by holds for stratum `k` is the sum over the rows of that stratum -/
theorem lookupD_groupSum (k : Key) (rows : List Row) :
    lookupD k (groupSum rows) = ((rows.filter (fun r => r.key = k)).map (·.val)).sum := by
  induction rows with
  | nil => rfl
  | cons r rs ih =>
    unfold groupSum
    rw [lookupD_addTo, ih]
    by_cases h : r.key = k
    · simp [h]; omega
    · simp [h]

/-- looking a stratum up in a table that lists `g k` for every `k` of `l` -/
theorem lookupD_map (k : Key) (l : List Key) (g : Key → Int) :
    lookupD k (l.map fun k' => (k', g k')) = if k ∈ l then g k else 0 := by
  induction l with
  | nil => simp [lookupD_nil]
  | cons a l ih =>
    rw [List.map_cons, lookupD_cons]
    by_cases h : a = k
    · subst h; simp
    · have : ¬ k = a := fun e => h e.symm
      simp [h, ih, this]

theorem increment_eq (levels : List (List String)) (rows : List Row) :
    increment levels rows = (product levels).map fun k => (k, stratumSum k rows) := by
  unfold increment expand stratumSum
  apply List.map_congr_left
  intro k _
  rw [lookupD_groupSum]

/-- adding an increment table to a running table, both listing every stratum of `l` -/
theorem addResults_map (l : List Key) (a g : Key → Int) :
    addResults (l.map fun k => (k, a k)) (l.map fun k => (k, g k)) = l.map fun k => (k, a k + g k) := by
  unfold addResults
  rw [List.map_map]
  apply List.map_congr_left
  intro k hk
  simp only [Function.comp]
  rw [lookupD_map, if_pos hk]

/-! ### association lists of raw results -/

theorem getAssoc_setAssoc_ne {β : Type} (k n : String) (v : β) (l : List (String × β)) (h : k ≠ n) :
    getAssoc n (setAssoc k v l) = getAssoc n l := by
  induction l with
  | nil => rfl
  | cons e t ih =>
    obtain ⟨k', w⟩ := e
    unfold setAssoc
    by_cases h1 : k' = k
    · subst h1
      simp [getAssoc, h]
    · by_cases h2 : k' = n
      · subst h2
        simp [h1, getAssoc]
      · simp only [h1, if_false]
        simp only [getAssoc, List.find?_cons, h2, decide_false] at ih ⊢
        exact ih

theorem getAssoc_setAssoc_eq {β : Type} (k : String) (v w0 : β) (l : List (String × β))
    (h : getAssoc k l = some w0) : getAssoc k (setAssoc k v l) = some v := by
  induction l with
  | nil => simp [getAssoc] at h
  | cons e t ih =>
    obtain ⟨k', w⟩ := e
    unfold setAssoc
    by_cases h1 : k' = k
    · simp [h1, getAssoc]
    · simp only [h1, if_false]
      simp only [getAssoc, List.find?_cons, h1, decide_false] at ih h ⊢
      exact ih h

/-! ### further helpers (distinct strata, sorted names, frame conditions of the observation loop) -/

theorem filter_eq_length_one {β : Type} [DecidableEq β] (l : List β) (hnd : l.Nodup) (a : β) (h : a ∈ l) :
    (l.filter (fun k => decide (a = k))).length = 1 := by
  induction l with
  | nil => cases h
  | cons c cs ih =>
    rw [List.nodup_cons] at hnd
    by_cases hc : a = c
    · subst hc
      have : cs.filter (fun k => decide (a = k)) = [] := by
        rw [List.filter_eq_nil_iff]
        intro k hk
        have : a ≠ k := fun e => hnd.1 (e ▸ hk)
        simp [this]
      simp [this]
    · have hmem : a ∈ cs := by
        rcases List.mem_cons.mp h with e | e
        · exact absurd e hc
        · exact e
      simp [hc, ih hnd.2 hmem]

theorem stratumSum_of_no_eligible (k : Key) (rows : List Row) (h : rows.filter Row.eligible = []) :
    stratumSum k rows = 0 := by
  simp [stratumSum, h]

theorem observeOne_frame (c : Ctx) (time : Int) (rows : List RawRow) (mapped : List (List (String × Option String)))
    (o : Obs) (i : ObsInput) (n : String) (hn : o.name ≠ n) :
    getAssoc n (observeOne c time rows mapped o i).adding = getAssoc n c.adding ∧
    (observeOne c time rows mapped o i).strats = c.strats := by
  unfold observeOne
  cases o.kind with
  | adding =>
    simp only
    cases getAssoc o.name c.adding with
    | none => exact ⟨rfl, rfl⟩
    | some acc => exact ⟨getAssoc_setAssoc_ne _ _ _ _ hn, rfl⟩
  | concat =>
    simp only
    cases getAssoc o.name c.concat with
    | none => exact ⟨rfl, rfl⟩
    | some acc => exact ⟨rfl, rfl⟩

theorem observeOne_strats (c : Ctx) (time : Int) (rows : List RawRow) (mapped : List (List (String × Option String)))
    (o : Obs) (i : ObsInput) : (observeOne c time rows mapped o i).strats = c.strats := by
  unfold observeOne
  cases o.kind with
  | adding => simp only; cases getAssoc o.name c.adding <;> rfl
  | concat => simp only; cases getAssoc o.name c.concat <;> rfl

theorem stepObs_frame (time : Int) (rows : List RawRow) (mapped : List (List (String × Option String)))
    (inputs : List ObsInput) (c : Ctx) (o : Obs) (n : String) (hn : o.name ≠ n) :
    getAssoc n (stepObs time rows mapped inputs c o).adding = getAssoc n c.adding ∧
    (stepObs time rows mapped inputs c o).strats = c.strats := by
  unfold stepObs
  cases inputs.find? (fun i => i.name = o.name) with
  | none => exact ⟨rfl, rfl⟩
  | some i => exact observeOne_frame c time rows mapped o i n hn

theorem foldl_stepObs_frame (time : Int) (rows : List RawRow) (mapped : List (List (String × Option String)))
    (inputs : List ObsInput) (os : List Obs) (c : Ctx) (n : String) (hn : ∀ o ∈ os, o.name ≠ n) :
    getAssoc n (os.foldl (stepObs time rows mapped inputs) c).adding = getAssoc n c.adding ∧
    (os.foldl (stepObs time rows mapped inputs) c).strats = c.strats := by
  induction os generalizing c with
  | nil => exact ⟨rfl, rfl⟩
  | cons o0 os ih =>
    rw [List.foldl_cons]
    have h0 := stepObs_frame time rows mapped inputs c o0 n (hn o0 List.mem_cons_self)
    have h1 := ih (stepObs time rows mapped inputs c o0) (fun o ho => hn o (List.mem_cons_of_mem _ ho))
    exact ⟨h1.1.trans h0.1, h1.2.trans h0.2⟩

theorem mem_insertSorted (a b : String) (l : List String) : b ∈ insertSorted a l ↔ b = a ∨ b ∈ l := by
  induction l with
  | nil => simp [insertSorted]
  | cons c t ih =>
    unfold insertSorted
    split
    · simp
    · simp only [List.mem_cons, ih]
      constructor
      · rintro (h | h | h)
        · exact .inr (.inl h)
        · exact .inl h
        · exact .inr (.inr h)
      · rintro (h | h | h)
        · exact .inr (.inl h)
        · exact .inl h
        · exact .inr (.inr h)

theorem mem_sortStrings (b : String) (l : List String) : b ∈ sortStrings l ↔ b ∈ l := by
  induction l with
  | nil => simp [sortStrings]
  | cons c t ih =>
    simp only [sortStrings, List.foldr_cons, mem_insertSorted, List.mem_cons] at ih ⊢
    rw [ih]

theorem nodup_eraseDups (l : List String) : l.eraseDups.Nodup := by
  generalize hn : l.length = n
  induction n using Nat.strongRecOn generalizing l with
  | _ n ih =>
    cases l with
    | nil => simp
    | cons a as =>
      rw [List.eraseDups_cons, List.nodup_cons]
      constructor
      · rw [List.mem_eraseDups, List.mem_filter]; simp
      · subst hn
        exact ih _ (Nat.lt_succ_of_le (List.length_filter_le _ _)) _ rfl

theorem nodup_insertSorted (a : String) (l : List String) (h : a ∉ l) (hl : l.Nodup) : (insertSorted a l).Nodup := by
  induction l with
  | nil => simp [insertSorted]
  | cons c t ih =>
    rw [List.nodup_cons] at hl
    unfold insertSorted
    split
    · rw [List.nodup_cons]; exact ⟨h, List.nodup_cons.mpr hl⟩
    · rw [List.nodup_cons, mem_insertSorted]
      refine ⟨?_, ih (fun hm => h (List.mem_cons_of_mem _ hm)) hl.2⟩
      rintro (e | e)
      · exact h (e ▸ List.mem_cons_self)
      · exact hl.1 e

theorem nodup_sortStrings (l : List String) (hl : l.Nodup) : (sortStrings l).Nodup := by
  induction l with
  | nil => simp [sortStrings]
  | cons c t ih =>
    rw [List.nodup_cons] at hl
    have : sortStrings (c :: t) = insertSorted c (sortStrings t) := rfl
    rw [this]
    exact nodup_insertSorted c _ (fun hm => hl.1 ((mem_sortStrings c t).mp hm)) (ih hl.2)

theorem eq_of_name_eq {l : List Obs} (hnd : (l.map (·.name)).Nodup) {a b : Obs} (ha : a ∈ l) (hb : b ∈ l)
    (h : a.name = b.name) : a = b := by
  induction l with
  | nil => cases ha
  | cons x xs ih =>
    rw [List.map_cons, List.nodup_cons] at hnd
    rcases List.mem_cons.mp ha with rfl | ha' <;> rcases List.mem_cons.mp hb with rfl | hb'
    · rfl
    · exact absurd (h ▸ List.mem_map_of_mem hb') hnd.1
    · exact absurd (h ▸ List.mem_map_of_mem ha') hnd.1
    · exact ih hnd.2 ha' hb'

theorem observeOne_obs (c : Ctx) (time : Int) (rows : List RawRow) (mapped : List (List (String × Option String)))
    (o : Obs) (i : ObsInput) : (observeOne c time rows mapped o i).obs = c.obs := by
  unfold observeOne
  cases o.kind with
  | adding => simp only; cases getAssoc o.name c.adding <;> rfl
  | concat => simp only; cases getAssoc o.name c.concat <;> rfl

theorem foldl_stepObs_obs (time : Int) (rows : List RawRow) (mapped : List (List (String × Option String)))
    (inputs : List ObsInput) (os : List Obs) (c : Ctx) :
    (os.foldl (stepObs time rows mapped inputs) c).obs = c.obs ∧
    (os.foldl (stepObs time rows mapped inputs) c).strats = c.strats := by
  induction os generalizing c with
  | nil => exact ⟨rfl, rfl⟩
  | cons o0 os ih =>
    rw [List.foldl_cons]
    have h1 := ih (stepObs time rows mapped inputs c o0)
    have h0 : (stepObs time rows mapped inputs c o0).obs = c.obs ∧ (stepObs time rows mapped inputs c o0).strats = c.strats := by
      unfold stepObs
      cases inputs.find? (fun i => i.name = o0.name) with
      | none => exact ⟨rfl, rfl⟩
      | some i => exact ⟨observeOne_obs _ _ _ _ _ _, observeOne_strats _ _ _ _ _ _⟩
    exact ⟨h1.1.trans h0.1, h1.2.trans h0.2⟩

/-! ### the order in which `gather_results` reaches the observations of a phase -/

theorem insertGroup_perm (o : Obs) (g : List ((String × Option (List String)) × List Obs)) :
    ((insertGroup o g).flatMap (·.2)).Perm (g.flatMap (·.2) ++ [o]) := by
  induction g with
  | nil => simp [insertGroup]
  | cons kv gs ih =>
    obtain ⟨k, os⟩ := kv
    unfold insertGroup
    split
    · simp only [List.flatMap_cons, List.append_assoc]
      exact List.Perm.append_left os List.perm_append_comm
    · simp only [List.flatMap_cons, List.append_assoc]
      exact List.Perm.append_left os ih

theorem foldl_insertGroup_perm (os : List Obs) (g : List ((String × Option (List String)) × List Obs)) :
    ((os.foldl (fun g o => insertGroup o g) g).flatMap (·.2)).Perm (g.flatMap (·.2) ++ os) := by
  induction os generalizing g with
  | nil => simp
  | cons o os ih =>
    rw [List.foldl_cons]
    refine (ih (insertGroup o g)).trans ?_
    have := (insertGroup_perm o g).append_right os
    simpa [List.append_assoc] using this

/-- `traversal` only reorders: every observation of the phase is reached exactly once -/
theorem traversal_perm (os : List Obs) : (traversal os).Perm os := by
  have := foldl_insertGroup_perm os []
  simpa [traversal, groups] using this

theorem mem_traversal (os : List Obs) (o : Obs) : o ∈ traversal os ↔ o ∈ os :=
  (traversal_perm os).mem_iff

theorem traversal_length (os : List Obs) : (traversal os).length = os.length :=
  (traversal_perm os).length_eq

theorem traversal_nodup_names (os : List Obs) (h : (os.map (·.name)).Nodup) :
    ((traversal os).map (·.name)).Nodup :=
  (((traversal_perm os).map (·.name)).nodup_iff).mpr h

/-- observations with one and the same group key are reached in registration order -/
theorem traversal_single_group (os : List Obs) (k : String × Option (List String)) (h : ∀ o ∈ os, o.groupKey = k) :
    traversal os = os := by
  have gen : ∀ (os pre : List Obs), (∀ o ∈ os, o.groupKey = k) → pre ≠ [] →
      (os.foldl (fun g o => insertGroup o g) [(k, pre)]) = [(k, pre ++ os)] := by
    intro os
    induction os with
    | nil => intro pre _ _; simp
    | cons o os ih =>
      intro pre h hp
      rw [List.foldl_cons]
      have : insertGroup o [(k, pre)] = [(k, pre ++ [o])] := by
        simp [insertGroup, h o List.mem_cons_self]
      rw [this, ih (pre ++ [o]) (fun o' ho' => h o' (List.mem_cons_of_mem _ ho')) (by simp)]
      simp
  cases os with
  | nil => simp [traversal, groups]
  | cons o os =>
    have h0 : insertGroup o [] = [(k, [o])] := by simp [insertGroup, h o List.mem_cons_self]
    simp only [traversal, groups, List.foldl_cons, h0]
    rw [gen os [o] (fun o' ho' => h o' (List.mem_cons_of_mem _ ho')) (by simp)]
    simp

end Viv.Results
