import VivModel.Model.Results
/-! Helper lemmas for the stratified-results model (core Lean only). -/
namespace Viv.Results

/-! ### sums over lists -/

theorem sum_map_zero {β : Type} (l : List β) (g : β → Int) (h : ∀ c ∈ l, g c = 0) : (l.map g).sum = 0 := by
  induction l with
  | nil => rfl
  | cons c cs ih =>
    simp only [List.map_cons, List.sum_cons, h c List.mem_cons_self, Int.zero_add]
    exact ih (fun c' hc' => h c' (List.mem_cons_of_mem _ hc'))

theorem sum_map_add {β : Type} (l : List β) (a b : β → Int) :
    (l.map (fun c => a c + b c)).sum = (l.map a).sum + (l.map b).sum := by
  induction l with
  | nil => rfl
  | cons c cs ih => simp only [List.map_cons, List.sum_cons, ih]; omega

/-- over a duplicate-free list of strata exactly one indicator fires -/
theorem indicator_sum {β : Type} [DecidableEq β] (l : List β) (hnd : l.Nodup) (c0 : β) (h : c0 ∈ l) (w : Int) :
    (l.map (fun c => if c0 = c then w else 0)).sum = w := by
  induction l with
  | nil => cases h
  | cons c cs ih =>
    rw [List.nodup_cons] at hnd
    rw [List.map_cons, List.sum_cons]
    by_cases hc : c0 = c
    · subst hc
      rw [if_pos rfl, sum_map_zero cs _ ?_, Int.add_zero]
      intro c hc'
      have : c0 ≠ c := fun e => hnd.1 (e ▸ hc')
      rw [if_neg this]
    · have hmem : c0 ∈ cs := by
        rcases List.mem_cons.mp h with e | e
        · exact absurd e hc
        · exact e
      rw [if_neg hc, Int.zero_add]
      exact ih hnd.2 hmem

/-- an indicator that fires nowhere (the stratum is not in the list) -/
theorem indicator_sum_absent {β : Type} [DecidableEq β] (l : List β) (c0 : β) (h : c0 ∉ l) (w : Int) :
    (l.map (fun c => if c0 = c then w else 0)).sum = 0 := by
  apply sum_map_zero
  intro c hc
  have : c0 ≠ c := fun e => h (e ▸ hc)
  rw [if_neg this]

/-- Σ over strata of the per-stratum sums = the sum over the population, when the strata are distinct and
every member falls into one of them (the generic conservation law) -/
theorem strata_sum {α β : Type} [DecidableEq β] (ks : List β) (hnd : ks.Nodup) (key : α → β) (val : α → Int)
    (pop : List α) (hall : ∀ x ∈ pop, key x ∈ ks) :
    (ks.map fun k => ((pop.filter (fun x => key x = k)).map val).sum).sum = (pop.map val).sum := by
  induction pop with
  | nil => simp only [List.filter_nil, List.map_nil, List.sum_nil]; exact sum_map_zero ks _ (fun _ _ => rfl)
  | cons x xs ih =>
    have hx : key x ∈ ks := hall x List.mem_cons_self
    have hxs : ∀ y ∈ xs, key y ∈ ks := fun y hy => hall y (List.mem_cons_of_mem _ hy)
    have step : (ks.map fun k => (((x :: xs).filter (fun y => key y = k)).map val).sum) =
        ks.map (fun k => (if key x = k then val x else 0) + ((xs.filter (fun y => key y = k)).map val).sum) := by
      apply List.map_congr_left
      intro k _
      by_cases hc : key x = k
      · simp [hc]
      · simp [hc]
    rw [step, sum_map_add, indicator_sum ks hnd (key x) hx (val x), ih hxs, List.map_cons, List.sum_cons]

theorem sum_ones {α : Type} (l : List α) : (l.map (fun _ => (1 : Int))).sum = l.length := by
  induction l with
  | nil => rfl
  | cons a as ih => simp only [List.map_cons, List.sum_cons, ih, List.length_cons]; omega

/-! ### the product of the levels -/

theorem mem_product_nil (k : Key) : k ∈ product [] ↔ k = [] := by simp [product]

theorem mem_product_cons (l : List String) (ls : List (List String)) (k : Key) :
    k ∈ product (l :: ls) ↔ ∃ c t, k = c :: t ∧ c ∈ l ∧ t ∈ product ls := by
  simp only [product, List.mem_flatMap, List.mem_map]
  constructor
  · rintro ⟨c, hc, t, ht, rfl⟩; exact ⟨c, t, rfl, hc, ht⟩
  · rintro ⟨c, t, rfl, hc, ht⟩; exact ⟨c, hc, t, ht, rfl⟩

/-- every element of the product has one category per level -/
theorem length_of_mem_product (ls : List (List String)) (k : Key) (h : k ∈ product ls) : k.length = ls.length := by
  induction ls generalizing k with
  | nil => rw [mem_product_nil] at h; subst h; rfl
  | cons l ls ih =>
    obtain ⟨c, t, rfl, _, ht⟩ := (mem_product_cons l ls k).mp h
    simp [ih t ht]

/-- `itertools.product` of duplicate-free levels is duplicate-free: one row per combination -/
theorem nodup_product (ls : List (List String)) (h : ∀ l ∈ ls, l.Nodup) : (product ls).Nodup := by
  induction ls with
  | nil => simp [product]
  | cons l ls ih =>
    have hl : l.Nodup := h l List.mem_cons_self
    have hls : (product ls).Nodup := ih (fun l' hl' => h l' (List.mem_cons_of_mem _ hl'))
    unfold product
    rw [List.Nodup, List.pairwise_flatMap]
    constructor
    · intro c _
      rw [List.pairwise_map]
      exact List.Pairwise.imp (fun hne he => hne (List.cons.inj he).2) hls
    · exact List.Pairwise.imp (fun hne x hx y hy he => by
        obtain ⟨_, _, rfl⟩ := List.mem_map.mp hx
        obtain ⟨_, _, rfl⟩ := List.mem_map.mp hy
        exact hne (List.cons.inj he).1) hl

theorem length_product (ls : List (List String)) :
    (product ls).length = (ls.map List.length).foldr (· * ·) 1 := by
  induction ls with
  | nil => rfl
  | cons l ls ih =>
    have aux : ∀ (l : List String), (l.flatMap fun c => (product ls).map (c :: ·)).length = l.length * (product ls).length := by
      intro l
      induction l with
      | nil => simp
      | cons c cs ihc =>
        rw [List.flatMap_cons, List.length_append, ihc, List.length_map, List.length_cons, Nat.succ_mul, Nat.add_comm]
    simp only [product, aux, List.map_cons, List.foldr_cons, ih]

/-! ### lookups -/

theorem lookupD_nil (k : Key) : lookupD k [] = 0 := rfl

theorem lookupD_cons (k k' : Key) (w : Int) (t : Table) :
    lookupD k ((k', w) :: t) = if k' = k then w else lookupD k t := by
  unfold lookupD
  by_cases h : k' = k <;> simp [h]

theorem lookupD_addTo (k k' : Key) (v : Int) (t : Table) :
    lookupD k (addTo k' v t) = lookupD k t + (if k' = k then v else 0) := by
  induction t with
  | nil => simp [addTo, lookupD_cons, lookupD_nil]
  | cons e t ih =>
    obtain ⟨k'', w⟩ := e
    unfold addTo
    by_cases h1 : k'' = k'
    · subst h1
      by_cases h2 : k'' = k
      · simp [lookupD_cons, h2]
      · simp [lookupD_cons, h2]
    · by_cases h2 : k'' = k
      · subst h2
        have : ¬ k' = k'' := fun e => h1 e.symm
        simp [h1, lookupD_cons, this]
      · simp [h1, lookupD_cons, h2, ih]

/-- the aggregate the group-by holds for stratum `k` is the sum over the rows of that stratum -/
theorem lookupD_groupSum (k : Key) (rows : List Row) :
    lookupD k (groupSum rows) = ((rows.filter (fun r => r.key = k)).map (·.val)).sum := by
  induction rows with
  | nil => rfl
  | cons r rs ih =>
    unfold groupSum
    rw [lookupD_addTo, ih]
    by_cases h : r.key = k
    · simp [h]; omega
    · simp [h]

/-- looking a stratum up in a table that lists `g k` for every `k` of `l` -/
theorem lookupD_map (k : Key) (l : List Key) (g : Key → Int) :
    lookupD k (l.map fun k' => (k', g k')) = if k ∈ l then g k else 0 := by
  induction l with
  | nil => simp [lookupD_nil]
  | cons a l ih =>
    rw [List.map_cons, lookupD_cons]
    by_cases h : a = k
    · subst h; simp
    · have : ¬ k = a := fun e => h e.symm
      simp [h, ih, this]

theorem increment_eq (levels : List (List String)) (rows : List Row) :
    increment levels rows = (product levels).map fun k => (k, stratumSum k rows) := by
  unfold increment expand stratumSum
  apply List.map_congr_left
  intro k _
  rw [lookupD_groupSum]

/-- adding an increment table to a running table, both listing every stratum of `l` -/
theorem addResults_map (l : List Key) (a g : Key → Int) :
    addResults (l.map fun k => (k, a k)) (l.map fun k => (k, g k)) = l.map fun k => (k, a k + g k) := by
  unfold addResults
  rw [List.map_map]
  apply List.map_congr_left
  intro k hk
  simp only [Function.comp]
  rw [lookupD_map, if_pos hk]

end Viv.Results
