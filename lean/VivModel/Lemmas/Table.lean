import VivModel.Model.Table
/-! Helper lemmas about the state-table model (core Lean only). -/
namespace Viv.Table

/-! ### `idxOf`, `cellOf` -/

theorem idxOf_inj {rows : List Nat} {a b : Nat} (ha : a ∈ rows) (h : rows.idxOf a = rows.idxOf b)
    : a = b := by
  have hlt : rows.idxOf a < rows.length := List.idxOf_lt_length_iff.mpr ha
  have h1 : rows[rows.idxOf a] = a := List.getElem_idxOf hlt
  have hlt' : rows.idxOf b < rows.length := h ▸ hlt
  have h2 : rows[rows.idxOf b] = b := List.getElem_idxOf hlt'
  have : rows[rows.idxOf a] = rows[rows.idxOf b] := by simp [h]
  rw [h1, h2] at this
  exact this

theorem idxOf_getElem_nodup {rows : List Nat} (hnd : rows.Nodup) (i : Nat) (hi : i < rows.length) :
    rows.idxOf rows[i] = i := hnd.idxOf_getElem i hi

theorem cellOf_of_not_mem {rows : List Nat} {cells : List Val} {r : Nat} (h : r ∉ rows) :
    cellOf rows cells r = none := by
  simp [cellOf, h]

theorem cellOf_of_mem {rows : List Nat} {cells : List Val} {r : Nat} (h : r ∈ rows) :
    cellOf rows cells r = cells[rows.idxOf r]? := by
  simp [cellOf, h]

theorem cellOf_isSome {rows : List Nat} {cells : List Val} {r : Nat} (h : r ∈ rows)
    (hl : cells.length = rows.length) : ∃ v, cellOf rows cells r = some v := by
  rw [cellOf_of_mem h]
  have hlt : rows.idxOf r < cells.length := hl ▸ List.idxOf_lt_length_iff.mpr h
  exact ⟨cells[rows.idxOf r], by simp [hlt]⟩

/-! ### the positional write -/

/-- the write as a fold over (label, value) pairs -/
def writePairs (rows : List Nat) (cells : List Val) (ps : List (Nat × Val)) : List Val :=
  ps.foldl (fun acc rv => acc.set (rows.idxOf rv.1) rv.2) cells

theorem writeCells_eq_pairs (rows : List Nat) (cells : List Val) (urows : List Nat) (uvals : List Val) :
    writeCells rows cells urows uvals = writePairs rows cells (urows.zip uvals) := rfl

theorem length_writePairs (rows : List Nat) (cells : List Val) (ps : List (Nat × Val)) :
    (writePairs rows cells ps).length = cells.length := by
  unfold writePairs
  induction ps generalizing cells with
  | nil => rfl
  | cons x xs ih => simp only [List.foldl_cons]; rw [ih]; simp

theorem length_writeCells (rows : List Nat) (cells : List Val) (urows : List Nat) (uvals : List Val) :
    (writeCells rows cells urows uvals).length = cells.length :=
  length_writePairs _ _ _

/-- positions that are not addressed keep their value … -/
theorem writePairs_other (rows : List Nat) (cells : List Val) (ps : List (Nat × Val)) (i : Nat)
    (h : ∀ rv ∈ ps, rows.idxOf rv.1 ≠ i) : (writePairs rows cells ps)[i]? = cells[i]? := by
  unfold writePairs
  induction ps generalizing cells with
  | nil => rfl
  | cons x xs ih =>
    simp only [List.foldl_cons]
    rw [ih _ (fun rv hrv => h rv (List.mem_cons_of_mem _ hrv))]
    have : rows.idxOf x.1 ≠ i := h x List.mem_cons_self
    simp [this]

/-- … and an addressed simulant holds exactly the supplied value (distinct labels) -/
theorem writePairs_hit (rows : List Nat) (cells : List Val) (ps : List (Nat × Val)) (r : Nat) (v : Val)
    (hmem : (r, v) ∈ ps) (hnd : (ps.map (·.1)).Nodup) (hsub : ∀ rv ∈ ps, rv.1 ∈ rows)
    (hi : rows.idxOf r < cells.length) :
    (writePairs rows cells ps)[rows.idxOf r]? = some v := by
  unfold writePairs
  induction ps generalizing cells with
  | nil => cases hmem
  | cons x xs ih =>
    simp only [List.map_cons, List.nodup_cons] at hnd
    simp only [List.foldl_cons]
    rcases List.mem_cons.mp hmem with hx | hx
    · subst hx
      have hother : ∀ rv ∈ xs, rows.idxOf rv.1 ≠ rows.idxOf r := by
        intro rv hrv e
        have hrvmem : rv.1 ∈ rows := hsub rv (List.mem_cons_of_mem _ hrv)
        have : rv.1 = r := idxOf_inj hrvmem e
        exact hnd.1 (this ▸ List.mem_map_of_mem (f := (·.1)) hrv)
      have := writePairs_other rows (cells.set (rows.idxOf r) v) xs (rows.idxOf r) hother
      unfold writePairs at this
      rw [this]; simp [hi]
    · exact ih _ hx hnd.2 (fun rv hrv => hsub rv (List.mem_cons_of_mem _ hrv)) (by simpa using hi)

theorem zip_fst_nodup {urows : List Nat} {uvals : List Val} (h : urows.Nodup) :
    ((urows.zip uvals).map (·.1)).Nodup := by
  induction urows generalizing uvals with
  | nil => simp
  | cons a as ih =>
    cases uvals with
    | nil => simp
    | cons b bs =>
      simp only [List.zip_cons_cons, List.map_cons, List.nodup_cons] at h ⊢
      refine ⟨?_, ih h.2⟩
      intro hm
      obtain ⟨p, hp, hpa⟩ := List.mem_map.mp hm
      have : p.1 ∈ as := (List.of_mem_zip hp).1
      exact h.1 (hpa ▸ this)

theorem mem_zip_of_idx {urows : List Nat} {uvals : List Val} {r : Nat} (hr : r ∈ urows)
    (hl : uvals.length = urows.length) :
    ∃ v, uvals[urows.idxOf r]? = some v ∧ (r, v) ∈ urows.zip uvals := by
  have hlt : urows.idxOf r < urows.length := List.idxOf_lt_length_iff.mpr hr
  have hlt' : urows.idxOf r < uvals.length := hl ▸ hlt
  refine ⟨uvals[urows.idxOf r], by simp [hlt'], ?_⟩
  have hz : urows.idxOf r < (urows.zip uvals).length := by simp [List.length_zip]; omega
  have : (urows.zip uvals)[urows.idxOf r] = (r, uvals[urows.idxOf r]) := by
    simp [List.getElem_zip, List.getElem_idxOf hlt]
  exact this ▸ List.getElem_mem hz

/-- **by-label normal form of the write**: after `new[get_indexer(update.index)] = update_values` the
cell of simulant `r` is the supplied value if `r` is addressed and the old cell otherwise -/
theorem cellOf_writeCells (rows : List Nat) (cells : List Val) (urows : List Nat) (uvals : List Val)
    (hund : urows.Nodup) (hsub : ∀ r ∈ urows, r ∈ rows) (hul : uvals.length = urows.length)
    (hl : cells.length = rows.length) (r : Nat) :
    cellOf rows (writeCells rows cells urows uvals) r =
      if r ∈ urows then cellOf urows uvals r else cellOf rows cells r := by
  by_cases hr : r ∈ rows
  · rw [cellOf_of_mem hr, writeCells_eq_pairs]
    by_cases hu : r ∈ urows
    · obtain ⟨v, hv, hz⟩ := mem_zip_of_idx hu hul
      have hlt : rows.idxOf r < cells.length := hl ▸ List.idxOf_lt_length_iff.mpr hr
      rw [writePairs_hit rows cells _ r v hz (zip_fst_nodup hund)
        (fun rv hrv => hsub _ (List.of_mem_zip hrv).1) hlt]
      simp [hu, cellOf_of_mem hu, hv]
    · rw [writePairs_other]
      · simp [hu, cellOf_of_mem hr]
      · intro rv hrv e
        have h1 : rv.1 ∈ urows := (List.of_mem_zip hrv).1
        have : rv.1 = r := idxOf_inj (hsub _ h1) e
        exact hu (this ▸ h1)
  · have hu : r ∉ urows := fun h => hr (hsub r h)
    simp [cellOf_of_not_mem hr, hu]

/-- two lists of cells over the same labels are equal when they agree by label -/
theorem cells_ext {rows : List Nat} (hnd : rows.Nodup) {a b : List Val} (ha : a.length = rows.length)
    (hb : b.length = rows.length) (h : ∀ r ∈ rows, cellOf rows a r = cellOf rows b r) : a = b := by
  apply List.ext_getElem?
  intro i
  by_cases hi : i < rows.length
  · have hmem : rows[i] ∈ rows := List.getElem_mem hi
    have := h rows[i] hmem
    rw [cellOf_of_mem hmem, cellOf_of_mem hmem, idxOf_getElem_nodup hnd i hi] at this
    exact this
  · have h1 : a.length ≤ i := by omega
    have h2 : b.length ≤ i := by omega
    simp [List.getElem?_eq_none h1, List.getElem?_eq_none h2]

/-- the result of the write depends only on which simulant gets which value, not on the order of the
update's rows -/
theorem writeCells_congr {rows : List Nat} (hnd : rows.Nodup) {cells : List Val} (hl : cells.length = rows.length)
    {ur1 ur2 : List Nat} {uv1 uv2 : List Val}
    (h1 : ur1.Nodup) (h2 : ur2.Nodup) (s1 : ∀ r ∈ ur1, r ∈ rows) (s2 : ∀ r ∈ ur2, r ∈ rows)
    (l1 : uv1.length = ur1.length) (l2 : uv2.length = ur2.length)
    (hsame : ∀ r, r ∈ ur1 ↔ r ∈ ur2) (hval : ∀ r ∈ ur1, cellOf ur1 uv1 r = cellOf ur2 uv2 r) :
    writeCells rows cells ur1 uv1 = writeCells rows cells ur2 uv2 := by
  apply cells_ext hnd (by rw [length_writeCells]; exact hl) (by rw [length_writeCells]; exact hl)
  intro r _
  rw [cellOf_writeCells rows cells ur1 uv1 h1 s1 l1 hl, cellOf_writeCells rows cells ur2 uv2 h2 s2 l2 hl]
  by_cases hr : r ∈ ur1
  · simp [hr, (hsame r).mp hr, hval r hr]
  · have : r ∉ ur2 := fun h => hr ((hsame r).mpr h)
    simp [hr, this]

/-! ### `mapE` -/

theorem mapE_ok_cons {α β ε : Type} {g : α → Except ε β} {a : α} {l : List α} {out : List β}
    (h : mapE g (a :: l) = .ok out) : ∃ b bs, g a = .ok b ∧ mapE g l = .ok bs ∧ out = b :: bs := by
  unfold mapE at h
  split at h
  · cases h
  · rename_i b hb
    split at h
    · cases h
    · rename_i bs hbs
      cases h
      exact ⟨b, bs, hb, hbs, rfl⟩

theorem mapE_length {α β ε : Type} {g : α → Except ε β} {l : List α} {out : List β}
    (h : mapE g l = .ok out) : out.length = l.length := by
  induction l generalizing out with
  | nil => simp [mapE] at h; simp [← h]
  | cons a l ih =>
    obtain ⟨b, bs, _, hbs, rfl⟩ := mapE_ok_cons h
    simp [ih hbs]

/-- every element succeeds ⇒ the traversal succeeds -/
theorem mapE_ok_of_forall {α β ε : Type} {g : α → Except ε β} {l : List α}
    (h : ∀ a ∈ l, ∃ b, g a = .ok b) : ∃ out, mapE g l = .ok out := by
  induction l with
  | nil => exact ⟨[], rfl⟩
  | cons a l ih =>
    obtain ⟨b, hb⟩ := h a List.mem_cons_self
    obtain ⟨bs, hbs⟩ := ih (fun x hx => h x (List.mem_cons_of_mem _ hx))
    exact ⟨b :: bs, by simp [mapE, hb, hbs]⟩

/-- an element fails and every failure is `e` ⇒ the traversal fails with `e` -/
theorem mapE_error_of_mem {α β ε : Type} {g : α → Except ε β} {l : List α} {e : ε}
    (hall : ∀ a ∈ l, ∀ e', g a = .error e' → e' = e) (hex : ∃ a ∈ l, ∃ e', g a = .error e') :
    mapE g l = .error e := by
  induction l with
  | nil => obtain ⟨a, ha, _⟩ := hex; cases ha
  | cons a l ih =>
    unfold mapE
    cases hga : g a with
    | error e' => simp [hall a List.mem_cons_self e' hga]
    | ok b =>
      simp only
      have hex' : ∃ a ∈ l, ∃ e', g a = .error e' := by
        obtain ⟨x, hx, e', he'⟩ := hex
        rcases List.mem_cons.mp hx with rfl | hx'
        · rw [hga] at he'; cases he'
        · exact ⟨x, hx', e', he'⟩
      rw [ih (fun x hx => hall x (List.mem_cons_of_mem _ hx)) hex']

theorem mapE_congr {α β ε : Type} {g g' : α → Except ε β} {l : List α} (h : ∀ a ∈ l, g a = g' a) :
    mapE g l = mapE g' l := by
  induction l with
  | nil => rfl
  | cons a l ih =>
    unfold mapE
    rw [h a List.mem_cons_self, ih (fun x hx => h x (List.mem_cons_of_mem _ hx))]

/-! ### lookup by name -/

theorem find?_key {α : Type} (key : α → String) : ∀ (l : List α), (l.map key).Nodup → ∀ a ∈ l,
    l.find? (fun x => key x == key a) = some a
  | [], _, a, ha => by cases ha
  | x :: xs, hnd, a, ha => by
    simp only [List.map_cons, List.nodup_cons] at hnd
    rcases List.mem_cons.mp ha with rfl | ha'
    · simp
    · have hne : key x ≠ key a := fun e => hnd.1 (e ▸ List.mem_map_of_mem (f := key) ha')
      have hb : (key x == key a) = false := by simpa using hne
      rw [List.find?_cons, hb]
      exact find?_key key xs hnd.2 a ha'

theorem find?_key_none {α : Type} (key : α → String) (l : List α) (c : String)
    (h : ∀ a ∈ l, key a ≠ c) : l.find? (fun x => key x == c) = none := by
  rw [List.find?_eq_none]
  intro a ha
  simpa using h a ha

theorem find?_map_key {α : Type} (key : α → String) (F : α → α) (c : String) :
    ∀ (l : List α), (∀ a ∈ l, key (F a) = key a) →
      (l.map F).find? (fun x => key x == c) = (l.find? (fun x => key x == c)).map F
  | [], _ => rfl
  | x :: xs, h => by
    have hx : key (F x) = key x := h x List.mem_cons_self
    simp only [List.map_cons, List.find?_cons, hx]
    cases key x == c
    · exact find?_map_key key F c xs (fun a ha => h a (List.mem_cons_of_mem _ ha))
    · rfl

theorem col?_some {t : Table} {c : String} {k : Col} (h : t.col? c = some k) : k ∈ t.cols ∧ k.name = c := by
  unfold Table.col? at h
  exact ⟨List.mem_of_find?_eq_some h, by simpa using List.find?_some h⟩

theorem col?_of_mem {t : Table} (hnd : t.names.Nodup) {k : Col} (hk : k ∈ t.cols) : t.col? k.name = some k := by
  unfold Table.col?
  exact find?_key (fun k : Col => k.name) t.cols hnd k hk

theorem col?_none_iff {t : Table} {c : String} : t.col? c = none ↔ c ∉ t.names := by
  unfold Table.col? Table.names
  rw [List.find?_eq_none]
  constructor
  · intro h hm
    obtain ⟨k, hk, rfl⟩ := List.mem_map.mp hm
    exact h k hk (by simp)
  · intro h k hk e
    exact h (List.mem_map.mpr ⟨k, hk, by simpa using e⟩)

/-! ### the per-column results and the assignment loop -/

/-- one pass of the assignment loop on one table column -/
def repl (acc n : Col) : Col := if acc.name == n.name then n else acc

theorem foldl_assign (news : List Col) (t : Table) :
    (news.foldl assignCol t).cols = t.cols.map (fun k => news.foldl repl k) ∧
    (news.foldl assignCol t).rows = t.rows := by
  induction news generalizing t with
  | nil => simp
  | cons n ns ih =>
    simp only [List.foldl_cons]
    obtain ⟨h1, h2⟩ := ih (assignCol t n)
    refine ⟨?_, by rw [h2]; rfl⟩
    rw [h1]
    simp only [assignCol, List.map_map]
    rfl

theorem foldl_repl_other (news : List Col) (k : Col) (h : ∀ n ∈ news, n.name ≠ k.name) :
    news.foldl repl k = k := by
  induction news with
  | nil => rfl
  | cons n ns ih =>
    have hne : k.name ≠ n.name := fun e => h n List.mem_cons_self e.symm
    have : repl k n = k := by simp [repl, hne]
    simp only [List.foldl_cons, this]
    exact ih (fun x hx => h x (List.mem_cons_of_mem _ hx))

theorem updateColumn_name {rows urows : List Nat} {c c' : Col} {u : UCol} {adding : Bool}
    (h : updateColumn rows c urows u adding = .ok c') : c'.name = c.name := by
  unfold updateColumn at h
  split at h
  · cases h; rfl
  · split at h
    · cases h
    · split at h
      · split at h
        · cases h; rfl
        · cases h
      · split at h
        · cases h; rfl
        · cases h
      all_goals cases h

theorem colUpdate_ok {t : Table} {urows : List Nat} {adding : Bool} {u : UCol} {c' : Col}
    (h : colUpdate t urows adding u = .ok c') :
    ∃ c, t.col? u.name = some c ∧ updateColumn t.rows c urows u adding = .ok c' ∧ c'.name = u.name := by
  unfold colUpdate at h
  split at h
  · cases h
  · rename_i c hc
    exact ⟨c, hc, h, (updateColumn_name h).trans (col?_some hc).2⟩

theorem mapE_names {t : Table} {urows : List Nat} {adding : Bool} :
    ∀ {us : List UCol} {news : List Col}, mapE (colUpdate t urows adding) us = .ok news →
      news.map (·.name) = us.map (·.name)
  | [], news, h => by simp [mapE] at h; simp [← h]
  | a :: as, news, h => by
    obtain ⟨b, bs, hb, hbs, rfl⟩ := mapE_ok_cons h
    obtain ⟨_, _, _, hn⟩ := colUpdate_ok hb
    simp [hn, mapE_names hbs]

/-- a table column that the update does not name is left alone by the loop -/
theorem loop_other {t : Table} {urows : List Nat} {adding : Bool} {us : List UCol} {news : List Col}
    (h : mapE (colUpdate t urows adding) us = .ok news) (k : Col) (hk : ∀ u ∈ us, u.name ≠ k.name) :
    news.foldl repl k = k := by
  apply foldl_repl_other
  intro n hn
  have : n.name ∈ us.map (·.name) := mapE_names h ▸ List.mem_map_of_mem (f := (·.name)) hn
  obtain ⟨u, hu, e⟩ := List.mem_map.mp this
  exact e ▸ hk u hu

/-- a table column that the update names ends up as that column's computed result, wherever the
column stands in the update -/
theorem loop_hit {t : Table} {urows : List Nat} {adding : Bool} :
    ∀ {us : List UCol} {news : List Col}, mapE (colUpdate t urows adding) us = .ok news →
      (us.map (·.name)).Nodup → ∀ (k : Col) (u : UCol), u ∈ us → u.name = k.name →
      ∃ n, colUpdate t urows adding u = .ok n ∧ news.foldl repl k = n
  | [], _, _, _, _, u, hu, _ => by cases hu
  | a :: as, news, h, hnd, k, u, hu, hname => by
    obtain ⟨b, bs, hb, hbs, rfl⟩ := mapE_ok_cons h
    obtain ⟨_, _, _, hbn⟩ := colUpdate_ok hb
    simp only [List.map_cons, List.nodup_cons] at hnd
    rcases List.mem_cons.mp hu with rfl | hu'
    · refine ⟨b, hb, ?_⟩
      have : repl k b = b := by simp [repl, hbn, hname]
      simp only [List.foldl_cons, this]
      apply loop_other hbs b
      intro u' hu' e
      exact hnd.1 (by rw [← hbn, ← e]; exact List.mem_map_of_mem (f := (·.name)) hu')
    · have hne : k.name ≠ b.name := by
        intro e
        apply hnd.1
        rw [← hbn, ← e, ← hname]
        exact List.mem_map_of_mem (f := (·.name)) hu'
      have : repl k b = k := by simp [repl, hne]
      simp only [List.foldl_cons, this]
      exact loop_hit hbs hnd.2 k u hu' hname

/-! ### inversion of `update` -/

theorem precheck_ok {t : Table} {adding : Bool} {f : Frame} (h : precheck t false adding f = .ok ()) :
    (∀ r ∈ f.rows, r ∈ t.rows) ∧ (∀ c ∈ f.cols, ∃ k, t.col? c.name = some k) ∧
    (adding = true → ∀ c ∈ f.cols, conflicting t f c = false) := by
  unfold precheck at h
  split at h
  · cases h
  · rename_i h1
    simp only [Bool.false_eq_true, if_false] at h
    split at h
    · cases h
    · rename_i h2
      split at h
      · cases h
      · rename_i h3
        refine ⟨?_, ?_, ?_⟩
        · intro r hr
          have := h1
          simp only [List.any_eq_true, not_exists, not_and, Bool.not_eq_true'] at this
          simpa using this r hr
        · intro c hc
          simp only [List.any_eq_true, not_exists, not_and] at h2
          have := h2 c hc
          cases hcol : t.col? c.name with
          | none => simp [hcol] at this
          | some k => exact ⟨k, rfl⟩
        · intro ha c hc
          simp only [ha, Bool.true_and, List.any_eq_true, not_exists, not_and] at h3
          simpa using h3 c hc

theorem update_ok_normal {m m' : Mgr} {v : View} {u : Upd} (hi : m.initial = false)
    (h : update m v u = .ok m') :
    ∃ f, coerce u (viewColumns m.table v) = .ok f ∧ precheck m.table false m.adding f = .ok () ∧
      ((f.rows.isEmpty = true ∧ m' = m) ∨
       (f.rows.isEmpty = false ∧ ∃ t', writeAll m.table f m.adding = .ok t' ∧ m' = { m with pop := some t' })) := by
  unfold update at h
  simp only [hi] at h
  split at h
  · cases h
  · rename_i f hf
    split at h
    · cases h
    · rename_i hp
      refine ⟨f, hf, hp, ?_⟩
      simp only [Bool.false_eq_true, if_false] at h
      split at h
      · rename_i he
        left; exact ⟨he, by cases h; rfl⟩
      · rename_i he
        right
        split at h
        · cases h
        · rename_i t' ht'
          refine ⟨by simpa using he, t', ht', ?_⟩
          cases h
          cases m
          simp only at hi
          simp [hi]

theorem writeAll_ok {t t' : Table} {f : Frame} {adding : Bool} (h : writeAll t f adding = .ok t') :
    ∃ news, mapE (colUpdate t f.rows adding) f.cols = .ok news ∧
      t'.cols = t.cols.map (fun k => news.foldl repl k) ∧ t'.rows = t.rows := by
  unfold writeAll at h
  split at h
  · cases h
  · rename_i news hn
    cases h
    exact ⟨news, hn, (foldl_assign news t).1, (foldl_assign news t).2⟩

theorem checkFrame_ok {vc : List String} {f f' : Frame} (h : checkFrame vc f = .ok f') :
    f' = f ∧ (∀ c ∈ f.cols, c.name ∈ vc) ∧ f.cols ≠ [] := by
  unfold checkFrame at h
  split at h
  · cases h
  · rename_i h1
    split at h
    · cases h
    · rename_i h2
      cases h
      refine ⟨rfl, ?_, by simpa using h2⟩
      intro c hc
      simp only [List.any_eq_true, not_exists, not_and] at h1
      simpa using h1 c hc

/-! ### what the assignment loop leaves in each column -/

theorem loop_name {t : Table} {f : Frame} {adding : Bool} {news : List Col}
    (hn : mapE (colUpdate t f.rows adding) f.cols = .ok news) (hfn : f.names.Nodup) (k : Col) :
    (news.foldl repl k).name = k.name := by
  by_cases hex : ∃ u ∈ f.cols, u.name = k.name
  · obtain ⟨u, hu, hname⟩ := hex
    obtain ⟨n, hcu, hfold⟩ := loop_hit hn hfn k u hu hname
    obtain ⟨_, _, _, hnn⟩ := colUpdate_ok hcu
    rw [hfold, hnn, hname]
  · rw [loop_other hn k (fun u hu e => hex ⟨u, hu, e⟩)]

theorem writeAll_col? {t t' : Table} {f : Frame} {adding : Bool} (h : writeAll t f adding = .ok t')
    (hfn : f.names.Nodup) (c : String) :
    ∃ news, mapE (colUpdate t f.rows adding) f.cols = .ok news ∧
      t'.col? c = (t.col? c).map (fun k => news.foldl repl k) := by
  obtain ⟨news, hn, hcols, _⟩ := writeAll_ok h
  refine ⟨news, hn, ?_⟩
  unfold Table.col?
  rw [hcols]
  exact find?_map_key (fun k : Col => k.name) _ c t.cols (fun k _ => loop_name hn hfn k)

theorem writeAll_col?_none {t t' : Table} {f : Frame} {adding : Bool} (h : writeAll t f adding = .ok t')
    (hfn : f.names.Nodup) {c : String} (hc : t.col? c = none) : t'.col? c = none := by
  obtain ⟨news, _, e⟩ := writeAll_col? h hfn c
  rw [e, hc]; rfl

theorem writeAll_col?_other {t t' : Table} {f : Frame} {adding : Bool} (h : writeAll t f adding = .ok t')
    (hfn : f.names.Nodup) {c : String} {k : Col} (hc : t.col? c = some k) (hno : ∀ u ∈ f.cols, u.name ≠ c) :
    t'.col? c = some k := by
  obtain ⟨news, hn, e⟩ := writeAll_col? h hfn c
  rw [e, hc]
  have hk : k.name = c := (col?_some hc).2
  simp only [Option.map_some]
  rw [loop_other hn k (fun u hu e' => hno u hu (e'.trans hk))]

theorem writeAll_col?_hit {t t' : Table} {f : Frame} {adding : Bool} (h : writeAll t f adding = .ok t')
    (hfn : f.names.Nodup) {c : String} {k : Col} (hc : t.col? c = some k) {u : UCol} (hu : u ∈ f.cols)
    (hname : u.name = c) :
    ∃ n, updateColumn t.rows k f.rows u adding = .ok n ∧ t'.col? c = some n := by
  obtain ⟨news, hn, e⟩ := writeAll_col? h hfn c
  have hk : k.name = c := (col?_some hc).2
  obtain ⟨n, hcu, hfold⟩ := loop_hit hn hfn k u hu (hname.trans hk.symm)
  obtain ⟨k', hk', hup, _⟩ := colUpdate_ok hcu
  rw [hname, hc] at hk'
  cases hk'
  exact ⟨n, hup, by rw [e, hc]; simp [hfold]⟩

theorem value?_of_mem {f : Frame} (hfn : f.names.Nodup) {u : UCol} (hu : u ∈ f.cols) (r : Nat) :
    f.value? r u.name = cellOf f.rows u.vals r := by
  unfold Frame.value?
  rw [find?_key (fun k : UCol => k.name) f.cols hfn u hu]

theorem mem_names_iff {f : Frame} {c : String} : c ∈ f.names ↔ ∃ u ∈ f.cols, u.name = c := by
  unfold Frame.names
  simp [List.mem_map]

theorem table_of_pop (m : Mgr) (t : Table) : ({ m with pop := some t } : Mgr).table = t := rfl

/-! ### building `update` results from their parts -/

theorem mapE_ok_mem {α β ε : Type} {g : α → Except ε β} {l : List α} {out : List β}
    (h : mapE g l = .ok out) : ∀ a ∈ l, ∃ b, g a = .ok b := by
  induction l generalizing out with
  | nil => intro a ha; cases ha
  | cons x xs ih =>
    obtain ⟨b, bs, hb, hbs, _⟩ := mapE_ok_cons h
    intro a ha
    rcases List.mem_cons.mp ha with rfl | ha'
    · exact ⟨b, hb⟩
    · exact ih hbs a ha'

theorem checkFrame_ok_of {vc : List String} {f : Frame} (h1 : ∀ c ∈ f.cols, c.name ∈ vc) (h2 : f.cols ≠ []) :
    checkFrame vc f = .ok f := by
  unfold checkFrame
  have a : (f.cols.any fun c => !vc.contains c.name) = false := by
    simp only [List.any_eq_false]
    intro c hc; simpa using h1 c hc
  have b : f.cols.isEmpty = false := by cases hcs : f.cols <;> simp_all
  rw [a, b]; rfl

theorem precheck_ok_of {t : Table} {adding : Bool} {f : Frame} (h1 : ∀ r ∈ f.rows, r ∈ t.rows)
    (h2 : ∀ c ∈ f.cols, ∃ k, t.col? c.name = some k)
    (h3 : adding = true → ∀ c ∈ f.cols, conflicting t f c = false) : precheck t false adding f = .ok () := by
  unfold precheck
  have a : (f.rows.any fun r => !t.rows.contains r) = false := by
    simp only [List.any_eq_false]
    intro r hr; simpa using h1 r hr
  have b : (f.cols.any fun c => (t.col? c.name).isNone) = false := by
    simp only [List.any_eq_false]
    intro c hc
    obtain ⟨k, hk⟩ := h2 c hc
    simp [hk]
  have c : (adding && f.cols.any (conflicting t f)) = false := by
    cases adding with
    | false => rfl
    | true =>
      simp only [Bool.true_and, List.any_eq_false]
      intro c hc; simp [h3 rfl c hc]
  rw [a, b, c]; rfl

theorem update_of_parts {m : Mgr} {v : View} {u : Upd} {f : Frame} (hi : m.initial = false)
    (hc : coerce u (viewColumns m.table v) = .ok f) (hp : precheck m.table false m.adding f = .ok ()) :
    update m v u =
      if f.rows.isEmpty then .ok m
      else match writeAll m.table f m.adding with
        | .error e => .error e
        | .ok t' => .ok { m with pop := some t' } := by
  unfold update
  simp only [hc, hi, hp]
  rfl

theorem update_coerce_error {m : Mgr} {v : View} {u : Upd} {e : Err}
    (h : coerce u (viewColumns m.table v) = .error e) : update m v u = .error e := by
  unfold update
  simp only [h]

theorem update_precheck_error {m : Mgr} {v : View} {u : Upd} {f : Frame} {e : Err}
    (hc : coerce u (viewColumns m.table v) = .ok f)
    (hp : precheck m.table m.initial m.adding f = .error e) : update m v u = .error e := by
  unfold update
  simp only [hc, hp]

theorem table_ext {a b : Table} (h1 : a.rows = b.rows) (h2 : a.cols = b.cols) : a = b := by
  cases a; cases b; simp_all

/-! ### promotion and cast back (what `reindex` + `astype` do to an int / bool column at a birth) -/

theorem writePairs_map (f : Val → Val) (rows : List Nat) (cells : List Val) (ps : List (Nat × Val)) :
    writePairs rows (cells.map f) (ps.map (fun p => (p.1, f p.2))) = (writePairs rows cells ps).map f := by
  unfold writePairs
  induction ps generalizing cells with
  | nil => rfl
  | cons x xs ih =>
    simp only [List.map_cons, List.foldl_cons]
    rw [← ih, List.map_set]

theorem writeCells_map (f : Val → Val) (rows : List Nat) (cells : List Val) (urows : List Nat) (uvals : List Val) :
    writeCells rows (cells.map f) urows (uvals.map f) = (writeCells rows cells urows uvals).map f := by
  rw [writeCells_eq_pairs, writeCells_eq_pairs, ← writePairs_map]
  congr 1
  induction urows generalizing uvals with
  | nil => rfl
  | cons a as ih =>
    cases uvals with
    | nil => rfl
    | cons b bs => simp [ih]

theorem mapE_down_up {up : Val → Val} {down : Val → Except Err Val} {P : Val → Prop}
    (hud : ∀ v, P v → down (up v) = .ok v) : ∀ (l : List Val), (∀ v ∈ l, P v) → mapE down (l.map up) = .ok l
  | [], _ => rfl
  | v :: l, h => by
    simp only [List.map_cons, mapE, hud v (h v List.mem_cons_self),
      mapE_down_up hud l (fun x hx => h x (List.mem_cons_of_mem _ hx))]

theorem mem_of_cellOf {rows : List Nat} {cells : List Val} {r : Nat} {v : Val} (h : cellOf rows cells r = some v) :
    v ∈ cells := by
  unfold cellOf at h
  split at h
  · exact List.mem_of_getElem? h
  · cases h

/-- **Filling the new rows restores the column.** `base` are the cells after the table has grown
(old values, null in the new rows), shown through the promotion `up`; writing values for all rows
that are not `P`-typed yet and casting back with `down` succeeds and yields, by label, the supplied
values in the addressed rows and the *original* values everywhere else. -/
theorem fill_roundtrip {up : Val → Val} {down : Val → Except Err Val} {P : Val → Prop}
    (hud : ∀ v, P v → down (up v) = .ok v)
    {rows : List Nat} (hnd : rows.Nodup) {base : List Val} (hl : base.length = rows.length)
    {urows : List Nat} {uvals : List Val} (hund : urows.Nodup) (hsub : ∀ r ∈ urows, r ∈ rows)
    (hul : uvals.length = urows.length)
    (hbase : ∀ r ∈ rows, r ∉ urows → ∃ v, cellOf rows base r = some v ∧ P v) (huv : ∀ v ∈ uvals, P v) :
    ∃ out, mapE down (writeCells rows (base.map up) urows (uvals.map up)) = .ok out ∧
      out.length = rows.length ∧
      ∀ r, cellOf rows out r = if r ∈ urows then cellOf urows uvals r else cellOf rows base r := by
  refine ⟨writeCells rows base urows uvals, ?_, by rw [length_writeCells]; exact hl,
    cellOf_writeCells rows base urows uvals hund hsub hul hl⟩
  rw [writeCells_map]
  apply mapE_down_up hud
  intro v hv
  obtain ⟨i, hi, rfl⟩ := List.mem_iff_getElem.mp hv
  have hi' : i < rows.length := by rw [length_writeCells, hl] at hi; exact hi
  have hmem : rows[i] ∈ rows := List.getElem_mem hi'
  have hc := cellOf_writeCells rows base urows uvals hund hsub hul hl rows[i]
  rw [cellOf_of_mem hmem, idxOf_getElem_nodup hnd i hi', List.getElem?_eq_getElem hi] at hc
  by_cases hu : rows[i] ∈ urows
  · rw [if_pos hu] at hc
    exact huv _ (mem_of_cellOf hc.symm)
  · rw [if_neg hu] at hc
    obtain ⟨v, hv1, hv2⟩ := hbase rows[i] hmem hu
    rw [hv1] at hc
    cases hc
    exact hv2

/-- two lists related element by element (core Lean has no `Forall₂`) -/
inductive All₂ {α β : Type} (R : α → β → Prop) : List α → List β → Prop
  | nil : All₂ R [] []
  | cons {a : α} {b : β} {as : List α} {bs : List β} : R a b → All₂ R as bs → All₂ R (a :: as) (b :: bs)

end Viv.Table
