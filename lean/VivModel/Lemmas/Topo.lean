import VivModel.Model.Topo
/-! Lemmas about the dependency-order model (`Viv.Topo`): Kahn's invariant, termination, pigeonhole on
backward walks (acyclic ⇒ some node is ready), observed-order chains, the manager's map. Core Lean only
(no Mathlib import needed). The property theorems are in `Props/C09.lean`. -/
namespace Viv.Topo


/-! ## checker -/

theorem checkOrder_spec (g : Graph) (o : List Nat) (h : checkOrder g o = true) :
    o.Nodup ∧ (∀ v, v ∈ g.nodes ↔ v ∈ o) ∧ ∀ u v, (u, v) ∈ g.edges → idx o u < idx o v := by
  simp only [checkOrder, decide_eq_true_eq] at h
  obtain ⟨h1, h2, h3, h4⟩ := h
  exact ⟨h1, fun v => ⟨h2 v, h3 v⟩, fun u v he => h4 (u, v) he⟩

theorem checkOrder_of_spec (g : Graph) (o : List Nat) (h1 : o.Nodup) (h2 : ∀ v, v ∈ g.nodes ↔ v ∈ o)
    (h3 : ∀ u v, (u, v) ∈ g.edges → idx o u < idx o v) : checkOrder g o = true := by
  simp only [checkOrder, decide_eq_true_eq]
  exact ⟨h1, fun v hv => (h2 v).mp hv, fun v hv => (h2 v).mpr hv, fun e he => h3 e.1 e.2 he⟩

theorem path_lt (g : Graph) (o : List Nat) (h : checkOrder g o = true) {u v : Nat}
    (p : Path g u v) : idx o u < idx o v := by
  have hs := (checkOrder_spec g o h).2.2
  induction p with
  | edge he => exact hs _ _ he
  | trans _ _ ih1 ih2 => exact Nat.lt_trans ih1 ih2

theorem Path.mono {g g' : Graph} (h : ∀ e ∈ g.edges, e ∈ g'.edges) {u v : Nat} (p : Path g u v) :
    Path g' u v := by
  induction p with
  | edge he => exact Path.edge (h _ he)
  | trans _ _ ih1 ih2 => exact Path.trans ih1 ih2

/-! ## Kahn -/

theorem ready_sub (g : Graph) (rem : List Nat) : (ready g rem).Sublist rem := List.filter_sublist

theorem mem_ready (g : Graph) (rem : List Nat) (v : Nat) :
    v ∈ ready g rem ↔ v ∈ rem ∧ ∀ e ∈ g.edges, e.2 = v → e.1 ∉ rem := by
  simp only [ready, List.mem_filter, List.all_eq_true, Bool.or_eq_true, bne_iff_ne, ne_eq,
    Bool.not_eq_true', List.contains_eq_mem, decide_eq_false_iff_not]
  constructor
  · rintro ⟨h1, h2⟩
    refine ⟨h1, fun e he hev => ?_⟩
    rcases h2 e he with h | h
    · exact absurd hev h
    · exact h
  · rintro ⟨h1, h2⟩
    refine ⟨h1, fun e he => ?_⟩
    by_cases hev : e.2 = v
    · exact Or.inr (h2 e he hev)
    · exact Or.inl hev

/-- loop invariant of Kahn's algorithm -/
structure Inv (g : Graph) (rem acc : List Nat) : Prop where
  accN : acc.Nodup
  remN : rem.Nodup
  disj : ∀ v, v ∈ acc → v ∉ rem
  cover : ∀ v, v ∈ g.nodes ↔ (v ∈ acc ∨ v ∈ rem)
  fwd : ∀ e ∈ g.edges, e.2 ∈ acc → e.1 ∈ acc ∧ idx acc e.1 < idx acc e.2

theorem inv_step (g : Graph) (hE : ∀ e ∈ g.edges, e.1 ∈ g.nodes ∧ e.2 ∈ g.nodes)
    (rem acc : List Nat) (h : Inv g rem acc) :
    Inv g (rem.filter (fun v => !(ready g rem).contains v)) (acc ++ ready g rem) := by
  have hsub := ready_sub g rem
  have hrN : (ready g rem).Nodup := h.remN.sublist hsub
  refine ⟨?_, h.remN.sublist List.filter_sublist, ?_, ?_, ?_⟩
  · rw [List.nodup_append]
    refine ⟨h.accN, hrN, fun a ha b hb hab => ?_⟩
    subst hab
    exact h.disj a ha (hsub.subset hb)
  · intro v hv hv'
    simp only [List.mem_filter, Bool.not_eq_true', List.contains_eq_mem, decide_eq_false_iff_not] at hv'
    rcases List.mem_append.mp hv with ha | hr
    · exact h.disj v ha hv'.1
    · exact hv'.2 hr
  · intro v
    rw [h.cover v]
    simp only [List.mem_append, List.mem_filter, Bool.not_eq_true', List.contains_eq_mem, decide_eq_false_iff_not]
    constructor
    · rintro (ha | hr)
      · exact Or.inl (Or.inl ha)
      · by_cases hv : v ∈ ready g rem
        · exact Or.inl (Or.inr hv)
        · exact Or.inr ⟨hr, hv⟩
    · rintro ((ha | hr) | ⟨hr, _⟩)
      · exact Or.inl ha
      · exact Or.inr (hsub.subset hr)
      · exact Or.inr hr
  · intro e he h2
    simp only [idx, List.idxOf_append]
    rcases List.mem_append.mp h2 with ha | hr
    · obtain ⟨h1, hlt⟩ := h.fwd e he ha
      refine ⟨List.mem_append_left _ h1, ?_⟩
      simp only [h1, ha, if_true]
      exact hlt
    · obtain ⟨hrem, hpred⟩ := (mem_ready g rem e.2).mp hr
      have h1rem : e.1 ∉ rem := hpred e he rfl
      have h1acc : e.1 ∈ acc := by
        rcases (h.cover e.1).mp (hE e he).1 with ha | hr'
        · exact ha
        · exact absurd hr' h1rem
      have h2acc : e.2 ∉ acc := fun ha => h.disj _ ha hrem
      refine ⟨List.mem_append_left _ h1acc, ?_⟩
      simp only [h1acc, h2acc, if_true, if_false]
      have := List.idxOf_lt_length_of_mem h1acc
      omega

theorem kahn_inv (g : Graph) (hE : ∀ e ∈ g.edges, e.1 ∈ g.nodes ∧ e.2 ∈ g.nodes) :
    ∀ (fuel : Nat) (rem acc o : List Nat), Inv g rem acc → kahn g fuel rem acc = some o → Inv g [] o := by
  intro fuel
  induction fuel with
  | zero => intro _ _ _ _ h; simp [kahn] at h
  | succ f ih =>
    intro rem acc o hinv hk
    cases rem with
    | nil => simp only [kahn, Option.some.injEq] at hk; subst hk; exact hinv
    | cons r rs =>
      simp only [kahn] at hk
      split at hk
      · cases hk
      · exact ih _ _ o (inv_step g hE (r :: rs) acc hinv) hk

theorem topoSort_sound (g : Graph) (hN : g.nodes.Nodup)
    (hE : ∀ e ∈ g.edges, e.1 ∈ g.nodes ∧ e.2 ∈ g.nodes) (o : List Nat)
    (h : topoSort g = some o) : checkOrder g o = true := by
  have h0 : Inv g g.nodes [] :=
    ⟨List.nodup_nil, hN, by simp, by simp, by simp⟩
  have hinv := kahn_inv g hE _ _ _ o h0 h
  simp only [checkOrder, decide_eq_true_eq]
  refine ⟨hinv.accN, fun v hv => ?_, fun v hv => ?_, fun e he => ?_⟩
  · rcases (hinv.cover v).mp hv with h | h
    · exact h
    · simp at h
  · exact (hinv.cover v).mpr (Or.inl hv)
  · have h2 : e.2 ∈ o := by
      rcases (hinv.cover e.2).mp (hE e he).2 with h | h
      · exact h
      · simp at h
    exact (hinv.fwd e he h2).2

theorem filter_ready_lt (g : Graph) (rem : List Nat) (h : ready g rem ≠ []) :
    (rem.filter (fun v => !(ready g rem).contains v)).length < rem.length := by
  obtain ⟨v, hv⟩ := List.exists_mem_of_ne_nil _ h
  have hvrem : v ∈ rem := (ready_sub g rem).subset hv
  apply List.length_filter_lt_length_iff_exists.mpr
  exact ⟨v, hvrem, by simp [hv]⟩

/-- Kahn terminates with an order as soon as every non-empty remainder (inside the node list) has a
ready node -/
theorem kahn_total (g : Graph)
    (hr : ∀ rem : List Nat, rem ≠ [] → rem.Sublist g.nodes → ready g rem ≠ []) :
    ∀ (fuel : Nat) (rem acc : List Nat), rem.Sublist g.nodes → rem.length < fuel →
      ∃ o, kahn g fuel rem acc = some o := by
  intro fuel
  induction fuel with
  | zero => intro _ _ _ h; omega
  | succ f ih =>
    intro rem acc hsub hlen
    cases rem with
    | nil => exact ⟨acc, by simp [kahn]⟩
    | cons r rs =>
      have hne := hr (r :: rs) (by simp) hsub
      have hlt := filter_ready_lt g (r :: rs) hne
      simp only [kahn]
      rw [if_neg (by simpa using hne)]
      exact ih _ _ (List.filter_sublist.trans hsub) (by omega)

/-- a list has an element of minimal rank -/
theorem exists_min_rank (rank : Nat → Nat) : ∀ (l : List Nat), l ≠ [] → ∃ v ∈ l, ∀ w ∈ l, rank v ≤ rank w := by
  intro l
  induction l with
  | nil => intro h; exact absurd rfl h
  | cons a as ih =>
    intro _
    cases as with
    | nil => exact ⟨a, List.mem_cons_self, fun w hw => by simp at hw; subst hw; exact Nat.le_refl _⟩
    | cons b bs =>
      obtain ⟨v, hv, hmin⟩ := ih (by simp)
      by_cases h : rank a ≤ rank v
      · refine ⟨a, List.mem_cons_self, fun w hw => ?_⟩
        rcases List.mem_cons.mp hw with e | e
        · subst e; exact Nat.le_refl _
        · exact Nat.le_trans h (hmin w e)
      · refine ⟨v, List.mem_cons_of_mem _ hv, fun w hw => ?_⟩
        rcases List.mem_cons.mp hw with e | e
        · subst e; omega
        · exact hmin w e

/-- if some rank is strictly increasing along every edge, a non-empty remainder has a ready node -/
theorem ready_ne_nil_of_rank (g : Graph) (rank : Nat → Nat) (hr : ∀ e ∈ g.edges, rank e.1 < rank e.2)
    (rem : List Nat) (hne : rem ≠ []) : ready g rem ≠ [] := by
  obtain ⟨v, hv, hmin⟩ := exists_min_rank rank rem hne
  have : v ∈ ready g rem := by
    rw [mem_ready]
    refine ⟨hv, fun e he hev h1 => ?_⟩
    have := hmin e.1 h1
    have := hr e he
    rw [hev] at this; omega
  intro h; rw [h] at this; cases this


/-! ## no cycle ⇒ a ready node (pigeonhole on backward walks) -/


/-- pigeonhole: a duplicate-free list inside `s` is no longer than `s` -/
theorem nodup_subset_length : ∀ (s l : List Nat), l.Nodup → (∀ x ∈ l, x ∈ s) → l.length ≤ s.length := by
  intro s
  induction s with
  | nil =>
    intro l _ hs
    cases l with
    | nil => simp
    | cons a l => exact absurd (hs a List.mem_cons_self) (by simp)
  | cons a s ih =>
    intro l hl hs
    have h1 : (l.erase a).Nodup := hl.erase a
    have h2 : ∀ x ∈ l.erase a, x ∈ s := by
      intro x hx
      have hxl : x ∈ l := List.mem_of_mem_erase hx
      have hne : x ≠ a := by
        intro h; subst h
        exact (List.Nodup.not_mem_erase hl) hx
      rcases List.mem_cons.mp (hs x hxl) with h | h
      · exact absurd h hne
      · exact h
    have := ih (l.erase a) h1 h2
    have hlen : l.length ≤ (l.erase a).length + 1 := by
      by_cases ha : a ∈ l
      · rw [List.length_erase_of_mem ha]; omega
      · rw [List.erase_of_not_mem ha]; omega
    simp only [List.length_cons]; omega




/-- some predecessor of `v` that is still in `rem` (`v` itself when there is none) -/
def predIn (g : Graph) (rem : List Nat) (v : Nat) : Nat :=
  match g.edges.find? (fun e => e.2 == v && rem.contains e.1) with
  | some e => e.1
  | none => v

theorem predIn_spec (g : Graph) (rem : List Nat) (hr : ready g rem = []) {v : Nat} (hv : v ∈ rem) :
    predIn g rem v ∈ rem ∧ (predIn g rem v, v) ∈ g.edges := by
  unfold predIn
  cases hf : g.edges.find? (fun e => e.2 == v && rem.contains e.1) with
  | some e =>
    have hp := List.find?_some hf
    have hm := List.mem_of_find?_eq_some hf
    simp only [Bool.and_eq_true, beq_iff_eq, List.contains_eq_mem, decide_eq_true_eq] at hp
    refine ⟨hp.2, ?_⟩
    have : (e.1, v) = e := by rw [← hp.1]
    simp only [this]; exact hm
  | none =>
    exfalso
    have hnone := List.find?_eq_none.mp hf
    have : v ∈ ready g rem := by
      rw [mem_ready]
      refine ⟨hv, fun e he hev h1 => ?_⟩
      have := hnone e he
      simp [hev, h1] at this
    rw [hr] at this; cases this

/-- walking backwards along edges inside `rem` -/
def walk (g : Graph) (rem : List Nat) (v : Nat) : Nat → Nat
  | 0 => v
  | k+1 => predIn g rem (walk g rem v k)

def walkList (g : Graph) (rem : List Nat) (v : Nat) : Nat → List Nat
  | 0 => [walk g rem v 0]
  | n+1 => walk g rem v (n+1) :: walkList g rem v n

theorem walk_mem (g : Graph) (rem : List Nat) (hr : ready g rem = []) {v : Nat} (hv : v ∈ rem) :
    ∀ k, walk g rem v k ∈ rem
  | 0 => hv
  | k+1 => (predIn_spec g rem hr (walk_mem g rem hr hv k)).1

theorem walk_path (g : Graph) (rem : List Nat) (hr : ready g rem = []) {v : Nat} (hv : v ∈ rem) (k : Nat) :
    ∀ j, Path g (walk g rem v (k + j + 1)) (walk g rem v k)
  | 0 => Path.edge (predIn_spec g rem hr (walk_mem g rem hr hv k)).2
  | j+1 => Path.trans (Path.edge (predIn_spec g rem hr (walk_mem g rem hr hv (k + j + 1))).2)
      (walk_path g rem hr hv k j)

theorem mem_walkList (g : Graph) (rem : List Nat) (v : Nat) :
    ∀ n x, x ∈ walkList g rem v n → ∃ i, i ≤ n ∧ x = walk g rem v i
  | 0, x, h => by
    simp only [walkList, List.mem_singleton] at h
    exact ⟨0, Nat.le_refl _, h⟩
  | n+1, x, h => by
    simp only [walkList, List.mem_cons] at h
    rcases h with h | h
    · exact ⟨n+1, Nat.le_refl _, h⟩
    · obtain ⟨i, hi, hx⟩ := mem_walkList g rem v n x h
      exact ⟨i, Nat.le_succ_of_le hi, hx⟩

theorem walkList_length (g : Graph) (rem : List Nat) (v : Nat) : ∀ n, (walkList g rem v n).length = n + 1
  | 0 => rfl
  | n+1 => by simp [walkList, walkList_length g rem v n]

theorem walkList_nodup_or_cycle (g : Graph) (rem : List Nat) (hr : ready g rem = []) {v : Nat} (hv : v ∈ rem) :
    ∀ n, (∃ u, Path g u u) ∨ (walkList g rem v n).Nodup
  | 0 => Or.inr (by simp [walkList])
  | n+1 => by
    rcases walkList_nodup_or_cycle g rem hr hv n with h | h
    · exact Or.inl h
    · by_cases hm : walk g rem v (n+1) ∈ walkList g rem v n
      · left
        obtain ⟨i, hi, hx⟩ := mem_walkList g rem v n _ hm
        have hp := walk_path g rem hr hv i (n - i)
        have : i + (n - i) + 1 = n + 1 := by omega
        rw [this, hx] at hp
        exact ⟨_, hp⟩
      · right
        simp only [walkList, List.nodup_cons]
        exact ⟨hm, h⟩


/-- in a graph without cycles every non-empty remainder has a ready node -/
theorem ready_ne_nil_of_acyclic (g : Graph) (hac : ¬ ∃ u, Path g u u) (rem : List Nat) (hne : rem ≠ []) :
    ready g rem ≠ [] := by
  intro hr
  obtain ⟨v, hv⟩ := List.exists_mem_of_ne_nil _ hne
  rcases walkList_nodup_or_cycle g rem hr hv rem.length with h | h
  · exact hac h
  · have hsub : ∀ x ∈ walkList g rem v rem.length, x ∈ rem := by
      intro x hx
      obtain ⟨i, _, hxi⟩ := mem_walkList g rem v _ x hx
      rw [hxi]; exact walk_mem g rem hr hv i
    have := nodup_subset_length rem _ h hsub
    rw [walkList_length] at this
    omega


/-! ## chains of an observed order, filtering -/


theorem idx_cons_self (a : Nat) (l : List Nat) : idx (a :: l) a = 0 := by
  simp [idx]

theorem idx_cons_ne {a x : Nat} (l : List Nat) (h : x ≠ a) : idx (a :: l) x = idx l x + 1 := by
  have : (a == x) = false := by simp; exact fun h' => h h'.symm
  simp [idx, List.idxOf_cons, this]

theorem idx_inj : ∀ (o : List Nat) {u v : Nat}, u ∈ o → v ∈ o → idx o u = idx o v → u = v := by
  intro o
  induction o with
  | nil => intro u v hu; cases hu
  | cons a l ih =>
    intro u v hu hv h
    by_cases h1 : u = a
    · by_cases h2 : v = a
      · rw [h1, h2]
      · rw [h1, idx_cons_self, idx_cons_ne l h2] at h; omega
    · by_cases h2 : v = a
      · rw [h2, idx_cons_self, idx_cons_ne l h1] at h; omega
      · rw [idx_cons_ne l h1, idx_cons_ne l h2] at h
        have hu' : u ∈ l := by rcases List.mem_cons.mp hu with e | e; exact absurd e h1; exact e
        have hv' : v ∈ l := by rcases List.mem_cons.mp hv with e | e; exact absurd e h2; exact e
        exact ih hu' hv' (by omega)

theorem chain_sub_cons (a : Nat) (l : List Nat) : ∀ e ∈ chain l, e ∈ chain (a :: l) := by
  intro e he
  cases l with
  | nil => simp [chain] at he
  | cons b r => simp only [chain, List.mem_cons]; exact Or.inr he

/-- the consecutive pairs of a list connect every earlier element to every later one -/
theorem chain_path (ns : List Nat) : ∀ (o : List Nat) {u v : Nat}, u ∈ o → v ∈ o → idx o u < idx o v →
    Path ⟨ns, chain o⟩ u v := by
  intro o
  induction o with
  | nil => intro u v hu; cases hu
  | cons a l ih =>
    intro u v hu hv hlt
    have lift : ∀ {x y : Nat}, Path ⟨ns, chain l⟩ x y → Path ⟨ns, chain (a :: l)⟩ x y :=
      fun p => Path.mono (g := ⟨ns, chain l⟩) (g' := ⟨ns, chain (a :: l)⟩) (chain_sub_cons a l) p
    by_cases hva : v = a
    · rw [hva, idx_cons_self] at hlt; omega
    · have hv' : v ∈ l := by rcases List.mem_cons.mp hv with e | e; exact absurd e hva; exact e
      by_cases hua : u = a
      · -- u is the head: step to the head of l, then on inside l
        cases l with
        | nil => cases hv'
        | cons b r =>
          have hab : Path ⟨ns, chain (a :: b :: r)⟩ a b := Path.edge (by simp [chain])
          rw [hua]
          by_cases hvb : v = b
          · rw [hvb]; exact hab
          · have : idx (b :: r) b < idx (b :: r) v := by rw [idx_cons_self, idx_cons_ne r hvb]; omega
            exact Path.trans hab (lift (ih List.mem_cons_self hv' this))
      · have hu' : u ∈ l := by rcases List.mem_cons.mp hu with e | e; exact absurd e hua; exact e
        rw [idx_cons_ne l hua, idx_cons_ne l hva] at hlt
        exact lift (ih hu' hv' (by omega))

theorem chain_mem : ∀ (o : List Nat) (e : Nat × Nat), e ∈ chain o → e.1 ∈ o ∧ e.2 ∈ o := by
  intro o
  induction o with
  | nil => intro e he; simp [chain] at he
  | cons a l ih =>
    intro e he
    cases l with
    | nil => simp [chain] at he
    | cons b r =>
      simp only [chain, List.mem_cons] at he
      rcases he with h | h
      · rw [h]; simp
      · have := ih e h
        exact ⟨List.mem_cons_of_mem _ this.1, List.mem_cons_of_mem _ this.2⟩

/-- filtering keeps the relative order -/
theorem idx_filter_lt (p : Nat → Bool) : ∀ (o : List Nat) {u v : Nat}, u ∈ o → v ∈ o → p u = true → p v = true →
    idx o u < idx o v → idx (o.filter p) u < idx (o.filter p) v := by
  intro o
  induction o with
  | nil => intro u v hu; cases hu
  | cons a l ih =>
    intro u v hu hv pu pv hlt
    by_cases hva : v = a
    · rw [hva, idx_cons_self] at hlt; omega
    · have hv' : v ∈ l := by rcases List.mem_cons.mp hv with e | e; exact absurd e hva; exact e
      by_cases hua : u = a
      · have pa : p a = true := by rw [← hua]; exact pu
        rw [List.filter_cons_of_pos pa, ← hua, idx_cons_self, idx_cons_ne _ (by rw [hua]; exact hva)]
        omega
      · have hu' : u ∈ l := by rcases List.mem_cons.mp hu with e | e; exact absurd e hua; exact e
        rw [idx_cons_ne l hua, idx_cons_ne l hva] at hlt
        have := ih hu' hv' pu pv (by omega)
        by_cases pa : p a = true
        · rw [List.filter_cons_of_pos pa, idx_cons_ne _ hua, idx_cons_ne _ hva]; omega
        · rw [List.filter_cons_of_neg pa]; exact this


/-! ## the manager's map and graph -/


theorem mem_dedup : ∀ (l : List Nat) (x : Nat), x ∈ dedup l ↔ x ∈ l := by
  intro l
  induction l with
  | nil => intro x; simp [dedup]
  | cons a l ih =>
    intro x
    simp only [dedup, List.mem_cons, List.mem_filter, bne_iff_ne, ne_eq, ih]
    constructor
    · rintro (h | ⟨h, _⟩)
      · exact Or.inl h
      · exact Or.inr h
    · rintro (h | h)
      · exact Or.inl h
      · by_cases hxa : x = a
        · exact Or.inl hxa
        · exact Or.inr ⟨h, hxa⟩

theorem dedup_nodup : ∀ (l : List Nat), (dedup l).Nodup := by
  intro l
  induction l with
  | nil => simp [dedup]
  | cons a l ih =>
    simp only [dedup, List.nodup_cons, List.mem_filter, bne_iff_ne, ne_eq, not_true_eq_false, and_false,
      not_false_eq_true, true_and]
    exact ih.sublist List.filter_sublist

theorem lookup_mem : ∀ (l : List (String × Nat)) (r : String) (p : Nat), l.lookup r = some p → (r, p) ∈ l := by
  intro l
  induction l with
  | nil => intro r p h; simp [List.lookup] at h
  | cons a l ih =>
    intro r p h
    obtain ⟨k, v⟩ := a
    simp only [List.lookup] at h
    split at h
    · rename_i heq
      have : r = k := by simpa using heq
      cases h; rw [this]; exact List.mem_cons_self
    · exact List.mem_cons_of_mem _ (ih r p h)

theorem lookup_isSome_iff : ∀ (l : List (String × Nat)) (r : String), (l.lookup r).isSome ↔ r ∈ l.map (·.1) := by
  intro l
  induction l with
  | nil => intro r; simp [List.lookup]
  | cons a l ih =>
    intro r
    obtain ⟨k, v⟩ := a
    simp only [List.lookup, List.map_cons, List.mem_cons]
    split
    · rename_i heq
      have : r = k := by simpa using heq
      simp [this]
    · rename_i hne
      have : r ≠ k := by simpa using hne
      rw [ih]; simp [this]

theorem lookup_append_of_some (l l' : List (String × Nat)) (r : String) (p : Nat) (h : l.lookup r = some p) :
    (l ++ l').lookup r = some p := by
  induction l with
  | nil => simp [List.lookup] at h
  | cons a l ih =>
    obtain ⟨k, v⟩ := a
    simp only [List.lookup, List.cons_append] at h ⊢
    split
    · rename_i heq; simp only [heq] at h; exact h
    · rename_i hne; simp only [hne] at h; exact ih h

/-- the graph of ANY manager state is well formed: no node twice, every edge between nodes -/
theorem toGraph_wf' (m : Manager) :
    (toGraph m).nodes.Nodup ∧ ∀ e ∈ (toGraph m).edges, e.1 ∈ (toGraph m).nodes ∧ e.2 ∈ (toGraph m).nodes := by
  refine ⟨dedup_nodup _, ?_⟩
  intro e he
  simp only [toGraph, List.mem_flatMap] at he
  obtain ⟨n, hn, hen⟩ := he
  simp only [inEdges, List.mem_filterMap] at hen
  obtain ⟨d, _, hd⟩ := hen
  cases hl : lookup m d with
  | none => simp [hl] at hd
  | some p =>
    simp only [hl, Option.map_some, Option.some.injEq] at hd
    subst hd
    refine ⟨?_, hn⟩
    simp only [toGraph, nodesOf, mem_dedup, List.mem_map]
    exact ⟨(d, p), lookup_mem _ _ _ hl, rfl⟩

theorem mem_edges_iff (m : Manager) (p n : Nat) :
    (p, n) ∈ (toGraph m).edges ↔ n ∈ nodesOf m ∧ ∃ d ∈ (groupOf m n).deps, lookup m d = some p := by
  simp only [toGraph, List.mem_flatMap, inEdges, List.mem_filterMap]
  constructor
  · rintro ⟨n', hn', d, hd, h⟩
    cases hl : lookup m d with
    | none => simp [hl] at h
    | some q =>
      simp only [hl, Option.map_some, Option.some.injEq, Prod.mk.injEq] at h
      obtain ⟨rfl, rfl⟩ := h
      exact ⟨hn', d, hd, hl⟩
  · rintro ⟨hn, d, hd, hl⟩
    exact ⟨n, hn, d, hd, by simp [hl]⟩

/-! ### add_resources -/

theorem insertNames_ok (gid : Nat) : ∀ (names : List String) (map map' : List (String × Nat)),
    insertNames gid map names = .ok map' →
      map' = map ++ names.map (fun r => (r, gid)) ∧ names.Nodup ∧ ∀ r ∈ names, r ∉ map.map (·.1) := by
  intro names
  induction names with
  | nil => intro map map' h; simp only [insertNames, Except.ok.injEq] at h; simp [h]
  | cons r rs ih =>
    intro map map' h
    simp only [insertNames] at h
    split at h
    · cases h
    · rename_i hnone
      have hr : r ∉ map.map (·.1) := by rw [← lookup_isSome_iff]; exact hnone
      obtain ⟨h1, h2, h3⟩ := ih _ _ h
      refine ⟨by simp [h1], ?_, ?_⟩
      · rw [List.nodup_cons]
        refine ⟨fun hin => ?_, h2⟩
        exact h3 r hin (by simp)
      · intro x hx
        rcases List.mem_cons.mp hx with e | e
        · rw [e]; exact hr
        · intro hin; exact h3 x e (by simp only [List.map_append, List.mem_append]; exact Or.inl hin)

theorem insertNames_dup (gid : Nat) : ∀ (names : List String) (map : List (String × Nat)),
    (¬ names.Nodup ∨ ∃ r ∈ names, r ∈ map.map (·.1)) → ∃ map', insertNames gid map names = .error map' := by
  intro names map h
  cases hres : insertNames gid map names with
  | error map' => exact ⟨map', rfl⟩
  | ok map' =>
    exfalso
    obtain ⟨_, h2, h3⟩ := insertNames_ok gid names map map' hres
    rcases h with h | ⟨r, hr, hin⟩
    · exact h h2
    · exact h3 r hr hin


theorem chain_idx_lt : ∀ (o : List Nat), o.Nodup → ∀ e ∈ chain o, idx o e.1 < idx o e.2 := by
  intro o
  induction o with
  | nil => intro _ e he; simp [chain] at he
  | cons a l ih =>
    intro hnd e he
    cases l with
    | nil => simp [chain] at he
    | cons b r =>
      have hnd' := List.nodup_cons.mp hnd
      simp only [chain, List.mem_cons] at he
      rcases he with h | h
      · rw [h]
        have hba : b ≠ a := fun hba => hnd'.1 (by rw [hba]; exact List.mem_cons_self)
        rw [idx_cons_self, idx_cons_ne _ hba]; omega
      · have hm := chain_mem (b :: r) e h
        have h1 : e.1 ≠ a := fun h1 => hnd'.1 (by rw [← h1]; exact hm.1)
        have h2 : e.2 ≠ a := fun h2 => hnd'.1 (by rw [← h2]; exact hm.2)
        rw [idx_cons_ne _ h1, idx_cons_ne _ h2]
        have := ih hnd'.2 e h
        omega

theorem insertNames_nodup (gid : Nat) : ∀ (names : List String) (map : List (String × Nat)),
    (map.map (·.1)).Nodup →
      match insertNames gid map names with
      | .ok mp => (mp.map (·.1)).Nodup
      | .error mp => (mp.map (·.1)).Nodup := by
  intro names
  induction names with
  | nil => intro map h; simpa [insertNames] using h
  | cons r rs ih =>
    intro map h
    simp only [insertNames]
    by_cases hsome : (map.lookup r).isSome = true
    · simp only [hsome, if_true]; exact h
    · simp only [hsome]
      have hr : r ∉ map.map (·.1) := by rw [← lookup_isSome_iff]; exact hsome
      apply ih
      simp only [List.map_append, List.map_cons, List.map_nil]
      rw [List.nodup_append]
      refine ⟨h, by simp, fun a ha b hb hab => ?_⟩
      simp only [List.mem_singleton] at hb
      subst hab; subst hb; exact hr ha

theorem nodup_of_map {α β : Type} (f : α → β) : ∀ (l : List α), (l.map f).Nodup → l.Nodup := by
  intro l
  induction l with
  | nil => intro _; exact List.nodup_nil
  | cons a l ih =>
    intro h
    simp only [List.map_cons, List.nodup_cons] at h ⊢
    exact ⟨fun ha => h.1 (List.mem_map.mpr ⟨a, ha, rfl⟩), ih h.2⟩

theorem withChain_wf (g : Graph) (hg : g.nodes.Nodup ∧ ∀ e ∈ g.edges, e.1 ∈ g.nodes ∧ e.2 ∈ g.nodes) (o : List Nat)
    (ho : ∀ v ∈ o, v ∈ g.nodes) :
    (withChain g o).nodes.Nodup ∧ ∀ e ∈ (withChain g o).edges, e.1 ∈ (withChain g o).nodes ∧ e.2 ∈ (withChain g o).nodes := by
  refine ⟨hg.1, fun e he => ?_⟩
  simp only [withChain, List.mem_append] at he
  rcases he with h | h
  · exact hg.2 e h
  · have := chain_mem o e h
    exact ⟨ho _ this.1, ho _ this.2⟩


/-! ## the registration services -/

theorem liftRm_ok {s s' : Sim} {r : Except (Err × Manager) Manager} (h : liftRm s r = .ok s') :
    ∃ m, r = .ok m ∧ s' = { s with rm := m } := by
  unfold liftRm at h
  split at h
  · cases h; exact ⟨_, rfl, rfl⟩
  · cases h

theorem mem_enumFrom {α : Type} : ∀ (l : List α) (n k : Nat) (a : α), l[k]? = some a → (n + k, a) ∈ enumFrom n l := by
  intro l
  induction l with
  | nil => intro n k a h; simp at h
  | cons x xs ih =>
    intro n k a h
    cases k with
    | zero => simp only [List.getElem?_cons_zero, Option.some.injEq] at h; simp [enumFrom, h]
    | succ k =>
      simp only [List.getElem?_cons_succ] at h
      have := ih (n + 1) k a h
      simp only [enumFrom, List.mem_cons]
      right
      have e : n + (k + 1) = n + 1 + k := by omega
      rw [e]; exact this

theorem findPipe_touch (s : Sim) (key : String) : ∃ p, findPipe (touchPipe s key) key = some p ∧ p.key = key := by
  unfold touchPipe
  cases hf : findPipe s key with
  | some p =>
    simp only [Option.isSome_some, if_true]
    refine ⟨p, hf, ?_⟩
    have := List.find?_some hf
    simpa using this
  | none =>
    simp only [Option.isSome_none, Bool.false_eq_true, if_false]
    refine ⟨{ key := key }, ?_, rfl⟩
    simp only [findPipe] at hf ⊢
    rw [List.find?_append, hf]
    simp

theorem find_map_update (key : String) (f : Pipe → Pipe) (hf : ∀ p, (f p).key = p.key) :
    ∀ (l : List Pipe) (p : Pipe), l.find? (·.key == key) = some p →
      (l.map (fun q => if q.key == key then f q else q)).find? (·.key == key) = some (f p) := by
  intro l
  induction l with
  | nil => intro p h; simp at h
  | cons q qs ih =>
    intro p h
    simp only [List.map_cons, List.find?_cons] at h ⊢
    by_cases hq : (q.key == key) = true
    · simp only [hq, if_true] at h ⊢
      cases h
      have : ((f q).key == key) = true := by rw [hf]; exact hq
      simp [this]
    · have hq' : (q.key == key) = false := by simpa using hq
      simp only [hq'] at h ⊢
      simpa [hq'] using ih p h

theorem findPipe_update (s : Sim) (key : String) (f : Pipe → Pipe) (hf : ∀ p, (f p).key = p.key) (p : Pipe)
    (h : findPipe s key = some p) : findPipe (updatePipe s key f) key = some (f p) :=
  find_map_update key f hf s.pipes p h


end Viv.Topo
