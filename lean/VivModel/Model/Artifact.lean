/-! Model of the data artifact (C19): `src/vivarium/framework/artifact/artifact.py`, `hdf.py`.

The artifact is four pieces of state (DESIGN.md, C19):

* `file`   – the data nodes of the HDF file by key, in insertion order (`hdf.get_keys` = their keys);
             the persisted key space is the node stored under `metadata.keyspace` (`Art.keyspace`);
* `groups` – data-less HDF groups (the parent groups `/type/name` of three-part keys, which stay behind
             when their children are removed) – invisible to `hdf.get_keys`, but they occupy a path;
* `keys`   – `Keys._keys`, the in-memory key list;
* `cache`  – `Artifact._cache`.

A key `"a.b.c"` is the list of its parts `["a","b","c"]`; `EntityKey.path` is `"/" ++ "/".join(parts)`,
so the HDF path of a two-part key is a **prefix** of the path of every three-part key below it
(`above`). That aliasing is modelled explicitly: `HDFStore.put` and `File.remove_node(recursive=True)`
act on the whole subtree (`rmTree`), `filenode.new_node` refuses an occupied path or a parent that is a
leaf. Every function below is a transliteration of the Python function named in its doc-comment; an
operation that raises part-way returns the state reached at that point together with `Out.rejected`.

HDF5 / PyTables / `pandas.HDFStore` themselves are modelled (trusted base), not verified. Not
modelled: the reserved child names `table` / `meta` of a pandas storer group (the harness never uses
them as a key part). -/
namespace Viv.Artifact

/-- a dotted key split on `"."` -/
abbrev Key := List String

/-- `Keys.keyspace_node` -/
def ksKey : Key := ["metadata", "keyspace"]

/-- `EntityKey.__init__`: two or three non-empty parts, no `/` anywhere (`fix:` F27). -/
def wellFormed (k : Key) : Bool :=
  (k.length == 2 || k.length == 3) && k.all (fun e => e != "" && e.toList.all (· != '/'))

/-- HDF path `p` is at or above path `q` (`EntityKey.path`: the path is the list of parts). -/
def above (p q : Key) : Bool := p.isPrefixOf q

/-- what a node of the file holds: a JSON document (`EArray` written through `filenode`), a pandas
storer group (`…/table`), or – under `metadata.keyspace` – the JSON list of keys. Payloads are the data
ids assigned by the harness. -/
inductive Node where
  | blob (d : Nat)
  | tbl (d : Nat)
  | keysNode (ks : List Key)
deriving DecidableEq, Repr

/-- the classes of value `write` / `replace` are given (`None` is `Option.none`):
`json` JSON-serialisable; `table` a DataFrame/Series pandas can store; `unserJson` a non-pandas value
`json.dumps` refuses; `zeroRow` a pandas object without rows (`_write_pandas_data` raises before any
I/O); `badFrame` a frame `HDFStore.put` refuses *after* it has created its group; `keyList` the list of
keys that `hdf.load` returns for the key space node (only `replace` can hand it back to `write`). -/
inductive Kind where
  | json | table | unserJson | zeroRow | badFrame
  | keyList (ks : List Key)
deriving DecidableEq, Repr

structure Data where
  kind : Kind
  id : Nat
deriving DecidableEq, Repr

structure Art where
  file   : List (Key × Node) := []
  groups : List Key := []
  keys   : List Key := []
  cache  : List (Key × Node) := []
deriving DecidableEq, Repr

inductive Out where
  | ok
  | data (n : Node)
  | rejected
deriving DecidableEq, Repr

def lookup (m : List (Key × Node)) (k : Key) : Option Node :=
  (m.find? (fun e => e.1 == k)).map (·.2)

/-- `hdf.get_keys` (as a set; PyTables walks the tree alphabetically, the harness sorts both sides) -/
def fileKeys (a : Art) : List Key := a.file.map (·.1)

/-- the persisted key space: the content of the node `metadata.keyspace`, if it is there -/
def Art.keyspace (a : Art) : Option (List Key) :=
  match lookup a.file ksKey with
  | some (.keysNode ks) => some ks
  | _ => none

/-! ### HDF layer -/

/-- something (a data node or a bare group) sits exactly at path `p` -/
def occupied (a : Art) (p : Key) : Bool := (lookup a.file p).isSome || a.groups.contains p

/-- a leaf (`EArray`) sits at `p`: nothing can be created below it -/
def isLeaf (a : Art) (p : Key) : Bool :=
  match lookup a.file p with
  | some (.blob _) => true
  | some (.keysNode _) => true
  | _ => false

/-- a group sits at `p` (bare, or the group of a pandas storer) -/
def isGroup (a : Art) (p : Key) : Bool :=
  a.groups.contains p || (match lookup a.file p with | some (.tbl _) => true | _ => false)

/-- `File.remove_node(path, recursive=True)` on whatever is at or below `p` -/
def rmTree (a : Art) (p : Key) : Art :=
  { a with file := a.file.filter (fun e => !above p e.1), groups := a.groups.filter (fun g => !above p g) }

/-- `hdf.remove`: `NoSuchNodeError` (`none`) when nothing is at the path. -/
def hdfRemove (a : Art) (p : Key) : Option Art :=
  if wellFormed p && occupied a p then some (rmTree a p) else none

/-- the group `/type/name` of a three-part key is created when nothing is there yet -/
def ensureParent (a : Art) (p : Key) : Art :=
  if p.length == 3 && !isGroup a (p.take 2) then { a with groups := a.groups ++ [p.take 2] } else a

/-- `hdf._write_json_blob` (after the `fix:` for F8 the document is encoded before the file is opened,
so an unserialisable value never gets here): `filenode.new_node(where=group, name=measure)` raises when
the parent is a leaf or the path is occupied. -/
def hdfWriteJson (a : Art) (p : Key) (n : Node) : Option Art :=
  if p.length == 3 && isLeaf a (p.take 2) then none
  else if occupied a p then none
  else
    let a1 := ensureParent a p
    some { a1 with file := a1.file ++ [(p, n)] }

/-- `hdf._write_pandas_data` → `HDFStore.put(path, data, format="table")`:
`_identify_group` removes whatever is at the path **recursively**, `_create_nodes_and_group` creates
the missing groups (and raises under a leaf, before anything was touched); the storer then writes the
table (`n = some …`) or raises (`n = none`, a frame it cannot serialise) – in which case (`fix:` F19) the
group it had created at the path is removed again (a parent group it created stays). -/
def hdfPut (a : Art) (p : Key) (n : Option Node) : Art × Bool :=
  if p.length == 3 && isLeaf a (p.take 2) then (a, false)
  else
    let a1 := ensureParent (rmTree a p) p
    match n with
    | some node => ({ a1 with file := a1.file ++ [(p, node)] }, true)
    | none => (a1, false)

/-- `hdf.write` -/
def hdfWrite (a : Art) (p : Key) (d : Data) : Art × Bool :=
  if !wellFormed p then (a, false)
  else match d.kind with
    | .json =>
      match hdfWriteJson a p (.blob d.id) with
      | some a' => (a', true)
      | none => (a, false)
    | .unserJson => (a, false)
    | .zeroRow => (a, false)
    | .table => hdfPut a p (some (.tbl d.id))
    | .badFrame => hdfPut a p none
    | .keyList ks =>
      match hdfWriteJson a p (.keysNode ks) with
      | some a' => (a', true)
      | none => (a, false)

/-- `hdf.load` without filter terms: `File.get_node` raises when nothing is at the path -/
def hdfLoad (a : Art) (p : Key) : Option Node :=
  if wellFormed p then lookup a.file p else none

/-! ### `Keys` -/

/-- the tail of `Keys.append` / `Keys.remove`: `hdf.remove(keyspace_node)`, `hdf.write(keyspace_node, self._keys)` -/
def keysRewrite (a : Art) : Art × Bool :=
  match hdfRemove a ksKey with
  | none => (a, false)
  | some a1 =>
    match hdfWriteJson a1 ksKey (.keysNode a.keys) with
    | some a2 => (a2, true)
    | none => (a1, false)

/-- `Keys.append` -/
def keysAppend (a : Art) (k : Key) : Art × Bool := keysRewrite { a with keys := a.keys ++ [k] }

/-- `Keys.remove` (`list.remove`: first occurrence) -/
def keysRemove (a : Art) (k : Key) : Art × Bool := keysRewrite { a with keys := a.keys.erase k }

/-! ### `Artifact` -/

/-- `Artifact.write` -/
def write (a : Art) (k : Key) (d : Option Data) : Art × Out :=
  if a.keys.contains k then (a, .rejected)
  else match d with
    | none => (a, .rejected)
    | some d =>
      match hdfWrite a k d with
      | (a1, false) => (a1, .rejected)
      | (a1, true) =>
        match keysAppend a1 k with
        | (a2, true) => (a2, .ok)
        | (a2, false) => (a2, .rejected)

/-- `Artifact.remove`: the bookkeeping key is refused (`fix:` F20); key list first, then the cache, then
the file -/
def remove (a : Art) (k : Key) : Art × Out :=
  if !a.keys.contains k then (a, .rejected)
  else if k == ksKey then (a, .rejected)
  else match keysRemove a k with
    | (a1, false) => (a1, .rejected)
    | (a1, true) =>
      let a2 := { a1 with cache := a1.cache.filter (fun e => e.1 != k) }
      match hdfRemove a2 k with
      | none => (a2, .rejected)
      | some a3 => (a3, .ok)

/-- what `hdf.load` returned for a node, as a value that can be written again -/
def dataOf : Node → Data
  | .blob d => ⟨.json, d⟩
  | .tbl d => ⟨.table, d⟩
  | .keysNode ks => ⟨.keyList ks, 0⟩

/-- `Artifact.replace`: `None` and a non-pandas value `json.dumps` refuses are rejected first (`fix:` F8);
then the old data are loaded from the file, the key is removed and the new data written – and if that
write fails the old data are written back before the exception is re-raised (`fix:` F19; the key moves
to the end of the key list). -/
def replace (a : Art) (k : Key) (d : Option Data) : Art × Out :=
  if !a.keys.contains k then (a, .rejected)
  else match d with
    | none => (a, .rejected)
    | some d =>
      if d.kind == .unserJson then (a, .rejected)
      else match hdfLoad a k with
        | none => (a, .rejected)
        | some old =>
          match remove a k with
          | (a1, .ok) =>
            match write a1 k (some d) with
            | (a2, .ok) => (a2, .ok)
            | (a2, _) => ((write a2 k (some (dataOf old))).1, .rejected)
          | (a1, _) => (a1, .rejected)

/-- `Artifact.load` -/
def load (a : Art) (k : Key) : Art × Out :=
  if !a.keys.contains k then (a, .rejected)
  else match lookup a.cache k with
    | some n => (a, .data n)
    | none =>
      match hdfLoad a k with
      | some n => ({ a with cache := a.cache ++ [(k, n)] }, .data n)
      | none => (a, .rejected)

/-- what a CALLER can do: `x = art.load(k)` hands out the very object that sits in `Artifact._cache`; mutating
`x` in place (so that it now equals the value with node `n'`) changes what the cache holds for `k` – and
nothing else. -/
def mutateLoaded (a : Art) (k : Key) (n' : Node) : Art × Out :=
  match load a k with
  | (a1, .data _) => ({ a1 with cache := a1.cache.map (fun e => if e.1 == k then (k, n') else e) }, .ok)
  | r => r

/-- `Artifact.clear_cache` -/
def clearCache (a : Art) : Art := { a with cache := [] }

/-- `Artifact.__init__` on the file of `a` (`create_hdf_with_keyspace`, then `Keys.__init__`); `none` =
the constructor raises. An HDF file without any key gets a fresh key space node. -/
def openArtifact (a : Art) : Option Art :=
  let a1? : Option Art :=
    if (fileKeys a).isEmpty then hdfWriteJson a ksKey (.keysNode [ksKey])
    else if (fileKeys a).contains ksKey then some a
    else none
  match a1? with
  | none => none
  | some a1 =>
    match hdfLoad a1 ksKey with
    | some (.keysNode ks) => some { a1 with keys := ks, cache := [] }
    | _ => none

/-- the artifact on a path where no file exists yet (`hdf.touch`, then as above) -/
def init : Art := (openArtifact {}).getD {}

inductive Op where
  | write (k : Key) (d : Option Data)
  | load (k : Key)
  | remove (k : Key)
  | replace (k : Key) (d : Option Data)
  | clearCache
  | reopen          -- the harness replaces its artifact by `Artifact(path)` (keeps the old one if that raises)
  | probe           -- a second `Artifact(path)` is opened and thrown away (only the file can change)
deriving DecidableEq, Repr

def step (a : Art) : Op → Art × Out
  | .write k d => write a k d
  | .load k => load a k
  | .remove k => remove a k
  | .replace k d => replace a k d
  | .clearCache => (clearCache a, .ok)
  | .reopen =>
    match openArtifact a with
    | some a' => (a', .ok)
    | none => (a, .rejected)
  | .probe =>
    match openArtifact a with
    | some a' => ({ a with file := a'.file, groups := a'.groups }, .ok)
    | none => (a, .rejected)

def run (ops : List Op) (a : Art) : Art := ops.foldl (fun s op => (step s op).1) a

/-- the key an operation addresses -/
def Op.key? : Op → Option Key
  | .write k _ => some k
  | .load k => some k
  | .remove k => some k
  | .replace k _ => some k
  | _ => none

/-! ### Abstract specification: a finite map from keys to data -/

abbrev Spec := Key → Option Node

def Spec.set (m : Spec) (k : Key) (v : Option Node) : Spec := fun k' => if k' = k then v else m k'

/-- the node a storable value becomes -/
def nodeOf (d : Data) : Option Node :=
  match d.kind with
  | .json => some (.blob d.id)
  | .table => some (.tbl d.id)
  | .keyList ks => some (.keysNode ks)
  | _ => none

/-- what the property says an operation does to the key → data map: a write of a fresh well-formed key
with storable data binds it, a remove of a bound key unbinds it, a replace of a bound key with storable
data rebinds it; everything else changes nothing. -/
def specStep (m : Spec) : Op → Spec
  | .write k (some d) =>
    if (m k).isNone && wellFormed k then (match nodeOf d with | some n => m.set k (some n) | none => m) else m
  | .remove k => if (m k).isSome then m.set k none else m
  | .replace k (some d) =>
    if (m k).isSome then (match nodeOf d with | some n => m.set k (some n) | none => m) else m
  | _ => m

/-! ### Filter terms (`Artifact(path, filter_terms)`, `hdf._get_valid_filter_terms`, `_parse_draw_filters`) -/

inductive Cmp where
  | lt | le | eq | ne | ge | gt
deriving DecidableEq, Repr

def Cmp.holds : Cmp → Int → Int → Bool
  | .lt, a, b => a < b
  | .le, a, b => a ≤ b
  | .eq, a, b => a == b
  | .ne, a, b => a != b
  | .ge, a, b => a ≥ b
  | .gt, a, b => a > b

/-- one element of `filter_terms`: comparisons of a column with a constant joined by `&` / `|`, or a
draw selection (`draw == n`, `draw in [..]`) -/
inductive Term where
  | atom (col : String) (c : Cmp) (v : Int)
  | and (l r : Term)
  | or (l r : Term)
  | draws (ns : List Nat)
deriving DecidableEq, Repr

/-- the columns a term references (`term_columns` in `_get_valid_filter_terms`) -/
def Term.cols : Term → List String
  | .atom c _ _ => [c]
  | .and l r => l.cols ++ r.cols
  | .or l r => l.cols ++ r.cols
  | .draws _ => ["draw"]

/-- what is stored for a pandas object as far as filters can see it: the queryable columns
(`node.table.colnames`: `index`, the levels of a MultiIndex, every column of an "empty" frame), the
rows restricted to them, the value columns, `metadata["is_empty"]`, whether it is a Series. Values are
integers: the harness scales every number by 8 (all generated numbers are multiples of 1/8) and replaces
strings by codes (only `==` / `!=` are used on them), in the rows and in the terms alike. -/
structure Table where
  qcols    : List String := []
  rows     : List (List Int) := []
  cols     : List String := []
  isEmpty  : Bool := false
  isSeries : Bool := false
deriving DecidableEq, Repr

/-- `_get_valid_filter_terms`: a term survives iff every column it references exists -/
def validTerms (terms : List Term) (colnames : List String) : List Term :=
  terms.filter (fun t => t.cols.all colnames.contains)

def rowVal (qcols : List String) (row : List Int) (c : String) : Option Int :=
  ((qcols.zip row).find? (fun e => e.1 == c)).map (·.2)

/-- the `where` semantics of `pandas.read_hdf` for one term -/
def Term.holds (qcols : List String) (row : List Int) : Term → Bool
  | .atom c cmp v => match rowVal qcols row c with | some x => cmp.holds x v | none => false
  | .and l r => l.holds qcols row && r.holds qcols row
  | .or l r => l.holds qcols row || r.holds qcols row
  | .draws _ => true

/-- rows (with their position) that `hdf.load` returns under `terms` -/
def loadRows (t : Table) (terms : List Term) : List (Nat × List Int) :=
  let vt := validTerms terms t.qcols
  (t.rows.zipIdx.map (fun e => (e.2, e.1))).filter (fun e => vt.all (fun term => term.holds t.qcols e.2))

def isDraws : Term → Bool
  | .draws _ => true
  | _ => false

/-- `_parse_draw_filters`: `none` = `ValueError` (more than one draw term); otherwise the column filter -/
def drawColumns (terms : List Term) : Option (Option (List String)) :=
  match terms.filter isDraws with
  | [] => some none
  | [.draws []] => none        -- `draw in []`: `int("")` raises
  | [.draws ns] => some (some (ns.map (fun n => "draw_" ++ toString n) ++ ["value"]))
  | _ => none

/-- columns `hdf.load` returns: the `columns=` argument is only passed for non-empty frames, pandas
keeps the requested columns that exist, in the requested order -/
def loadCols (t : Table) (cf : Option (List String)) : List String :=
  match cf with
  | none => t.cols
  | some want => if t.isEmpty then t.cols else want.filter t.cols.contains

/-! ### an `Artifact` object opened with filter terms

`Artifact.__init__(path, filter_terms)` stores the terms; the only code that reads them is `Artifact.load`
(`hdf.load(path, key, self._filter_terms, self._draw_column_filter)`). In particular `Artifact.replace`
reads the copy it keeps for rolling back with `filter_terms=None, column_filters=None`. So the terms
shape the *view* `load` hands out and nothing else: every operation acts on the store exactly as `step`. -/

/-- an artifact object: the state above plus the filter terms it was constructed with -/
structure FArt where
  art   : Art := init
  terms : List Term := []
deriving DecidableEq, Repr

/-- what a caller may do to the list `Artifact.keys` handed out -/
inductive KeyEdit where
  | removeKs | append | clear | reverse
deriving DecidableEq, Repr

inductive FOp where
  | op (o : Op)
  | reopenWith (terms : List Term)   -- the harness replaces its artifact by `Artifact(path, filter_terms=terms)`
  | editReturnedKeys (e : KeyEdit)   -- `ks = art.keys`, then the caller edits `ks` in place
deriving DecidableEq, Repr

def FArt.step (fa : FArt) : FOp → FArt × Out
  | .op o => ({ fa with art := (Artifact.step fa.art o).1 }, (Artifact.step fa.art o).2)
  | .reopenWith t =>
    -- `_parse_draw_filters` runs first and raises on two draw terms, before the file is looked at
    match drawColumns t with
    | none => (fa, .rejected)
    | some _ =>
      match openArtifact fa.art with
      | some a' => ({ art := a', terms := t }, .ok)
      | none => (fa, .rejected)
  -- `Keys.to_list` returns a copy (`fix:` F36): the caller's list is his own
  | .editReturnedKeys _ => (fa, .ok)

def FArt.run (fops : List FOp) (fa : FArt) : FArt := fops.foldl (fun s o => (s.step o).1) fa

def FOp.key? : FOp → Option Key
  | .op o => o.key?
  | .reopenWith _ => none
  | .editReturnedKeys _ => none

/-- `pandas.read_hdf(columns=…)` on a stored Series selects by position in an empty selection when the
draw filter's column list does not contain the Series' name: `IndexError` – the load raises. -/
def loadRaises (t : Table) (cf : Option (List String)) : Bool :=
  match cf with
  | none => false
  | some want => t.isSeries && !t.isEmpty && (want.filter t.cols.contains).isEmpty

/-- the other live artifact object on the same file: it sees the file as it is now, through its own –
possibly stale – key list and cache -/
def FArt.onFile (fa : FArt) (now : Art) : FArt :=
  { fa with art := { fa.art with file := now.file, groups := now.groups } }

/-- what `load` hands out for a table node -/
structure View where
  rows : List (Nat × List Int)
  cols : List String
deriving DecidableEq, Repr

/-- `hdf.load` of a stored table through an artifact with `terms`; `none`: the load raises (a Series the
draw selection does not name), or such an artifact cannot be constructed (two draw terms) -/
def viewOf (t : Table) (terms : List Term) : Option View :=
  match drawColumns terms with
  | none => none
  | some cf => if loadRaises t cf then none else some { rows := loadRows t terms, cols := loadCols t cf }

end Viv.Artifact
