/-! Per-simulant clocks (C10): executable model of `vivarium/framework/time.py`
(`SimulationClock` / `DateTimeClock`), of the part of `engine.py` that drives it
(`SimulationContext.initialize_simulants`, `SimulationContext.step`) and of the step-size pipeline
(`values.list_combiner` + `SimulationClock.step_size_post_processor`).

Times and durations are integer ticks (the harness uses hours of a `DateTimeClock`; every value it
feeds is a whole number of hours, on which pandas' nanosecond arithmetic and the float division of the
post-processor are exact). Simulants are identified by their label in the state table (`0, 1, 2, …`
in creation order). Core Lean only. -/
namespace Viv.Clock

/-- one row of the `next_event_time` / `step_size` columns of the state table -/
structure SimClk where
  id   : Nat
  next : Int
  step : Int
deriving Repr, DecidableEq

/-- `SimulationClock` state: `_clock_time`, `_clock_step_size`, `_stop_time`, `_minimum_step_size`,
`_standard_step_size`, the individual clocks (population view) and `_simulants_to_snooze`. -/
structure Clock where
  now     : Int
  step    : Int
  stop    : Int
  minStep : Int
  stdStep : Int
  sims    : List SimClk := []
  snooze  : List Nat := []
deriving Repr, DecidableEq

/-- `Series.min()` / `DataFrame.min(axis=0)` of one column: `none` when there is nothing to take the
minimum of (all-NaN column). -/
def minOpt : List Int → Option Int
  | [] => none
  | x :: xs => some (xs.foldl min x)

/-- The step a simulant is asked to take: `pd.DataFrame(values).min(axis=0).fillna(standard_step_size)`
over the list the `list_combiner` collected – the source contributes NaT for everybody, each modifier
contributes a value or nothing (NaN / label absent from the returned Series) for this simulant. -/
def requested (std : Int) (mods : List (Option Nat)) : Int :=
  (minOpt ((mods.filterMap id).map Int.ofNat)).getD std

/-- `SimulationClock.step_size_post_processor`:
`np.floor(min_modified / minimum_step_size).replace(0, 1) * minimum_step_size`. -/
def postProcess (minStep std : Int) (mods : List (Option Nat)) : Int :=
  let q := requested std mods / minStep
  (if q = 0 then 1 else q) * minStep

/-- `DateTimeClock.setup`: clock at the start time, global step = minimum step,
standard step = configured value, or the minimum step when the configured value is falsy (None / 0). -/
def configure (start stop minStep std : Int) : Clock :=
  { now := start, step := minStep, stop := stop, minStep := minStep,
    stdStep := if std = 0 then minStep else std }

/-- `SimulationClock.event_time` -/
def eventTime (c : Clock) : Int := c.now + c.step

/-- `SimulationClock.step_backward` -/
def stepBackward (c : Clock) : Clock := { c with now := c.now - c.step }

/-- `SimulationClock.on_initialize_simulants` for `k` new simulants (initial population or births):
labels continue after the existing ones, `next_event_time = event_time`, `step_size = step_size`. -/
def create (c : Clock) (k : Nat) : Clock :=
  { c with sims := c.sims ++ (List.range k).map fun i => ⟨c.sims.length + i, eventTime c, c.step⟩ }

def due (t : Int) (s : SimClk) : Bool := decide (s.next ≤ t)

/-- rows selected by `get_active_simulants(index, time)`: `next_event_times[next_event_times <= time]` -/
def activeAt (c : Clock) (t : Int) : List SimClk := c.sims.filter (due t)

/-- the index of a main-loop event: `get_active_simulants(population.index, clock.event_time)`
(`SimulationContext.step`) -/
def active (c : Clock) : List Nat := (activeAt c (eventTime c)).map (·.id)

/-- `SimulationClock.move_simulants_to_end` (guard `not index.empty`; `Index.union`) -/
def moveToEnd (c : Clock) (ids : List Nat) : Clock :=
  if ids.isEmpty then c else { c with snooze := c.snooze ++ ids.filter (fun i => !c.snooze.contains i) }

/-- member of `update_index = get_active_simulants(index, self.time).union(self._simulants_to_snooze)` -/
def needsUpdate (c : Clock) (now' : Int) (s : SimClk) : Bool := due now' s || c.snooze.contains s.id

/-- one row of `clocks_to_update` after the assignments of `step_forward` -/
def updSim (c : Clock) (now' : Int) (mods : Nat → List (Option Nat)) (s : SimClk) : SimClk :=
  if needsUpdate c now' s then
    let st := if c.snooze.contains s.id then c.stop + c.minStep - now'
              else postProcess c.minStep c.stdStep (mods s.id)
    { s with step := st, next := now' + st }
  else s

/-- `SimulationClock.step_forward(index)` with `index` = the whole population. `mods i` is what the
registered step-size modifiers return for simulant `i` when the pipeline is evaluated in this call.
Precondition (checked by the driver, the real code raises `KeyError` otherwise): every pending
move-to-end label is the label of an existing simulant. -/
def stepForward (c : Clock) (mods : Nat → List (Option Nat)) : Clock :=
  let now' := c.now + c.step
  if c.sims.isEmpty then { c with now := now' }                         -- `not index.empty`
  else
    let sims' := c.sims.map (updSim c now' mods)
    let snooze' := if c.sims.any (needsUpdate c now') then [] else c.snooze  -- `not clocks_to_update.empty`
    match minOpt (sims'.map (·.next)) with
    | none => { c with now := now' }
    | some m => { c with now := now', sims := sims', snooze := snooze', step := m - now' }

/-- `SimulationContext.initialize_simulants`: step back, create the initial population, step forward. -/
def initSims (c : Clock) (n : Nat) (mods : Nat → List (Option Nat)) : Clock :=
  stepForward (create (stepBackward c) n) mods

/-- what a listener may do between the emission of an event and the clock update -/
inductive Act where
  | birth (k : Nat)
  | toEnd (ids : List Nat)
deriving Repr, DecidableEq

def act (c : Clock) : Act → Clock
  | .birth k => create c k
  | .toEnd ids => moveToEnd c ids

/-- one iteration of the main loop as far as the clock is concerned: listeners act, then
`step_forward`. -/
def iterate (c : Clock) (acts : List Act) (mods : Nat → List (Option Nat)) : Clock :=
  stepForward (acts.foldl act c) mods

/-- `SimulationContext.run`: `while clock.time < clock.stop_time: step()` over a schedule of listener
actions and modifier outputs; returns the final clock and the log of (clock, event time, event index)
of the events at the start of every iteration. The schedule bounds the number of iterations. -/
def runLoop (c : Clock) : List (List Act × (Nat → List (Option Nat))) → Clock × List (Int × Int × List Nat)
  | [] => (c, [])
  | (acts, mods) :: rest =>
    if c.now < c.stop then
      let r := runLoop (iterate c acts mods) rest
      (r.1, (c.now, eventTime c, active c) :: r.2)
    else (c, [])

/-! ### Interactive stepping with an explicit step size, and the clock without modifiers -/

/-- `InteractiveContext.step(step_size)`: `_clock._clock_step_size = step_size` before the engine step … -/
def overrideStep (c : Clock) (s : Int) : Clock := { c with step := s }

/-- … and `_clock._clock_step_size = old_step_size` after it – since F33 only when the override is still in
place, i.e. when `step_forward` did not recompute the global step (no individual clocks, or an empty
population). -/
def restoreStep (c : Clock) (old : Int) : Clock := { c with step := old }

/-- one `InteractiveContext.step(step_size)` with per-simulant clocks; without a step size it is the
engine's step. After an explicit step the global step recomputed by `step_forward` (earliest pending
next-event time minus clock) is kept; the old step comes back only for an empty population
(`self.get_population(untracked=True).empty`). -/
def interactiveIterate (c : Clock) (explicit : Option Int) (acts : List Act)
    (mods : Nat → List (Option Nat)) : Clock :=
  match explicit with
  | none => iterate c acts mods
  | some s =>
    let c' := iterate (overrideStep c s) acts mods
    if c'.sims.isEmpty then restoreStep c' c.step else c'

/-- `SimpleClock.setup`: like `configure`, but the global step starts at the standard step. -/
def configureSimple (start stop minStep std : Int) : Clock :=
  { now := start, step := if std = 0 then minStep else std, stop := stop, minStep := minStep,
    stdStep := if std = 0 then minStep else std }

/-- Without any step-size modifier `on_post_setup` drops the population view: there are no clock
columns, `simulant_next_event_times` answers `event_time` and `simulant_step_sizes` answers `step_size`
for everybody. The rows of the model are kept in that state. -/
def refreshGlobal (c : Clock) : Clock :=
  { c with sims := c.sims.map fun s => { s with next := eventTime c, step := c.step } }

/-- `step_forward` without individual clocks: only the clock moves (move-to-end requests are ignored by
the guard of `move_simulants_to_end`, `get_active_simulants` returns its argument). -/
def stepForwardGlobal (c : Clock) : Clock := refreshGlobal { c with now := c.now + c.step }

/-- labels known to the clock (guard used by the driver) -/
def knows (c : Clock) (i : Nat) : Bool := c.sims.any (·.id == i)

/-! ### User code acting INSIDE `step_forward`: requests and faults during the pipeline evaluation

`step_forward` runs user code in exactly one place: `self._step_size_pipeline(update_index)` calls every registered
step-size modifier (registration order) with the update index. A modifier may call
`move_simulants_to_end` itself (a nested call of the time subsystem from one of its own callbacks) and it may raise.
The code around the call is

```
self._clock_time += self.step_size                                   # (1) the clock has moved
update_index = active(index, time).union(self._simulants_to_snooze)  # (2) pending set read: WHO is updated
clocks_to_update = self._individual_clocks.get(update_index)         #     KeyError for a label without a row
if not clocks_to_update.empty:
    clocks_to_update["step_size"] = self._step_size_pipeline(update_index)      # (3) user code
    clocks_to_update.loc[self._simulants_to_snooze, "step_size"] = ...          # (4) pending set read AGAIN: who is parked
    self._simulants_to_snooze = pd.Index([])                                    # (5)
```
so a request made during (3) is parked by the same update when its simulants are rows of `clocks_to_update`
(`.loc` raises `KeyError` otherwise), and an exception in (3) or (4) leaves the clock moved, the table and the
global step untouched and the pending set – grown by the requests made before the exception – in place. -/

/-- what one registered modifier does besides answering: `req` = the labels it hands to
`move_simulants_to_end` (`[]` = no call, or a call with an empty index, which the guard ignores); `raises` = it
raises; `reqFirst` = the request is made before the exception. -/
structure ModCall where
  req      : List Nat := []
  raises   : Bool := false
  reqFirst : Bool := true
deriving Repr, DecidableEq

/-- the pipeline evaluation as far as the pending set is concerned: modifiers run in registration order, the
first one that raises ends the evaluation. Returns the clock with the grown pending set and whether the
evaluation raised. -/
def evalCalls (c : Clock) : List ModCall → Clock × Bool
  | [] => (c, false)
  | m :: ms =>
    if m.raises then ((if m.reqFirst then moveToEnd c m.req else c), true)
    else evalCalls (moveToEnd c m.req) ms

/-- how a call of `step_forward` ends -/
inductive Outcome where
  | done       -- the update completed
  | popError   -- (2) `PopulationView.get`: a pending label has no row in the state table (KeyError)
  | raised     -- (3) a modifier raised
  | keyError   -- (4) `.loc`: a label of the pending set – as it is AFTER the evaluation – is not being updated
deriving Repr, DecidableEq

/-- what every failed `step_forward` leaves behind: the clock has moved, nothing else has -/
def failedAt (c : Clock) (now' : Int) : Clock := { c with now := now' }

/-- `SimulationClock.step_forward(index)` (index = the whole population) with the modifiers' side effects.
When it completes it is `stepForward` applied to the clock whose pending set already holds the requests made
during the evaluation: those requests are part of the same update. -/
def stepForwardRe (c : Clock) (mods : Nat → List (Option Nat)) (calls : List ModCall) : Clock × Outcome :=
  let now' := c.now + c.step
  if c.sims.isEmpty then (stepForward c mods, .done)                              -- `not index.empty`
  else if !c.snooze.all (knows c) then (failedAt c now', .popError)
  else if !c.sims.any (needsUpdate c now') then (stepForward c mods, .done)       -- nothing to update: no evaluation
  else
    let r := evalCalls c calls
    if r.2 then (failedAt r.1 now', .raised)
    else if r.1.snooze.all (knows c) && c.sims.all (fun s => !r.1.snooze.contains s.id || needsUpdate c now' s)
      then (stepForward r.1 mods, .done)
    else (failedAt r.1 now', .keyError)

end Viv.Clock
