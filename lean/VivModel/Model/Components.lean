import VivModel.Gen.Tables
/-! Component registration / setup and configuration layering (C20). Core Lean only.

Models `framework/components/manager.py` (`ComponentManager._flatten`, `OrderedComponentSet.add`,
`add_managers`, `add_components`, `apply_configuration_defaults`, `setup_components`,
`_setup_components`), `framework/configuration.py` (`build_model_specification`,
`_get_default_specification`), `component.py` (`sub_components`, `configuration_defaults`,
`setup_component`) and `SimulationContext.setup` (`engine.py`), the latter by interpreting the
skeleton regenerated from the source (`Viv.Gen.skeleton`).

`layered_config_tree` is an external package and is modelled, not verified: a configuration is a
list of `(layer, path, value)` entries; `ConfigNode.update` refuses a second value for the same
path at the same layer (`DuplicatedConfigurationError`) and any value once frozen
(`ConfigurationError`); `ConfigNode._get_value_with_source` walks `reversed(self._layers)` and
returns the first layer that has a value. Key paths are leaf paths (`"section.key"`); a path strictly
below / above an existing leaf is refused (`conflicts`, one tree shape for all layers).

A refused operation is not undone: the second half of this file (`…K` functions) returns, together with the
verdict, the state a refused `add_components` / a `setup()` that raises leaves behind (lesson 16).

The layer order, the layer each `update` of `configuration.py` writes to, the layer
`apply_configuration_defaults` writes to and the action order of `SimulationContext.setup` are NOT
written here: they are read from `Viv.Gen` (regenerated from the working tree on every run). -/
namespace Viv.Components

abbrev Path := String
abbrev Val := String
/-- `configuration_defaults`, flattened to leaf paths in dict-traversal order -/
abbrev Defaults := List (Path × Val)

/-- a component with its sub-components (`Component.sub_components`) -/
inductive Tree where
  | node (name : String) (defaults : Defaults) (children : List Tree)
  deriving Repr, Inhabited

namespace Tree
def name : Tree → String | .node n _ _ => n
def defaults : Tree → Defaults | .node _ d _ => d
def children : Tree → List Tree | .node _ _ cs => cs
end Tree

/-! ### Flattening -/

mutual
/-- specification: pre-order traversal (a component, then the traversals of its sub-components in
the order `sub_components` lists them) -/
def preorder : Tree → List Tree
  | .node n d cs => .node n d cs :: preorderL cs
def preorderL : List Tree → List Tree
  | [] => []
  | t :: ts => preorder t ++ preorderL ts
end

mutual
def size : Tree → Nat
  | .node _ _ cs => 1 + sizeL cs
def sizeL : List Tree → Nat
  | [] => 0
  | t :: ts => size t + sizeL ts
end

/-- the loop of `ComponentManager._flatten`. `stack` is the Python list `components`: `pop()` takes
its LAST element, `extend(current.sub_components[::-1])` appends the reversed children at the end,
`out.append(current)`. `while components:` becomes fuel (one unit per popped component). -/
def flattenLoop : Nat → List Tree → List Tree → List Tree
  | 0, _, out => out
  | fuel + 1, stack, out =>
    match stack.reverse with
    | [] => out
    | .node n d cs :: below => flattenLoop fuel (below.reverse ++ cs.reverse) (out ++ [.node n d cs])

/-- `ComponentManager._flatten(components)`: `components = components[::-1]`, then the loop. -/
def flatten (ts : List Tree) : List Tree := flattenLoop (sizeL ts + 1) ts.reverse []

/-! ### Name-unique ordered sets -/

/-- `OrderedComponentSet`: only the names matter (`__contains__` compares `component.name`). -/
abbrev OrderedSet := List String

inductive Err
  | dupName      -- ComponentConfigError: "duplicate name"
  | dupValue     -- DuplicatedConfigurationError (→ ComponentConfigError in apply_configuration_defaults)
  | frozen       -- ConfigurationError: frozen tree does not support assignment
  | structure    -- ConfigurationError: a value at an interior key / a dictionary at a leaf (→ ComponentConfigError in apply_configuration_defaults)
  | noLayer      -- ConfigurationKeyError: no such layer / an update the generated table does not list
  | constraint   -- ConstraintError: add_components outside `initialization`
  | transition   -- InvalidTransitionError: `setup()` when the lifecycle already left `initialization`
  | userError    -- an exception raised by the user's own code (a `sub_components` / `configuration_defaults` property or a `setup` that raises); it propagates unchanged
  deriving Repr, DecidableEq

/-- `OrderedComponentSet.add` -/
def OrderedSet.add (s : OrderedSet) (n : String) : Except Err OrderedSet :=
  if s.contains n then .error .dupName else .ok (s ++ [n])

/-- `OrderedComponentSet.update` / `OrderedComponentSet(*args)` -/
def OrderedSet.addAll (s : OrderedSet) (ns : List String) : Except Err OrderedSet :=
  ns.foldlM OrderedSet.add s

/-! ### Layered configuration -/

structure Entry where
  layer : String
  path  : Path
  val   : Val
  deriving Repr, DecidableEq

structure Config where
  entries : List Entry := []
  frozen  : Bool := false
  deriving Repr, DecidableEq

/-- `LayeredConfigTree(layers=default_config_layers)`, lowest priority first (generated) -/
def layers : List String := Viv.Gen.configLayers

/-- `layer if layer else self._layers[-1]` -/
def outermost : String := layers.getLast?.getD "base"

namespace Config

def has (c : Config) (layer : String) (p : Path) : Bool :=
  c.entries.any fun e => e.layer == layer && e.path == p

/-- is the leaf path `p` the key `key` itself or below it (`key.…`) -/
def under (key : String) (p : Path) : Bool := p == key || (key.toList ++ ['.']).isPrefixOf p.toList

/-- the tree shape is shared by all layers: `p` cannot become a leaf if some existing leaf lies strictly
below it (`p` is a sub-tree: "Can't assign a value to a LayeredConfigTree") or strictly above it (an
existing leaf would have to become a sub-tree: "Can't assign a dictionary as a value to a ConfigNode") -/
def conflicts (c : Config) (p : Path) : Bool :=
  c.entries.any fun e => e.path != p && (under e.path p || under p e.path)

/-- `LayeredConfigTree._set_with_metadata` (frozen test, then the shape test on the way down) +
`ConfigNode.update` (layer test, one value per layer) for one leaf -/
def update (c : Config) (layer : String) (p : Path) (v : Val) : Except Err Config :=
  if c.frozen then .error .frozen
  else if c.conflicts p then .error .structure
  else if !layers.contains layer then .error .noLayer
  else if c.has layer p then .error .dupValue
  else .ok { c with entries := c.entries ++ [⟨layer, p, v⟩] }

/-- `LayeredConfigTree.update(dict, layer=…)`: leaf after leaf, stops at the first refusal -/
def updateAll (c : Config) (layer : String) (kvs : Defaults) : Except Err Config :=
  kvs.foldlM (fun c kv => c.update layer kv.1 kv.2) c

/-- value of `p` at one layer -/
def atLayer (c : Config) (layer : String) (p : Path) : Option Val :=
  (c.entries.find? fun e => e.layer == layer && e.path == p).map (·.val)

/-- `ConfigNode._get_value_with_source(layer=None)`: `for prioritized_layer in reversed(self._layers)` -/
def getIn (ls : List String) (c : Config) (p : Path) : Option Val :=
  ls.reverse.findSome? fun l => c.atLayer l p

def get (c : Config) (p : Path) : Option Val := getIn layers c p

/-- `LayeredConfigTree.freeze` -/
def freeze (c : Config) : Config := { c with frozen := true }

/-- `LayeredConfigTree.__delattr__` / `__delitem__` (`del cfg.a.b`, `del cfg["a"]`): the child is
removed from `_children` together with everything below it. The library does NOT test `_frozen`
here (layered_config_tree 4.1.9) – modelled as it is; recorded finding F18. -/
def delete (c : Config) (key : String) : Config :=
  { c with entries := c.entries.filter fun e => !under key e.path }

end Config

/-- the layer an `update(<what>, layer=…)` of `configuration.py` writes to (generated table) -/
def layerOfUpdate (what : String) : Option String :=
  (Viv.Gen.configUpdates.find? (·.1 == what)).map (·.2.1)

/-- layer written by `apply_configuration_defaults` (generated) -/
def defaultsLayer : String := Viv.Gen.componentDefaultsLayer

/-! ### The simulation context as far as registration and setup are concerned -/

/-- what the probe components do inside `setup`: read `probes` through `builder.configuration`, then
try to write `attempts name` at the outermost layer -/
structure Script where
  probes   : List Path := []
  attempts : List (String × Path × Val) := []

structure Sim where
  cfg        : Config := {}
  managers   : OrderedSet := []
  components : OrderedSet := []
  started    : Bool := false                                   -- lifecycle left `initialization`
  log        : List String := []                               -- `setup` calls, in order
  seen       : List (String × List (Option Val)) := []         -- what each set-up object read
  tried      : List (String × Path × Bool) := []               -- write attempts from `setup`: accepted?
  deriving Repr, DecidableEq

/-- a user value for the leaf `configuration.<p>`: `output_spec.update(model_specification, layer=…)`
(what = "model_specification") or `output_spec.configuration.update(configuration, layer=…)`
(what = "configuration"), or `model_specification.configuration.update(user_config_path, layer=…)` in
`_get_default_specification` (what = "user_config_path": the file `~/vivarium.yaml`); the other updates
of `build_model_specification` write the `components` and `plugins` subtrees, which are not part of
`builder.configuration`. -/
def userSet (s : Sim) (what : String) (p : Path) (v : Val) : Except Err Sim :=
  if what ≠ "model_specification" ∧ what ≠ "configuration" ∧ what ≠ "user_config_path" then .error .noLayer else
  match layerOfUpdate what with
  | none => .error .noLayer
  | some l => do
    let cfg ← s.cfg.update l p v
    pure { s with cfg := cfg }

/-- `ComponentManager.apply_configuration_defaults` -/
def applyDefaults (c : Config) (d : Defaults) : Except Err Config := c.updateAll defaultsLayer d

/-- one iteration of `add_managers`: `apply_configuration_defaults(m); self._managers.add(m)` -/
def addManager (s : Sim) (name : String) (d : Defaults) : Except Err Sim := do
  let cfg ← applyDefaults s.cfg d
  let ms ← OrderedSet.add s.managers name
  pure { s with cfg := cfg, managers := ms }

/-- one iteration of `add_components`: `apply_configuration_defaults(c); self._components.add(c)` -/
def registerOne (s : Sim) (t : Tree) : Except Err Sim := do
  let cfg ← applyDefaults s.cfg t.defaults
  let cs ← OrderedSet.add s.components t.name
  pure { s with cfg := cfg, components := cs }

/-- `ComponentManager.add_components`: `for c in self._flatten(list(components))` -/
def register (s : Sim) (ts : List Tree) : Except Err Sim := (flatten ts).foldlM registerOne s

/-- `SimulationContext.add_components` (constrained to `initialization` by the lifecycle manager) -/
def addComponents (s : Sim) (ts : List Tree) : Except Err Sim :=
  if s.started then .error .constraint else register s ts

/-- one write attempted from inside `setup`: `builder.configuration.update({…})` -/
def tryWrite (s : Sim) (a : String × Path × Val) : Sim :=
  match s.cfg.update outermost a.2.1 a.2.2 with
  | .ok c => { s with cfg := c, tried := s.tried ++ [(a.1, a.2.1, true)] }
  | .error _ => { s with tried := s.tried ++ [(a.1, a.2.1, false)] }

/-- `component.setup_component(builder)` / `manager.setup(builder)` for the object called `n` -/
def setupOne (sc : Script) (s : Sim) (n : String) : Sim :=
  let s := { s with log := s.log ++ [n], seen := s.seen ++ [(n, sc.probes.map s.cfg.get)] }
  (sc.attempts.filter (·.1 == n)).foldl tryWrite s

/-- `ComponentManager.setup_components`: `self._managers + self._components` builds a NEW
`OrderedComponentSet` from both lists (this is where a component named like a manager is refused),
then `_setup_components` walks it. -/
def setupComponents (sc : Script) (s : Sim) : Except Err Sim := do
  let all ← OrderedSet.addAll [] (s.managers ++ s.components)
  pure (all.foldl (setupOne sc) s)

/-- one framework action of a context method, as far as this property is concerned -/
def act (sc : Script) (s : Sim) : Viv.Gen.Act → Except Err Sim
  | .set _ => .ok { s with started := true }
  | .freeze => .ok { s with cfg := s.cfg.freeze }
  | .setupComponents => setupComponents sc s
  | _ => .ok s

def runActs (sc : Script) (acts : List Viv.Gen.Act) (s : Sim) : Except Err Sim := acts.foldlM (act sc) s

/-- action list of `SimulationContext.setup`, regenerated from engine.py -/
def setupActs : List Viv.Gen.Act := ((Viv.Gen.skeleton.find? (·.1 == "setup")).map (·.2)).getD []

/-- `SimulationContext.setup()`; a second call is refused by the lifecycle (C06) -/
def setup (sc : Script) (s : Sim) : Except Err Sim :=
  if s.started then .error .transition else runActs sc setupActs s

/-- the whole bootstrap of `SimulationContext.__init__` + `setup()`: user values, managers, components -/
def simulate (sc : Script) (user : List (String × Path × Val)) (mgrs : List (String × Defaults))
    (ts : List Tree) : Except Err Sim := do
  let s ← user.foldlM (fun s u => userSet s u.1 u.2.1 u.2.2) ({} : Sim)
  let s ← mgrs.foldlM (fun s m => addManager s m.1 m.2) s
  let s ← addComponents s ts
  setup sc s

/-! ### Refused operations: what they leave behind (lesson 16)

`add_components` is not transactional. `_flatten` runs first (every `sub_components` is read before anything is
registered); then, component after component, `apply_configuration_defaults` and `self._components.add`. Whatever
raises – a clashing default (`DuplicatedConfigurationError`, re-raised as `ComponentConfigError`, or as a bare
`ValueError` when the earlier source is not a registered component), a default that changes the structure of the
configuration, a duplicate name, an exception of the user's `configuration_defaults` property – ends the call THERE:
the components before the offending one stay registered, and of the offending component the defaults that were
written before the refusal stay in the configuration (`LayeredConfigTree.update` applies a nested dictionary key by
key), attributed to a component the manager does not hold; a component refused for its NAME has had all its defaults
applied. Nothing is ever taken back, and nothing but the defaults layer is ever written. The functions below return
the state that is left behind together with the verdict (`none` = accepted). -/

/-- `LayeredConfigTree.update(dict, layer=…)`, keeping what was written before a refusal -/
def Config.updateAllK (c : Config) (layer : String) : Defaults → Config × Option Err
  | [] => (c, none)
  | kv :: kvs =>
    match c.update layer kv.1 kv.2 with
    | .ok c' => updateAllK c' layer kvs
    | .error e => (c, some e)

/-- `apply_configuration_defaults`, keeping what was written before a refusal -/
def applyDefaultsK (c : Config) (d : Defaults) : Config × Option Err := c.updateAllK defaultsLayer d

/-- one iteration of `add_components`, keeping what was done when it raises -/
def registerOneK (s : Sim) (t : Tree) : Sim × Option Err :=
  match applyDefaultsK s.cfg t.defaults with
  | (cfg, some e) => ({ s with cfg := cfg }, some e)
  | (cfg, none) =>
    match OrderedSet.add s.components t.name with
    | .ok cs => ({ s with cfg := cfg, components := cs }, none)
    | .error e => ({ s with cfg := cfg }, some e)

/-- the loop of `add_components` over the flattened list; `boom = some i`: the `configuration_defaults` property of
the `i`-th component of the list raises (nothing of that component is applied, the loop ends there) -/
def registerListK : Sim → List Tree → Option Nat → Sim × Option Err
  | s, [], _ => (s, none)
  | s, t :: l, boom =>
    if boom = some 0 then (s, some .userError) else
    match registerOneK s t with
    | (s', some e) => (s', some e)
    | (s', none) => registerListK s' l (boom.map (· - 1))

/-- code of the user's that raises while a batch is registered -/
inductive Fault
  | none
  | sub             -- a `sub_components` property raises: `_flatten` fails before anything is registered
  | defs (i : Nat)  -- the `configuration_defaults` property of the `i`-th component (flattening order) raises
  deriving Repr, DecidableEq

/-- `ComponentManager.add_components` with the state it leaves behind -/
def registerK (s : Sim) (ts : List Tree) : Fault → Sim × Option Err
  | .sub => (s, some .userError)
  | .none => registerListK s (flatten ts) none
  | .defs i => registerListK s (flatten ts) (some i)

/-- `SimulationContext.add_components` with the state it leaves behind -/
def addComponentsK (s : Sim) (ts : List Tree) (f : Fault) : Sim × Option Err :=
  if s.started then (s, some .constraint) else registerK s ts f

/-- a history of `add_components` calls on one context, the caller catching every refusal and carrying on -/
def addManyK (s : Sim) (bs : List (List Tree × Fault)) : Sim := bs.foldl (fun s b => (addComponentsK s b.1 b.2).1) s

/-- `_setup_components` when the `setup` of the object called `boom` raises: the objects before it have been set up,
it has been entered (it logged, read, tried its writes), the ones after it are never reached -/
def setupComponentsK (sc : Script) (boom : String) (s : Sim) : Sim × Option Err :=
  match OrderedSet.addAll [] (s.managers ++ s.components) with
  | .error e => (s, some e)
  | .ok all =>
    if all.contains boom then
      ((all.takeWhile (· != boom) ++ [boom]).foldl (setupOne sc) s, some .userError)
    else (all.foldl (setupOne sc) s, none)

def actK (sc : Script) (boom : String) (s : Sim) : Viv.Gen.Act → Sim × Option Err
  | .set _ => ({ s with started := true }, none)
  | .freeze => ({ s with cfg := s.cfg.freeze }, none)
  | .setupComponents => setupComponentsK sc boom s
  | _ => (s, none)

/-- the body of a context method is left at the first statement that raises -/
def runActsK (sc : Script) (boom : String) : List Viv.Gen.Act → Sim → Sim × Option Err
  | [], s => (s, none)
  | a :: r, s =>
    match actK sc boom s a with
    | (s', none) => runActsK sc boom r s'
    | (s', some e) => (s', some e)

/-- `SimulationContext.setup()` with the state it leaves behind when the `setup` of `boom` raises -/
def setupK (sc : Script) (boom : String) (s : Sim) : Sim × Option Err :=
  if s.started then (s, some .transition) else runActsK sc boom setupActs s

/-- the bootstrap with a history of accepted and refused `add_components` calls before `setup()` -/
def simulateK (sc : Script) (user : List (String × Path × Val)) (mgrs : List (String × Defaults))
    (bs : List (List Tree × Fault)) : Except Err Sim := do
  let s ← user.foldlM (fun s u => userSet s u.1 u.2.1 u.2.2) ({} : Sim)
  let s ← mgrs.foldlM (fun s m => addManager s m.1 m.2) s
  setup sc (addManyK s bs)

end Viv.Components
