import VivModel.Model.Lifecycle
import VivModel.Gen.Tables
/-! The `SimulationContext` control skeleton (`framework/engine.py`), interpreted over the tables that
the translator regenerates from the source on every run (`Viv.Gen`). Core Lean only. -/
namespace Viv.Ctx
open Viv.LC Viv.Gen

def lifecycle : LifeCycle := Viv.Gen.phases.map (fun (n, ss, l) => ⟨n, ss, l⟩)

def phaseStates (ph : String) : List String :=
  ((Viv.Gen.phases.find? (fun p => p.1 == ph)).map (·.2.1)).getD []

def states : List String := allStates lifecycle

/-- states in which a constrained method may run (`add_constraint` complements `restrict_during`) -/
def permitted (e : Con) : List String :=
  match e.mode with
  | .allow => e.states
  | .restrict => states.filter (fun s => !e.states.contains s)

def permittedOf (m : String) : Option (List String) := (Viv.Gen.constraints.find? (·.method == m)).map permitted

/-- permitted states of the constraint declared in `file` for `method` -/
def permittedAt (file method : String) : Option (List String) :=
  (Viv.Gen.constraints.find? (fun e => e.file == file && e.method == method)).map permitted

/-- `ConstraintMaker` wrapper: the check reads the current state at call time; unconstrained ⇒ admitted -/
def admitted (m : String) (st : String) : Bool :=
  match permittedOf m with
  | some ss => ss.contains st
  | none => true

/-- control part of a simulation context: everything the lifecycle / listener behaviour depends on -/
structure Ctl where
  st        : String            -- lifecycle state
  setupDone : Bool := false     -- `setup_components` ran (managers and emitters exist)
  created   : Bool := false     -- the initial population exists
  frozen    : Bool := false
  log       : List String := []  -- events emitted / framework actions, oldest first
  failOn    : String := ""       -- fault injection: a listener of this event raises at its next emission ("" = none)
deriving Repr, DecidableEq

inductive Fail | transition | unknown | constraint | other deriving Repr, DecidableEq

/-- replace `loopBegin ph … loopEnd` by the body instantiated for every state of `ph` -/
def instBody (body : List Act) (s : String) : List Act :=
  body.map fun a => match a with
    | .setVar => .set s
    | .emitVar => .emit s
    | a => a

/-- fuel-bounded loop expansion (the skeletons contain at most a handful of loops) -/
def expandAux : List Act → Nat → List Act
  | [], _ => []
  | l, 0 => l
  | .loopBegin ph :: rest, n+1 =>
    let body := rest.takeWhile (· ≠ .loopEnd)
    let after := (rest.dropWhile (· ≠ .loopEnd)).drop 1
    (.loopBegin ph) :: ((phaseStates ph).flatMap (instBody body)) ++ expandAux after n
  | a :: rest, n+1 => a :: expandAux rest n

def expand (l : List Act) : List Act := expandAux l l.length

/-- one framework action on the control part; an error aborts the method (a Python exception) and
keeps what was done so far -/
def actCtl (s : Ctl) : Act → Except (Fail × Ctl) Ctl
  | .set t =>
    match setState lifecycle s.st t with
    | .ok t' => .ok { s with st := t' }
    | .error .unknown => .error (.unknown, s)
    | .error .transition => .error (.transition, s)
  | .freeze => .ok { s with frozen := true }
  | .setupComponents => .ok { s with setupDone := true, log := s.log ++ ["setup_components"] }
  | .emit e =>
    if !s.setupDone then .error (.other, s)
    else if s.st ≠ e then .error (.constraint, s)      -- `channel.emit` is allowed only in its own state
    else if s.failOn ≠ "" ∧ s.failOn = e then .error (.other, { s with failOn := "" })   -- a listener raised: the state stays entered
    else .ok { s with log := s.log ++ ["emit:" ++ e] }
  | .getPop =>
    if !admitted "self.get_population" s.st then .error (.constraint, s)
    else if !s.created then .error (.other, s) else .ok s
  | .create =>
    if !s.setupDone then .error (.other, s)
    else .ok { s with created := true, log := s.log ++ ["create"] }
  | .stepBack => if !s.setupDone then .error (.other, s) else .ok s
  | .stepFwd => if !s.setupDone then .error (.other, s) else .ok s
  | .loopBegin _ => if !s.setupDone then .error (.other, s) else .ok s
  | .loopEnd => .ok s
  | .setVar => .error (.other, s)
  | .emitVar => .error (.other, s)
  | .callStep => .error (.other, s)

/-- effect of an action on the global clock -/
def clockEffect (a : Act) (clock step : Int) : Int :=
  match a with
  | .stepBack => clock - step
  | .stepFwd => clock + step
  | _ => clock

structure Sim where
  ctl   : Ctl
  clock : Int
  step  : Int
  stop  : Int
  tlog  : List Int := []   -- clock at which each `create` / emit happened (same length as the events in ctl.log)
deriving Repr, DecidableEq

def isEvent : Act → Bool
  | .emit _ => true
  | .create => true
  | .setupComponents => true
  | _ => false

def act (s : Sim) (a : Act) : Except (Fail × Sim) Sim :=
  match actCtl s.ctl a with
  | .ok c => .ok { s with ctl := c, clock := clockEffect a s.clock s.step,
                          tlog := if isEvent a then s.tlog ++ [s.clock] else s.tlog }
  | .error (f, c) => .error (f, { s with ctl := c })

def runCtl : List Act → Ctl → Except (Fail × Ctl) Ctl
  | [], s => .ok s
  | a :: rest, s =>
    match actCtl s a with
    | .ok s' => runCtl rest s'
    | .error e => .error e

def runActs : List Act → Sim → Except (Fail × Sim) Sim
  | [], s => .ok s
  | a :: rest, s =>
    match act s a with
    | .ok s' => runActs rest s'
    | .error e => .error e

def skeletonOf (m : String) : List Act := ((Viv.Gen.skeleton.find? (fun p => p.1 == m)).map (·.2)).getD []

/-- a context method (`setup`, `initialize_simulants`, `step`, `finalize`, `report`) -/
def call (m : String) (s : Sim) : Except (Fail × Sim) Sim := runActs (expand (skeletonOf m)) s

/-- the same method on the control part alone -/
def callCtl (m : String) (c : Ctl) : Except (Fail × Ctl) Ctl := runCtl (expand (skeletonOf m)) c

/-- `run()`: `while time < stop: step()`; fuel bounds the number of iterations explored -/
def cmpHolds (clock stop : Int) : Bool :=
  if Viv.Gen.runLoopCmp = "Lt" then clock < stop
  else if Viv.Gen.runLoopCmp = "LtE" then clock ≤ stop
  else false

def run : Nat → Sim → Except (Fail × Sim) Sim
  | 0, s => .ok s
  | n+1, s =>
    if !s.ctl.setupDone then .error (.other, s)
    else if cmpHolds s.clock s.stop then
      match call "step" s with
      | .ok s' => run n s'
      | .error e => .error e
    else .ok s

def init (start step stop : Int) : Sim :=
  { ctl := { st := "initialization" }, clock := start, step := step, stop := stop }

end Viv.Ctx
