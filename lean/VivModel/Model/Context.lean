import VivModel.Model.Lifecycle
import VivModel.Gen.Tables
/-! The `SimulationContext` control skeleton (`framework/engine.py`), interpreted over the tables that
the translator regenerates from the source on every run (`Viv.Gen`). Core Lean only. -/
namespace Viv.Ctx
open Viv.LC Viv.Gen

def lifecycle : LifeCycle := Viv.Gen.phases.map (fun (n, ss, l) => ⟨n, ss, l⟩)

def phaseStates (ph : String) : List String :=
  ((Viv.Gen.phases.find? (fun p => p.1 == ph)).map (·.2.1)).getD []

def states : List String := allStates lifecycle

/-- states in which a constrained method may run (`add_constraint` complements `restrict_during`) -/
def permitted (e : Con) : List String :=
  match e.mode with
  | .allow => e.states
  | .restrict => states.filter (fun s => !e.states.contains s)

def permittedOf (m : String) : Option (List String) := (Viv.Gen.constraints.find? (·.method == m)).map permitted

/-- permitted states of the constraint declared in `file` for `method` -/
def permittedAt (file method : String) : Option (List String) :=
  (Viv.Gen.constraints.find? (fun e => e.file == file && e.method == method)).map permitted

/-- `ConstraintMaker` wrapper: the check reads the current state at call time; unconstrained ⇒ admitted -/
def admitted (m : String) (st : String) : Bool :=
  match permittedOf m with
  | some ss => ss.contains st
  | none => true

/-- control part of a simulation context: everything the lifecycle / listener behaviour depends on -/
structure Ctl where
  st        : String            -- lifecycle state
  setupDone : Bool := false     -- `setup_components` ran (managers and emitters exist)
  created   : Bool := false     -- the initial population exists
  frozen    : Bool := false
  log       : List String := []  -- events emitted / framework actions, oldest first
  failOn    : String := ""       -- fault injection: a listener of this event raises at its next emission ("" = none)
deriving Repr, DecidableEq

inductive Fail | transition | unknown | constraint | other deriving Repr, DecidableEq

/-- replace `loopBegin ph … loopEnd` by the body instantiated for every state of `ph` -/
def instBody (body : List Act) (s : String) : List Act :=
  body.map fun a => match a with
    | .setVar => .set s
    | .emitVar => .emit s
    | a => a

/-- fuel-bounded loop expansion (the skeletons contain at most a handful of loops) -/
def expandAux : List Act → Nat → List Act
  | [], _ => []
  | l, 0 => l
  | .loopBegin ph :: rest, n+1 =>
    let body := rest.takeWhile (· ≠ .loopEnd)
    let after := (rest.dropWhile (· ≠ .loopEnd)).drop 1
    (.loopBegin ph) :: ((phaseStates ph).flatMap (instBody body)) ++ expandAux after n
  | a :: rest, n+1 => a :: expandAux rest n

def expand (l : List Act) : List Act := expandAux l l.length

/-- one framework action on the control part; an error aborts the method (a Python exception) and
keeps what was done so far -/
def actCtl (s : Ctl) : Act → Except (Fail × Ctl) Ctl
  | .set t =>
    match setState lifecycle s.st t with
    | .ok t' => .ok { s with st := t' }
    | .error .unknown => .error (.unknown, s)
    | .error .transition => .error (.transition, s)
  | .freeze => .ok { s with frozen := true }
  | .setupComponents =>
    -- a component's `setup` raises: `setup()` aborts in state `setup`, nothing of it is usable
    if s.failOn = "setup_components" then .error (.other, { s with failOn := "" })
    else .ok { s with setupDone := true, log := s.log ++ ["setup_components"] }
  | .emit e =>
    if !s.setupDone then .error (.other, s)
    else if s.st ≠ e then .error (.constraint, s)      -- `channel.emit` is allowed only in its own state
    else if s.failOn ≠ "" ∧ s.failOn = e then .error (.other, { s with failOn := "" })   -- a listener raised: the state stays entered
    else .ok { s with log := s.log ++ ["emit:" ++ e] }
  | .getPop =>
    if !admitted "self.get_population" s.st then .error (.constraint, s)
    else if !s.created then .error (.other, s) else .ok s
  | .create =>
    if !s.setupDone then .error (.other, s)
    -- an initializer raises: the rows exist (the table is extended before the initializers run), the method aborts
    else if s.failOn = "create" then .error (.other, { s with created := true, failOn := "" })
    else .ok { s with created := true, log := s.log ++ ["create"] }
  -- the clock is a manager: it is set up (before any component) as soon as `setup()` got past `freeze`, also when a
  -- component's `setup` raised afterwards (`frozen ∧ ¬setupDone`)
  | .stepBack => if !s.setupDone && !s.frozen then .error (.other, s) else .ok s
  | .stepFwd => if !s.setupDone then .error (.other, s) else .ok s
  | .loopBegin _ => if !s.setupDone then .error (.other, s) else .ok s
  | .loopEnd => .ok s
  | .setVar => .error (.other, s)
  | .emitVar => .error (.other, s)
  | .callStep => .error (.other, s)

/-- effect of an action on the global clock -/
def clockEffect (a : Act) (clock step : Int) : Int :=
  match a with
  | .stepBack => clock - step
  | .stepFwd => clock + step
  | _ => clock

structure Sim where
  ctl   : Ctl
  clock : Int
  step  : Int
  stop  : Int
  tlog  : List Int := []   -- clock at which each `create` / emit happened (same length as the events in ctl.log)
deriving Repr, DecidableEq

def isEvent : Act → Bool
  | .emit _ => true
  | .create => true
  | .setupComponents => true
  | _ => false

def act (s : Sim) (a : Act) : Except (Fail × Sim) Sim :=
  match actCtl s.ctl a with
  | .ok c => .ok { s with ctl := c, clock := clockEffect a s.clock s.step,
                          tlog := if isEvent a then s.tlog ++ [s.clock] else s.tlog }
  | .error (f, c) => .error (f, { s with ctl := c })

def runCtl : List Act → Ctl → Except (Fail × Ctl) Ctl
  | [], s => .ok s
  | a :: rest, s =>
    match actCtl s a with
    | .ok s' => runCtl rest s'
    | .error e => .error e

def runActs : List Act → Sim → Except (Fail × Sim) Sim
  | [], s => .ok s
  | a :: rest, s =>
    match act s a with
    | .ok s' => runActs rest s'
    | .error e => .error e

def skeletonOf (m : String) : List Act := ((Viv.Gen.skeleton.find? (fun p => p.1 == m)).map (·.2)).getD []

/-- a context method (`setup`, `initialize_simulants`, `step`, `finalize`, `report`) -/
def call (m : String) (s : Sim) : Except (Fail × Sim) Sim := runActs (expand (skeletonOf m)) s

/-- the same method on the control part alone -/
def callCtl (m : String) (c : Ctl) : Except (Fail × Ctl) Ctl := runCtl (expand (skeletonOf m)) c

/-- `run()`: `while time < stop: step()`; fuel bounds the number of iterations explored -/
def cmpHolds (clock stop : Int) : Bool :=
  if Viv.Gen.runLoopCmp = "Lt" then clock < stop
  else if Viv.Gen.runLoopCmp = "LtE" then clock ≤ stop
  else false

def run : Nat → Sim → Except (Fail × Sim) Sim
  | 0, s => .ok s
  | n+1, s =>
    if !s.ctl.setupDone then .error (.other, s)
    else if cmpHolds s.clock s.stop then
      match call "step" s with
      | .ok s' => run n s'
      | .error e => .error e
    else .ok s

def init (start step stop : Int) : Sim :=
  { ctl := { st := "initialization" }, clock := start, step := step, stop := stop }

/-! ### Sim-level runs project onto Ctl-level runs -/

/-- the control part of a `Sim`-level result -/
def ctlOf : Except (Fail × Sim) Sim → Except (Fail × Ctl) Ctl
  | .ok s => .ok s.ctl
  | .error (f, s) => .error (f, s.ctl)

/-! ### alternative entry points: `run_simulation`, `InteractiveContext` -/

/-- `InteractiveContext.setup()`: `super().setup()` then `self.initialize_simulants()` -/
def isetup (s : Sim) : Except (Fail × Sim) Sim :=
  match call "setup" s with
  | .ok s' => call "initialize_simulants" s'
  | .error e => .error e

/-- `SimulationContext.run_simulation()`: setup, initialize_simulants, run, finalize, report; the first
refusal aborts the wrapper. `interactive` = the receiver is an `InteractiveContext`, whose `setup` is `isetup`. -/
def runSimulation (interactive : Bool) (fuel : Nat) (s : Sim) : Except (Fail × Sim) Sim :=
  match (if interactive then isetup s else call "setup" s) with
  | .error e => .error e
  | .ok s =>
    match call "initialize_simulants" s with
    | .error e => .error e
    | .ok s =>
      match run fuel s with
      | .error e => .error e
      | .ok s =>
        match call "finalize" s with
        | .error e => .error e
        | .ok s => call "report" s

/-- the wrapper on the control part alone, with the number of loop iterations given -/
def stepsCtl : Nat → Ctl → Except (Fail × Ctl) Ctl
  | 0, c => .ok c
  | n+1, c =>
    match callCtl "step" c with
    | .ok c' => stepsCtl n c'
    | .error e => .error e

def runSimulationCtl (n : Nat) (c : Ctl) : Except (Fail × Ctl) Ctl :=
  match callCtl "setup" c with
  | .error e => .error e
  | .ok c =>
    match callCtl "initialize_simulants" c with
    | .error e => .error e
    | .ok c =>
      match stepsCtl n c with
      | .error e => .error e
      | .ok c =>
        match callCtl "finalize" c with
        | .error e => .error e
        | .ok c => callCtl "report" c

/-- `InteractiveContext.step(step_size)` without per-simulant clocks: override the global step, `step()`,
write the old step back (also when `step()` raised? no: the restore is after the call, a raise skips it) -/
def stepWithSize (x : Int) (s : Sim) : Except (Fail × Sim) Sim :=
  -- before the clock is set up the compatibility check (`self._clock.step_size`) raises: nothing is overridden
  if !s.ctl.setupDone && !s.ctl.frozen then .error (.other, s)
  else
    match call "step" { s with step := x } with
    | .ok s' => .ok { s' with step := s.step }
    | .error e => .error e

/-- `run_until(t)` / `run_for(t - now)`: `while time < t: step()` (same loop as `run`, other bound) -/
def runUntil (fuel : Nat) (t : Int) (s : Sim) : Except (Fail × Sim) Sim :=
  match run fuel { s with stop := t } with
  | .ok s' => .ok { s' with stop := s.stop }
  | .error (f, s') => .error (f, { s' with stop := s.stop })

/-- `take_steps(n)` -/
def takeN : Nat → Sim → Except (Fail × Sim) Sim
  | 0, s => .ok s
  | n+1, s =>
    match call "step" s with
    | .ok s' => takeN n s'
    | .error e => .error e

/-! ### requests performed from inside a listener -/

/-- a request a listener performs while its event is being delivered -/
inductive Req
  | set (t : String)     -- `lifecycle.set_state(t)`
  | call (m : String)    -- a context method
deriving Repr, DecidableEq

/-- an armed nested request: at the next emission of `ev` the probe listener performs `req` once,
swallows a refusal, and records (accepted?, state right after) -/
structure Nest where
  ev   : String := ""        -- "" = nothing armed
  req  : Req := .set ""
  done : Option (Bool × String) := none
deriving Repr, DecidableEq

def performCtl (c : Ctl) : Req → Bool × Ctl
  | .set t =>
    match setState lifecycle c.st t with
    | .ok t' => (true, { c with st := t' })
    | .error _ => (false, c)
  | .call m =>
    match callCtl m c with
    | .ok c' => (true, c')
    | .error (_, c') => (false, c')

def marker (ok : Bool) (st : String) : String := (if ok then "nested:ok:" else "nested:err:") ++ st

/-- run a method body on the control part; right after the first successful emission of `n.ev` the armed
request is performed from inside the listener (the method then carries on with whatever state that left) -/
def runCtlN : List Act → Ctl × Nest → Except (Fail × Ctl × Nest) (Ctl × Nest)
  | [], x => .ok x
  | a :: rest, (c, n) =>
    match actCtl c a with
    | .ok c' =>
      if n.ev ≠ "" ∧ a = .emit n.ev then
        let r := performCtl c' n.req
        runCtlN rest ({ r.2 with log := r.2.log ++ [marker r.1 r.2.st] },
                      { ev := "", req := n.req, done := some (r.1, r.2.st) })
      else runCtlN rest (c', n)
    | .error (f, c') => .error (f, c', n)

def callCtlN (m : String) (x : Ctl × Nest) : Except (Fail × Ctl × Nest) (Ctl × Nest) :=
  runCtlN (expand (skeletonOf m)) x

def perform (s : Sim) : Req → Bool × Sim
  | .set t =>
    match setState lifecycle s.ctl.st t with
    | .ok t' => (true, { s with ctl := { s.ctl with st := t' } })
    | .error _ => (false, s)
  | .call m =>
    match call m s with
    | .ok s' => (true, s')
    | .error (_, s') => (false, s')

def runActsN : List Act → Sim × Nest → Except (Fail × Sim × Nest) (Sim × Nest)
  | [], x => .ok x
  | a :: rest, (s, n) =>
    match act s a with
    | .ok s' =>
      if n.ev ≠ "" ∧ a = .emit n.ev then
        let r := perform s' n.req
        runActsN rest ({ r.2 with ctl := { r.2.ctl with log := r.2.ctl.log ++ [marker r.1 r.2.ctl.st] },
                                  tlog := r.2.tlog ++ [r.2.clock] },
                       { ev := "", req := n.req, done := some (r.1, r.2.ctl.st) })
      else runActsN rest (s', n)
    | .error (f, s') => .error (f, s', n)

def callN (m : String) (x : Sim × Nest) : Except (Fail × Sim × Nest) (Sim × Nest) :=
  runActsN (expand (skeletonOf m)) x

/-- `run()` with a possibly armed nested request -/
def runN : Nat → Sim × Nest → Except (Fail × Sim × Nest) (Sim × Nest)
  | 0, x => .ok x
  | k+1, (s, n) =>
    if !s.ctl.setupDone then .error (.other, s, n)
    else if cmpHolds s.clock s.stop then
      match callN "step" (s, n) with
      | .ok x' => runN k x'
      | .error e => .error e
    else .ok (s, n)

end Viv.Ctx
