import VivModel.Model.Events
/-! Engine layer: a whole simulation as a deterministic transition system (C01, C18).

The framework skeleton is the regenerated `step` skeleton of `Viv.Ctx`; user components are abstract
deterministic handlers over an arbitrary world state `σ` (state table, results, component state). The
only inputs a handler receives are the event name, the clock, the step and the world: randomness
enters through `σ`-independent pure oracles (`Viv.Stream`, C02), so there is no hidden input by
construction. The process-global context counter appears only as the `name` field. Core Lean only. -/
namespace Viv.Engine
open Viv.Ctx Viv.Gen

/-- deterministic user behaviour: event name → clock → step → world → world -/
abbrev Handler (σ : Type) := String → Int → Int → σ → σ

structure World (σ : Type) where
  sim   : Sim          -- framework state (lifecycle, clock, step, stop, logs)
  user  : σ            -- everything components own: state table, results, pipelines' memory …
  name  : String       -- `simulation_<k>` from the process-global counter

/-- run the listeners of every event the framework emitted between two framework states -/
def applyNew {σ : Type} (h : Handler σ) (before after : Sim) (u : σ) : σ :=
  ((after.ctl.log.zip after.tlog).drop before.ctl.log.length).foldl (fun u (e, c) => h e c after.step u) u

/-- one `step()` of the engine -/
def stepW {σ : Type} (h : Handler σ) (w : World σ) : Except Fail (World σ) :=
  match call "step" w.sim with
  | .ok s' => .ok { w with sim := s', user := applyNew h w.sim s' w.user }
  | .error (f, _) => .error f

/-- `n` steps in a row (`take_steps n`; also what `step(); step(); …` does) -/
def iter {σ : Type} (h : Handler σ) : Nat → World σ → Except Fail (World σ)
  | 0, w => .ok w
  | n+1, w =>
    match stepW h w with
    | .ok w' => iter h n w'
    | .error f => .error f

/-- `run()`: `while time < stop: step()` -/
def runW {σ : Type} (h : Handler σ) : Nat → World σ → Except Fail (World σ)
  | 0, w => .ok w
  | fuel+1, w =>
    if w.sim.clock < w.sim.stop then
      match stepW h w with
      | .ok w' => runW h fuel w'
      | .error f => .error f
    else .ok w

/-- `run_until(end)`: `take_steps(ceil((end - now) / step))` -/
def runUntil {σ : Type} (h : Handler σ) (endT : Int) (w : World σ) : Except Fail (World σ) :=
  iter h (Viv.Ev.ceilDiv (endT - w.sim.clock) w.sim.step).toNat w

/-- `write_backup` / `dill.load`: the dill contract is the identity on the object graph -/
def backup {σ : Type} (w : World σ) : World σ := w
def restore {σ : Type} (w : World σ) : World σ := w

/-! ### variable global step (per-simulant clocks) and the interactive stepping APIs -/

/-- a simulation whose single step is an arbitrary deterministic function of the world: the global step
may change from step to step (`step_forward` recomputes it from the simulants' next-event times).
`getStep` / `setStep` are the clock's `_clock_step_size` as `InteractiveContext.step` reads and writes it. -/
structure VSys (W : Type) where
  step    : W → W
  time    : W → Int
  getStep : W → Int
  setStep : Int → W → W
  /-- the clock has just recomputed its own step in `step_forward` (per-simulant clocks and a non-empty population) -/
  recomputed : W → Bool

namespace VSys
variable {W : Type}

def iter (S : VSys W) : Nat → W → W
  | 0, w => w
  | n+1, w => iter S n (S.step w)

/-- `SimulationContext.run()`: `while time < stop: step()`; returns the number of steps and the final world -/
def run (S : VSys W) (stop : Int) : Nat → W → Nat × W
  | 0, w => (0, w)
  | fuel+1, w =>
    if S.time w < stop then let r := run S stop fuel (S.step w); (r.1 + 1, r.2) else (0, w)

/-- `InteractiveContext.step(step_size)`: with an explicit size the clock's step is set before the engine step;
afterwards the old one is written back unless the clock has just recomputed its own step (F33); without an
explicit size nothing is touched (Gen.interactiveStepRestoreGuard = "givenAndNotRecomputed") -/
def istep (S : VSys W) (arg : Option Int) (w : W) : W :=
  match arg with
  | none => S.step w
  | some h =>
    let w' := S.step (S.setStep h w)
    if S.recomputed w' then w' else S.setStep (S.getStep w) w'

/-- `take_steps(n, step_size)`: `for _ in range(n): self.step(step_size)` with the argument passed through
unchanged (Gen.takeStepsForwardsStepSize) -/
def takeSteps (S : VSys W) (arg : Option Int) : Nat → W → W
  | 0, w => w
  | n+1, w => takeSteps S arg n (S.istep arg w)

/-- `run_until(end)` as it is now: `while time < end: take_steps(1)`, counting (Gen.runUntilLoopCmp = "Lt") -/
def runUntil (S : VSys W) (endT : Int) : Nat → W → Nat × W
  | 0, w => (0, w)
  | fuel+1, w =>
    if S.time w < endT then let r := runUntil S endT fuel (S.takeSteps none 1 w); (r.1 + 1, r.2) else (0, w)

/-- the earlier `run_until`: `take_steps(ceil((end - now) / current step))` -/
def runUntilPrecomputed (S : VSys W) (endT : Int) (w : W) : W :=
  S.takeSteps none (Viv.Ev.ceilDiv (endT - S.time w) (S.getStep w)).toNat w

/-- `run_for(d)`: `run_until(time + d)` -/
def runFor (S : VSys W) (d : Int) (fuel : Nat) (w : W) : Nat × W := S.runUntil (S.time w + d) fuel w

/-- a user loop `while time < stop: step(h)` (or `take_steps(1, h)`) with an explicit step size -/
def runExplicit (S : VSys W) (h : Int) (stop : Int) : Nat → W → W
  | 0, w => w
  | fuel+1, w => if S.time w < stop then runExplicit S h stop fuel (S.istep (some h) w) else w

/-- a user loop `while time < stop: take_steps(k)`: the last chunk may carry the run past the end -/
def runChunks (S : VSys W) (k : Nat) (stop : Int) : Nat → W → Nat × W
  | 0, w => (0, w)
  | fuel+1, w =>
    if S.time w < stop then let r := runChunks S k stop fuel (S.takeSteps none k w); (r.1 + 1, r.2) else (0, w)

/-- one interactive driving operation with default step sizes: `step()`, `take_steps(n)`, `run_until(t)`, `run_for(d)` -/
inductive Drive
  | step | take (n : Nat) | untilT (t : Int) | forD (d : Int)
  deriving Repr, DecidableEq

/-- a sequence of interactive driving operations, in order -/
def exec (S : VSys W) (fuel : Nat) : List Drive → W → W
  | [], w => w
  | .step :: r, w => exec S fuel r (S.istep none w)
  | .take n :: r, w => exec S fuel r (S.takeSteps none n w)
  | .untilT t :: r, w => exec S fuel r (S.runUntil t fuel w).2
  | .forD d :: r, w => exec S fuel r (S.runFor d fuel w).2

/-- `SimulationContext.run(backup_path, backup_freq)` with a backup due after every step (the second copy of the loop in
engine.py): the backups written, oldest first, and the final world. `write_backup` is a function of the world. -/
def runB (S : VSys W) (stop : Int) : Nat → W → List W × W
  | 0, w => ([], w)
  | fuel+1, w =>
    if S.time w < stop then let r := runB S stop fuel (S.step w); (S.step w :: r.1, r.2) else ([], w)

/-- a run cut into segments of `ns` steps; after every segment the world is written (`save`) and read back (`load`) -/
def segments (S : VSys W) (save load : W → W) : List Nat → W → W
  | [], w => w
  | n :: r, w => segments S save load r (load (save (S.iter n w)))

end VSys

/-! ### an executable instance: the global step follows a schedule (what the skeleton driver runs) -/

/-- world of the schedule system: the clock, the global step, and what `step_forward` will recompute -/
structure SW where
  clock  : Int
  step   : Int
  stop   : Int
  k      : Nat := 0                    -- engine steps taken so far
  sched  : List (Option Int) := []     -- sched[k]: the step recomputed at the end of engine step k (none: not recomputed)
  recomp : Bool := false               -- the last engine step recomputed the global step
  log    : List (String × Int × Int) := []   -- (event, clock, event.step_size), oldest first
deriving Repr, DecidableEq

/-- `SimulationContext.step`: one event per state of the main loop (Gen.phases) at the current clock with the current
step, then `step_forward`: the clock advances by the step; per-simulant clocks recompute the step -/
def SW.engineStep (w : SW) : SW :=
  let evs := (Viv.Ctx.phaseStates "main_loop").map (fun e => (e, w.clock, w.step))
  let r : Option Int := (w.sched[w.k]?).join
  { w with clock := w.clock + w.step, step := r.getD w.step, recomp := r.isSome, k := w.k + 1, log := w.log ++ evs }

/-- `initialize_simulants`: `step_backward`, create the initial population, `step_forward` – the clock is back where it
was, and per-simulant clocks (with somebody in the table) have recomputed the global step for the first time -/
def SW.initSims (r : Option Int) (w : SW) : SW := { w with step := r.getD w.step, recomp := r.isSome }

/-- `finalize`: the end event at the final clock -/
def SW.finalize (w : SW) : SW := { w with log := w.log ++ [("simulation_end", w.clock, w.step)] }

def schedSys : VSys SW :=
  { step := SW.engineStep, time := (·.clock), getStep := (·.step), setStep := fun h w => { w with step := h },
    recomputed := (·.recomp) }

/-! ### several simulations in one process -/

/-- a process: how many contexts it has created (`len(_created_simulation_contexts)`) and its live simulations -/
structure Proc (σ : Type) where
  created : Nat := 0
  sims    : List (World σ) := []

/-- `SimulationContext(...)` without a name: the name is `simulation_<count + 1>` -/
def Proc.create {σ : Type} (p : Proc σ) (s : Sim) (u : σ) : Proc σ :=
  { created := p.created + 1, sims := p.sims ++ [⟨s, u, s!"simulation_{p.created + 1}"⟩] }

/-- a step that leaves the world alone when the engine refuses it (the Python exception propagates to the caller) -/
def stepT {σ : Type} (h : Handler σ) (w : World σ) : World σ :=
  match stepW h w with
  | .ok w' => w'
  | .error _ => w

def iterT {σ : Type} (h : Handler σ) : Nat → World σ → World σ
  | 0, w => w
  | n+1, w => iterT h n (stepT h w)

/-- the `i`-th simulation of the process takes a step -/
def Proc.stepAt {σ : Type} (h : Handler σ) (p : Proc σ) (i : Nat) : Proc σ := { p with sims := p.sims.modify i (stepT h) }

/-- an interleaving: which simulation steps next -/
def Proc.schedule {σ : Type} (h : Handler σ) (p : Proc σ) (is : List Nat) : Proc σ := is.foldl (Proc.stepAt h) p

/-- a table as an association list of columns; `setCol` overwrites or appends -/
def setCol {α : Type} (t : List (String × α)) (c : String) (v : α) : List (String × α) :=
  if t.any (·.1 == c) then t.map (fun p => if p.1 == c then (c, v) else p) else t ++ [(c, v)]

def getCol {α : Type} (t : List (String × α)) (c : String) : Option α := (t.find? (·.1 == c)).map (·.2)

/-- `for column in set(update): population[column] = …` – the order is the set's iteration order -/
def writeCols {α : Type} (t : List (String × α)) (ws : List (String × α)) : List (String × α) :=
  ws.foldl (fun t w => setCol t w.1 w.2) t

/-- `set(...)`: duplicates removed (which copy survives is irrelevant once sorted) -/
def dedup {α : Type} [DecidableEq α] : List α → List α
  | [] => []
  | a :: l => if a ∈ l then dedup l else a :: dedup l

/-- `ResultsManager._get_stratifications`:
`tuple(sorted(set(default + requested + additional) - set(excluded)))` -/
def canonStrats {α : Type} [DecidableEq α] (le : α → α → Bool) (dflt req add excl : List α) : List α :=
  (dedup ((dflt ++ req ++ add).filter (fun a => !excl.contains a))).mergeSort le

end Viv.Engine
