import VivModel.Model.Events
/-! Engine layer: a whole simulation as a deterministic transition system (C01, C18).

The framework skeleton is the regenerated `step` skeleton of `Viv.Ctx`; user components are abstract
deterministic handlers over an arbitrary world state `σ` (state table, results, component state). The
only inputs a handler receives are the event name, the clock, the step and the world: randomness
enters through `σ`-independent pure oracles (`Viv.Stream`, C02), so there is no hidden input by
construction. The process-global context counter appears only as the `name` field. Core Lean only. -/
namespace Viv.Engine
open Viv.Ctx Viv.Gen

/-- deterministic user behaviour: event name → clock → step → world → world -/
abbrev Handler (σ : Type) := String → Int → Int → σ → σ

structure World (σ : Type) where
  sim   : Sim          -- framework state (lifecycle, clock, step, stop, logs)
  user  : σ            -- everything components own: state table, results, pipelines' memory …
  name  : String       -- `simulation_<k>` from the process-global counter

/-- run the listeners of every event the framework emitted between two framework states -/
def applyNew {σ : Type} (h : Handler σ) (before after : Sim) (u : σ) : σ :=
  ((after.ctl.log.zip after.tlog).drop before.ctl.log.length).foldl (fun u (e, c) => h e c after.step u) u

/-- one `step()` of the engine -/
def stepW {σ : Type} (h : Handler σ) (w : World σ) : Except Fail (World σ) :=
  match call "step" w.sim with
  | .ok s' => .ok { w with sim := s', user := applyNew h w.sim s' w.user }
  | .error (f, _) => .error f

/-- `n` steps in a row (`take_steps n`; also what `step(); step(); …` does) -/
def iter {σ : Type} (h : Handler σ) : Nat → World σ → Except Fail (World σ)
  | 0, w => .ok w
  | n+1, w =>
    match stepW h w with
    | .ok w' => iter h n w'
    | .error f => .error f

/-- `run()`: `while time < stop: step()` -/
def runW {σ : Type} (h : Handler σ) : Nat → World σ → Except Fail (World σ)
  | 0, w => .ok w
  | fuel+1, w =>
    if w.sim.clock < w.sim.stop then
      match stepW h w with
      | .ok w' => runW h fuel w'
      | .error f => .error f
    else .ok w

/-- `run_until(end)`: `take_steps(ceil((end - now) / step))` -/
def runUntil {σ : Type} (h : Handler σ) (endT : Int) (w : World σ) : Except Fail (World σ) :=
  iter h (Viv.Ev.ceilDiv (endT - w.sim.clock) w.sim.step).toNat w

/-- `write_backup` / `dill.load`: the dill contract is the identity on the object graph -/
def backup {σ : Type} (w : World σ) : World σ := w
def restore {σ : Type} (w : World σ) : World σ := w

/-! ### variable global step (per-simulant clocks) and the interactive stepping APIs -/

/-- a simulation whose single step is an arbitrary deterministic function of the world: the global step
may change from step to step (`step_forward` recomputes it from the simulants' next-event times).
`getStep` / `setStep` are the clock's `_clock_step_size` as `InteractiveContext.step` reads and writes it. -/
structure VSys (W : Type) where
  step    : W → W
  time    : W → Int
  getStep : W → Int
  setStep : Int → W → W
  /-- the clock has just recomputed its own step in `step_forward` (per-simulant clocks and a non-empty population) -/
  recomputed : W → Bool

namespace VSys
variable {W : Type}

def iter (S : VSys W) : Nat → W → W
  | 0, w => w
  | n+1, w => iter S n (S.step w)

/-- `SimulationContext.run()`: `while time < stop: step()`; returns the number of steps and the final world -/
def run (S : VSys W) (stop : Int) : Nat → W → Nat × W
  | 0, w => (0, w)
  | fuel+1, w =>
    if S.time w < stop then let r := run S stop fuel (S.step w); (r.1 + 1, r.2) else (0, w)

/-- `InteractiveContext.step(step_size)`: with an explicit size the clock's step is set before the engine step;
afterwards the old one is written back unless the clock has just recomputed its own step (F33); without an
explicit size nothing is touched (Gen.interactiveStepRestoreGuard = "givenAndNotRecomputed") -/
def istep (S : VSys W) (arg : Option Int) (w : W) : W :=
  match arg with
  | none => S.step w
  | some h =>
    let w' := S.step (S.setStep h w)
    if S.recomputed w' then w' else S.setStep (S.getStep w) w'

/-- `take_steps(n, step_size)`: `for _ in range(n): self.step(step_size)` with the argument passed through
unchanged (Gen.takeStepsForwardsStepSize) -/
def takeSteps (S : VSys W) (arg : Option Int) : Nat → W → W
  | 0, w => w
  | n+1, w => takeSteps S arg n (S.istep arg w)

/-- `run_until(end)` as it is now: `while time < end: take_steps(1)`, counting (Gen.runUntilLoopCmp = "Lt") -/
def runUntil (S : VSys W) (endT : Int) : Nat → W → Nat × W
  | 0, w => (0, w)
  | fuel+1, w =>
    if S.time w < endT then let r := runUntil S endT fuel (S.takeSteps none 1 w); (r.1 + 1, r.2) else (0, w)

/-- the earlier `run_until`: `take_steps(ceil((end - now) / current step))` -/
def runUntilPrecomputed (S : VSys W) (endT : Int) (w : W) : W :=
  S.takeSteps none (Viv.Ev.ceilDiv (endT - S.time w) (S.getStep w)).toNat w

end VSys

/-- a table as an association list of columns; `setCol` overwrites or appends -/
def setCol {α : Type} (t : List (String × α)) (c : String) (v : α) : List (String × α) :=
  if t.any (·.1 == c) then t.map (fun p => if p.1 == c then (c, v) else p) else t ++ [(c, v)]

def getCol {α : Type} (t : List (String × α)) (c : String) : Option α := (t.find? (·.1 == c)).map (·.2)

/-- `for column in set(update): population[column] = …` – the order is the set's iteration order -/
def writeCols {α : Type} (t : List (String × α)) (ws : List (String × α)) : List (String × α) :=
  ws.foldl (fun t w => setCol t w.1 w.2) t

/-- `set(...)`: duplicates removed (which copy survives is irrelevant once sorted) -/
def dedup {α : Type} [DecidableEq α] : List α → List α
  | [] => []
  | a :: l => if a ∈ l then dedup l else a :: dedup l

/-- `ResultsManager._get_stratifications`:
`tuple(sorted(set(default + requested + additional) - set(excluded)))` -/
def canonStrats {α : Type} [DecidableEq α] (le : α → α → Bool) (dflt req add excl : List α) : List α :=
  (dedup ((dflt ++ req ++ add).filter (fun a => !excl.contains a))).mergeSort le

end Viv.Engine
