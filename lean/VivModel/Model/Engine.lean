import VivModel.Model.Events
/-! Engine layer: a whole simulation as a deterministic transition system (C01, C18).

The framework skeleton is the regenerated `step` skeleton of `Viv.Ctx`; user components are abstract
deterministic handlers over an arbitrary world state `σ` (state table, results, component state). The
only inputs a handler receives are the event name, the clock, the step and the world: randomness
enters through `σ`-independent pure oracles (`Viv.Stream`, C02), so there is no hidden input by
construction. The process-global context counter appears only as the `name` field. Core Lean only. -/
namespace Viv.Engine
open Viv.Ctx Viv.Gen

/-- deterministic user behaviour: event name → clock → step → world → world -/
abbrev Handler (σ : Type) := String → Int → Int → σ → σ

structure World (σ : Type) where
  sim   : Sim          -- framework state (lifecycle, clock, step, stop, logs)
  user  : σ            -- everything components own: state table, results, pipelines' memory …
  name  : String       -- `simulation_<k>` from the process-global counter

/-- run the listeners of every event the framework emitted between two framework states -/
def applyNew {σ : Type} (h : Handler σ) (before after : Sim) (u : σ) : σ :=
  ((after.ctl.log.zip after.tlog).drop before.ctl.log.length).foldl (fun u (e, c) => h e c after.step u) u

/-- one `step()` of the engine -/
def stepW {σ : Type} (h : Handler σ) (w : World σ) : Except Fail (World σ) :=
  match call "step" w.sim with
  | .ok s' => .ok { w with sim := s', user := applyNew h w.sim s' w.user }
  | .error (f, _) => .error f

/-- `n` steps in a row (`take_steps n`; also what `step(); step(); …` does) -/
def iter {σ : Type} (h : Handler σ) : Nat → World σ → Except Fail (World σ)
  | 0, w => .ok w
  | n+1, w =>
    match stepW h w with
    | .ok w' => iter h n w'
    | .error f => .error f

/-- `run()`: `while time < stop: step()` -/
def runW {σ : Type} (h : Handler σ) : Nat → World σ → Except Fail (World σ)
  | 0, w => .ok w
  | fuel+1, w =>
    if w.sim.clock < w.sim.stop then
      match stepW h w with
      | .ok w' => runW h fuel w'
      | .error f => .error f
    else .ok w

/-- `run_until(end)`: `take_steps(ceil((end - now) / step))` -/
def runUntil {σ : Type} (h : Handler σ) (endT : Int) (w : World σ) : Except Fail (World σ) :=
  iter h (Viv.Ev.ceilDiv (endT - w.sim.clock) w.sim.step).toNat w

/-- `write_backup` / `dill.load`: the dill contract is the identity on the object graph -/
def backup {σ : Type} (w : World σ) : World σ := w
def restore {σ : Type} (w : World σ) : World σ := w

/-- a table as an association list of columns; `setCol` overwrites or appends -/
def setCol {α : Type} (t : List (String × α)) (c : String) (v : α) : List (String × α) :=
  if t.any (·.1 == c) then t.map (fun p => if p.1 == c then (c, v) else p) else t ++ [(c, v)]

def getCol {α : Type} (t : List (String × α)) (c : String) : Option α := (t.find? (·.1 == c)).map (·.2)

/-- `for column in set(update): population[column] = …` – the order is the set's iteration order -/
def writeCols {α : Type} (t : List (String × α)) (ws : List (String × α)) : List (String × α) :=
  ws.foldl (fun t w => setCol t w.1 w.2) t

/-- `set(...)`: duplicates removed (which copy survives is irrelevant once sorted) -/
def dedup {α : Type} [DecidableEq α] : List α → List α
  | [] => []
  | a :: l => if a ∈ l then dedup l else a :: dedup l

/-- `ResultsManager._get_stratifications`:
`tuple(sorted(set(default + requested + additional) - set(excluded)))` -/
def canonStrats {α : Type} [DecidableEq α] (le : α → α → Bool) (dflt req add excl : List α) : List α :=
  (dedup ((dflt ++ req ++ add).filter (fun a => !excl.contains a))).mergeSort le

end Viv.Engine
