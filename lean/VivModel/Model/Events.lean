import VivModel.Model.Context
/-! Event channels (`framework/event.py`) and the run loop (`engine.py` `run`, `interactive.py`
`take_steps` / `run_until`). Core Lean only. -/
namespace Viv.Ev

/-- a registration on one channel: (priority, listener id), kept in registration order -/
abbrev Reg := Nat × Nat

/-- `EventChannel.emit`: walk the priority buckets 0 … nb-1, each in registration order -/
def emitOrder (nb : Nat) (regs : List Reg) : List Reg :=
  (List.range nb).flatMap (fun p => regs.filter (fun r => r.1 == p))

/-- a registration in the whole simulation: (channel, priority, listener id) -/
abbrev CReg := String × Nat × Nat

def onChannel (regs : List CReg) (ch : String) : List Reg :=
  (regs.filter (fun r => r.1 == ch)).map (fun r => r.2)

/-- one listener invocation as a probe listener records it -/
structure Call where
  ch    : String
  id    : Nat
  prio  : Nat
  clock : Int
  time  : Int   -- event.time
  step  : Int   -- event.step_size
deriving Repr, DecidableEq

/-- `emit` on channel `ch` with the clock at `clock` and the global step `step` -/
def deliver (nb : Nat) (regs : List CReg) (ch : String) (clock step : Int) : List Call :=
  (emitOrder nb (onChannel regs ch)).map fun r => ⟨ch, r.2, r.1, clock, clock + step, step⟩

/-- `run()`: returns (number of steps taken, final clock); fuel only guards totality -/
def runLoop (stop h : Int) : Nat → Int → Nat × Int
  | 0, t => (0, t)
  | fuel+1, t => if t < stop then let (n, t') := runLoop stop h fuel (t + h); (n + 1, t') else (0, t)

/-- taking exactly `n` steps (`take_steps n`) -/
def takeSteps (h : Int) : Nat → Int → Int
  | 0, t => t
  | n+1, t => takeSteps h n (t + h)

/-- `run_until(end)`: `iterations = ceil((end - now) / step)` -/
def ceilDiv (a h : Int) : Int := (a + h - 1) / h

open Viv.Ctx in
/-- whole-simulation listener log: run the context skeleton (`setup`, `initialize_simulants`, `run`,
`finalize`, `report`), then expand every emitted event into its listener calls. -/
def simulate (nb : Nat) (regs : List CReg) (start step stop : Int) (fuel : Nat) :
    Except (Fail × Sim) (Sim × List Call) := do
  let s ← call "setup" (Ctx.init start step stop)
  let s ← call "initialize_simulants" s
  let s ← run fuel s
  let s ← call "finalize" s
  let s ← call "report" s
  let evs := (s.ctl.log.zip s.tlog).flatMap fun (e, c) =>
    if e.startsWith "emit:" then deliver nb regs (e.drop 5).toString c s.step else []
  return (s, evs)

/-! ### explicit step sizes, split runs (LESSONS audit) -/

open Viv.Ctx in
/-- the events a method call added to the log, each with the clock at which it happened -/
def newEvents (before after : Sim) : List (String × Int) :=
  (after.ctl.log.zip after.tlog).drop before.ctl.log.length

/-- expand emitted events into listener calls; `step` is the global step in force while they were emitted -/
def expandEvents (nb : Nat) (regs : List CReg) (step : Int) (evs : List (String × Int)) : List Call :=
  evs.flatMap fun (e, c) => if e.startsWith "emit:" then deliver nb regs (e.drop 5).toString c step else []

open Viv.Ctx in
/-- `InteractiveContext.step(x)` for every `x` of `sizes` (no per-simulant clocks: the old step is written back
after each), with the listener calls each of them makes -/
def explicitSteps (nb : Nat) (regs : List CReg) : List Int → Sim → Except (Fail × Sim) (Sim × List Call)
  | [], s => .ok (s, [])
  | x :: xs, s =>
    match stepWithSize x s with
    | .error e => .error e
    | .ok s' =>
      match explicitSteps nb regs xs s' with
      | .error e => .error e
      | .ok (s'', calls) => .ok (s'', expandEvents nb regs x (newEvents s s') ++ calls)

open Viv.Ctx in
/-- an interactive session: `InteractiveContext(...)` (setup + initial population), explicit steps of the given
sizes, then `run()`, `finalize()`, `report()` -/
def simulateSizes (nb : Nat) (regs : List CReg) (start step stop : Int) (sizes : List Int) (fuel : Nat) :
    Except (Fail × Sim) (Sim × List Call) := do
  let s0 ← isetup (Ctx.init start step stop)
  let (s1, xcalls) ← explicitSteps nb regs sizes s0
  let s2 ← run fuel s1
  let s3 ← call "finalize" s2
  let s4 ← call "report" s3
  return (s4, expandEvents nb regs step (newEvents (Ctx.init start step stop) s0) ++ xcalls ++
              expandEvents nb regs step (newEvents s1 s4))

/-- `run_until(a)`, then `run_for(d)`, then `run()` from clock `t`: the three step counts and the final clock -/
def splitRun (stop h a d : Int) (fuel : Nat) (t : Int) : Nat × Nat × Nat × Int :=
  let r1 := runLoop a h fuel t
  let r2 := runLoop (r1.2 + d) h fuel r1.2
  let r3 := runLoop stop h fuel r2.2
  (r1.1, r2.1, r3.1, r3.2)

end Viv.Ev
