/-! Randomness index map (`framework/randomness/index_map.py`, class `IndexMap`). Core Lean only.

Two layers:

* `Hash`: the concrete arithmetic of `IndexMap._hash` on ten-digit integers (`_digit`, the prime
  powers, signed 64-bit wrap-around of numpy `int64`, the salt, Python's `%`), and `_spread`
  (`_convert_to_ten_digit_int` for integer columns and integer salts). The float / datetime
  branches of `_convert_to_ten_digit_int` (`_shift`, `_clip_to_seconds`: float arithmetic and
  pandas datetime units) are a *parameter*: a key value of such a column carries the ten-digit
  integer the real helper produced.
* the map itself, generic in the hash `h : Key → Salt → Nat`: `update` (`IndexMap.update` =
  `_parse_new_keys` + uniqueness check + `_build_final_mapping` + `_resolve_collisions` +
  re-attachment of the simulant index by key + `sort_index`), and `get` (`__getitem__`).

pandas primitives written out as list functions: `dropDup` = `Series.drop_duplicates()` (keep
first), `diff` = `Index.difference` (unique, not in other, sorted), `lookup` = `Series.reindex`,
`sortEntries` = `sort_index(level="simulant_index")` (remaining levels break ties). -/
namespace Viv.IndexMap

/-! ### keys -/

/-- one value of a key column (or a salt).
`int v`: integer column / integer salt – the model applies `_spread` itself.
`conv rank ten`: float or datetime – `rank` is an order-preserving integer code of the raw value
(equal raw values ⇔ equal rank; pandas sort order = order of ranks), `ten` is the ten-digit
integer `_convert_to_ten_digit_int` returned for it. -/
inductive KVal
  | int (v : Int)
  | conv (rank : Int) (ten : Int)
  deriving DecidableEq, Repr

/-- a key = the tuple of key-column values of one simulant -/
abbrev Key := List KVal
/-- the salt of `_hash`: the clock time of the registration (datetime or integer) or the integer
collision salt 1, 2, … -/
abbrev Salt := KVal

def KVal.code : KVal → Int
  | .int v => v
  | .conv r _ => r

/-- lexicographic order of key tuples (the order `Index.difference` / `sort_index` put them in) -/
def keyLe : Key → Key → Bool
  | [], _ => true
  | _ :: _, [] => false
  | a :: as, b :: bs => decide (a.code < b.code) || (a.code == b.code && keyLe as bs)

/-! ### `_hash` arithmetic -/

/-- `primes` in `IndexMap._hash` (the last one really is 27) -/
def primes : List Int := [2, 3, 5, 7, 11, 13, 17, 19, 23, 27]
/-- `IndexMap.TEN_DIGIT_MODULUS` -/
def tenDigitModulus : Int := 10000000000
/-- multiplier in `IndexMap._spread` -/
def spreadMul : Int := 111111

/-- numpy `int64` arithmetic wraps modulo 2^64 into [-2^63, 2^63) -/
def wrap64 (x : Int) : Int := (x + 9223372036854775808) % 18446744073709551616 - 9223372036854775808

/-- `IndexMap._digit(m, n)` = `(m // 10**n) % 10` (floor division; `Int./`, `%` are Euclidean,
which agrees with floor for a positive divisor) -/
def digit (m : Int) (n : Nat) : Int := (m / (10 : Int) ^ n) % 10

/-- `IndexMap._spread(m)` = `(m * 111_111) % TEN_DIGIT_MODULUS` on int64 -/
def spread (m : Int) : Int := wrap64 (m * spreadMul) % tenDigitModulus

/-- `_convert_to_ten_digit_int` of one value: computed for integers, given for float / datetime -/
def KVal.ten : KVal → Int
  | .int v => spread v
  | .conv _ t => t

/-- inner loop of `_hash` for one column: `out = 1; for idx, p: out *= p ** digit(column, idx)` -/
def colHashFrom : List Int → Nat → Int → Int → Int
  | [], _, _, out => out
  | p :: ps, idx, c, out => colHashFrom ps (idx + 1) c (wrap64 (out * p ^ (digit c idx).toNat))

def colHash (c : Int) : Int := colHashFrom primes 0 c 1

/-- `_hash` before the final modulo: `new_map = 0; for column: new_map += out + salt_series` -/
def hashRaw (key : Key) (salt : Salt) : Int :=
  key.foldl (fun acc c => wrap64 (acc + wrap64 (colHash c.ten + salt.ten))) 0

/-- `_hash(keys, salt)` for one key: `new_map % len(self)` (Python `%`: result in `[0, size)`) -/
def hashPos (size : Nat) (key : Key) (salt : Salt) : Nat := (hashRaw key salt % (size : Int)).toNat

/-! ### the map -/

/-- one row of `IndexMap._map`: (simulant index, key…) ↦ position -/
structure Entry where
  sim : Int
  key : Key
  pos : Nat
  deriving DecidableEq, Repr

inductive Err
  | randomness   -- `RandomnessError` (duplicate keys; lookup in an empty map)
  | fuel         -- the collision loop did not finish within the fuel (the real loop keeps running)
  | key          -- `KeyError`: `__getitem__` of a simulant that was never registered
  | internal     -- a key without position after collision resolution (unreachable: `update_ne_internal`)
  deriving DecidableEq, Repr

abbrev KV := Key × Nat

def keysOf (m : List KV) : List Key := m.map (·.1)
def valsOf (m : List KV) : List Nat := m.map (·.2)

/-- `Series.drop_duplicates()`: keep the first entry for every value (position) -/
def dropDup : List KV → List KV
  | [] => []
  | e :: es => e :: (dropDup es).filter (fun x => x.2 != e.2)

/-- `Index.unique()`: keep the first occurrence -/
def uniq : List Key → List Key
  | [] => []
  | k :: ks => k :: (uniq ks).filter (fun x => x != k)

/-- insertion sort (structural recursion, so that closed instances of the model reduce in the kernel);
for the duplicate-free lists it is applied to, any correct sort returns the same list -/
def insertBy {α : Type} (le : α → α → Bool) (a : α) : List α → List α
  | [] => [a]
  | b :: bs => if le a b then a :: b :: bs else b :: insertBy le a bs

def isort {α : Type} (le : α → α → Bool) : List α → List α
  | [] => []
  | a :: as => insertBy le a (isort le as)

def sortKeys (ks : List Key) : List Key := isort keyLe ks

/-- `a.difference(b)`: unique elements of `a` that are not in `b`, sorted -/
def diff (a b : List Key) : List Key := sortKeys (uniq (a.filter (fun k => !b.contains k)))

/-- the `while not collisions.empty` loop of `_resolve_collisions`; `fuel` bounds the number of
iterations (the real loop has no bound), `salt` counts 1, 2, … -/
def resolveLoop (h : Key → Salt → Nat) : Nat → Nat → List Key → List KV → Option (List KV)
  | 0, _, _, _ => none
  | fuel + 1, salt, coll, cur =>
    if coll.isEmpty then some cur else
      let upd := coll.map (fun k => (k, h k (.int salt)))
      let cur' := dropDup (cur ++ upd)
      resolveLoop h fuel (salt + 1) (diff (keysOf upd) (keysOf cur')) cur'

/-- `_resolve_collisions(new_key_index, current_mapping)` -/
def resolve (h : Key → Salt → Nat) (fuel : Nat) (newKeys : List Key) (current : List KV) : Option (List KV) :=
  let cur := dropDup current
  resolveLoop h fuel 1 (diff newKeys (keysOf cur)) cur

def kvOf (e : Entry) : KV := (e.key, e.pos)

/-- `_build_final_mapping`: old map (simulant level dropped) ++ first hash of the new keys with the
clock time as salt, then collision resolution -/
def buildFinal (h : Key → Salt → Nat) (fuel : Nat) (old : List Entry) (batch : List (Int × Key)) (t : Salt) :
    Option (List KV) :=
  let newKeys := batch.map (·.2)
  resolve h fuel newKeys (old.map kvOf ++ newKeys.map (fun k => (k, h k t)))

/-- `final_mapping.reindex(final_keys)` + `final_mapping.index = final_mapping_index`: every
(simulant, key) row gets the position the key-indexed mapping holds for its key -/
def attach (final : List KV) : List (Int × Key) → Option (List Entry)
  | [] => some []
  | (s, k) :: rows =>
    match final.lookup k, attach final rows with
    | some p, some es => some (⟨s, k, p⟩ :: es)
    | _, _ => none

def entryLe (a b : Entry) : Bool :=
  decide (a.sim < b.sim) || (a.sim == b.sim && keyLe a.key b.key)

/-- `sort_index(level="simulant_index")` -/
def sortEntries (es : List Entry) : List Entry := isort entryLe es

def rowOf (e : Entry) : Int × Key := (e.sim, e.key)

/-- does the list contain no element twice (`len(x) == len(x.unique())`) -/
def nodupB : List Key → Bool
  | [] => true
  | k :: ks => !ks.contains k && nodupB ks

/-- `IndexMap.update` on a non-empty batch with CRN in use: `old` is `_map` (empty list for `None`),
`batch` the rows of `new_keys` in frame order, `t` the clock time. -/
def update (h : Key → Salt → Nat) (fuel : Nat) (old : List Entry) (batch : List (Int × Key)) (t : Salt) :
    Except Err (List Entry) :=
  let rows := old.map rowOf ++ batch
  if !nodupB (rows.map (·.2)) then .error .randomness else
  match buildFinal h fuel old batch t with
  | none => .error .fuel
  | some final =>
    match attach final rows with
    | none => .error .internal
    | some es => .ok (sortEntries es)

/-- a whole registration history: batches with their clock times, first to last -/
def updates (h : Key → Salt → Nat) (fuel : Nat) : List Entry → List (List (Int × Key) × Salt) → Except Err (List Entry)
  | m, [] => .ok m
  | m, (b, t) :: rest =>
    match update h fuel m b t with
    | .ok m' => updates h fuel m' rest
    | .error e => .error e

/-- the object: `IndexMap(key_columns, size)` -/
structure IMap where
  useCrn : Bool                       -- `bool(key_columns)`
  size   : Nat
  map    : Option (List Entry) := none   -- `_map`
  deriving DecidableEq, Repr

/-- `IndexMap.update(new_keys, clock_time)`: no-op for an empty frame or without key columns; an
exception leaves `_map` as it was. -/
def IMap.update (h : Key → Salt → Nat) (fuel : Nat) (im : IMap) (batch : List (Int × Key)) (t : Salt) :
    IMap × Except Err Unit :=
  if batch.isEmpty || !im.useCrn then (im, .ok ()) else
  match Viv.IndexMap.update h fuel (im.map.getD []) batch t with
  | .ok m' => ({ im with map := some m' }, .ok ())
  | .error e => (im, .error e)

def posOfSim (m : List Entry) (s : Int) : Option Nat := (m.find? (fun e => e.sim == s)).map (·.pos)
def posOfKey (m : List Entry) (k : Key) : Option Nat := (m.find? (fun e => e.key == k)).map (·.pos)

def getAll (m : List Entry) : List Int → Except Err (List Int)
  | [] => .ok []
  | s :: ss =>
    match posOfSim m s, getAll m ss with
    | some p, .ok ps => .ok ((p : Int) :: ps)
    | none, _ => .error .key
    | _, .error e => .error e

/-- `IndexMap.__getitem__(index)`: positions in request order; the index itself without CRN -/
def IMap.get (im : IMap) (index : List Int) : Except Err (List Int) :=
  if !im.useCrn then .ok index else
  match im.map with
  | none => .error .randomness
  | some m => getAll m index

end Viv.IndexMap
