import VivModel.Model.Util
/-! Lifecycle automaton (`framework/lifecycle.py`): phases, states, legal successors, `set_state`.
Core Lean only. -/
namespace Viv.LC

structure Phase where
  name   : String
  states : List String
  loop   : Bool
deriving Repr, DecidableEq

abbrev LifeCycle := List Phase

def allStates (lc : LifeCycle) : List String := lc.flatMap (·.states)

/-- linear successor of `s` in the flattened order (`LifeCycleState._next`) -/
def nextOf : List String → String → Option String
  | a :: b :: rest, s => if a = s then some b else nextOf (b :: rest) s
  | _, _ => none

/-- loop successor (`_loop_next`): last state of a looping phase → first state of that phase -/
def loopNextOf (lc : LifeCycle) (s : String) : Option String :=
  match lc.find? (fun p => p.loop && p.states.getLast? == some s) with
  | some p => p.states.head?
  | none => none

def validNext (lc : LifeCycle) (cur tgt : String) : Bool :=
  nextOf (allStates lc) cur == some tgt || loopNextOf lc cur == some tgt

inductive Err | unknown | transition deriving Repr, DecidableEq

/-- `LifeCycleManager.set_state`: unknown state → `LifeCycleError`; illegal → `InvalidTransitionError`;
in both cases the current state is not assigned. -/
def setState (lc : LifeCycle) (cur tgt : String) : Except Err String :=
  if ¬ (allStates lc).contains tgt then .error .unknown
  else if validNext lc cur tgt then .ok tgt else .error .transition

/-- run a request list; refused requests leave the state unchanged; returns final state and outcomes -/
def runReqs (lc : LifeCycle) : String → List String → String × List Bool
  | cur, [] => (cur, [])
  | cur, r :: rs =>
    match setState lc cur r with
    | .ok s => let (f, os) := runReqs lc s rs; (f, true :: os)
    | .error _ => let (f, os) := runReqs lc cur rs; (f, false :: os)

/-- `LifeCycle.add_phase` / `_validate`: phase names unique, state names unique inside the phase
and across the lifecycle. Returns `none` when the real code raises `LifeCycleError`. -/
def addPhase (lc : LifeCycle) (p : Phase) : Option LifeCycle :=
  if p.states.isEmpty then none            -- `LifeCyclePhase.__init__` indexes `states[0]`: IndexError, nothing registered
  else if lc.any (·.name == p.name) then none
  else if ¬ p.states.Nodup then none
  else if p.states.any (fun s => (allStates lc).contains s) then none
  else some (lc ++ [p])

/-- the lifecycle every `LifeCycle()` starts with -/
def initial : LifeCycle := [⟨"initialization", ["initialization"], false⟩]

/-- legal paths of the declared order -/
inductive Legal (lc : LifeCycle) : String → List String → Prop
  | nil (s) : Legal lc s []
  | cons {s t ts} : validNext lc s t = true → (allStates lc).contains t = true → Legal lc t ts →
      Legal lc s (t :: ts)

end Viv.LC
