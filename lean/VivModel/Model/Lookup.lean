/-! Lookup tables (`vivarium/framework/lookup/{manager,table,interpolation}.py`) — executable model.
Core Lean only.

Bin edges and parameter values are integers over a common denominator chosen by the caller
(quarter-integers × 4; for a `year` parameter × 5844 = 4 · 1461, so that `year + tm_yday / 365.25`
is an integer too). Only their order matters. Value cells are opaque integers (compared for equality). -/
namespace Viv.Lookup

/-- one data row of a binned table: key cells, `[start, end)` per parameter column, value cells -/
structure Row where
  keys   : List String
  starts : List Int
  ends   : List Int
  vals   : List Int
  deriving DecidableEq, Repr

def Row.start (r : Row) (p : Nat) : Int := r.starts.getD p 0
def Row.stop (r : Row) (p : Nat) : Int := r.ends.getD p 0

/-! ### numpy / pandas primitives -/

/-- `np.digitize(x, bins)` for increasing `bins`: the number of edges `≤ x` -/
def digitize (bins : List Int) (x : Int) : Nat := (bins.filter (fun b => decide (b ≤ x))).length

/-- `bin_indices[bin_indices > 0] -= 1` -/
def binIndex (bins : List Int) (x : Int) : Nat := digitize bins x - 1

def insertSorted (x : Int) : List Int → List Int
  | [] => [x]
  | y :: ys => if x < y then x :: y :: ys else if x = y then y :: ys else y :: insertSorted x ys

/-- `Series.drop_duplicates().sort_values()` -/
def sortDedup (xs : List Int) : List Int := xs.foldr insertSorted []

/-- `Series.max()` (`none` for an empty column) -/
def maxOf : List Int → Option Int
  | [] => none
  | x :: xs => some (xs.foldl max x)

/-! ### `Order0Interp` (one key group) -/

/-- `parameter_bins[p]["bins"]`: the ordered distinct left edges of parameter `p` -/
def leftEdges (rows : List Row) (p : Nat) : List Int := sortDedup (rows.map (·.start p))

/-- `parameter_bins[p]["max"]`: the largest right edge -/
def maxRight (rows : List Row) (p : Nat) : Option Int := maxOf (rows.map (·.stop p))

/-- `bins.loc[bin_indices]`: the left edge of the bin chosen for `x` -/
def chosenStart (rows : List Row) (p : Nat) (x : Int) : Option Int :=
  (leftEdges rows p)[binIndex (leftEdges rows p) x]?

/-- `interpolant_col.min() < bins[0] or interpolant_col.max() >= max_right`, for one interpolant -/
def outside (rows : List Row) (p : Nat) (x : Int) : Bool :=
  match (leftEdges rows p).head?, maxRight rows p with
  | some lo, some hi => decide (x < lo) || decide (hi ≤ x)
  | _, _ => false

/-- the extrapolation guard over the `np` parameter columns of one interpolant -/
def outsideAny (rows : List Row) (np : Nat) (xs : List Int) : Bool :=
  (List.range np).any fun p => match xs[p]? with | some x => outside rows p x | none => false

/-- `interpolant_bins.merge(self.data, how="left", on=<start columns>)` for one interpolant: the data
row whose left edges equal the chosen ones; `none` is the all-NaN row of a left merge without partner. -/
def leftMerge (rows : List Row) (chosen : List Int) : Option Row :=
  rows.find? fun r => r.starts == chosen

/-- the left edges chosen for the `np` parameter values `xs` (the columns of `interpolant_bins`) -/
def chosenStarts (rows : List Row) (np : Nat) (xs : List Int) : Option (List Int) :=
  (List.range np).mapM fun p => xs[p]?.bind (chosenStart rows p)

/-- `Order0Interp.__call__` for one interpolant with parameter values `xs` -/
def interpRow (rows : List Row) (np : Nat) (xs : List Int) : Option Row :=
  (chosenStarts rows np xs).bind (leftMerge rows)

def interpOne (rows : List Row) (np : Nat) (xs : List Int) : Option (List Int) :=
  (interpRow rows np xs).map (·.vals)

/-! ### validation (`check_data_complete`, per key group) -/

inductive Err
  | noData       -- "Must supply some data" / "You must supply non-empty data"
  | noColumns    -- "Must supply either key_columns or parameter_columns with a DataFrame"
  | incomplete   -- "You must provide a value for every combination of …"
  | overlap      -- "Parameter data must not contain overlaps"
  | gap          -- NotImplementedError "… non-continuous bins"
  | key          -- KeyError: no data for the key combination of a requested simulant
  | extrapolation -- "Extrapolation outside of bins … is only allowed when explicitly set"
  | shape        -- CategoricalTable: the rows matching a key do not broadcast over the simulants
  deriving DecidableEq, Repr

def insertPair (x : Int × Int) : List (Int × Int) → List (Int × Int)
  | [] => [x]
  | y :: ys => if x.1 < y.1 then x :: y :: ys else y :: insertPair x ys

/-- `table[[start, end]].sort_values(by=start)` -/
def sortByStart (xs : List (Int × Int)) : List (Int × Int) := xs.foldr insertPair []

/-- the loop `for i in range(1, len(start))` -/
def checkConsecutive : List (Int × Int) → Except Err Unit
  | a :: b :: rest =>
    if a.2 > b.1 || b.1 == a.1 then .error .overlap
    else if a.2 < b.1 then .error .gap
    else checkConsecutive (b :: rest)
  | _ => .ok ()

/-- the body of `check_data_complete` for parameter `p` of `np` -/
def checkParam (rows : List Row) (np p : Nat) : Except Err Unit :=
  let others := (List.range np).filter (· ≠ p)
  let otherStarts := fun (r : Row) => others.map r.start
  let nTotal := (rows.map (·.start p)).eraseDups.length
  (rows.map otherStarts).eraseDups.forM fun sk =>
    let tbl := sortByStart ((rows.filter fun r => otherStarts r == sk).map fun r => (r.start p, r.stop p))
    if (tbl.map (·.1)).eraseDups.length < nTotal then .error .incomplete
    else checkConsecutive tbl

def checkDataComplete (rows : List Row) (np : Nat) : Except Err Unit :=
  (List.range np).forM (checkParam rows np)

/-! ### tables -/

/-- an `InterpolatedTable` (`np > 0`) or `CategoricalTable` (`np = 0`) built from a DataFrame -/
structure Table where
  nk : Nat
  np : Nat
  rows : List Row
  extrapolate : Bool
  /-- position of a parameter called `year`, whose value comes from the clock -/
  yearAt : Option Nat := none
  deriving Repr

def groupRows (rows : List Row) (k : List String) : List Row := rows.filter (·.keys == k)

/-- `LookupTableManager._build_table` → `validate_build_table_parameters`, `Interpolation.__init__`
(`validate_parameters`, then one `Order0Interp` – hence one `check_data_complete` – per key group). -/
def build (nk np : Nat) (rows : List Row) (extrapolate : Bool) (yearAt : Option Nat) : Except Err Table := do
  if rows.isEmpty then throw .noData
  if nk = 0 ∧ np = 0 then throw .noColumns
  if np > 0 then
    (rows.map (·.keys)).eraseDups.forM fun k => checkDataComplete (groupRows rows k) np
  pure { nk, np, rows, extrapolate, yearAt }

/-- one requested simulant: index label, key attributes, parameter attributes. The request is a list of
labels with the attributes the state table holds for them; whether a simulant is tracked is NOT an
input: the tables read the population through views that include the `tracked` column (views that do
not filter), so untracked simulants in the request are looked up like everybody else. -/
structure Req where
  label : Nat
  keys  : List String
  xs    : List Int
  deriving DecidableEq, Repr

abbrev Cells := Option (List Int)      -- `none`: a row of NaN

/-- `result.loc[sub_table.index, cols] = df.loc[sub_table.index, cols]` -/
def scatter (res df : List (Nat × Cells)) : List (Nat × Cells) :=
  res.map fun (l, v) => match df.lookup l with | some w => (l, w) | none => (l, v)

/-- what stops `Interpolation.__call__` in the key group `k`: `self.interpolations[key]` (KeyError) or
the extrapolation guard of `Order0Interp.__call__` -/
def Table.groupCheck (t : Table) (req : List Req) (k : List String) : Option Err :=
  if (groupRows t.rows k).isEmpty then some .key
  else if !t.extrapolate && (req.filter (·.keys == k)).any (fun r => outsideAny (groupRows t.rows k) t.np r.xs)
  then some .extrapolation
  else none

/-- `df = self.interpolations[key](sub_table); result.loc[sub_table.index, cols] = df.loc[sub_table.index, cols]` -/
def Table.groupFill (t : Table) (req : List Req) (res : List (Nat × Cells)) (k : List String) : List (Nat × Cells) :=
  scatter res ((req.filter (·.keys == k)).map fun r => (r.label, interpOne (groupRows t.rows k) t.np r.xs))

/-- `Interpolation.__call__`: the groups of `interpolants.groupby(keys)`, one `Order0Interp.__call__`
each, results written back by label into a frame indexed like the request -/
def Table.interpolate (t : Table) (req : List Req) : Except Err (List (Nat × Cells)) :=
  (req.map (·.keys)).eraseDups.foldlM (fun res k =>
      match t.groupCheck req k with
      | some e => .error e
      | none => .ok (t.groupFill req res k))
    (req.map fun r => (r.label, none))

/-- `CategoricalTable.call`, one key group: `values = data.loc[mask, value_columns].values` must be
exactly one row, which numpy broadcasts over the group (no row: the assignment raises ValueError;
several rows for one key are not modelled – the generator never produces them). -/
def Table.catCheck (t : Table) (k : List String) : Option Err :=
  match groupRows t.rows k with
  | [_] => none
  | _ => some .shape

def Table.catFill (t : Table) (req : List Req) (res : List (Nat × Cells)) (k : List String) : List (Nat × Cells) :=
  scatter res ((req.filter (·.keys == k)).map fun r => (r.label, ((groupRows t.rows k).head?).map (·.vals)))

def Table.categorical (t : Table) (req : List Req) : Except Err (List (Nat × Cells)) :=
  (req.map (·.keys)).eraseDups.foldlM (fun res k =>
      match t.catCheck k with
      | some e => .error e
      | none => .ok (t.catFill req res k))
    (req.map fun r => (r.label, none))

/-- `current_time.year + current_time.timetuple().tm_yday / 365.25`, times 5844 -/
def yearParam (year yday : Nat) : Int := (year : Int) * 5844 + 16 * yday

/-- `pop["year"] = fractional_year` -/
def setYear (yearAt : Option Nat) (y : Int) (r : Req) : Req :=
  match yearAt with
  | none => r
  | some p => { r with xs := r.xs.set p y }

/-- `LookupTable.call` of a table built from a DataFrame, with the clock at (`year`, `yday`) -/
def Table.call (t : Table) (year yday : Nat) (req : List Req) : Except Err (List (Nat × Cells)) :=
  if t.np = 0 then t.categorical req
  else t.interpolate (req.map (setYear t.yearAt (yearParam year yday)))

/-- `ScalarTable.call`: the value (or one column per value) broadcast over the index -/
def scalarCall (values : List Int) (index : List Nat) : List (Nat × List Int) :=
  index.map fun i => (i, values)

/-! ### the specification side: what well-formed binned data is -/

/-- all bin edges of parameter `p`: the left edges followed by the largest right edge -/
def edges (rows : List Row) (p : Nat) : List Int :=
  match maxRight rows p with
  | some hi => leftEdges rows p ++ [hi]
  | none => []

def strictlySorted : List Int → Bool
  | a :: b :: rest => decide (a < b) && strictlySorted (b :: rest)
  | _ => true

/-- row `r` occupies, for parameter `p`, a bin between two consecutive edges -/
def rowOnGrid (E : List Int) (s e : Int) : Bool :=
  (List.range (E.length - 1)).any fun i => E[i]? == some s && E[i + 1]? == some e

def cartesian : List (List Int) → List (List Int)
  | [] => [[]]
  | xs :: rest => xs.flatMap fun x => (cartesian rest).map (x :: ·)

/-- well-formed binned data for one key group, decidable: every parameter has strictly increasing
edges; every row has `np` bins, each between two consecutive edges (contiguous bins, no gaps, no
overlaps, common range); every combination of bins has a row (complete cartesian grid), and only one. -/
def wellFormed (rows : List Row) (np : Nat) : Bool :=
  !rows.isEmpty && decide (0 < np) &&
  (List.range np).all (fun p => strictlySorted (edges rows p)) &&
  rows.all (fun r => r.starts.length == np && r.ends.length == np &&
    (List.range np).all fun p => rowOnGrid (edges rows p) (r.start p) (r.stop p)) &&
  (cartesian ((List.range np).map (leftEdges rows))).all (fun ss => rows.any (·.starts == ss)) &&
  decide ((rows.map (·.starts)).Nodup)

/-- every key group of a table is well-formed -/
def Table.wellFormed (t : Table) : Bool :=
  (t.rows.map (·.keys)).eraseDups.all fun k => Viv.Lookup.wellFormed (groupRows t.rows k) t.np

end Viv.Lookup
