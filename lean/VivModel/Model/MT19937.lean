/-! The Mersenne twister behind numpy's legacy `np.random.RandomState(seed=<int>).random_sample(n)`
(numpy 1.26: `numpy/random/mtrand.pyx::_legacy_seeding` → `mt19937_seed` for an integer seed – NOT
`init_by_array` –, `numpy/random/src/mt19937/mt19937.c::mt19937_gen`, `mt19937.h::mt19937_next`,
`mt19937_next_double`), as used by `RandomnessStream.get_draw`:

    random_state = np.random.RandomState(seed=seed)
    raw_draws = random_state.random_sample(sample_size)

32-bit words are `Nat`s; the places where C arithmetic wraps carry an explicit `% 2^32` (the multiplication
and addition of the seeding recurrence). Left shifts of the tempering are followed by a mask below 2^32, so
they need none. `Props/C02Bits.lean` proves that every word of every reachable state and every output stays
below 2^32 (`seed_wf`, `nextU32_lt`), hence every double numerator below 2^53 (`numerator_lt`).

A double is represented by its numerator over 2^53:
`((a >> 5) * 67108864.0 + (b >> 6)) / 9007199254740992.0` with `a`, `b` two consecutive 32-bit outputs
(exact in binary64: the numerator has at most 53 bits). -/
namespace Viv.MT19937

def N : Nat := 624
def M : Nat := 397
/-- 2^32 -/
def W : Nat := 4294967296
def matrixA : Nat := 0x9908b0df
def upperMask : Nat := 0x80000000
def lowerMask : Nat := 0x7fffffff

/-- generator state: `key[624]`, `pos` -/
structure State where
  key : Array Nat
  pos : Nat

/-- one step of the seeding recurrence (Knuth):
`seed = (1812433253UL * (seed ^ (seed >> 30)) + pos + 1) & 0xffffffffUL` -/
def seedNext (prev pos : Nat) : Nat := (1812433253 * (prev ^^^ (prev >>> 30)) + pos + 1) % W

/-- the loop of `mt19937_seed`: `key[pos] = seed; seed = …` for `pos = i, i+1, …` (`fuel` iterations) -/
def seedLoop : Nat → Nat → Nat → Array Nat → Array Nat
  | 0, _, _, key => key
  | fuel + 1, pos, s, key => seedLoop fuel (pos + 1) (seedNext s pos) (key.push s)

/-- `mt19937_seed(state, seed)` = `init_genrand`: `seed &= 0xffffffffUL`, the 624 words, `pos = 624`
(the first output regenerates the block). -/
def seed (s : Nat) : State := ⟨seedLoop N 0 (s % W) (Array.emptyWithCapacity N), N⟩

/-- `y = (key[i] & UPPER_MASK) | (key[i+1] & LOWER_MASK); src ^ (y >> 1) ^ (-(y & 1) & MATRIX_A)` -/
def twistWord (a b src : Nat) : Nat :=
  let y := (a &&& upperMask) ||| (b &&& lowerMask)
  src ^^^ (y >>> 1) ^^^ (if y % 2 = 1 then matrixA else 0)

/-- the in-place loops of `mt19937_gen` from index `i` on. The C code has three pieces
(`i < N-M`: `key[i+M]`; `i < N-1`: `key[i+(M-N)]`; last: `key[0]`, `key[M-1]`) – they are
`key[(i+1) % N]` and `key[(i+M) % N]` throughout. -/
def genLoop : Nat → Nat → Array Nat → Array Nat
  | 0, _, key => key
  | fuel + 1, i, key =>
    genLoop fuel (i + 1) (key.set! i (twistWord key[i]! key[(i + 1) % N]! key[(i + M) % N]!))

/-- `mt19937_gen`: the next 624 words, in place -/
def gen (key : Array Nat) : Array Nat := genLoop N 0 key

/-- tempering of `mt19937_next` -/
def temper (y : Nat) : Nat :=
  let y := y ^^^ (y >>> 11)
  let y := y ^^^ ((y <<< 7) &&& 0x9d2c5680)
  let y := y ^^^ ((y <<< 15) &&& 0xefc60000)
  y ^^^ (y >>> 18)

/-- `mt19937_next` (`genrand_int32`): regenerate when the block is used up, temper `key[pos++]` -/
def nextU32 (s : State) : Nat × State :=
  let s := if s.pos ≥ N then { key := gen s.key, pos := 0 } else s
  (temper s.key[s.pos]!, { s with pos := s.pos + 1 })

/-- numerator over 2^53 of the double built from two consecutive outputs -/
def doubleNum (a b : Nat) : Nat := (a >>> 5) * 67108864 + (b >>> 6)

/-- `mt19937_next_double`: `a = next >> 5, b = next >> 6; (a * 67108864.0 + b) / 9007199254740992.0` -/
def nextDouble (s : State) : Nat × State :=
  let (a, s) := nextU32 s
  let (b, s) := nextU32 s
  (doubleNum a b, s)

/-- the fill loop of `random_sample(size)`: `size` doubles, in order -/
def sampleLoop : Nat → State → Array Nat → Array Nat
  | 0, _, out => out
  | n + 1, s, out =>
    let (d, s) := nextDouble s
    sampleLoop n s (out.push d)

/-- the first `n` 32-bit outputs (`genrand_int32`) -/
def outputs : Nat → State → List Nat
  | 0, _ => []
  | n + 1, s => let (x, s) := nextU32 s; x :: outputs n s

/-- numerators over 2^53 of `np.random.RandomState(seed=seed).random_sample(size)` -/
def block (sd size : Nat) : Array Nat := sampleLoop size (seed sd) (Array.emptyWithCapacity size)

/-- `RandomState(seed).random_sample(size)[pos] * 2^53`; positions outside the block have no value in numpy
(`IndexError`) – the stream model never asks for them (`getDraw` is guarded by the position lookup), here 0. -/
def numerator (sd size pos : Nat) : Nat := (block sd size)[pos]?.getD 0

end Viv.MT19937
