/-! State machines (C17) — model of `src/vivarium/framework/state_machine.py` (with the inverse-CDF
decision of `randomness/stream.py` `_choice`). Core Lean only.

Simulants are labels `0 … N-1` (positions of the state table). Probabilities are numerators over the
machine's common weight denominator `wd` (probability 1 ⇔ weight `wd`); draws are numerators over `dd`
(a draw lies in [0,1) ⇔ `d < dd`). Draws are INPUTS: `draws` of a state is what
`transition_set.random.get_draw(index)` returns for each simulant at the current clock time (one stream
per transition set, additional key `None` – exactly what `choose_new_state` → `random.choice` uses).

Two descriptions are given and related by the theorems of `Props/C17.lean`:
* the VECTORISED one, which follows the code statement by statement (`transition`: split the index by
  current state once → per state `nextState`: probability matrix → `normalizeAll` → `choiceIdx` per row →
  group by decided output → write → transient outputs transition again), and
* the POINTWISE one (`hop`, `moveOne`): what happens to ONE simulant, as a function of its own weights
  and its own draws only. -/
namespace Viv.Machine

inductive Err
  | multipleDefaults      -- "Multiple transitions specified with probability 1."
  | unnormalised          -- "Null transition requested with un-normalized probability weights"
  | noValidTransition     -- "No valid transitions for some simulants."
  | loop                  -- fuel exhausted (a cycle of transient states; RecursionError in Python)
  | unknownSimulant       -- label not in the state table (KeyError from `population_view.get`)
  | notTriggered          -- `set_active` / `set_inactive` on a transition that is not triggered
  deriving DecidableEq, Repr

/-- `Transition`: output state (position in `Mach.states`), the probability function tabulated per
simulant label, and `_active_index` (`none` = `Trigger.NOT_TRIGGERED`). -/
structure Trans where
  out : Nat
  w : List Nat
  active : Option (List Nat) := none
  deriving Repr, DecidableEq

/-- `State` with its `TransitionSet`: `allow_null_transition`, `isinstance(·, Transient)`, the transitions
in declaration order, and the draws of the transition set's stream per simulant label. -/
structure StateDef where
  selfOk : Bool := false
  transient : Bool := false
  trans : List Trans := []
  draws : List Nat := []
  deriving Repr

structure Mach where
  wd : Nat := 16
  dd : Nat := 9007199254740992
  states : List StateDef := []
  deriving Repr

/-- one row of the state table: the machine's state column, (a digest of) every other column, and the
`tracked` column -/
structure Row where
  st : Nat
  other : Int
  tracked : Bool := true
  deriving DecidableEq, Repr

/-- what the machine's population view (columns `[state_column]`, hence filtered by `tracked == True`)
shows of a row: the state of a TRACKED simulant, nothing of an untracked one -/
def Row.seen (r : Row) : Option Nat := if r.tracked then some r.st else none

abbrev Table := List Row

def Mach.state (m : Mach) (s : Nat) : StateDef := m.states.getD s {}

/-! ### `Transition.probability` -/

/-- probability of transition `t` for simulant `i`: its own table entry, or 0 outside the active index -/
def prob (t : Trans) (i : Nat) : Nat :=
  match t.active with
  | none => t.w.getD i 0
  | some a => if a.contains i then t.w.getD i 0 else 0

/-- `Transition.probability(index)` as written: `_probability(active ∩ index)` and zeros for
`index − active`, concatenated and `reindex`ed to `index` (a label lookup; labels never found → 0 cannot
happen since every label of `index` is in exactly one part). -/
def probability (t : Trans) (index : List Nat) : List Nat :=
  match t.active with
  | none => index.map (fun i => t.w.getD i 0)
  | some a =>
    let activated := (index.filter (fun i => a.contains i)).map (fun i => (i, t.w.getD i 0))
    let null := (index.filter (fun i => !a.contains i)).map (fun i => (i, 0))
    index.map (fun i => ((activated ++ null).lookup i).getD 0)

/-- `Transition.set_active`: union with the active index -/
def Trans.setActive (t : Trans) (idx : List Nat) : Except Err Trans :=
  match t.active with
  | none => .error .notTriggered
  | some a => .ok { t with active := some (a ++ idx.filter (fun i => !a.contains i)) }

/-- `Transition.set_inactive`: difference -/
def Trans.setInactive (t : Trans) (idx : List Nat) : Except Err Trans :=
  match t.active with
  | none => .error .notTriggered
  | some a => .ok { t with active := some (a.filter (fun i => !idx.contains i)) }

/-- a history of trigger calls on one transition, oldest first: `(true, S)` = `set_active(S)`,
`(false, S)` = `set_inactive(S)`. The active index is a function of this history and of nothing else – in
particular not of the indexes `probability` was evaluated on in between (the code keeps no such memory). -/
def activeAfter (a : List Nat) : List (Bool × List Nat) → List Nat
  | [] => a
  | (true, s) :: ops => activeAfter (a ++ s.filter (fun i => !a.contains i)) ops
  | (false, s) :: ops => activeAfter (a.filter (fun i => !s.contains i)) ops

/-! ### `_choice`: inverse CDF -/

/-- `np.cumsum` (running total starting from `a`) -/
def cumsumFrom (a : Nat) : List Nat → List Nat
  | [] => []
  | w :: ws => (a + w) :: cumsumFrom (a + w) ws

/-- `(draw > p_bins).sum()` with `p = row / row.sum`, `draw = d / dd`: the number of cumulative bins
strictly below the draw; bin `c / W < d / dd ⇔ c * dd < d * W`. -/
def choiceIdx (row : List Nat) (d dd : Nat) : Nat :=
  ((cumsumFrom 0 row).filter (fun c => decide (c * dd < d * row.sum))).length

/-! ### `TransitionSet._normalize_probabilities` -/

/-- number of entries equal to probability 1 -/
def ones (wd : Nat) (r : List Nat) : Nat := (r.filter (· == wd)).length

/-- what a row becomes when it is accepted: weights stay integers, the rescaling `/= total` is implicit in
`choiceIdx` (which divides by the row sum); with a null transition the residual `1 - total` is appended
(0 for a row rescaled because it holds a probability-1 entry). -/
def normRow (wd : Nat) (selfOk : Bool) (r : List Nat) : List Nat :=
  if selfOk then (if ones wd r == 1 then r ++ [0] else r ++ [wd - r.sum]) else r

/-- one row: what is rejected -/
def normalize (wd : Nat) (selfOk : Bool) (r : List Nat) : Except Err (List Nat) :=
  if 1 < ones wd r then .error .multipleDefaults
  else if selfOk then
    if ones wd r == 0 && decide (wd < r.sum) then .error .unnormalised else .ok (normRow wd selfOk r)
  else
    if r.sum == 0 then .error .noValidTransition else .ok (normRow wd selfOk r)

/-- the whole matrix, in the order of the code: `np.any(default_transition_count > 1)` first, then the
`np.any(total > 1)` / `np.any(total == 0)` test – one bad row rejects the call for everybody. -/
def normalizeAll (wd : Nat) (selfOk : Bool) (rows : List (List Nat)) : Except Err (List (List Nat)) :=
  if rows.any (fun r => decide (1 < ones wd r)) then .error .multipleDefaults
  else if selfOk then
    if rows.any (fun r => ones wd r == 0 && decide (wd < r.sum)) then .error .unnormalised
    else .ok (rows.map (normRow wd selfOk))
  else
    if rows.any (fun r => r.sum == 0) then .error .noValidTransition
    else .ok (rows.map (normRow wd selfOk))

/-! ### vectorised: `choose_new_state`, `_groupby_new_state`, `_next_state`, `Machine.transition` -/

/-- `np.transpose([np.array(t.probability(index)) for t in transitions])`: one row per simulant of the
index (positional!), one column per transition -/
def matrix (trs : List Trans) (index : List Nat) : List (List Nat) :=
  let cols := trs.map (fun t => probability t index)
  (List.range index.length).map (fun k => cols.map (fun c => c.getD k 0))

/-- `random.choice(index, outputs, probabilities)`: decision per position of the index -/
def decisions (sd : StateDef) (dd : Nat) (rows : List (List Nat)) (index : List Nat) : List Nat :=
  List.zipWith (fun r i => choiceIdx r (sd.draws.getD i 0) dd) rows index

/-- `_groupby_new_state`: the sub-index decided for output number `k` -/
def group (index dec : List Nat) (k : Nat) : List Nat :=
  ((index.zip dec).filter (fun p => p.2 == k)).map (·.1)

/-- `population_view.update(pd.Series(state_id, index=grp))` on the state-column sub-view -/
def setSt (tab : Table) (grp : List Nat) (s : Nat) : Table :=
  tab.mapIdx (fun i r => if grp.contains i then { r with st := s } else r)

/-- the loop over the groups of `_next_state` (the null-transition group has no entry here: `pass`);
`again` is `output.next_state` for transient outputs. -/
def applyGroups (isTransient : Nat → Bool) (again : Nat → List Nat → Table → Except Err Table)
    (index dec : List Nat) : List (Nat × Trans) → Table → Except Err Table
  | [], tab => .ok tab
  | (k, t) :: rest, tab =>
    let grp := group index dec k
    let tab1 := setSt tab grp t.out                        -- transition_effect
    match (if isTransient t.out then again t.out grp tab1 else .ok tab1) with
    | .error e => .error e
    | .ok tab2 => applyGroups isTransient again index dec rest tab2

/-- `_next_state(index, event_time, transition_set, population_view)` for state `s` -/
def nextState (m : Mach) : Nat → Nat → List Nat → Table → Except Err Table
  | fuel, s, index, tab =>
    let sd := m.state s
    if sd.trans.isEmpty || index.isEmpty then .ok tab else
    match fuel with
    | 0 => .error .loop
    | fuel + 1 =>
      match normalizeAll m.wd sd.selfOk (matrix sd.trans index) with
      | .error e => .error e
      | .ok rows =>
        applyGroups (fun o => (m.state o).transient) (nextState m fuel) index
          (decisions sd m.dd rows index) ((List.range sd.trans.length).zip sd.trans) tab

/-- `Machine._get_state_pops`: the index split by CURRENT state, computed once from the table as it is
before any transition (`population_view.get(index)` drops untracked simulants). A simulant whose state is
none of the machine's states, or that is untracked, is in no part. -/
def statePops (m : Mach) (tab : Table) (idx : List Nat) : List (Nat × List Nat) :=
  (List.range m.states.length).map (fun s => (s, idx.filter (fun i => (tab[i]?.bind Row.seen) == some s)))

/-- `Machine.cleanup(index, event_time)`: which `state.cleanup_effect(sub_index)` calls are made -/
def cleanupCalls (m : Mach) (tab : Table) (idx : List Nat) : Except Err (List (Nat × List Nat)) :=
  if idx.any (fun i => decide (tab.length ≤ i)) then .error .unknownSimulant
  else .ok ((statePops m tab idx).filter (fun p => !p.2.isEmpty))

def runPops (m : Mach) (fuel : Nat) : List (Nat × List Nat) → Table → Except Err Table
  | [], tab => .ok tab
  | (s, pop) :: rest, tab =>
    match nextState m fuel s pop tab with
    | .error e => .error e
    | .ok tab1 => runPops m fuel rest tab1

/-- `Machine.transition(index, event_time)` -/
def transition (m : Mach) (fuel : Nat) (tab : Table) (idx : List Nat) : Except Err Table :=
  if idx.any (fun i => decide (tab.length ≤ i)) then .error .unknownSimulant
  else runPops m fuel (statePops m tab idx) tab

/-! ### pointwise: one simulant -/

/-- the weight row of simulant `i` in a transition set -/
def rowOf (trs : List Trans) (i : Nat) : List Nat := trs.map (fun t => prob t i)

/-- decision of simulant `i` processed in state `s`: position in `transitions ++ [null]` -/
def hop (m : Mach) (s i : Nat) : Except Err Nat :=
  let sd := m.state s
  match normalize m.wd sd.selfOk (rowOf sd.trans i) with
  | .error e => .error e
  | .ok r => .ok (choiceIdx r (sd.draws.getD i 0) m.dd)

/-- the states simulant `i` enters, in order, when it is processed as an `s` (all but the last are
transient; `[]` = it stays) -/
def moveOne (m : Mach) : Nat → Nat → Nat → Except Err (List Nat)
  | fuel, s, i =>
    let sd := m.state s
    if sd.trans.isEmpty then .ok [] else
    match fuel with
    | 0 => .error .loop
    | fuel + 1 =>
      match hop m s i with
      | .error e => .error e
      | .ok k =>
        match sd.trans[k]? with
        | none => .ok []
        | some t =>
          if (m.state t.out).transient then
            match moveOne m fuel t.out i with
            | .error e => .error e
            | .ok p => .ok (t.out :: p)
          else .ok [t.out]

/-- where a simulant that started in `s` and entered `path` is -/
def final (s : Nat) (path : List Nat) : Nat := path.getLast?.getD s

/-- exact distance test used by the harness to skip float-rounding-sensitive decisions: some cumulative
bin of the accepted row is closer than `2^-40` to the draw (never true in practice; counted). -/
def nearEdge (row : List Nat) (d dd : Nat) : Bool :=
  (cumsumFrom 0 row).any (fun c =>
    let a := c * dd
    let b := d * row.sum
    decide ((if a < b then b - a else a - b) * 1099511627776 < row.sum * dd))

end Viv.Machine
