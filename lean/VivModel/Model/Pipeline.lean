/-! Value pipelines (`vivarium/framework/values.py`, `utilities.py` `from_yearly`) — executable model.
Core Lean only.

User callables (sources, modifiers, post-processors) are arbitrary functions *with effects*: they live
in an arbitrary monad `m`, so that "called exactly once, in this order" is a statement about the
sequencing of those effects (instantiated with a logging state monad in `Props/C14.lean` and in the
driver), not about book-keeping added by the model. -/
namespace Viv.Pipeline

inductive Err
  | noSource    -- `DynamicValueError`: "The dynamic value pipeline for … has no source"
  | dupSource   -- `DynamicValueError`: "A second component is attempting to set the source …"
  deriving DecidableEq, Repr

/-- what `ValuesManager._register_value_producer` sets in one go: `source`, `combiner`,
`post_processor` (the post-processor's second argument, the manager, is closed over). -/
structure Config (m : Type → Type) (A V M : Type) where
  source   : A → m V
  /-- `combiner(value, mutator, *args, **kwargs)` -/
  combiner : V → M → A → m V
  post     : Option (V → m V) := none

/-- `Pipeline`: created lazily (by `register_value_modifier` / `get_value`) with an empty mutator list
and nothing else; configured when its source is registered. -/
structure Pipeline (m : Type → Type) (A V M : Type) where
  mutators : List M := []
  cfg      : Option (Config m A V M) := none

variable {m : Type → Type} {A V M : Type}

/-- `Pipeline.__call__` / `Pipeline._call`:
```
if not self.source: raise DynamicValueError
value = self.source(*args, **kwargs)
for mutator in self.mutators: value = self.combiner(value, mutator, *args, **kwargs)
if self.post_processor and not skip_post_processor: return self.post_processor(value, self.manager)
return value
``` -/
def Pipeline.call [Monad m] (p : Pipeline m A V M) (args : A) (skipPost : Bool) : Except Err (m V) :=
  match p.cfg with
  | none => .error .noSource
  | some c => .ok do
    let v ← c.source args
    let v ← p.mutators.foldlM (fun v mu => c.combiner v mu args) v
    match c.post, skipPost with
    | some post, false => post v
    | _, _ => pure v

/-- `replace_combiner`: `mutator(*args, value, **kwargs)` – the previous stage's output is the last
positional argument. -/
def replaceCombiner : V → (A → V → m V) → A → m V := fun v mu a => mu a v

/-- `list_combiner`: `value.append(mutator(*args, **kwargs)); return value`. -/
def listCombiner [Monad m] {C : Type} : List C → (A → m C) → A → m (List C) :=
  fun v mu a => do let c ← mu a; pure (v ++ [c])

/-! ### `ValuesManager` -/

/-- `ValuesManager._pipelines` (a `defaultdict(Pipeline)`), as an association list in creation order -/
structure Manager (m : Type → Type) (A V M : Type) where
  pipes : List (String × Pipeline m A V M) := []

/-- `self._pipelines[name]` read: a pipeline that was never mentioned is the empty pipeline -/
def Manager.getValue (g : Manager m A V M) (name : String) : Pipeline m A V M :=
  (g.pipes.lookup name).getD {}

def setPipe (name : String) (p : Pipeline m A V M) :
    List (String × Pipeline m A V M) → List (String × Pipeline m A V M)
  | [] => [(name, p)]
  | (n, q) :: rest => if name == n then (n, p) :: rest else (n, q) :: setPipe name p rest

/-- `register_value_modifier`: `pipeline = self._pipelines[value_name]; pipeline.mutators.append(modifier)` -/
def Manager.registerModifier (g : Manager m A V M) (name : String) (mu : M) : Manager m A V M :=
  { pipes := setPipe name { g.getValue name with mutators := (g.getValue name).mutators ++ [mu] } g.pipes }

/-- `_register_value_producer`: `if pipeline.source: raise DynamicValueError`; otherwise source,
combiner and post-processor are set; the mutators registered so far are kept. -/
def Manager.registerProducer (g : Manager m A V M) (name : String) (c : Config m A V M) :
    Except Err (Manager m A V M) :=
  if (g.getValue name).cfg.isSome then .error .dupSource
  else .ok { pipes := setPipe name { g.getValue name with cfg := some c } g.pipes }

/-- a registration call made by some component during setup -/
inductive Op (m : Type → Type) (A V M : Type)
  | modifier (component name : String) (mu : M)
  | producer (component name : String) (c : Config m A V M)

/-- one registration; a rejected call leaves the manager as it was (the exception is raised before
anything is assigned). Returns the manager and whether the call was accepted. -/
def Manager.apply (g : Manager m A V M) : Op m A V M → Manager m A V M × Bool
  | .modifier _ n mu => (g.registerModifier n mu, true)
  | .producer _ n c =>
    match g.registerProducer n c with
    | .ok g' => (g', true)
    | .error _ => (g, false)

def Manager.run (g : Manager m A V M) : List (Op m A V M) → Manager m A V M × List Bool
  | [] => (g, [])
  | op :: ops =>
    let (g', ok) := g.apply op
    let (g'', oks) := Manager.run g' ops
    (g'', ok :: oks)

/-! ### Numeric values and the two shipped post-processors -/

/-- a `pd.Series` over a simulant index: (label, value) in index order -/
abbrev Series := List (Nat × Rat)

/-- seconds in the year `from_yearly` / `rescale_post_processor` divide by: `60 * 60 * 24 * 365.0` -/
def yearSeconds : Rat := 60 * 60 * 24 * 365

/-- what `rescale_post_processor` reads from the manager, in seconds -/
structure Steps where
  /-- `manager.step_size()` – the global clock step -/
  global : Rat
  /-- the `step_size` column of the state table (`SimulationClock.simulant_step_sizes` without
  per-simulant clocks: the global step for everybody). Total over simulant labels: the code reads it
  through `subview(["step_size", "tracked"])`, a view that does NOT filter on `tracked`, so untracked
  simulants in the requested index have their step like everybody else. -/
  sim : Nat → Rat

/-- `manager.simulant_step_sizes(index)`: a Series over the requested index, in request order -/
def Steps.simulantStepSizes (s : Steps) (idx : List Nat) : Series := idx.map fun i => (i, s.sim i)

/-- `Series.mul(other, axis=0)`: multiplication aligned on index labels; `none` when a label of the
left operand has no partner (pandas would produce NaN there). -/
def mulAligned (v w : Series) : Option Series :=
  v.mapM fun (i, x) => (w.lookup i).map fun y => (i, x * y)

/-- a `pd.DataFrame` indexed by simulant: its columns, each a label-aligned Series over the same index -/
abbrev Frame := List (String × Series)

/-- the numeric Python values the probes produce: a number, a `pd.Series`, a `pd.DataFrame` (several
values per simulant) or a `np.ndarray` (no index) -/
inductive Item
  | sc (x : Rat)
  | se (s : Series)
  | fr (cols : Frame)
  | arr (xs : List Rat)
  deriving DecidableEq, Repr

/-- `utilities.from_yearly`: `value * (time_step.total_seconds() / (60 * 60 * 24 * 365.0))` -/
def fromYearly (x step : Rat) : Rat := x * (step / yearSeconds)

/-- `hasattr(value, "index")`: true of a Series and of a DataFrame (and of a Python list or tuple,
whose `index` is a method – those have no `mul` and the call raises AttributeError; see the driver),
false of numbers and of numpy arrays -/
def Item.hasIndexAttr : Item → Bool
  | .sc _ => false
  | .se _ => true
  | .fr _ => true
  | .arr _ => false

/-- `DataFrame.index` (every column carries it) -/
def frameIndex (cols : Frame) : List Nat := (cols.head?.map fun c => c.2.map (·.1)).getD []

/-- the per-simulant factors `manager.simulant_step_sizes(index).dt.total_seconds() / (60*60*24*365.0)` -/
def Steps.factors (st : Steps) (index : List Nat) : Series :=
  (st.simulantStepSizes index).map fun (i, s) => (i, s / yearSeconds)

/-- `rescale_post_processor`:
```
if hasattr(value, "index"):
    return value.mul(manager.simulant_step_sizes(value.index).dt.total_seconds() / (60*60*24*365.0), axis=0)
else:
    return from_yearly(value, manager.step_size())
```
`mul(…, axis=0)` multiplies every column of a DataFrame by the factor with the row's label. -/
def rescale (st : Steps) : Item → Option Item
  | .sc x => some (.sc (fromYearly x st.global))
  | .arr xs => some (.arr (xs.map fun x => fromYearly x st.global))
  | .se v => (mulAligned v (st.factors (v.map (·.1)))).map .se
  | .fr cols =>
    (cols.mapM fun (c : String × Series) => (mulAligned c.2 (st.factors (frameIndex cols))).map fun s => (c.1, s)).map .fr

/-- `union_post_processor` on numbers:
```
if len(values) == 1: return values[0]
product = 1
for v in values: product = product * (1 - v)
return 1 - product
``` -/
def union : List Rat → Rat
  | [p] => p
  | ps => 1 - ps.foldl (fun acc p => acc * (1 - p)) 1

def Item.oneMinus : Item → Item
  | .sc x => .sc (1 - x)
  | .se s => .se (s.map fun (i, x) => (i, 1 - x))
  | .fr cols => .fr (cols.map fun (c : String × Series) => (c.1, c.2.map fun (i, x) => (i, 1 - x)))
  | .arr xs => .arr (xs.map fun x => 1 - x)

/-- `product * new_value` with pandas broadcasting; two Series (two DataFrames) must carry the same
index (and columns) – they do: every contribution is computed for the index the pipeline was called
with. Mixed Series / DataFrame / array products are not modelled (`none`). -/
def Item.mul : Item → Item → Option Item
  | .sc x, .sc y => some (.sc (x * y))
  | .sc x, .se s => some (.se (s.map fun (i, y) => (i, x * y)))
  | .se s, .sc y => some (.se (s.map fun (i, x) => (i, x * y)))
  | .se s, .se t =>
    if s.map (·.1) = t.map (·.1) then some (.se ((s.zip t).map fun (a, b) => (a.1, a.2 * b.2))) else none
  | .sc x, .fr cs => some (.fr (cs.map fun (c : String × Series) => (c.1, c.2.map fun (i, y) => (i, x * y))))
  | .fr cs, .sc y => some (.fr (cs.map fun (c : String × Series) => (c.1, c.2.map fun (i, x) => (i, x * y))))
  | .fr cs, .fr ds =>
    if cs.map (fun (c : String × Series) => (c.1, c.2.map (·.1))) = ds.map (fun (c : String × Series) => (c.1, c.2.map (·.1))) then
      some (.fr ((cs.zip ds).map fun (c, d) => (c.1, (c.2.zip d.2).map fun (a, b) => (a.1, a.2 * b.2))))
    else none
  | .sc x, .arr ys => some (.arr (ys.map fun y => x * y))
  | .arr xs, .sc y => some (.arr (xs.map fun x => x * y))
  | .arr xs, .arr ys => if xs.length = ys.length then some (.arr ((xs.zip ys).map fun (a, b) => a * b)) else none
  | _, _ => none

/-- `union_post_processor` on numbers / Series -/
def unionItems : List Item → Option Item
  | [v] => some v
  | vs => (vs.foldlM (fun (acc : Item) v => acc.mul v.oneMinus) (Item.sc 1)).map Item.oneMinus

end Viv.Pipeline
