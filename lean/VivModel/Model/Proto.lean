/-! Line-protocol helpers shared by every driver (core Lean only).

One operation per line, space-separated tokens. Lists are comma-separated, `-` is the empty list;
lists of lists use `;` between the inner lists. Strings are restricted by the harness to
`[A-Za-z0-9_.:]`, so no escaping is needed. A line `begin …` resets the sub-model state. -/
namespace Viv.Proto

def toks (line : String) : List String :=
  (line.trimAscii.toString.splitOn " ").filter (· ≠ "")

def strList (s : String) : List String := if s = "-" then [] else s.splitOn ","

def natList (s : String) : Option (List Nat) := (strList s).mapM String.toNat?

def intList (s : String) : Option (List Int) := (strList s).mapM String.toInt?

def strLists (s : String) : List (List String) :=
  if s = "-" then [] else (s.splitOn ";").map strList

def natLists (s : String) : Option (List (List Nat)) :=
  if s = "-" then some [] else (s.splitOn ";").mapM natList

def intLists (s : String) : Option (List (List Int)) :=
  if s = "-" then some [] else (s.splitOn ";").mapM intList

def showStrs (xs : List String) : String := if xs.isEmpty then "-" else ",".intercalate xs

def showNats (xs : List Nat) : String := showStrs (xs.map toString)

def showInts (xs : List Int) : String := showStrs (xs.map toString)

def showStrss (xs : List (List String)) : String :=
  if xs.isEmpty then "-" else ";".intercalate (xs.map showStrs)

def bool? (s : String) : Option Bool :=
  if s = "1" ∨ s = "true" ∨ s = "T" then some true
  else if s = "0" ∨ s = "false" ∨ s = "F" then some false else none

def showBool (b : Bool) : String := if b then "1" else "0"

/-- Generic read-eval-print loop: `step` maps a state and a tokenised line to a new state and one
reply line; `begin` resets to `init`. -/
partial def loop {σ : Type} (h : IO.FS.Stream) (out : IO.FS.Stream) (init : σ)
    (step : σ → List String → σ × String) (s : σ) : IO Unit := do
  let line ← h.getLine
  if line.isEmpty then
    out.flush
    return ()
  let ts := toks line
  match ts with
  | "begin" :: _ =>
    out.putStrLn "begin"
    loop h out init step init
  | _ =>
    let (s', r) := step s ts
    out.putStrLn r
    loop h out init step s'

def run {σ : Type} (init : σ) (step : σ → List String → σ × String) : IO Unit := do
  loop (← IO.getStdin) (← IO.getStdout) init step init

end Viv.Proto
