/-! A deep embedding of the Python subset in which the small control-flow functions of vivarium are
written (`Pipeline._call`, `EventChannel.emit`, `LifeCycleManager.set_state`, `Artifact.write` …), and its
evaluator.

`vcheck/py2lean.py` dumps the `ast` of the listed functions of the tree under test into
`Gen/Src.lean` as DATA of the types below on every run (docstrings, annotations and exception messages
dropped; nothing else normalised). The theorems of `Props/Src*.lean` prove, for every input, that evaluating
that data in a `World` describing the objects involved gives exactly what the hand-written model function
gives. The meaning of an edit to one of those functions is therefore re-checked against the model on every
run, semantically: a rename of a local, an extra `list(...)` around an iterable or a different message still
evaluate to the same thing, a reversed loop or a dropped guard do not.

Core Lean only. The evaluator is generic in the monad `m` (effects of user callables, attribute writes and
exceptions live there) and in the value type `V`; everything Python leaves to the objects involved
(attribute access, calls, truthiness, comparison, iteration) is a field of `World`. -/
namespace Viv.Py

inductive Expr where
  /-- a local variable (a parameter or a name assigned somewhere in the function) -/
  | name (n : String)
  /-- any other name: a module-level function, class, module or builtin (Python's scoping is static) -/
  | glob (n : String)
  | attr (e : Expr) (a : String)
  | noneE
  | boolE (b : Bool)
  | intE (i : Int)
  | strE (s : String)
  /-- `f(a, *b, k=c, **d)`: positional arguments may be `.star e`, keyword arguments are `.kw k e`
  (`**d` is `.kw "**" d`) -/
  | call (f : Expr) (args : List Expr) (kws : List Expr)
  | star (e : Expr)
  | kw (k : String) (e : Expr)
  | notE (e : Expr)
  | andE (l r : Expr)
  | orE (l r : Expr)
  /-- one comparator: `Eq NotEq Lt LtE Gt GtE Is IsNot In NotIn` (Python `ast` class names) -/
  | cmp (op : String) (l r : Expr)
  /-- `Add Sub Mult Div FloorDiv Mod Pow …` -/
  | bin (op : String) (l r : Expr)
  | neg (e : Expr)
  | sub (e i : Expr)
  /-- `lo:hi` inside a subscript; a missing bound is `.noneE` -/
  | slice (lo hi : Expr)
  | listE (es : List Expr)
  | tupleE (es : List Expr)
  /-- an f-string: literal pieces (`.strE`) and `{e}` pieces (`.fmt e`, no conversion or format spec) -/
  | fstr (parts : List Expr)
  | fmt (e : Expr)
  /-- `t if c else e` -/
  | ifE (c t e : Expr)
  /-- `{key: value for target in iter}` (one `for`, no `if`; the target is a name) -/
  | dictComp (key value : Expr) (target : String) (iter : Expr)
  /-- `[elt for target in iter]` (one generator, no condition) -/
  | listComp (elt : Expr) (target : String) (iter : Expr)
  /-- `[elt for target in iter if cond]` (one generator, one condition) -/
  | listCompIf (elt : Expr) (target : String) (iter cond : Expr)
  /-- anything else (f-strings, lambdas, comprehensions …), kept as canonical source text -/
  | other (src : String)
  deriving Repr, Inhabited

inductive Stmt where
  | assign (target value : Expr)
  | aug (op : String) (target value : Expr)
  | expr (e : Expr)
  /-- `return e` (`return` alone is `ret .noneE`) -/
  | ret (e : Expr)
  /-- `raise Cls(...)`: the class name only -/
  | raise (cls : String)
  /-- bare `raise` inside a handler -/
  | reraise
  | ifS (c : Expr) (thn els : List Stmt)
  | forS (target iter : Expr) (body : List Stmt)
  /-- `while c: body` (no `else`) -/
  | whileS (c : Expr) (body : List Stmt)
  /-- `try: body  except <Exception or bare>: handler` -/
  | tryS (body handler : List Stmt)
  /-- `try: body  except <Cls>: handler` (one handler naming one class) -/
  | tryC (body : List Stmt) (cls : String) (handler : List Stmt)
  | assertS (c : Expr)
  | pass
  /-- `continue` / `break` of the innermost `for` -/
  | continueS
  | breakS
  | other (src : String)
  deriving Repr, Inhabited

/-- a translated function: parameter names (after `self`, `*args` as `"*args"`, `**kwargs` as `"**kwargs"`,
defaults dropped) and its body -/
structure Func where
  params : List String
  body : List Stmt
  deriving Repr, Inhabited

/-- how a block ended -/
inductive Ctl (V : Type) where
  | next
  | ret (v : V)
  /-- `continue`: the rest of the loop body is skipped, the loop goes on -/
  | cont
  /-- `break`: the loop ends, the statement after it is next -/
  | brk
  deriving Repr

abbrev Locals (V : Type) := List (String × V)

def Locals.get {V} (l : Locals V) (n : String) : Option V := (l.find? (·.1 == n)).map (·.2)
def Locals.set {V} (l : Locals V) (n : String) (v : V) : Locals V := (n, v) :: l.filter (·.1 != n)

/-- everything the evaluator leaves to the Python objects involved. Exceptions are effects of `m`
(`throw cls`); `catchAll body handler` runs `handler` (with the exception in flight kept for a bare `raise`)
when `body` raised. -/
structure World (m : Type → Type) (V : Type) where
  none : V
  bool : Bool → V
  int : Int → V
  str : String → V
  list : List V → V
  tuple : List V → V
  /-- a list display `[a, b, …]`: a NEW list object (a world with mutable lists allocates it; the others return
  `list vs`) -/
  newList : List V → m V
  /-- the module-level name `n` (a global function, class, module or builtin) -/
  global : String → m V
  truthy : V → m Bool
  getAttr : V → String → m V
  setAttr : V → String → V → m Unit
  /-- `f(*pos, **kws)`; a starred positional argument has been expanded with `unstar`, `**d` arrives as
  the keyword `"**"` -/
  call : V → List V → List (String × V) → m V
  cmp : String → V → V → m V
  bin : String → V → V → m V
  neg : V → m V
  sub : V → V → m V
  slice : V → V → V
  setItem : V → V → V → m Unit
  iter : V → m (List V)
  unstar : V → m (List V)
  /-- `format(v, "")` inside an f-string (= `str(v)` for the objects that occur) -/
  format : V → m V
  /-- the pieces of an f-string joined -/
  concat : List V → m V
  /-- a `dict` built from (key, value) pairs, in insertion order -/
  dict : List (V × V) → m V
  /-- `while`: given how to evaluate the condition and one pass of the body (a world that runs loops uses
  `whileFuel` with the fuel it was given; the others refuse) -/
  whileLoop : (Locals V → m Bool) → (Locals V → m (Ctl V × Locals V)) → Locals V → m (Ctl V × Locals V)
  other : String → m V
  throw : {α : Type} → String → m α
  rethrow : {α : Type} → m α
  catchAll : {α : Type} → m α → m α → m α
  /-- `except Cls:` - the handler runs only for that class (the world decides what counts as an instance) -/
  catchCls : {α : Type} → String → m α → m α → m α

variable {m : Type → Type} [Monad m] {V : Type}

/-- the elements of a list comprehension: `f` evaluates the element expression for one value of the iterable -/
def compList (f : V → m V) : List V → m (List V)
  | [] => pure []
  | v :: vs => do
    let x ← f v
    let xs ← compList f vs
    pure (x :: xs)

/-- the elements of a conditional comprehension: `f` gives the element for one value of the iterable, or nothing when the
condition fails for it -/
def compListIf (f : V → m (Option V)) : List V → m (List V)
  | [] => pure []
  | v :: vs => do
    let x ← f v
    let xs ← compListIf f vs
    pure (match x with | some y => y :: xs | none => xs)

/-- the pairs of a comprehension: `f` evaluates key and value for one element -/
def compPairs (f : V → m (V × V)) : List V → m (List (V × V))
  | [] => pure []
  | v :: vs => do
    let p ← f v
    let ps ← compPairs f vs
    pure (p :: ps)

mutual
def evalExpr (w : World m V) (loc : Locals V) : Expr → m V
  | .name n => match loc.get n with
    | some v => pure v
    | none => w.throw "UnboundLocalError"
  | .glob n => w.global n
  | .attr e a => do let v ← evalExpr w loc e; w.getAttr v a
  | .noneE => pure w.none
  | .boolE b => pure (w.bool b)
  | .intE i => pure (w.int i)
  | .strE s => pure (w.str s)
  | .call f args kws => do
    let fv ← evalExpr w loc f
    let as ← evalArgs w loc args
    let ks ← evalKws w loc kws
    w.call fv as ks
  | .star e => evalExpr w loc e
  | .kw _ e => evalExpr w loc e
  | .notE e => do let v ← evalExpr w loc e; let b ← w.truthy v; pure (w.bool (!b))
  | .andE l r => do
    let a ← evalExpr w loc l
    if (← w.truthy a) then evalExpr w loc r else pure a
  | .orE l r => do
    let a ← evalExpr w loc l
    if (← w.truthy a) then pure a else evalExpr w loc r
  | .cmp op l r => do let a ← evalExpr w loc l; let b ← evalExpr w loc r; w.cmp op a b
  | .bin op l r => do let a ← evalExpr w loc l; let b ← evalExpr w loc r; w.bin op a b
  | .neg e => do let a ← evalExpr w loc e; w.neg a
  | .sub e i => do let a ← evalExpr w loc e; let b ← evalExpr w loc i; w.sub a b
  | .slice lo hi => do let a ← evalExpr w loc lo; let b ← evalExpr w loc hi; pure (w.slice a b)
  | .listE es => do let vs ← evalArgs w loc es; w.newList vs
  | .tupleE es => do let vs ← evalArgs w loc es; pure (w.tuple vs)
  | .fstr parts => do let vs ← evalArgs w loc parts; w.concat vs
  | .fmt e => do let v ← evalExpr w loc e; w.format v
  | .ifE c t e => do
    let cv ← evalExpr w loc c
    if (← w.truthy cv) then evalExpr w loc t else evalExpr w loc e
  | .dictComp k v t it => do
    let iv ← evalExpr w loc it
    let xs ← w.iter iv
    let ps ← compPairs (fun x => do
      let kv ← evalExpr w (loc.set t x) k
      let vv ← evalExpr w (loc.set t x) v
      pure (kv, vv)) xs
    w.dict ps
  | .listComp e t it => do
    let iv ← evalExpr w loc it
    let xs ← w.iter iv
    let vs ← compList (fun x => evalExpr w (loc.set t x) e) xs
    w.newList vs
  | .listCompIf e t it c => do
    let iv ← evalExpr w loc it
    let xs ← w.iter iv
    let vs ← compListIf (fun x => do
      let cv ← evalExpr w (loc.set t x) c
      if (← w.truthy cv) then some <$> evalExpr w (loc.set t x) e else pure none) xs
    w.newList vs
  | .other s => w.other s

/-- positional arguments, left to right; `*e` is expanded in place -/
def evalArgs (w : World m V) (loc : Locals V) : List Expr → m (List V)
  | [] => pure []
  | .star e :: rest => do
    let v ← evalExpr w loc e
    let vs ← w.unstar v
    let more ← evalArgs w loc rest
    pure (vs ++ more)
  | e :: rest => do
    let v ← evalExpr w loc e
    let more ← evalArgs w loc rest
    pure (v :: more)

def evalKws (w : World m V) (loc : Locals V) : List Expr → m (List (String × V))
  | [] => pure []
  | .kw k e :: rest => do
    let v ← evalExpr w loc e
    let more ← evalKws w loc rest
    pure ((k, v) :: more)
  | e :: rest => do
    let v ← evalExpr w loc e
    let more ← evalKws w loc rest
    pure (("", v) :: more)
end

/-- `for` over the values already obtained from the iterable: the body is run for each value in order and
a `return` inside it ends the loop -/
def forLoop (body : Locals V → V → m (Ctl V × Locals V)) : List V → Locals V → m (Ctl V × Locals V)
  | [], loc => pure (.next, loc)
  | v :: vs, loc => do
    let (c, loc') ← body loc v
    match c with
    | .next => forLoop body vs loc'
    | .cont => forLoop body vs loc'
    | .brk => pure (.next, loc')
    | .ret r => pure (.ret r, loc')

/-- `while cond: body` with at most `fuel` passes (running out of fuel ends the loop like a false condition - the
convention of the models' own fuelled loops): the condition is evaluated before every pass; `continue` and a body that
falls through go on, `break` ends the loop, `return` leaves the function -/
def whileFuel (cond : Locals V → m Bool) (body : Locals V → m (Ctl V × Locals V)) : Nat → Locals V → m (Ctl V × Locals V)
  | 0, loc => pure (.next, loc)
  | fuel + 1, loc => do
    if (← cond loc) then do
      let (c, loc') ← body loc
      match c with
      | .next => whileFuel cond body fuel loc'
      | .cont => whileFuel cond body fuel loc'
      | .brk => pure (.next, loc')
      | .ret r => pure (.ret r, loc')
    else pure (.next, loc)

/-- `a, b = v` for names only: positional binding of the unpacked values (a length mismatch is Python's
`ValueError`) -/
def bindNames (w : World m V) : List Expr → List V → Locals V → m (Locals V)
  | [], [], loc => pure loc
  | .name n :: ts, v :: vs, loc => bindNames w ts vs (loc.set n v)
  | _, _, _ => w.throw "ValueError"

/-- assignment to a name, an attribute, a subscript or a tuple of names -/
def assignTo (w : World m V) (loc : Locals V) (t : Expr) (v : V) : m (Locals V) :=
  match t with
  | .name n => pure (loc.set n v)
  | .tupleE ts => do let vs ← w.iter v; bindNames w ts vs loc
  | .attr e a => do let o ← evalExpr w loc e; w.setAttr o a v; pure loc
  | .sub e i => do let o ← evalExpr w loc e; let k ← evalExpr w loc i; w.setItem o k v; pure loc
  | _ => w.throw "UnsupportedAssignmentTarget"

mutual
def evalStmt (w : World m V) (loc : Locals V) : Stmt → m (Ctl V × Locals V)
  | .assign t e => do let v ← evalExpr w loc e; let loc' ← assignTo w loc t v; pure (.next, loc')
  | .aug op t e => do
    let old ← evalExpr w loc t
    let v ← evalExpr w loc e
    let nv ← w.bin op old v
    let loc' ← assignTo w loc t nv
    pure (.next, loc')
  | .expr e => do let _ ← evalExpr w loc e; pure (.next, loc)
  | .ret e => do let v ← evalExpr w loc e; pure (.ret v, loc)
  | .raise cls => w.throw cls
  | .reraise => w.rethrow
  | .ifS c t e => do
    let cv ← evalExpr w loc c
    if (← w.truthy cv) then evalBlock w loc t else evalBlock w loc e
  | .forS t it body => do
    let iv ← evalExpr w loc it
    let vs ← w.iter iv
    forLoop (fun l v => do let l' ← assignTo w l t v; evalBlock w l' body) vs loc
  | .whileS c body =>
    w.whileLoop (fun l => do let cv ← evalExpr w l c; w.truthy cv) (fun l => evalBlock w l body) loc
  | .tryS body handler => w.catchAll (evalBlock w loc body) (evalBlock w loc handler)
  | .tryC body cls handler => w.catchCls cls (evalBlock w loc body) (evalBlock w loc handler)
  | .assertS c => do
    let cv ← evalExpr w loc c
    if (← w.truthy cv) then pure (.next, loc) else w.throw "AssertionError"
  | .pass => pure (.next, loc)
  | .continueS => pure (.cont, loc)
  | .breakS => pure (.brk, loc)
  | .other s => do let _ ← w.other s; pure (.next, loc)

def evalBlock (w : World m V) (loc : Locals V) : List Stmt → m (Ctl V × Locals V)
  | [] => pure (.next, loc)
  | s :: rest => do
    let (c, loc') ← evalStmt w loc s
    match c with
    | .next => evalBlock w loc' rest
    | c => pure (c, loc')
end

/-- call of a translated function with its parameters bound: the returned value (`None` when the body
falls off its end) -/
def Func.run (w : World m V) (f : Func) (args : Locals V) : m V := do
  let (c, _) ← evalBlock w args f.body
  match c with
  | .ret v => pure v
  | _ => pure w.none

end Viv.Py
