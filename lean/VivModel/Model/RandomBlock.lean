import VivModel.Model.Sha1
import VivModel.Model.MT19937
/-! The concrete random block of `RandomnessStream.get_draw`
(`vivarium/framework/randomness/stream.py`):

    seed = get_hash(self._key(additional_key))
    random_state = np.random.RandomState(seed=seed)
    raw_draws = random_state.random_sample(len(self.index_map))

as a block function of the shape `Viv.Stream.getDraw` is parameterised with
(`seed string → size → position → numerator over 2^53`). -/
namespace Viv.RandomBlock

/-- `RandomState(get_hash(ks)).random_sample(size)` as numerators over 2^53 -/
def blockOf (ks : String) (size : Nat) : Array Nat := Viv.MT19937.block (Viv.Sha1.getHash ks) size

/-- `raw_draws[p] * 2^53` -/
def realBlk (ks : String) (size p : Nat) : Nat := Viv.MT19937.numerator (Viv.Sha1.getHash ks) size p

/-- reading a block that was computed once (what the driver does per seed string) -/
def memoBlk (b : Array Nat) : String → Nat → Nat → Nat := fun _ _ p => b[p]?.getD 0

end Viv.RandomBlock
