/-! Stratified results: `framework/results/{manager,context,observation,stratification,interface}.py`.

Two layers.

* Row layer (what one observation does with the population of one event): a snapshot row is
  (in event?, passes the observation's filter?, category per stratification of the observation
  (`none` = an excluded category, i.e. the NaN that `Stratification.stratify` produces), value).
  `gather` = filter → drop excluded → group by category tuple → aggregate → expand to the full product
  of the non-excluded categories → add to the running results.  Concatenating observation = append rows.
* Context layer (`ResultsManager` / `ResultsContext`): registration of stratifications (exclusions from
  code or configuration) and observations (default / additional / excluded stratifications), `on_post_setup`,
  `gather_results` for one event (stratify everything first – an unknown category is an error – then every
  observation of the phase), binning (`register_binned_stratification`).

User callables (mappers, filters, aggregators, `to_observe`) are inputs: the rows carry their outputs.
Core Lean only. -/
namespace Viv.Results

/-- a stratum: one category per stratification of the observation -/
abbrev Key := List String

/-- `itertools.product(*levels)` (`StratifiedObservation.create_expanded_df`,
`pd.MultiIndex.from_product` in `_expand_index`) -/
def product : List (List String) → List Key
  | [] => [[]]
  | l :: ls => l.flatMap fun c => (product ls).map (c :: ·)

/-! ### Row layer -/

structure Row where
  inEvent : Bool                 -- simulant is in `event.index` (`_prepare_population`)
  passes  : Bool                 -- `population.query(pop_filter)`
  cats    : List (Option String) -- mapped category per stratification of the observation; `none` = excluded (NaN)
  val     : Int                  -- the aggregator's summand for this simulant (1 for a count)
deriving Repr, DecidableEq

/-- in the event, passing the filter, not in an excluded category (`ResultsContext._filter_population`) -/
def Row.eligible (r : Row) : Bool := r.inEvent && r.passes && r.cats.all Option.isSome

/-- the stratum of an eligible row -/
def Row.key (r : Row) : Key := r.cats.filterMap id

abbrev Table := List (Key × Int)

/-- add `v` to group `k`, creating the group if it is new -/
def addTo (k : Key) (v : Int) : Table → Table
  | [] => [(k, v)]
  | (k', w) :: t => if k' = k then (k', w + v) :: t else (k', w) :: addTo k v t

/-- `pop.groupby(mapped columns)[sources].apply(aggregator)` for an additive aggregator: one entry per
observed group (the order of the groups is immaterial: the result is re-indexed) -/
def groupSum : List Row → Table
  | [] => []
  | r :: rs => addTo r.key r.val (groupSum rs)

/-- value of stratum `k`, 0 when absent (`reindex(full_idx).fillna(0.0)`) -/
def lookupD (k : Key) (t : Table) : Int := ((t.find? (fun e => e.1 = k)).map (·.2)).getD 0

/-- `StratifiedObservation._expand_index`: one row per element of the full product -/
def expand (levels : List (List String)) (t : Table) : Table :=
  (product levels).map fun k => (k, lookupD k t)

/-- `StratifiedObservation.get_complete_stratified_results` on the filtered population -/
def increment (levels : List (List String)) (rows : List Row) : Table :=
  expand levels (groupSum (rows.filter Row.eligible))

/-- `StratifiedObservation.create_expanded_df`: zero-initialised full cartesian index -/
def initResults (levels : List (List String)) : Table := (product levels).map fun k => (k, 0)

/-- `AddingObservation.add_results`: `updated[col] += new[col]` (aligned on the index) -/
def addResults (acc inc : Table) : Table := acc.map fun e => (e.1, e.2 + lookupD e.1 inc)

/-- one adding observation at one event (`ResultsContext.gather_results` + `BaseObservation.observe` +
`ResultsManager.gather_results`): nothing happens when the filtered population is empty or `to_observe`
says no -/
def gather (levels : List (List String)) (toObserve : Bool) (acc : Table) (rows : List Row) : Table :=
  if (rows.filter Row.eligible).isEmpty then acc
  else if toObserve then addResults acc (increment levels rows) else acc

/-- the reported result after a sequence of events `(to_observe?, rows)` -/
def runEvents (levels : List (List String)) (events : List (Bool × List Row)) : Table :=
  events.foldl (fun acc e => gather levels e.1 acc e.2) (initResults levels)

/-- the aggregate of stratum `k` over the eligible rows, computed directly (specification side) -/
def stratumSum (k : Key) (rows : List Row) : Int :=
  (((rows.filter Row.eligible).filter (fun r => r.key = k)).map (·.val)).sum

/-- the aggregate over all eligible rows -/
def eligibleSum (rows : List Row) : Int := ((rows.filter Row.eligible).map (·.val)).sum

/-! #### concatenating observations -/

structure CRow where
  inEvent : Bool
  passes  : Bool
  payload : List Int             -- the included columns of this simulant
deriving Repr, DecidableEq

def CRow.eligible (r : CRow) : Bool := r.inEvent && r.passes

/-- `ConcatenatingObservation`: `get_results_of_interest` + `concatenate_results`; `event_time` is the first
included column -/
def concatGather (toObserve : Bool) (acc : List (List Int)) (time : Int) (rows : List CRow) : List (List Int) :=
  let pop := (rows.filter CRow.eligible).map fun r => time :: r.payload
  if pop.isEmpty then acc
  else if toObserve then (if acc.isEmpty then pop else acc ++ pop) else acc

def runConcat (events : List (Bool × Int × List CRow)) : List (List Int) :=
  events.foldl (fun acc e => concatGather e.1 acc e.2.1 e.2.2) []

/-! ### Context layer -/

inductive Err
  | dupStrat | dupCat | emptyCats | unknownExcl | badBins | dupObs | missingStrat | unknownCat | missingCallable
  | raised      -- a user callable (pipeline source, mapper, filter evaluation, `to_observe`, aggregator, updater) raised
deriving Repr, DecidableEq

def Err.name : Err → String
  | .dupStrat => "dupStrat" | .dupCat => "dupCat" | .emptyCats => "emptyCats" | .unknownExcl => "unknownExcl"
  | .badBins => "badBins" | .dupObs => "dupObs" | .missingStrat => "missingStrat" | .unknownCat => "unknownCat"
  | .missingCallable => "missingCallable" | .raised => "raised"

/-- a registered `Stratification` -/
structure Strat where
  name : String
  cats : List String             -- `categories` with the excluded ones removed
  excl : List String             -- `excluded_categories`
  labels : List String           -- the categories as registered (bin labels, in order)
  bins : Option (List Int)       -- bin edges when registered through `register_binned_stratification`
deriving Repr, DecidableEq

/-- `len(bin_edges) != len(labels) + 1` is refused by `register_binned_stratification` -/
def binsOk (bins : Option (List Int)) (cats : List String) : Bool :=
  match bins with
  | some es => es.length == cats.length + 1
  | none => true

/-- exclusions passed in code win; `None` ⇒ the configuration's `stratification.excluded_categories` -/
def exclusionsFor (cfgExcl : List (String × List String)) (name : String) (codeExcl : Option (List String)) :
    List String :=
  match codeExcl with
  | some ex => ex
  | none => ((cfgExcl.find? (fun e => e.1 = name)).map (·.2)).getD []

/-- `ResultsContext.add_stratification` (+ `Stratification.__post_init__`, + the edge/label count check of
`ResultsManager.register_binned_stratification`).  `codeExcl = none` ⇒ exclusions come from the
configuration (`stratification.excluded_categories`). -/
def addStratification (cfgExcl : List (String × List String)) (strats : List Strat) (name : String)
    (cats : List String) (codeExcl : Option (List String)) (bins : Option (List Int)) :
    Except Err (List Strat) :=
  if !binsOk bins cats then .error .badBins
  else if strats.any (fun s => s.name = name) then .error .dupStrat
  else if ¬ cats.Nodup then .error .dupCat
  else if (exclusionsFor cfgExcl name codeExcl).any (fun c => c ∉ cats) then .error .unknownExcl
  else if (cats.filter (fun c => c ∉ exclusionsFor cfgExcl name codeExcl)).isEmpty then .error .emptyCats
  else .ok (strats ++ [({ name := name, cats := cats.filter (fun c => c ∉ exclusionsFor cfgExcl name codeExcl),
                          excl := exclusionsFor cfgExcl name codeExcl, labels := cats, bins := bins } : Strat)])

/-- insertion into a sorted list (Python `sorted` on `str`: code-point lexicographic) -/
def insertSorted (a : String) : List String → List String
  | [] => [a]
  | b :: t => if a < b then a :: b :: t else b :: insertSorted a t

def sortStrings (l : List String) : List String := l.foldr insertSorted []

/-- `ResultsManager._get_stratifications`:
`tuple(sorted(set(default + additional) - set(excluded)))` -/
def resolve (defaults additional excluded : List String) : List String :=
  sortStrings (((defaults ++ additional).filter (fun n => n ∉ excluded)).eraseDups)

inductive Kind | adding | concat
deriving Repr, DecidableEq

/-- the default `pop_filter` of the four `register_*_observation` methods of the interface -/
def defaultFilter : String := "tracked==True"

structure Obs where
  name   : String
  phase  : String
  kind   : Kind
  strats : List String           -- resolved stratification names (adding observations)
  filter : String := defaultFilter   -- `pop_filter`, byte for byte (only its identity matters: it is half of the group key)
deriving Repr, DecidableEq

structure Ctx where
  cfgExcl  : List (String × List String) := []
  defaults : List String := []
  strats   : List Strat := []
  obs      : List Obs := []
  adding   : List (String × Table) := []            -- `_raw_results` of the adding observations
  concat   : List (String × List (List Int)) := []  -- `_raw_results` of the concatenating observations
deriving Repr

/-- `ResultsContext.register_observation` after `ResultsManager.register_observation` resolved the
stratifications.  `callablesOk = false`: a required callable (`results_updater` of
`register_stratified_observation`, `results_gatherer` / `results_updater` of
`register_unstratified_observation`) was left at its placeholder – refused by
`ResultsInterface._check_for_required_callables` before anything else is looked at. -/
def registerObservation (c : Ctx) (name phase : String) (kind : Kind) (additional excluded : List String)
    (callablesOk : Bool := true) (filter : String := defaultFilter) : Except Err Ctx :=
  if !callablesOk then .error .missingCallable
  else if c.obs.any (fun o => o.name = name) then .error .dupObs
  else
    let strats := match kind with
      | .adding => resolve c.defaults additional excluded
      | .concat => []
    .ok { c with obs := c.obs ++ [{ name := name, phase := phase, kind := kind, strats := strats, filter := filter }] }

def findStrat (strats : List Strat) (n : String) : Option Strat := strats.find? (fun s => s.name = n)

/-- the levels of an observation: non-excluded categories of each of its stratifications -/
def levelsOf (strats : List Strat) (names : List String) : List (List String) :=
  names.map fun n => ((findStrat strats n).map (·.cats)).getD []

/-- `ResultsManager.on_post_setup`: initialise the raw results; requested but unregistered
stratifications are an error -/
def postSetup (c : Ctx) : Except Err Ctx :=
  if c.obs.any (fun o => o.strats.any (fun n => (findStrat c.strats n).isNone)) then .error .missingStrat
  else .ok { c with
    adding := (c.obs.filter (fun o => o.kind = .adding)).map fun o => (o.name, initResults (levelsOf c.strats o.strats)),
    concat := (c.obs.filter (fun o => o.kind = .concat)).map fun o => (o.name, []) }

/-- missing value marker of a mapper output (`NaN`) -/
def nanTok : String := "NaN"

/-- `pd.cut(data, bin_edges, labels=labels, right=False, include_lowest=True)` in `_bin_data`:
label `i` iff `edges[i] ≤ v < edges[i+1]`, NaN outside -/
def binLabel : List Int → List String → Int → String
  | e0 :: e1 :: es, l :: ls, v => if e0 ≤ v ∧ v < e1 then l else binLabel (e1 :: es) ls v
  | _, _, _ => nanTok

/-- `Stratification.stratify` for one simulant: a value outside categories ∪ excluded (or missing) is an
error; an excluded category becomes `none` (NaN after the cast to the categorical dtype) -/
def stratify (s : Strat) (raw : String) : Except Err (Option String) :=
  if raw = nanTok then .error .unknownCat
  else if raw ∈ s.cats then .ok (some raw)
  else if raw ∈ s.excl then .ok none
  else .error .unknownCat

structure RawRow where
  inEvent : Bool
  raw     : List String          -- mapper output per registered stratification, in registration order
deriving Repr, DecidableEq

/-- all stratifications of one simulant, as (name, mapped category) -/
def stratifyRow : List Strat → List String → Except Err (List (String × Option String))
  | s :: ss, x :: xs => do
    let c ← stratify s x
    let rest ← stratifyRow ss xs
    pure ((s.name, c) :: rest)
  | _, _ => .ok []

/-- the stratification loop at the top of `ResultsContext.gather_results` over the prepared population
(the simulants of `event.index`); the others are never looked at -/
def stratifyAll (strats : List Strat) : List RawRow → Except Err (List (List (String × Option String)))
  | [] => .ok []
  | r :: rs => do
    let m ← if r.inEvent then stratifyRow strats r.raw else pure []
    let rest ← stratifyAll strats rs
    pure (m :: rest)

/-- which user callable of an observation raises when it is called at this event (lesson 16: callables that fail
on purpose).  `filter`: the evaluation of `pop_filter` (`population.query` in `_filter_population`, reached for every
group of the phase); `toObserve`: `to_observe(event)` (called only when the group's filtered population is not
empty); `gather`: the aggregator / `results_gatherer` / `results_updater` (called only when `to_observe` said yes). -/
inductive Fault | none | filter | toObserve | gather
deriving Repr, DecidableEq

/-- what the harness supplies per observation and event: the user callables' outputs -/
structure ObsInput where
  name      : String
  toObserve : Bool
  passes    : List Bool
  vals      : List Int           -- adding: aggregator summand per row
  payloads  : List (List Int)    -- concatenating: included columns per row
  fault     : Fault := .none     -- a callable of this observation that raises at this event
deriving Repr

def catsFor (names : List String) (mapped : List (String × Option String)) : List (Option String) :=
  names.map fun n => ((mapped.find? (fun e => e.1 = n)).map (·.2)).getD none

def mkRows (names : List String) (rows : List RawRow) (mapped : List (List (String × Option String)))
    (passes : List Bool) (vals : List Int) : List Row :=
  (rows.zip (mapped.zip (passes.zip vals))).map fun (r, m, p, v) =>
    { inEvent := r.inEvent, passes := p, cats := catsFor names m, val := v }

def mkCRows (rows : List RawRow) (passes : List Bool) (payloads : List (List Int)) : List CRow :=
  (rows.zip (passes.zip payloads)).map fun (r, p, pl) => { inEvent := r.inEvent, passes := p, payload := pl }

def setAssoc {β : Type} (k : String) (v : β) : List (String × β) → List (String × β)
  | [] => []
  | (k', w) :: t => if k' = k then (k', v) :: t else (k', w) :: setAssoc k v t

def getAssoc {β : Type} (k : String) (l : List (String × β)) : Option β := (l.find? (fun e => e.1 = k)).map (·.2)

/-- one observation of the phase at this event -/
def observeOne (c : Ctx) (time : Int) (rows : List RawRow) (mapped : List (List (String × Option String)))
    (o : Obs) (i : ObsInput) : Ctx :=
  match o.kind with
  | .adding =>
    match getAssoc o.name c.adding with
    | none => c
    | some acc =>
      let acc' := gather (levelsOf c.strats o.strats) i.toObserve acc (mkRows o.strats rows mapped i.passes i.vals)
      { c with adding := setAssoc o.name acc' c.adding }
  | .concat =>
    match getAssoc o.name c.concat with
    | none => c
    | some acc =>
      { c with concat := setAssoc o.name (concatGather i.toObserve acc time (mkCRows rows i.passes i.payloads)) c.concat }

/-- the body of the loop over the observations of the phase (`inputs` holds the user callables' outputs) -/
def stepObs (time : Int) (rows : List RawRow) (mapped : List (List (String × Option String)))
    (inputs : List ObsInput) (c : Ctx) (o : Obs) : Ctx :=
  match inputs.find? (fun i => i.name = o.name) with
  | some i => observeOne c time rows mapped o i
  | none => c

/-- key of the dict `ResultsContext.observations[phase]`: `(pop_filter, stratifications)`; the stratifications of
an unstratified (concatenating) observation are `None` -/
def Obs.groupKey (o : Obs) : String × Option (List String) :=
  (o.filter, match o.kind with | .adding => some o.strats | .concat => none)

/-- `self.observations[when][(pop_filter, stratifications)].append(observation)`: appended to its group when the key
is known, a new group at the end otherwise (dicts keep insertion order) -/
def insertGroup (o : Obs) : List ((String × Option (List String)) × List Obs) → List ((String × Option (List String)) × List Obs)
  | [] => [(o.groupKey, [o])]
  | (k, os) :: gs => if k = o.groupKey then (k, os ++ [o]) :: gs else (k, os) :: insertGroup o gs

/-- the dict of one phase after registering `os` in this order -/
def groups (os : List Obs) : List ((String × Option (List String)) × List Obs) :=
  os.foldl (fun g o => insertGroup o g) []

/-- the order in which `ResultsContext.gather_results` reaches the observations of a phase: group by group in the
order of first registration, registration order inside a group -/
def traversal (os : List Obs) : List Obs := (groups os).flatMap (·.2)

/-- `ResultsManager.gather_results(lifecycle_phase, event)`: empty population ⇒ nothing; stratify (may
fail); then every observation registered for the phase, in the order of `traversal`.  `inputs` must hold one
entry per observation of the phase (the driver checks). -/
def gatherEvent (c : Ctx) (phase : String) (time : Int) (rows : List RawRow) (inputs : List ObsInput) :
    Except Err Ctx :=
  if (rows.filter (·.inEvent)).isEmpty then .ok c
  else do
    let mapped ← stratifyAll c.strats rows
    pure <| (traversal (c.obs.filter (fun o => o.phase = phase))).foldl (stepObs time rows mapped inputs) c

/-- a whole simulation: events in order; the first error stops it -/
def runSim (c : Ctx) : List (String × Int × List RawRow × List ObsInput) → Except Err Ctx
  | [] => .ok c
  | (ph, t, rows, inputs) :: es => do
    let c' ← gatherEvent c ph t rows inputs
    runSim c' es

/-! ### Failing gatherings (a user callable raises; the caller catches the exception and carries on)

`ResultsContext.gather_results` is a generator and `ResultsManager.gather_results` applies every yielded result at
once (`self._raw_results[measure] = updater(...)`): what was gathered before the failing callable stays recorded,
nothing is rolled back, nothing is remembered about the failure.  A caller that catches the exception (an
`InteractiveContext` user around `step()`) can go on: the life cycle lets a step that failed in `collect_metrics`
be run again, which emits all four phases again for the same clock time – each emission is an event of its own. -/

/-- failures of the event as a whole, before any observation is reached -/
structure EventFault where
  prepare : Bool := false        -- a required value pipeline raises in `_prepare_population` (even for an empty event)
  mapper  : Bool := false        -- a stratification mapper raises (only reached when somebody is in the event)
deriving Repr, DecidableEq

/-- is the filtered population of the observation's group non-empty (`not filtered_pop.empty`)? -/
def popNonempty (rows : List RawRow) (mapped : List (List (String × Option String))) (o : Obs) (i : ObsInput) : Bool :=
  match o.kind with
  | .adding => !((mkRows o.strats rows mapped i.passes i.vals).filter Row.eligible).isEmpty
  | .concat => !((mkCRows rows i.passes i.payloads).filter CRow.eligible).isEmpty

/-- does a user callable raise when `gather_results` reaches observation `o`? -/
def raisesAt (rows : List RawRow) (mapped : List (List (String × Option String))) (inputs : List ObsInput) (o : Obs) : Bool :=
  match inputs.find? (fun i => i.name = o.name) with
  | none => false
  | some i =>
    match i.fault with
    | .none => false
    | .filter => true
    | .toObserve => popNonempty rows mapped o i
    | .gather => popNonempty rows mapped o i && i.toObserve

/-- the observations of the phase that are gathered before the first callable raises (all of them if none does) -/
def reachedObs (c : Ctx) (phase : String) (rows : List RawRow) (mapped : List (List (String × Option String)))
    (inputs : List ObsInput) : List Obs :=
  (traversal (c.obs.filter (fun o => o.phase = phase))).takeWhile (fun o => !raisesAt rows mapped inputs o)

/-- `ResultsManager.gather_results(lifecycle_phase, event)` with the caller catching what it raises: the context
afterwards and the exception, if any.  A failure in `_prepare_population` or in the stratification loop records
nothing; a failure at an observation keeps what the observations before it (in `traversal` order) recorded. -/
def gatherCaught (c : Ctx) (phase : String) (time : Int) (rows : List RawRow) (inputs : List ObsInput)
    (ef : EventFault) : Ctx × Option Err :=
  if ef.prepare then (c, some .raised)
  else if (rows.filter (·.inEvent)).isEmpty then (c, none)
  else if ef.mapper then (c, some .raised)
  else match stratifyAll c.strats rows with
    | .error e => (c, some e)
    | .ok mapped =>
      let all := traversal (c.obs.filter (fun o => o.phase = phase))
      let done := reachedObs c phase rows mapped inputs
      (done.foldl (stepObs time rows mapped inputs) c, if done.length < all.length then some .raised else none)

/-- a history in which every exception is caught and the run goes on (retried steps are further events) -/
def runCaught (c : Ctx) (events : List (String × Int × List RawRow × List ObsInput × EventFault)) : Ctx :=
  events.foldl (fun c e => (gatherCaught c e.1 e.2.1 e.2.2.1 e.2.2.2.1 e.2.2.2.2).1) c

end Viv.Results
