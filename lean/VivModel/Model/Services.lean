import VivModel.Model.Context
/-! Lifecycle constraints on framework services and on the handles they hand out
(`framework/lifecycle.py` `ConstraintMaker` / `LifeCycleManager.add_constraint`, and the call sites in
`population/manager.py`, `values.py`, `randomness/manager.py`, `lookup/manager.py`, `population_view.py`).

The state lists are never written here: every framework constraint is looked up in the table that the
translator regenerates from the `add_constraint` call sites of the working tree (`Viv.Gen.constraints`).
Core Lean only. -/
namespace Viv.Svc
open Viv.LC Viv.Ctx Viv.Gen

/-- one constraint made by `ConstraintMaker.__call__`: the object whose instance attribute was re-bound
(`obj`), the pair that `to_guid` turns into the global id (`<obj.name>.<method.__name__>`), and the state list
captured by the wrapper's closure -/
structure Entry where
  obj    : String
  name   : String
  method : String
  perm   : List String
deriving Repr, DecidableEq

/-- `ConstraintMaker`: the wrappers that exist (oldest first) -/
abbrev Reg := List Entry

/-- the wrapper re-bound over `obj.method`, if any (wrappers live on the INSTANCE) -/
def find (r : Reg) (o m : String) : Option Entry := List.find? (fun e => e.obj == o && e.method == m) r

/-- `to_guid(method) in self.constraints` (global ids are NAME based) -/
def guidTaken (r : Reg) (n m : String) : Bool := r.any (fun e => e.name == n && e.method == m)

/-- `_wrapped`: `check_valid_state` reads the CURRENT state; no wrapper ⇒ the plain method runs -/
def verdict (r : Reg) (o m st : String) : Bool :=
  match find r o m with
  | some e => e.perm.contains st
  | none => true

inductive AddErr | value | lifecycle | type | constraint deriving Repr, DecidableEq

/-- `name.startswith("__") and name.endswith("__")` for the method names the harness uses -/
def isDunder (m : String) : Bool := m == "__call__" || m == "__init__" || m == "__repr__"

/-- the list `add_constraint` hands to `ConstraintMaker`: `restrict_during` is complemented against the
declared states -/
def permittedList (allow restrict : List String) : List String :=
  if restrict.isEmpty then allow else states.filter (fun s => !restrict.contains s)

/-- `LifeCycleManager.add_constraint` followed by `ConstraintMaker.__call__`, in the order of the checks of
the real code: exactly one list (ValueError) → only declared states (LifeCycleError) → bound method (TypeError)
→ not a special method (ValueError) → not constrained before (ConstraintError). On success one wrapper is added;
on failure nothing changes. -/
def addConstraint (r : Reg) (o n m : String) (bound : Bool) (allow restrict : List String) : Except AddErr Reg :=
  if (!allow.isEmpty && !restrict.isEmpty) || (allow.isEmpty && restrict.isEmpty) then .error .value
  else if !((allow ++ restrict).all fun s => states.contains s) then .error .lifecycle
  else if !bound then .error .type
  else if isDunder m then .error .value
  else if guidTaken r n m then .error .constraint
  else .ok (r ++ [⟨o, n, m, permittedList allow restrict⟩])

/-- the state list the working tree declares at the call site `file` / `target` -/
def tableEntry (file target : String) : Option Con :=
  Viv.Gen.constraints.find? (fun e => e.file == file && e.method == target)

/-- a framework call site `self._add_constraint(<handle>.<method>, …)` executed for the handle `o`
(handles are named after themselves: `population_view_<id>`, `randomness_stream_<key>`, the pipeline's name,
`lookup_table_<n>`); a call site that the working tree does not have constrains nothing -/
def fwAdd (r : Reg) (o m file target : String) : Except AddErr Reg :=
  match tableEntry file target with
  | none => .ok r
  | some e =>
    match e.mode with
    | .allow => addConstraint r o o m true e.states []
    | .restrict => addConstraint r o o m true [] e.states

def popFile : String := "framework/population/manager.py"
def valFile : String := "framework/values.py"
def rndFile : String := "framework/randomness/manager.py"
def lkpFile : String := "framework/lookup/manager.py"

/-- call sites that constrain a HANDLE; every other entry of the table constrains a method of the manager
(or context) that declares it, once, when that object is set up -/
def handleTargets : List String :=
  ["view.get", "view.update", "stream.get_draw", "stream.filter_for_probability", "stream.filter_for_rate",
   "stream.choice", "pipeline._call", "table.call"]

/-- the wrappers that exist once the managers are set up (before any component's `setup`): one per
manager-level call site, owned by the declaring file's manager -/
def boot : Reg :=
  Viv.Gen.constraints.foldl (fun r e =>
    if handleTargets.contains e.method then r
    else match fwAdd r e.file e.method e.file e.method with
      | .ok r' => r'
      | .error _ => r) []

inductive Kind | view | stream | pipe | table | user deriving Repr, DecidableEq

/-- what the harness and the framework have created so far -/
structure S where
  reg     : Reg := boot
  st      : String := "initialization"
  handles : List (String × Kind) := []
  sourced : List String := []                 -- pipelines with a source
  inner   : List (String × String) := []      -- keyed / interpolated lookup table ↦ the population view it reads through
  pop     : Nat := 0                          -- rows of the state table
deriving Repr, DecidableEq

def kindOf (s : S) (id : String) : Option Kind := (s.handles.find? (·.1 == id)).map (·.2)

/-- a manager-level service in the current state -/
def svcAdmitted (s : S) (file target : String) : Bool := verdict s.reg file target s.st

/-- run several framework call sites for one handle; stops at the first refusal (a Python exception),
keeping what was registered before it -/
def fwAdds (r : Reg) (o file : String) : List (String × String) → Reg × Option AddErr
  | [] => (r, none)
  | (m, target) :: rest =>
    match fwAdd r o m file target with
    | .ok r' => fwAdds r' o file rest
    | .error e => (r, some e)

def showErr : AddErr → String
  | .value => "err:value" | .lifecycle => "err:lifecycle" | .type => "err:type" | .constraint => "err:constraint"

def finishNew (s : S) (id : String) (k : Kind) (res : Reg × Option AddErr) : S × String :=
  match res with
  | (r, none) => ({ s with reg := r, handles := s.handles ++ [(id, k)] }, "ok")
  | (r, some e) => ({ s with reg := r }, showErr e)

/-- `PopulationManager.get_view` (through `builder.population.get_view`, `Component.population_view`,
a lookup table's own view, …): the manager's own constraint, then one wrapper on `get` and one on `update` -/
def newView (s : S) (id : String) : S × String :=
  if !svcAdmitted s popFile "self.get_view" then (s, "refused")
  else finishNew s id .view (fwAdds s.reg id popFile [("get", "view.get"), ("update", "view.update")])

/-- `PopulationView.subview` → `PopulationManager._get_view`: "Skip constraints for requesting subviews";
it is not itself a constrained service either -/
def newSubview (s : S) (id parent : String) : S × String :=
  if kindOf s parent != some .view then (s, "bad-op")
  else ({ s with handles := s.handles ++ [(id, .view)] }, "ok")

/-- `RandomnessManager.get_randomness_stream`: four wrappers, for ordinary and CRN-initialising streams alike -/
def newStream (s : S) (id : String) : S × String :=
  if !svcAdmitted s rndFile "self.get_randomness_stream" then (s, "refused")
  else finishNew s id .stream (fwAdds s.reg id rndFile
    [("get_draw", "stream.get_draw"), ("filter_for_probability", "stream.filter_for_probability"),
     ("filter_for_rate", "stream.filter_for_rate"), ("choice", "stream.choice")])

/-- `ValuesManager.get_value`: unconstrained; creates the (unsourced, unconstrained) `Pipeline` on first mention -/
def getValue (s : S) (name : String) : S × String :=
  if (kindOf s name).isSome then (s, "ok") else ({ s with handles := s.handles ++ [(name, .pipe)] }, "ok")

/-- `ValuesManager.register_value_modifier`: the manager's constraint; creates the pipeline object like `get_value` -/
def registerModifier (s : S) (name : String) : S × String :=
  if !svcAdmitted s valFile "self.register_value_modifier" then (s, "refused") else getValue s name

/-- `ValuesManager.register_value_producer`: a second source is a `DynamicValueError` (nothing registered);
otherwise the pipeline OBJECT of that name - the one earlier `get_value` calls returned - gets its source and the
wrapper on `_call` -/
def registerProducer (s : S) (name : String) : S × String :=
  if !svcAdmitted s valFile "self.register_value_producer" then (s, "refused")
  else if s.sourced.contains name then (s, "dup")
  else
    let s1 := (getValue s name).1
    let s2 := { s1 with sourced := s1.sourced ++ [name] }
    match fwAdd s2.reg name "_call" valFile "pipeline._call" with
    | .ok r => ({ s2 with reg := r }, "ok")
    | .error e => (s2, showErr e)

/-- `LookupTableManager.build_table`: keyed and interpolated tables fetch their own population view first
(`population_view_builder`), then the wrapper on `call` -/
def newTable (s : S) (id : String) (keyed : Bool) : S × String :=
  if !svcAdmitted s lkpFile "self.build_table" then (s, "refused")
  else
    let (s1, r1) := if keyed then newView s (id ++ ".view") else (s, "ok")
    if r1 != "ok" then (s1, r1)
    else
      let s2 := if keyed then { s1 with inner := s1.inner ++ [(id, id ++ ".view")] } else s1
      finishNew s2 id .table (fwAdds s2.reg id lkpFile [("call", "table.call")])

/-- an object of the user's (a component, a helper) whose bound methods may be constrained -/
def newObj (s : S) (id : String) : S × String :=
  if (kindOf s id).isSome then (s, "ok") else ({ s with handles := s.handles ++ [(id, .user)] }, "ok")

/-- `builder.lifecycle.add_constraint(obj.method, …)` from user code: never constrained itself, usable in every state -/
def userAdd (s : S) (o n m : String) (bound : Bool) (allow restrict : List String) : S × String :=
  match addConstraint s.reg o n m bound allow restrict with
  | .ok r => ({ s with reg := r }, "ok")
  | .error e => (s, showErr e)

/-- constrained methods that a method of a randomness stream goes through, outermost first
(`filter_for_rate → filter_for_probability → get_draw`, `choice → get_draw`, `sample_from_distribution → get_draw`);
`filter_for_probability` returns an empty population before drawing -/
def streamChain (m : String) (empty : Bool) : List String :=
  if m == "get_draw" then ["get_draw"]
  else if m == "filter_for_probability" then (if empty then ["filter_for_probability"] else ["filter_for_probability", "get_draw"])
  else if m == "filter_for_rate" then
    (if empty then ["filter_for_rate", "filter_for_probability"] else ["filter_for_rate", "filter_for_probability", "get_draw"])
  else if m == "choice" then ["choice", "get_draw"]
  else if m == "sample_from_distribution" then ["get_draw"]
  else [m]

/-- the wrappers a call passes, as (object, method) -/
def callChain (s : S) (o m : String) (empty : Bool) : List (String × String) :=
  match kindOf s o with
  | some .stream => (streamChain m empty).map (fun x => (o, x))
  | some .table =>
    match s.inner.find? (·.1 == o) with
    | some (_, v) => [(o, "call"), (v, "get")]
    | none => [(o, "call")]
  | _ => [(o, m)]

/-- a call through a handle in the current state: admitted iff every wrapper on the way admits the state -/
def callVerdict (s : S) (o m : String) (empty : Bool) : Bool :=
  (callChain s o m empty).all fun (x, y) => verdict s.reg x y s.st

def call (s : S) (o m : String) (empty : Bool) : String :=
  if (kindOf s o).isNone then "bad-op"
  else if callVerdict s o m empty then "admitted" else "refused"

/-- `Pipeline.__call__ → self._call`: the wrapper (if the pipeline has been sourced) comes first, a pipeline without a
source then raises `DynamicValueError` in every state -/
def pcall (s : S) (name : String) : String :=
  if kindOf s name != some .pipe then "bad-op"
  else if !verdict s.reg name "_call" s.st then "refused"
  else if !s.sourced.contains name then "nosource"
  else "admitted"

/-- the simulant creator (`PopulationManager._create_simulants`, handed out by `get_simulant_creator`, also what the engine
keeps as `simulant_creator`): since F35 it is constrained when the population manager is set up, so the wrapper answers
BEFORE the state table is extended; every route leads to the same re-bound instance attribute. A call that the wrapper
admits adds `count` rows (what the initializers then do is not modelled). -/
def createSimulants (s : S) (count : Nat) : S × String :=
  if !svcAdmitted s popFile "self._create_simulants" then (s, "refused")
  else ({ s with pop := s.pop + count }, "admitted")

def setSt (s : S) (st : String) : S × String :=
  if states.contains st then ({ s with st := st }, "ok") else (s, "bad-state")

/-- the operations of the line protocol -/
inductive Op
  | st (s : String)
  | view (id : String) | subview (id parent : String) | stream (id : String)
  | value (name : String) | modifier (name : String) | producer (name : String)
  | table (id : String) (keyed : Bool) | obj (id : String)
  | add (o n m : String) (bound : Bool) (allow restrict : List String)
  | call (o m : String) (empty : Bool) | pcall (name : String) | svc (file target : String)
  | create (count : Nat)
deriving Repr, DecidableEq

def exec (s : S) : Op → S × String
  | .st x => setSt s x
  | .view id => newView s id
  | .subview id p => newSubview s id p
  | .stream id => newStream s id
  | .value n => getValue s n
  | .modifier n => registerModifier s n
  | .producer n => registerProducer s n
  | .table id k => newTable s id k
  | .obj id => newObj s id
  | .add o n m b a r => userAdd s o n m b a r
  | .call o m e => (s, call s o m e)
  | .pcall n => (s, pcall s n)
  | .svc f t => (s, if svcAdmitted s f t then "admitted" else "refused")
  | .create n => createSimulants s n

def run (s : S) : List Op → S
  | [] => s
  | op :: rest => run (exec s op).1 rest

end Viv.Svc
