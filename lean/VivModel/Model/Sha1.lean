/-! SHA-1 (FIPS 180-4) and the seed hash of `vivarium/framework/randomness/stream.py::get_hash`:

    int(hashlib.sha1(key.encode("utf8")).hexdigest(), 16) % 4294967295

32-bit words are `Nat`s; every place where the C / hardware arithmetic wraps carries an explicit `% 2^32`
(addition, rotation) – `Props/C02Bits.lean` proves that no word ever leaves the 32-bit range
(`compress_lt`, `sha1Bytes_lt`). Everything is structurally recursive over lists, so the kernel can
evaluate it (`sha1_abc` … in `Props/C02Bits.lean`).

A `String` of Lean 4.33 IS its UTF-8 byte array (`String.toUTF8`), so `key.encode("utf8")` is
`utf8Bytes`; all strings are accepted (the harness compares ASCII and non-ASCII keys). -/
namespace Viv.Sha1

/-- 2^32 -/
def W : Nat := 4294967296

/-- rotate a 32-bit word left by `n` (0 < n < 32) -/
def rotl (n x : Nat) : Nat := ((x <<< n) ||| (x >>> (32 - n))) % W

/-- bitwise complement of a 32-bit word -/
def not32 (x : Nat) : Nat := x ^^^ 4294967295

def add32 (a b : Nat) : Nat := (a + b) % W

/-- big-endian bytes of `n`, `k` of them -/
def beBytes : Nat → Nat → List Nat
  | 0, _ => []
  | k + 1, n => (n >>> (8 * k)) % 256 :: beBytes k n

/-- message padding: `0x80`, zeros up to 56 mod 64, the bit length as 64-bit big-endian -/
def pad (msg : List Nat) : List Nat :=
  msg ++ 128 :: (List.replicate ((119 - msg.length % 64) % 64) 0 ++ beBytes 8 (8 * msg.length))

/-- the 16 big-endian words of a 64-byte chunk (shorter input: as many words as there are 4-byte groups) -/
def wordsOf : List Nat → List Nat
  | a :: b :: c :: d :: rest => (a * 16777216 + b * 65536 + c * 256 + d) :: wordsOf rest
  | _ => []

/-- message schedule, newest word first: `w[t] = rotl 1 (w[t-3] ^ w[t-8] ^ w[t-14] ^ w[t-16])` -/
def extend : Nat → List Nat → List Nat
  | 0, r => r
  | f + 1, r => extend f (rotl 1 (r.getD 2 0 ^^^ r.getD 7 0 ^^^ r.getD 13 0 ^^^ r.getD 15 0) :: r)

/-- the 80 schedule words of one chunk, in order -/
def schedule (chunk : List Nat) : List Nat := (extend 64 (wordsOf chunk).reverse).reverse

/-- working variables a b c d e / chaining value h0 … h4 -/
structure Vars where
  a : Nat
  b : Nat
  c : Nat
  d : Nat
  e : Nat
  deriving DecidableEq, Repr

def init : Vars := ⟨0x67452301, 0xEFCDAB89, 0x98BADCFE, 0x10325476, 0xC3D2E1F0⟩

/-- round function and constant of round `t` -/
def fk (t b c d : Nat) : Nat × Nat :=
  if t < 20 then ((b &&& c) ||| (not32 b &&& d), 0x5A827999)
  else if t < 40 then (b ^^^ c ^^^ d, 0x6ED9EBA1)
  else if t < 60 then ((b &&& c) ||| (b &&& d) ||| (c &&& d), 0x8F1BBCDC)
  else (b ^^^ c ^^^ d, 0xCA62C1D6)

def round (t w : Nat) (v : Vars) : Vars :=
  let (f, k) := fk t v.b v.c v.d
  ⟨add32 (add32 (add32 (add32 (rotl 5 v.a) f) v.e) k) w, v.a, rotl 30 v.b, v.c, v.d⟩

/-- the rounds over the schedule words, `t` = number of the first one -/
def rounds : Nat → List Nat → Vars → Vars
  | _, [], v => v
  | t, w :: ws, v => rounds (t + 1) ws (round t w v)

/-- one compression step: chaining value `h`, 64-byte chunk -/
def compress (h : Vars) (chunk : List Nat) : Vars :=
  let v := rounds 0 (schedule chunk) h
  ⟨add32 h.a v.a, add32 h.b v.b, add32 h.c v.c, add32 h.d v.d, add32 h.e v.e⟩

/-- all chunks of the padded message (`fuel` = number of chunks) -/
def chunks : Nat → List Nat → Vars → Vars
  | 0, _, h => h
  | f + 1, bytes, h => chunks f (bytes.drop 64) (compress h (bytes.take 64))

/-- the digest of a byte string as a 160-bit number (`int(hexdigest, 16)`) -/
def sha1Bytes (msg : List Nat) : Nat :=
  let p := pad msg
  let h := chunks (p.length / 64) p init
  (((h.a * W + h.b) * W + h.c) * W + h.d) * W + h.e

/-- `key.encode("utf8")` -/
def utf8Bytes (s : String) : List Nat := s.toUTF8.data.toList.map UInt8.toNat

/-- `int(hashlib.sha1(key.encode("utf8")).hexdigest(), 16)` -/
def sha1 (s : String) : Nat := sha1Bytes (utf8Bytes s)

/-- `max_allowable_numpy_seed = 4294967295  # 2**32 - 1` -/
def seedModulus : Nat := 4294967295

/-- `get_hash(key)` -/
def getHash (key : String) : Nat := sha1 key % seedModulus

/-- 40 lower-case hex digits (for the driver / `#eval`) -/
def hexDigits : Nat → Nat → List Char
  | 0, _ => []
  | k + 1, n =>
    let d := (n >>> (4 * k)) % 16
    (if d < 10 then Char.ofNat (48 + d) else Char.ofNat (87 + d)) :: hexDigits k n

def hexdigest (s : String) : String := String.ofList (hexDigits 40 (sha1 s))

end Viv.Sha1
