/-! Randomness streams (C02, C05): `vivarium/framework/randomness/stream.py`, `manager.py`.

Numbers. A draw is a numerator over `2^53` (numpy's `random_sample` returns `k / 2^53`). The random block
is a parameter `blk : seedString → size → position → Nat` standing for
`RandomState(get_hash(seedString)).random_sample(size)[position] * 2^53` (SHA-1 and the Mersenne twister
are in the trusted base; the harness feeds the numerators the real functions produce).
Probabilities are numerators over the same denominator as the draws they are compared with; weights
are numerators over a per-matrix denominator `Q` (`Q` stands for the weight `1.0`).
The index map is a position lookup `pos : Sim → Option Nat` (identity guarded by the block size without
key columns, the `IndexMap` contents with key columns – modelled in `Model/IndexMap.lean`, C03). -/
namespace Viv.Stream

abbrev Sim := Nat

inductive Err
  | lookup          -- simulant without a position: IndexError (no CRN) / KeyError, "IndexMap is empty" (CRN)
  | length          -- list / array of probabilities whose length is not the population's; positional stream longer than the block
  | labels          -- Series of probabilities not labelled identically to the population
  | shape           -- weight matrix with a number of rows that is neither 1 nor the number of draws
  | residualCount   -- some row of a matrix that uses RESIDUAL_CHOICE does not contain exactly one placeholder
  | residualSum     -- RESIDUAL_CHOICE in a row whose other weights sum to more than 1
  | index           -- cumulative bins all below the draw / more weight columns than choices: IndexError
  | zeroRow         -- a weight row that sums to 0: `p / p.sum()` is 0/0, FloatingPointError under vivarium's `numpy.seterr(all="raise")`
  | duplicate       -- RandomnessManager: decision point requested twice
  deriving DecidableEq, Repr

/-! ### seed string, positions, draws -/

/-- `RandomnessStream._key`: `"_".join([self.key, str(self.clock()), str(additional_key), str(self.seed)])` -/
def joinKey (key time addKey seed : String) : String := "_".intercalate [key, time, addKey, seed]

/-- `IndexMap.__getitem__` without key columns (`index.values`), then `raw_draws[...]`: a label outside the
block raises `IndexError` -/
def posIdentity (size : Nat) (s : Sim) : Option Nat := if s < size then some s else none

/-- `IndexMap.__getitem__` with key columns: `self._map.loc[index]`; the map's content (simulant, position)
is data here -/
def posMap (m : List (Sim × Nat)) (s : Sim) : Option Nat := m.lookup s

/-- one entry of `get_draw`'s result: (label, position read, numerator) -/
abbrev Draw := Sim × Nat × Nat

/-- `RandomnessStream.get_draw` (`initializes_crn_attributes = False`):
`pd.Series(raw_draws[self.index_map[index]], index=index)`; the block is regenerated from the seed string on
every call, nothing is kept between calls. -/
def getDraw (blk : String → Nat → Nat → Nat) (size : Nat) (pos : Sim → Option Nat) (ks : String) :
    List Sim → Except Err (List Draw)
  | [] => .ok []
  | s :: ss =>
    match pos s with
    | none => .error .lookup
    | some p =>
      match getDraw blk size pos ks ss with
      | .error e => .error e
      | .ok ds => .ok ((s, p, blk ks size p) :: ds)

/-- `get_draw` of a stream created with `initializes_crn_attributes=True`:
`pd.Series(raw_draws[: len(index)], index=index)` – positional by design (the simulants are not registered
yet). Excluded from C02. -/
def getDrawInit (blk : String → Nat → Nat → Nat) (size : Nat) (ks : String) (req : List Sim) :
    Except Err (List Draw) :=
  if req.length ≤ size then .ok (req.zipIdx.map fun (s, i) => (s, i, blk ks size i)) else .error .length

/-- a stream answering a list of requests (seed string, request): each answer is computed from the request
alone – the object has no mutable state. -/
def answerAll (blk : String → Nat → Nat → Nat) (size : Nat) (pos : Sim → Option Nat)
    (reqs : List (String × List Sim)) : List (Except Err (List Draw)) :=
  reqs.map fun r => getDraw blk size pos r.1 r.2

/-- `RandomnessManager._get_randomness_stream`: one stream per decision point, duplicates rejected -/
def getStream (known : List String) (dp : String) : Except Err (List String) :=
  if known.contains dp then .error .duplicate else .ok (known ++ [dp])

/-! ### filter_for_probability -/

/-- the `probability` argument: scalar, list / array, tuple, or Series (with its index) -/
inductive Probs
  | scalar (p : Nat)
  | list (ps : List Nat)
  | tuple (ps : List Nat)
  | series (idx : List Sim) (ps : List Nat)

/-- `draws < probability` as pandas evaluates it: a scalar is broadcast; a list / array must have the
population's length (`ValueError: Lengths must match`); a tuple is handed to numpy (a 1-tuple is broadcast like
a scalar, any other length must match); a Series must be identically labelled
(`ValueError: Can only compare identically-labeled Series objects`) -/
def broadcast (idx : List Sim) : Probs → Except Err (List Nat)
  | .scalar p => .ok (List.replicate idx.length p)
  | .list ps => if ps.length = idx.length then .ok ps else .error .length
  | .tuple ps =>
    if ps.length = idx.length then .ok ps
    else if ps.length = 1 then .ok (List.replicate idx.length (ps.headD 0)) else .error .length
  | .series i ps => if i = idx ∧ ps.length = idx.length then .ok ps else .error .labels

/-- `mask = draws < probability` -/
def keep (d p : Nat) : Bool := decide (d < p)

/-- `population[mask]`: the rows whose draw is below their probability, in the population's order -/
def filterProb {α : Type} : List α → List Nat → List Nat → List α
  | x :: xs, d :: ds, p :: ps => if keep d p then x :: filterProb xs ds ps else filterProb xs ds ps
  | _, _, _ => []

/-- `RandomnessStream.filter_for_probability` on the population's index: empty population returned as is
(`len(population) == 0`), otherwise `get_draw`, compare, mask. `scale` brings the draws (over 2^53) to the
denominator of the probabilities. -/
def filterStream (blk : String → Nat → Nat → Nat) (size : Nat) (pos : Sim → Option Nat) (ks : String)
    (scale : Nat) (idx : List Sim) (probs : Probs) : Except Err (List Sim) :=
  if idx.isEmpty then .ok [] else
  match getDraw blk size pos ks idx with
  | .error e => .error e
  | .ok ds =>
    match broadcast idx probs with
    | .error e => .error e
    | .ok ps => .ok (filterProb idx (ds.map fun d => d.2.2 * scale) ps)

/-- the same `filter_for_probability` called on a stream created with `initializes_crn_attributes=True`: identical
code, the common draw is the positional one (`getDrawInit`) -/
def filterStreamInit (blk : String → Nat → Nat → Nat) (size : Nat) (ks : String)
    (scale : Nat) (idx : List Sim) (probs : Probs) : Except Err (List Sim) :=
  if idx.isEmpty then .ok [] else
  match getDrawInit blk size ks idx with
  | .error e => .error e
  | .ok ds =>
    match broadcast idx probs with
    | .error e => .error e
    | .ok ps => .ok (filterProb idx (ds.map fun d => d.2.2 * scale) ps)

/-! ### choice -/

/-- a weight: numerator over the matrix denominator `Q`, or the placeholder `RESIDUAL_CHOICE` -/
inductive Cell
  | val (n : Nat)
  | residual
  deriving DecidableEq, Repr

def Cell.isResidual : Cell → Bool
  | .residual => true
  | .val _ => false

/-- the value after `p[residual_mask] = 0` -/
def Cell.num : Cell → Nat
  | .val n => n
  | .residual => 0

/-- the `p` argument of `choice` -/
inductive Weights
  | none
  | oneD (row : List Cell)
  | twoD (rows : List (List Cell))

/-- `_normalize_shape`: a 1-d array is broadcast to one row per draw; `p is None` ⇒ `np.ones` -/
def normalizeShape (n k : Nat) : Weights → List (List Cell)
  | .none => List.replicate n (List.replicate k (.val 1))
  | .oneD row => List.replicate n row
  | .twoD rows => rows

def residualCount (row : List Cell) : Nat := (row.filter Cell.isResidual).length

def rowSum (row : List Cell) : Nat := (row.map Cell.num).sum

/-- the row with the placeholder spelled out as `1 − Σ(other weights)` (`Q` = 1.0) -/
def spell (Q : Nat) (row : List Cell) : List Nat :=
  row.map fun c => match c with
    | .val n => n
    | .residual => Q - rowSum row

/-- `_set_residual_probability`: if the placeholder occurs anywhere, EVERY row must contain it exactly once
(`np.any(np.sum(residual_mask, axis=1) - 1)`), then every row's other weights must sum to at most 1
(`residual_p < 0`), then the placeholder becomes `1 − Σ` per row. Without placeholder: unchanged. -/
def setResidual (Q : Nat) (m : List (List Cell)) : Except Err (List (List Nat)) :=
  if m.any (·.any Cell.isResidual) then
    if m.any (fun row => residualCount row != 1) then .error .residualCount
    else if m.any (fun row => decide (Q < rowSum row)) then .error .residualSum
    else .ok (m.map (spell Q))
  else .ok (m.map (·.map Cell.num))

/-- `np.cumsum` starting from `acc` -/
def cumsumFrom : Nat → List Nat → List Nat
  | _, [] => []
  | acc, w :: ws => (acc + w) :: cumsumFrom (acc + w) ws

/-- number of cumulative bins `c` (out of `W`) strictly below `x / D`, i.e. with `c·D < x` where `x = d·W` -/
def binsBelow (D x : Nat) (bins : List Nat) : Nat := (bins.filter fun c => decide (c * D < x)).length

/-- `(draw > np.cumsum(p / p.sum()))​.sum()` for one row: draw `d / D`, weights `w` (any common unit):
bin `c / W < d / D` ⇔ `c·D < d·W` -/
def choiceIdx (w : List Nat) (d D : Nat) : Nat := binsBelow D (d * w.sum) (cumsumFrom 0 w)

/-- rows aligned with the draws by numpy broadcasting: as many rows as draws, or a single row -/
def alignRows (n : Nat) (rows : List (List Nat)) : Except Err (List (List Nat)) :=
  if rows.length = n then .ok rows
  else if rows.length = 1 then .ok (List.replicate n (rows.headD []))
  else .error .shape

/-- `_choice(draws, choices, p)`: index of the chosen option per draw. Order of the refusals as in the code:
placeholder resolution, row normalisation (`p / p.sum(axis=1)`: a row summing to 0 raises, `vivarium/__init__.py`
sets `numpy.seterr(all="raise")`), broadcasting against the draws, `np.array(choices)[choice_index]`
(`IndexError` when an index is not below `len(choices)`). -/
def choiceAll (Q : Nat) (nChoices : Nat) (p : Weights) (draws : List Nat) (D : Nat) : Except Err (List Nat) :=
  match setResidual Q (normalizeShape draws.length nChoices p) with
  | .error e => .error e
  | .ok rows =>
    if rows.any (fun w => w.sum == 0) then .error .zeroRow else
    match alignRows draws.length rows with
    | .error e => .error e
    | .ok rows =>
      let idx := List.zipWith (fun w d => choiceIdx w d D) rows draws
      if idx.all (fun i => decide (i < nChoices)) then .ok idx else .error .index

/-- `RandomnessStream.choice`: `_choice(self.get_draw(index, additional_key), choices, p)` -/
def choiceStream (blk : String → Nat → Nat → Nat) (size : Nat) (pos : Sim → Option Nat) (ks : String)
    (Q nChoices : Nat) (p : Weights) (idx : List Sim) : Except Err (List Nat) :=
  match getDraw blk size pos ks idx with
  | .error e => .error e
  | .ok ds => choiceAll Q nChoices p (ds.map (·.2.2)) (2 ^ 53)

/-- `choice` on a stream created with `initializes_crn_attributes=True` (positional common draw) -/
def choiceStreamInit (blk : String → Nat → Nat → Nat) (size : Nat) (ks : String)
    (Q nChoices : Nat) (p : Weights) (idx : List Sim) : Except Err (List Nat) :=
  match getDrawInit blk size ks idx with
  | .error e => .error e
  | .ok ds => choiceAll Q nChoices p (ds.map (·.2.2)) (2 ^ 53)

end Viv.Stream
