/-! The population state table, views, updates, reads and creation
(`framework/population/population_view.py`, `framework/population/manager.py`). Core Lean only.

The table is `rows` (index labels, in table order) plus typed columns whose cells are aligned with
`rows`. Values are exact: ints, floats as dyadic rationals `num / 2^exp`, strings, bools, ns
timestamps and `null` (NaN / NaT / None).  pandas primitives are written out as list functions and
named in the doc-comments (`get_indexer`, fancy assignment, `reindex`, `Index.difference`,
`Series.equals`, `astype`, `.loc`, `query`). -/
namespace Viv.Table

/-- dtypes the harness uses. Columns: `int64`, `float64`, `str`, `bool`, `datetime64[ns]`, `category`
(`cat`, one fixed set of categories; cells are strings), and `object` (`obj`: arises by promotion of a `bool`
column when rows are added; also object-dtype updates). `i32` / `f32` (`int32` / `float32`) only ever occur
as the dtype of an update: to the code they are just "another dtype". -/
inductive Dtype | int | flt | str | bool | time | obj | cat | i32 | f32
deriving DecidableEq, Repr

inductive Val
  | int (i : Int)
  | flt (num : Int) (exp : Nat)       -- num / 2^exp, normalised by the harness (num odd or exp = 0)
  | str (s : String)
  | bool (b : Bool)
  | time (ns : Int)
  | null
deriving DecidableEq, Repr

structure Col where
  name  : String
  dtype : Dtype
  cells : List Val                    -- aligned with `Table.rows`
deriving DecidableEq, Repr

structure Table where
  rows : List Nat
  cols : List Col
deriving DecidableEq, Repr

/-- can a pandas array of this dtype hold the value? (`int64` and `bool` have no null) -/
def valOk : Dtype → Val → Bool
  | .int, .int _ => true
  | .flt, .flt _ _ => true | .flt, .null => true
  | .str, .str _ => true | .str, .null => true
  | .bool, .bool _ => true
  | .time, .time _ => true | .time, .null => true
  | .obj, _ => true
  | .cat, .str _ => true | .cat, .null => true
  | .i32, .int _ => true
  | .f32, .flt _ _ => true | .f32, .null => true
  | _, _ => false

def Table.empty : Table := ⟨[], []⟩

/-- every column has one cell per row, labels and column names are unique -/
structure Table.WF (t : Table) : Prop where
  rowsNodup  : t.rows.Nodup
  namesNodup : (t.cols.map (·.name)).Nodup
  lens       : ∀ c ∈ t.cols, c.cells.length = t.rows.length

def Table.names (t : Table) : List String := t.cols.map (·.name)

def Table.col? (t : Table) (c : String) : Option Col := t.cols.find? (fun k => k.name == c)

/-- the cell of simulant `r` in a column (by label: `existing.index.get_indexer`) -/
def cellOf (rows : List Nat) (cells : List Val) (r : Nat) : Option Val :=
  if r ∈ rows then cells[rows.idxOf r]? else none

def Table.cell? (t : Table) (r : Nat) (c : String) : Option Val :=
  match t.col? c with
  | none => none
  | some col => cellOf t.rows col.cells r

inductive Err
  | type          -- not a Series / DataFrame
  | unnamed       -- unnamed Series on a view with several columns
  | foreign       -- columns the view was not created with
  | nocols        -- DataFrame without columns
  | unknownRow    -- labels that are not in the state table
  | missingRows   -- initial creation: update does not cover every simulant
  | nonew         -- initial creation: update brings no new column
  | conflict      -- conflicting initial values from two components
  | newColumn     -- new column outside initial creation
  | dtype         -- values of a different dtype
  | cast          -- `astype` failed while adding simulants (NaN left in an int column)
  | unmodelled    -- cross-dtype write while adding simulants that the model does not cover
  | subview       -- sub-view columns empty / not a subset
  | noColumn      -- read: view column not in the table
  | query         -- read: query refers to a missing column / compares incompatible types
deriving DecidableEq, Repr

/-- `List.mapM` in `Except`, written out: the first error ends the traversal -/
def mapE {α β ε : Type} (g : α → Except ε β) : List α → Except ε (List β)
  | [] => .ok []
  | a :: l =>
    match g a with
    | .error e => .error e
    | .ok b =>
      match mapE g l with
      | .error e => .error e
      | .ok bs => .ok (b :: bs)

/-! ## Updates -/

/-- one column of an update; `vals` is aligned with the update's row labels -/
structure UCol where
  name  : String
  dtype : Dtype
  vals  : List Val
deriving DecidableEq, Repr

/-- what a component hands to `PopulationView.update` -/
inductive Upd
  | series (name : Option String) (dtype : Dtype) (rows : List Nat) (vals : List Val)
  | frame (rows : List Nat) (cols : List UCol)
  | other
deriving Repr

/-- an update after `_coerce_to_dataframe` -/
structure Frame where
  rows : List Nat
  cols : List UCol
deriving DecidableEq, Repr

def Frame.names (f : Frame) : List String := f.cols.map (·.name)

structure Frame.WF (f : Frame) : Prop where
  rowsNodup  : f.rows.Nodup
  namesNodup : f.names.Nodup
  lens       : ∀ c ∈ f.cols, c.vals.length = f.rows.length

/-- the value an update supplies for simulant `r` in column `c` -/
def Frame.value? (f : Frame) (r : Nat) (c : String) : Option Val :=
  match f.cols.find? (fun k => k.name == c) with
  | none => none
  | some uc => cellOf f.rows uc.vals r

/-- the checks at the end of `_coerce_to_dataframe`: columns ⊆ view columns, at least one column -/
def checkFrame (viewCols : List String) (f : Frame) : Except Err Frame :=
  if f.cols.any (fun c => !viewCols.contains c.name) then .error .foreign
  else if f.cols.isEmpty then .error .nocols
  else .ok f

/-- `PopulationView._coerce_to_dataframe` -/
def coerce (u : Upd) (viewCols : List String) : Except Err Frame :=
  match u with
  | .other => .error .type
  | .series none dt rows vals =>
    match viewCols with
    | [c] => checkFrame viewCols ⟨rows, [⟨c, dt, vals⟩]⟩
    | _ => .error .unnamed
  | .series (some c) dt rows vals => checkFrame viewCols ⟨rows, [⟨c, dt, vals⟩]⟩
  | .frame rows cols => checkFrame viewCols ⟨rows, cols⟩

/-- `Series.equals` of an update column with a state-table column restricted to / ordered like
`rows'`: same index (order included), same dtype, same values (NaN equals NaN) -/
def seriesEquals (urows : List Nat) (u : UCol) (rows' : List Nat) (dtype : Dtype) (cells' : List Val) : Bool :=
  decide (urows = rows') && decide (u.dtype = dtype) && decide (u.vals = cells')

/-- `PopulationView._ensure_coherent_initialization` -/
def coherentInit (t : Table) (f : Frame) : Except Err Unit :=
  if t.rows.any (fun r => !f.rows.contains r) then .error .missingRows
  else if f.cols.all (fun c => (t.col? c.name).isSome) then .error .nonew
  else if f.cols.any (fun c => match t.col? c.name with
      | none => false
      | some k => !seriesEquals f.rows c t.rows k.dtype k.cells) then .error .conflict
  else .ok ()

/-- the cells of the state table for the update's simulants, in the update's order
(`state_table.loc[population_update.index, column]`) -/
def locCells (rows : List Nat) (cells : List Val) (urows : List Nat) : List Val :=
  urows.map (fun r => (cellOf rows cells r).getD .null)

/-- the conflict test applied while simulants are being added on a time step -/
def conflicting (t : Table) (f : Frame) (c : UCol) : Bool :=
  match t.col? c.name with
  | none => false
  | some k =>
    let st := locCells t.rows k.cells f.rows
    st.any (· ≠ .null) && !seriesEquals f.rows c f.rows k.dtype st

/-- the part of `_format_update_and_check_preconditions` after coercion -/
def precheck (t : Table) (initial adding : Bool) (f : Frame) : Except Err Unit :=
  if f.rows.any (fun r => !t.rows.contains r) then .error .unknownRow
  else if initial then coherentInit t f
  else if f.cols.any (fun c => (t.col? c.name).isNone) then .error .newColumn
  else if adding && f.cols.any (conflicting t f) then .error .conflict
  else .ok ()

/-- `new_state_table_values[existing.index.get_indexer(update.index)] = update_values`:
sequential positional assignment -/
def writeCells (rows : List Nat) (cells : List Val) (urows : List Nat) (uvals : List Val) : List Val :=
  (urows.zip uvals).foldl (fun acc rv => acc.set (rows.idxOf rv.1) rv.2) cells

/-- numpy casts used when a promoted column is cast back while simulants are being added -/
def toInt : Val → Except Err Val
  | .int i => .ok (.int i)
  | .flt n e => .ok (.int (n.tdiv (2 ^ e : Nat)))      -- truncation towards zero
  | .null => .error .cast                               -- NaN cannot be cast to int64
  | _ => .error .unmodelled

def toFlt : Val → Val
  | .int i => .flt i 0
  | v => v

def toBool : Val → Except Err Val
  | .bool b => .ok (.bool b)
  | .null => .ok (.bool true)                           -- `bool(nan)` is True
  | _ => .error .unmodelled

/-- `PopulationView._update_column_and_ensure_dtype`: write, compare dtypes, `astype(update dtype)`.
Outside simulant creation a dtype difference is an error (whichever exception the write or the
check raises). While simulants are added the two promotions made by `reindex` are cast back
(`float64` → `int64`, `object` → `bool`); arrays that refuse foreign values raise; the remaining
cross-dtype casts are not modelled. -/
def updateColumn (rows : List Nat) (c : Col) (urows : List Nat) (u : UCol) (adding : Bool) : Except Err Col :=
  if c.dtype = u.dtype then .ok { c with cells := writeCells rows c.cells urows u.vals }
  else if !adding then .error .dtype
  else match c.dtype, u.dtype with
    | .flt, .int =>
      match mapE toInt (writeCells rows c.cells urows (u.vals.map toFlt)) with
      | .ok cells => .ok { c with dtype := .int, cells := cells }
      | .error e => .error e
    | .obj, .bool =>
      match mapE toBool (writeCells rows c.cells urows u.vals) with
      | .ok cells => .ok { c with dtype := .bool, cells := cells }
      | .error e => .error e
    | .str, _ => .error .dtype
    | .time, _ => .error .dtype
    | .flt, .str => .error .dtype
    | .int, .str => .error .dtype
    | _, _ => .error .unmodelled

/-- `self._manager.population[column] = column_update` -/
def assignCol (t : Table) (c : Col) : Table :=
  { t with cols := t.cols.map (fun k => if k.name == c.name then c else k) }

/-- initial creation: `population[new_columns] = population_update[new_columns]` (aligned by label) -/
def addColumns (t : Table) (f : Frame) : Table :=
  { t with cols := t.cols ++ ((f.cols.filter (fun c => (t.col? c.name).isNone)).map
      (fun c => (⟨c.name, c.dtype, locCells f.rows c.vals t.rows⟩ : Col))) }

/-- the population manager: `_population`, `creating_initial_population`, `adding_simulants` -/
structure Mgr where
  pop     : Option Table := none
  initial : Bool := false
  adding  : Bool := false
deriving DecidableEq, Repr

/-- `PopulationManager.get_population(True)` -/
def Mgr.table (m : Mgr) : Table := m.pop.getD Table.empty

/-! ## Queries and views -/

inductive Cmp | eq | ne | lt | le | gt | ge
deriving DecidableEq, Repr

/-- the fragment of pandas query strings the harness renders: conjunctions / disjunctions of
`column op constant`; `tt` is the empty query -/
inductive Pred
  | tt
  | atom (col : String) (op : Cmp) (c : Val)
  | and (a b : Pred)
  | or (a b : Pred)
deriving DecidableEq, Repr

structure View where
  cols   : List String          -- [] = the whole table
  filter : Pred
deriving DecidableEq, Repr

/-- `re.search(r"\btracked\b", query)` on a rendered query (column names are identifiers, string
constants of the harness never are the word `tracked`) -/
def Pred.mentionsTracked : Pred → Bool
  | .tt => false
  | .atom c _ _ => c == "tracked"
  | .and a b => a.mentionsTracked || b.mentionsTracked
  | .or a b => a.mentionsTracked || b.mentionsTracked

def trackedTrue : Pred := .atom "tracked" .eq (.bool true)

/-- does `_get_view` append the default `tracked == True` filter? -/
def needTracked (cols : List String) (q : Pred) : Bool :=
  !cols.isEmpty && !cols.contains "tracked" && !q.mentionsTracked

/-- `PopulationManager._get_view`: `query = f"({query}) and tracked == True"` (the user's query is
parenthesised, fix F23) -/
def mkView (cols : List String) (q : Pred) : View :=
  if !cols.isEmpty && !cols.contains "tracked" then
    if q = .tt then ⟨cols, trackedTrue⟩
    else if !q.mentionsTracked then ⟨cols, .and q trackedTrue⟩
    else ⟨cols, q⟩
  else ⟨cols, q⟩

/-- `PopulationView.columns` -/
def viewColumns (t : Table) (v : View) : List String :=
  if v.cols.isEmpty then t.names else v.cols

/-- `PopulationView.subview` -/
def subview (t : Table) (v : View) (cols : List String) : Except Err View :=
  if cols.isEmpty || cols.any (fun c => !(viewColumns t v).contains c) then .error .subview
  else .ok (mkView cols v.filter)

/-- compare two exact numbers `a / 2^e` and `b / 2^f` -/
def cmpNum (a : Int) (e : Nat) (b : Int) (f : Nat) (op : Cmp) : Bool :=
  let x := a * (2 ^ f : Nat)
  let y := b * (2 ^ e : Nat)
  match op with
  | .eq => x == y | .ne => x != y | .lt => x < y | .le => x ≤ y | .gt => x > y | .ge => x ≥ y

/-- elementwise comparison as pandas evaluates it; a null cell satisfies only `!=` -/
def evalCmp (v : Val) (op : Cmp) (c : Val) : Bool :=
  match v, c with
  | .null, _ => op == .ne
  | .int a, .int b => cmpNum a 0 b 0 op
  | .int a, .flt b f => cmpNum a 0 b f op
  | .flt a e, .int b => cmpNum a e b 0 op
  | .flt a e, .flt b f => cmpNum a e b f op
  | .str a, .str b => (match op with | .eq => a == b | .ne => a != b | _ => false)
  | .bool a, .bool b => (match op with | .eq => a == b | .ne => a != b | _ => false)
  | .time a, .time b => cmpNum a 0 b 0 op
  | _, _ => op == .ne

/-- can pandas evaluate `column op constant` for a column of this dtype? -/
def atomTyped (d : Dtype) (op : Cmp) (c : Val) : Bool :=
  match d, c with
  | .int, .int _ => true | .int, .flt _ _ => true
  | .flt, .int _ => true | .flt, .flt _ _ => true
  | .str, .str _ => op == .eq || op == .ne
  | .cat, .str _ => op == .eq || op == .ne
  | .bool, .bool _ => op == .eq || op == .ne
  | .obj, .bool _ => op == .eq || op == .ne
  | .time, .time _ => true
  | _, _ => false

/-- name resolution and type check of a query against the table -/
def Pred.typed (t : Table) : Pred → Bool
  | .tt => true
  | .atom c op k => match t.col? c with
    | none => false
    | some col => atomTyped col.dtype op k
  | .and a b => a.typed t && b.typed t
  | .or a b => a.typed t && b.typed t

/-- value of the query for simulant `r` -/
def Pred.eval (t : Table) (r : Nat) : Pred → Bool
  | .tt => true
  | .atom c op k => evalCmp ((t.cell? r c).getD .null) op k
  | .and a b => a.eval t r && b.eval t r
  | .or a b => a.eval t r || b.eval t r

/-- `PopulationView.get`: `.loc[index]`, view query, extra query, column check, projection -/
def get (m : Mgr) (v : View) (idx : List Nat) (extra : Pred) : Except Err Table :=
  let t := m.table
  if idx.any (fun r => !t.rows.contains r) then .error .unknownRow
  else if !idx.isEmpty && !(v.filter.typed t && extra.typed t) then .error .query
  else
    let keep := if idx.isEmpty then [] else idx.filter (fun r => v.filter.eval t r && extra.eval t r)
    let cols := viewColumns t v
    if cols.any (fun c => (t.col? c).isNone) then .error .noColumn
    else .ok ⟨keep, cols.filterMap (fun c => (t.col? c).map
          (fun k => ⟨k.name, k.dtype, locCells t.rows k.cells keep⟩))⟩

/-! ## Requests handed over as index OBJECTS

A component does not always hand over an array of labels: `event.index`, `pop.index[::-1]`, `index[:k][::-1]`,
`index[::2]` are `pd.RangeIndex` objects that carry `start`, `stop`, `step`. `PopulationView.get` looks them up
by LABEL (`.loc[index]`), i.e. as the labels of Python's `range(start, stop, step)`. -/

/-- the labels of `range(start, stop, step)` (`pd.RangeIndex(start, stop, step)`), in order: `start`,
`start + step`, … strictly before `stop` (after `stop` for a negative step). Written without division: the
offsets `i` from `start` that are multiples of `|step|`. (`step = 0` cannot be constructed.) -/
def rangeLabels (start stop step : Int) : List Int :=
  if 0 < step then
    ((List.range (stop - start).toNat).filter (fun i => i % step.toNat == 0)).map (fun (i : Nat) => start + (i : Int))
  else if step < 0 then
    ((List.range (start - stop).toNat).filter (fun i => i % (-step).toNat == 0)).map (fun (i : Nat) => start - (i : Int))
  else []

/-- what is handed to `PopulationView.get` as `index` (or carried as the index of an update): an array of
labels, or a range object -/
inductive Req
  | labels (l : List Nat)
  | range (start stop step : Int)
deriving DecidableEq, Repr

/-- the labels a request stands for; simulant labels are never negative, so a range that goes below 0 asks
for simulants that do not exist (`KeyError` from `.loc`) -/
def Req.resolve : Req → Except Err (List Nat)
  | .labels l => .ok l
  | .range s e d =>
    if (rangeLabels s e d).any (fun x => decide (x < 0)) then .error .unknownRow
    else .ok ((rangeLabels s e d).map Int.toNat)

/-- `PopulationView.get(index, query)` with the request as the object that was handed over -/
def getReq (m : Mgr) (v : View) (req : Req) (extra : Pred) : Except Err Table :=
  match req.resolve with
  | .error e => .error e
  | .ok idx => get m v idx extra

/-! ## `PopulationView.update` -/

/-- one entry of `column_updates` -/
def colUpdate (t : Table) (urows : List Nat) (adding : Bool) (u : UCol) : Except Err Col :=
  match t.col? u.name with
  | none => .error .newColumn
  | some c => updateColumn t.rows c urows u adding

/-- compute every column first (`column_updates = {…}`), assign afterwards -/
def writeAll (t : Table) (f : Frame) (adding : Bool) : Except Err Table :=
  match mapE (colUpdate t f.rows adding) f.cols with
  | .error e => .error e
  | .ok cols => .ok (cols.foldl assignCol t)

/-- `PopulationView.update` -/
def update (m : Mgr) (v : View) (u : Upd) : Except Err Mgr :=
  let t := m.table
  match coerce u (viewColumns t v) with
  | .error e => .error e
  | .ok f =>
    match precheck t m.initial m.adding f with
    | .error e => .error e
    | .ok () =>
      if m.initial then .ok { m with pop := some (addColumns t f) }
      else if f.rows.isEmpty then .ok m
      else match writeAll t f m.adding with
        | .error e => .error e
        | .ok t' => .ok { m with pop := some t' }

/-- what the simulation is left with after a call of `update`: the new state, or the old one and
the error -/
def applyUpdate (m : Mgr) (v : View) (u : Upd) : Mgr × Option Err :=
  match update m v u with
  | .ok m' => (m', none)
  | .error e => (m, some e)

/-! ## Creation -/

/-- dtype after `reindex` introduced missing rows -/
def promote : Dtype → Dtype
  | .int => .flt
  | .bool => .obj
  | d => d

/-- one column under `reindex`: existing labels keep their values, new labels get null; `grows` says
whether any label is new, in which case columns without a null representation are promoted -/
def reindexCol (rows newIndex : List Nat) (grows : Bool) (c : Col) : Col :=
  { c with
    dtype := if grows then promote c.dtype else c.dtype,
    cells := newIndex.map (fun r =>
      let v := (cellOf rows c.cells r).getD .null
      if grows && c.dtype = .int then toFlt v else v) }

/-- `DataFrame.reindex(new_index)` -/
def reindex (t : Table) (newIndex : List Nat) : Table :=
  { rows := newIndex,
    cols := t.cols.map (reindexCol t.rows newIndex (newIndex.any (fun r => !t.rows.contains r))) }

/-- first half of `PopulationManager._create_simulants`: grow the table, set the flags, compute the
new labels (`new_population.index.difference(old.index)`, sorted) -/
def createBegin (m : Mgr) (k : Nat) : Mgr × List Nat :=
  let t := m.table
  let newIndex := List.range (t.rows.length + k)
  ({ pop := some (reindex t newIndex), initial := if m.pop.isNone then true else m.initial, adding := true },
   newIndex.filter (fun r => !t.rows.contains r))

/-- the end of `_create_simulants`, reached when no initializer raised -/
def createEnd (m : Mgr) : Mgr := { m with initial := false, adding := false }

/-- `PopulationManager.on_initialize_simulants`: the manager's own initializer fills `tracked` through
its single-column view with an unnamed Series -/
def trackedView : View := mkView ["tracked"] .tt

def trackedInit (labels : List Nat) : Upd := .series none .bool labels (labels.map (fun _ => .bool true))

/-- a history of the population system: creations (with the updates their initializers make),
updates from listeners, ends of creations -/
inductive Op
  | create (k : Nat)
  | upd (v : View) (u : Upd)
  | endCreate

/-- run a history; returns the final state and the labels handed out by each creation -/
def runOps : Mgr → List Op → Mgr × List (List Nat)
  | m, [] => (m, [])
  | m, .create k :: ops =>
    let r := runOps (createBegin m k).1 ops
    (r.1, (createBegin m k).2 :: r.2)
  | m, .upd v u :: ops => runOps (applyUpdate m v u).1 ops
  | m, .endCreate :: ops => runOps (createEnd m) ops

end Viv.Table
