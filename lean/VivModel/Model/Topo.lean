/-! Resource dependency graph and the order of simulant initializers
(`framework/resource.py`, the registration services of `population/manager.py`, `values.py`,
`randomness/manager.py`, `time.py`, and the declarations of `component.py`). Core Lean only.

Three layers:
* digraphs over group ids, the certified order check `checkOrder`, Kahn's algorithm by generations
  (`networkx.topological_sort` = concatenated `topological_generations`), the check of an OBSERVED
  initializer order (`checkObserved`);
* `Manager` = `ResourceManager` (`add_resources`, `_get_resource_group`, `_to_graph`, `sorted_nodes`,
  `__iter__`);
* `Sim` = what the builder services record (`register_simulant_initializer`,
  `register_value_producer` / `register_value_modifier` / `on_post_setup`, `get_randomness_stream`),
  i.e. the implicit dependencies: `column.tracked`; pipeline ← source and every modifier;
  stream ← key columns. -/
namespace Viv.Topo

/-! ### digraphs, the certified check, Kahn -/

structure Graph where
  nodes : List Nat
  edges : List (Nat × Nat)      -- (u, v): u must run before v (producer → consumer)
deriving Repr

/-- position of a node in an order -/
def idx (o : List Nat) (v : Nat) : Nat := o.idxOf v

/-- certified checker: `o` has exactly the nodes of `g`, no repeats, every edge goes forward -/
def checkOrder (g : Graph) (o : List Nat) : Bool :=
  o.Nodup ∧ (∀ v ∈ g.nodes, v ∈ o) ∧ (∀ v ∈ o, v ∈ g.nodes) ∧
    (∀ e ∈ g.edges, idx o e.1 < idx o e.2)

/-- dependency chains of any length -/
inductive Path (g : Graph) : Nat → Nat → Prop
  | edge {u v} : (u, v) ∈ g.edges → Path g u v
  | trans {u v w} : Path g u v → Path g v w → Path g u w

/-- the nodes of `rem` none of whose predecessors is still in `rem` (one generation of
`networkx.topological_generations`: the zero-indegree nodes of what remains) -/
def ready (g : Graph) (rem : List Nat) : List Nat :=
  rem.filter (fun v => g.edges.all (fun e => e.2 != v || !rem.contains e.1))

/-- Kahn's algorithm by generations; `none` = a cycle (`NetworkXUnfeasible` → `ResourceError`).
Fuel only guards totality: `nodes.length + 1` always suffices (`kahn_total`). -/
def kahn (g : Graph) : Nat → List Nat → List Nat → Option (List Nat)
  | 0, _, _ => none
  | _+1, [], acc => some acc
  | fuel+1, rem, acc =>
    let r := ready g rem
    if r.isEmpty then none else kahn g fuel (rem.filter (fun v => !r.contains v)) (acc ++ r)

def topoSort (g : Graph) : Option (List Nat) := kahn g (g.nodes.length + 1) g.nodes []

/-- the generations themselves (reporting only: within a generation networkx orders by discovery) -/
def generations (g : Graph) : Nat → List Nat → List (List Nat)
  | 0, _ => []
  | _+1, [] => []
  | fuel+1, rem =>
    let r := ready g rem
    if r.isEmpty then [] else r :: generations g fuel (rem.filter (fun v => !r.contains v))

/-- consecutive pairs of an observed order, read as extra "must precede" constraints -/
def chain : List Nat → List (Nat × Nat)
  | a :: b :: rest => (a, b) :: chain (b :: rest)
  | _ => []

/-- the graph with the observed order of some nodes added as constraints -/
def withChain (g : Graph) (o : List Nat) : Graph := ⟨g.nodes, g.edges ++ chain o⟩

/-- a topological order of the WHOLE graph that restricts to the observed order `o`, if one exists -/
def extend (g : Graph) (o : List Nat) : Option (List Nat) := topoSort (withChain g o)

/-- check of an observed call order `o` of the initializer nodes `inits` (the other nodes – sources,
modifiers, pipelines, streams – are not called at creation and so not observed): every initializer
exactly once and `o` is the restriction of some certified order of the whole graph. -/
def checkObserved (g : Graph) (inits o : List Nat) : Bool :=
  decide (o.Nodup ∧ (∀ v ∈ inits, v ∈ o) ∧ (∀ v ∈ o, v ∈ inits)) && (extend g o).isSome

/-! ### ResourceManager -/

/-- `RESOURCE_TYPES` (the harness compares this list with the running module's set) -/
def resourceTypes : List String :=
  ["value", "value_source", "missing_value_source", "value_modifier", "column", "stream"]

/-- `NULL_RESOURCE_TYPE` -/
def nullType : String := "null"

/-- `ResourceGroup`: a vertex with all its in-edges. `names` / `deps` are long names `type.name`;
`producer` is a label of the producing callable. -/
structure Group where
  rtype    : String
  names    : List String
  producer : String
  deps     : List String
deriving Repr, DecidableEq, Inhabited

inductive Err
  | badType          -- ResourceError: unknown resource type
  | dupResource      -- ResourceError: two producers of one resource (`add_resources`)
  | dupInitializer   -- PopulationError: component has two initializers (`InitializerComponentSet.add`)
  | dupColumn        -- PopulationError: two initializers for one column (`InitializerComponentSet.add`)
  | dupSource        -- DynamicValueError: second source for a pipeline (`_register_value_producer`)
  | dupStream        -- RandomnessError: second stream for a decision point (`_get_randomness_stream`)
deriving Repr, DecidableEq

/-- `ResourceManager`. `groups`: every group packaged so far, id = position. `map`:
`_resource_group_map` (resource long name → group id) in insertion order. `cache`: `_graph`. -/
structure Manager where
  groups    : List Group := []
  map       : List (String × Nat) := []
  nullCount : Nat := 0
  cache     : Option Graph := none
deriving Repr

def lookup (m : Manager) (r : String) : Option Nat := m.map.lookup r

def longNames (rtype : String) (names : List String) : List String :=
  names.map (fun n => rtype ++ "." ++ n)

/-- `_get_resource_group`: a producer of nothing becomes a `null` group with a fresh number -/
def getResourceGroup (nullCount : Nat) (rtype : String) (names : List String) (producer : String)
    (deps : List String) : Group × Nat :=
  if names.isEmpty then
    (⟨nullType, longNames nullType [toString nullCount], producer, deps⟩, nullCount + 1)
  else (⟨rtype, longNames rtype names, producer, deps⟩, nullCount)

/-- the loop `for resource in resource_group:` of `add_resources`: names are inserted one by one, the
first name that already has a producer raises (`Except.error` carries the map as left behind). -/
def insertNames (gid : Nat) : List (String × Nat) → List String →
    Except (List (String × Nat)) (List (String × Nat))
  | map, [] => .ok map
  | map, r :: rs =>
    if (map.lookup r).isSome then .error map else insertNames gid (map ++ [(r, gid)]) rs

/-- `ResourceManager.add_resources`. -/
def addResources (m : Manager) (rtype : String) (names : List String) (producer : String)
    (deps : List String) : Except (Err × Manager) Manager :=
  if !resourceTypes.contains rtype then .error (.badType, m) else
  let (g, nc) := getResourceGroup m.nullCount rtype names producer deps
  let m1 := { m with groups := m.groups ++ [g], nullCount := nc }
  match insertNames m.groups.length m.map g.names with
  | .ok map' => .ok { m1 with map := map' }
  | .error map' => .error (.dupResource, { m1 with map := map' })

/-- first occurrences, in order (`add_nodes_from(self._resource_group_map.values())`: a group that
produces several resources appears once, at its first resource) -/
def dedup : List Nat → List Nat
  | [] => []
  | a :: l => a :: (dedup l).filter (· != a)

def nodesOf (m : Manager) : List Nat := dedup (m.map.map (·.2))

def groupOf (m : Manager) (n : Nat) : Group := m.groups.getD n default

/-- the in-edges of node `n`: one per dependency that has a producer; a dependency nobody provides is
skipped with a warning (`continue`) -/
def inEdges (m : Manager) (n : Nat) : List (Nat × Nat) :=
  (groupOf m n).deps.filterMap (fun d => (lookup m d).map (fun p => (p, n)))

/-- `_to_graph` -/
def toGraph (m : Manager) : Graph :=
  let nodes := nodesOf m
  ⟨nodes, nodes.flatMap (inEdges m)⟩

/-- `graph` property: built on first use, then cached (later registrations are not seen) -/
def graph (m : Manager) : Manager × Graph :=
  match m.cache with
  | some g => (m, g)
  | none => let g := toGraph m; ({ m with cache := some g }, g)

def isInitializer (m : Manager) (n : Nat) : Bool :=
  (groupOf m n).rtype == "column" || (groupOf m n).rtype == nullType

/-- the initializer nodes of a graph of `m` -/
def initNodes (m : Manager) (g : Graph) : List Nat := g.nodes.filter (isInitializer m)

/-- `__iter__`: the sorted nodes restricted to `column` and `null` groups; `none` = `ResourceError`
(cycle) -/
def iterNodes (m : Manager) (g : Graph) : Option (List Nat) :=
  (topoSort g).map (fun o => o.filter (isInitializer m))

/-! ### the registration services -/

/-- a callable handed to `register_value_producer` / `register_value_modifier` -/
inductive Callable
  | pipeline (key : String)            -- a `Pipeline` object (the one stored under `key`)
  | named (name : String)              -- an object with a `name` attribute (lookup table, …)
  | method (owner meth : String)       -- bound method of an object whose `name` is `owner`
  | func (name : String)               -- plain function
  | object (cls : String)              -- callable object without `name` / `__name__` (instance of `cls`,
                                       -- `functools.partial`, …): named `<cls>.__call__` (F25 repaired)
deriving Repr, DecidableEq, Inhabited

/-- `Pipeline` as far as dependencies go. `key`: key in `ValuesManager._pipelines`; `named`: the
`name` attribute has been set (by `_register_value_producer`; `None` before); `mutators`: the modifiers
in registration order (their names are computed by `_get_modifier_name` when needed – twice: at
registration and again in `on_post_setup`; the two agree because every pipeline object that can be
handed to a component has been named by then, `getValue_named`). -/
structure Pipe where
  key       : String
  named     : Bool := false
  hasSource : Bool := false
  mutators  : List Callable := []
deriving Repr, DecidableEq, Inhabited

structure Sim where
  rm              : Manager := {}
  keyColumns      : List String := []
  initComponents  : List String := []   -- `InitializerComponentSet._components`
  columnsProduced : List String := []   -- `InitializerComponentSet._columns_produced`
  pipes           : List Pipe := []     -- `ValuesManager._pipelines` (dict order)
  streams         : List String := []   -- `RandomnessManager._decision_points`
deriving Repr

abbrev R := Except Err Sim

def liftRm (s : Sim) (r : Except (Err × Manager) Manager) : R :=
  match r with
  | .ok m => .ok { s with rm := m }
  | .error (e, _) => .error e

/-- the declared requirements as long names (`register_simulant_initializer`, `_convert_dependencies`) -/
def reqNames (rc rv rs : List String) : List String :=
  longNames "column" rc ++ longNames "value" rv ++ longNames "stream" rs

/-- dependencies of an initializer: the declared ones, plus `column.tracked` unless it creates it -/
def initDeps (creates rc rv rs : List String) : List String :=
  reqNames rc rv rs ++ (if creates.contains "tracked" then [] else ["column.tracked"])

/-- the loop over `columns_produced` in `InitializerComponentSet.add` -/
def addColumns : List String → List String → Option (List String)
  | produced, [] => some produced
  | produced, c :: cs => if produced.contains c then none else addColumns (produced ++ [c]) cs

/-- `PopulationManager.register_simulant_initializer` (= `builder.population.initializes_simulants`,
which is also what `Component._register_simulant_initializer` calls with `columns_created` and
`initialization_requirements`). `comp`: name of the component the method is bound to. -/
def registerInitializer (s : Sim) (comp label : String) (creates rc rv rs : List String) : R :=
  if s.initComponents.contains comp then .error .dupInitializer else
  match addColumns s.columnsProduced creates with
  | none => .error .dupColumn
  | some produced =>
    let s1 := { s with initComponents := s.initComponents ++ [comp], columnsProduced := produced }
    liftRm s1 (addResources s.rm "column" creates label (initDeps creates rc rv rs))

def findPipe (s : Sim) (key : String) : Option Pipe := s.pipes.find? (·.key == key)

/-- `self._pipelines[key]` on a `defaultdict(Pipeline)`: creates the entry when missing -/
def touchPipe (s : Sim) (key : String) : Sim :=
  if (findPipe s key).isSome then s else { s with pipes := s.pipes ++ [{ key := key }] }

def updatePipe (s : Sim) (key : String) (f : Pipe → Pipe) : Sim :=
  { s with pipes := s.pipes.map (fun p => if p.key == key then f p else p) }

/-- `pipeline.name` as it prints inside an f-string -/
def pipeName (s : Sim) (key : String) : String :=
  match findPipe s key with
  | some p => if p.named then p.key else "None"
  | none => "None"

/-- `_convert_dependencies`: a `Pipeline` object stands for its own value, anything else for the
declared requirements -/
def convertDeps (s : Sim) (c : Callable) (rc rv rs : List String) : List String :=
  match c with
  | .pipeline k => ["value." ++ pipeName s k]
  | _ => reqNames rc rv rs

/-- `_get_modifier_name` -/
def modifierName (s : Sim) : Callable → String
  | .pipeline k => pipeName s k
  | .named n => n
  | .method o f => o ++ "." ++ f
  | .func n => n
  | .object c => c ++ ".__call__"

/-- `ValuesManager.get_value`: creates the pipeline when missing and (since the repair of F17) names it,
so a `Pipeline` object a component can hold always knows its key -/
def getValue (s : Sim) (key : String) : Sim :=
  updatePipe (touchPipe s key) key (fun p => { p with named := true })

/-- `ValuesManager.register_value_producer` -/
def registerProducer (s : Sim) (key label : String) (c : Callable) (rc rv rs : List String) : R :=
  let s := touchPipe s key
  match findPipe s key with
  | none => .ok s   -- unreachable after `touchPipe`
  | some p =>
    if p.hasSource then .error .dupSource else
    let s1 := updatePipe s key (fun p => { p with named := true, hasSource := true })
    liftRm s1 (addResources s1.rm "value_source" [key] label (convertDeps s1 c rc rv rs))

/-- `ValuesManager.register_value_modifier`: the modifier's name is taken first, then the modified
pipeline is created if missing, named, and extended -/
def registerModifier (s : Sim) (key : String) (c : Callable) (rc rv rs : List String) : R :=
  let mname := modifierName s c
  let s0 := touchPipe s key
  let s1 := updatePipe s0 key (fun p => { p with named := true, mutators := p.mutators ++ [c] })
  let n := ((findPipe s1 key).map (·.mutators.length)).getD 0
  let name := key ++ "." ++ toString n ++ "." ++ mname
  liftRm s1 (addResources s1.rm "value_modifier" [name] mname (convertDeps s1 c rc rv rs))

/-- `RandomnessManager.get_randomness_stream`: a stream that initializes CRN attributes is not a
resource; any other stream depends on the key columns -/
def getStream (s : Sim) (name : String) (crn : Bool) : R :=
  if s.streams.contains name then .error .dupStream else
  let s1 := { s with streams := s.streams ++ [name] }
  if crn then .ok s1
  else liftRm s1 (addResources s1.rm "stream" [name] ("stream." ++ name) (longNames "column" s.keyColumns))

/-- `builder.resources.add_resources` called by a component directly -/
def rawAdd (s : Sim) (rtype : String) (names : List String) (label : String) (deps : List String) : R :=
  liftRm s (addResources s.rm rtype names label deps)

def enumFrom {α : Type} : Nat → List α → List (Nat × α)
  | _, [] => []
  | n, a :: l => (n, a) :: enumFrom (n + 1) l

/-- dependencies of the pipeline value itself: its source (or the missing source) and every modifier,
under the name `_get_modifier_name` gives it at that moment -/
def valueDeps (s : Sim) (p : Pipe) : List String :=
  [(if p.hasSource then "value_source." else "missing_value_source.") ++ p.key] ++
    (enumFrom 1 p.mutators).map
      (fun (i, c) => "value_modifier." ++ p.key ++ "." ++ toString i ++ "." ++ modifierName s c)

/-- `ValuesManager.on_post_setup` -/
def postSetup (s : Sim) : R :=
  s.pipes.foldlM (fun s' p => liftRm s' (addResources s'.rm "value" [p.key] ("pipeline." ++ p.key) (valueDeps s p))) s

/-- what the framework's own managers register before any component is set up:
`PopulationManager.setup` (the `tracked` column) and `SimulationClock.setup` (the step-size pipeline
and the per-simulant clock columns). `clock`: name of the clock component. -/
def frameworkSetup (keyColumns : List String) (clock : String) : R := do
  let s : Sim := { keyColumns := keyColumns }
  let s ← registerInitializer s "population_manager" "population_manager" ["tracked"] [] [] []
  let s ← registerProducer s "simulant_step_size" (clock ++ ".step_source") (.func "lambda") [] [] []
  registerInitializer s clock clock ["next_event_time", "step_size"] [] [] []

end Viv.Topo
