/-! Small general-purpose definitions shared by the models (core Lean only). -/

instance {ε α : Type} [DecidableEq ε] [DecidableEq α] : DecidableEq (Except ε α) := fun a b =>
  match a, b with
  | .ok x, .ok y => if h : x = y then isTrue (by rw [h]) else isFalse (by intro h'; cases h'; exact h rfl)
  | .error x, .error y => if h : x = y then isTrue (by rw [h]) else isFalse (by intro h'; cases h'; exact h rfl)
  | .ok _, .error _ => isFalse (by intro h; cases h)
  | .error _, .ok _ => isFalse (by intro h; cases h)
