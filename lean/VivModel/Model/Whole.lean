import VivModel.Model.Stream
import VivModel.Model.RandomBlock
import VivModel.Model.IndexMap
import VivModel.Model.Machine
import VivModel.Model.Events
import VivModel.Model.Pipeline
import VivModel.Model.Lookup
import VivModel.Model.Results
/-! WHOLE — an end-to-end executable model of a whole (small) vivarium simulation, composed from the
sub-models of the framework: `Sha1` + `MT19937` + `RandomBlock` (the random block numpy computes from
the seed string), `Stream` (seed string, `get_draw`, `filter_for_probability`, `choice`), `IndexMap`
(CRN hash, `update`, collision resolution), `Machine` (`Machine.transition`), `Events`
(`EventChannel.emit` order) and the generated tables (`Gen.nBuckets`). Core Lean only.

What is modelled is the run of `vivarium.framework.engine.SimulationContext` (`setup`,
`initialize_simulants`, `step`, `run`) on the probe components of `vcheck/wholekit.py`
(`WPop`, `WMort`, `WDisease` + the real `state_machine.Machine`) under a `SimpleClock` with integer
times. From nothing but the configuration the model computes the complete state table after every
time step; the harness (`vcheck/props/whole.py`) compares it cell by cell with the real run.

Numbers: a draw is its numerator over 2^53; probabilities and weights are sixteenths; every quantity
the components compute is exact in binary64 (see `wholekit.py`), so no float arithmetic is idealised.

The random block is a parameter `B : seed string → size → Array` (`Blk`), instantiated with
`RandomBlock.blockOf` (`RandomState(get_hash(ks)).random_sample(size)` bit for bit) by `runWhole` /
the driver; one block is computed per draw request, exactly as `RandomnessStream.get_draw` does, and
read through `RandomBlock.memoBlk` (`Props/Whole.lean::draws_eq_real`: that is `Stream.getDraw realBlk`).

Details of the real code the model reproduces (each one was needed for the tables to agree):
* seed string `"_".join([decision point, str(clock), str(additional_key), seed])` with
  `seed = str(random_seed) + str(additional_seed)`; `str(None) = "None"` where no additional key is passed
  (`filter_for_probability`, the machine's `random.choice`, the initial-state `choice`); streams of the
  transition sets are called `transition_set.<state id>`;
* block size `max(map_size, 10 * population_size)`; the CRN-initialising stream reads the block POSITIONALLY
  (`raw_draws[:len(index)]`), every other stream at the simulant's index-map position (identity without key
  columns – a label outside the block is an `IndexError`);
* `register_simulants` uses the CLOCK (not the event time) as salt; the initial population is created at
  `start - step` (fencepost), a newborn at the clock of its step; an event's `time` is `clock + step`;
* the index of an event is the population as it is BEFORE the event's listeners run: a simulant born in a channel is
  not in that event's index (it is in the index of the later channels of the same step);
* listeners are called by priority bucket (0 … 9), inside a bucket in registration order (= component setup order);
* the machine and the mortality component see TRACKED simulants only; nothing ever tracks a simulant again;
* `_convert_to_ten_digit_int`: int columns and the int salt go through `_spread` (with int64 wrap-around for 50+ bit
  keys), a float key `k / 2^bits` through `_shift` = `floor(k * 10^10 / 2^bits)`.

OPT-IN extensions (every default reproduces the behaviour described above exactly):
* `Config.age`: an int column `age = floor(d * 2^bits)` of the same positional CRN draw as `key`;
* `Config.pipe`: the mortality probability is the value of the pipeline `wmort.p` (`Model/Pipeline.lean`, C14): source =
  a lookup table (`Model/Lookup.lean`, C15: `build` at setup, `Table.call` per request: categorical keys sex / state,
  optionally the binned parameter `age`), modifiers registered by the components `WMod k` (ids 4, 5, 6) in SETUP order
  (`Manager.run` over the registration calls), `replace_combiner` without post-processor or `list_combiner` +
  `union_post_processor`; values are exact rationals (`Rat`), the filter compares `draw / 2^53 < value`;
* `Config.strats` / `Config.obs`: the results system (`Model/Results.lean`, C16): the `ResultsManager` registers one
  listener per time-step channel at the DEFAULT priority during ITS setup, i.e. BEFORE every component (`regs`); the
  listener (`observe`) hands `gatherEvent` the population of `event.index` as it is at that moment – untracked
  simulants included (the manager's view requires `tracked`, so nothing is filtered) – with the mappers', filters' and
  aggregators' outputs computed from the table. The running results are part of the state (`State.res`). -/
namespace Viv.Whole
open Viv

deriving instance DecidableEq for Viv.Results.Ctx

inductive Err
  | randomness   -- RandomnessError: duplicate keys at `register_simulants`
  | lookup       -- IndexError: a label outside the block (no CRN), an option index outside the choices
  | value        -- ValueError: positional draws longer than the block; `_normalize_probabilities` rejections;
                 --   a mapper output outside the categories; a categorical lookup without exactly one data row
  | fuel         -- the collision loop of the index map did not finish within the fuel (the real loop keeps running)
  | internal     -- unreachable (`IndexMap.update_never_internal`)
  | key          -- KeyError: no interpolation for the key combination of a requested simulant
  deriving DecidableEq, Repr

/-- one value modifier of the pipeline `wmort.p` (`WMod k`): `kind` 0 `value * w[sex]/den`, 1 `value + w[sex]/den`,
2 `w[sex]/den` (replace-style); under the list combiner the contribution is `w[sex]/den` whatever the kind -/
structure ModSpec where
  kind : Nat
  den : Nat
  w : List Int
  deriving DecidableEq, Repr

/-- the lookup table and the pipeline of the mortality probability -/
structure PipeSpec where
  union : Bool             -- `list_combiner` + `union_post_processor` instead of `replace_combiner` + no post-processor
  den : Nat                -- value cells are `n / den`
  keys : List Nat          -- key columns of the table, in order: 0 = "sex", 1 = "wstate"
  edges : List Int         -- bin edges of the parameter column `age` (`[]`: no parameter column)
  rows : List (List Int)   -- data rows: one cell per key column (index of the sex / state), the bin index when there
                           --   is a parameter column, the value numerator
  mods : List ModSpec      -- the modifier of `WMod k` at position `k`
  deriving DecidableEq, Repr

/-- a stratification `WObserver` registers: `kind` 0 the `sex` column, 1 the `wstate` column, 2 the mapper
`sex + "_" + wstate`, 3 the mapper `tracked ↦ yes / no`, 4 `register_binned_stratification("age", …, edges, cats)` -/
structure StratSpec where
  name : String
  kind : Nat
  cats : List String
  excl : List String
  edges : List Int
  deriving DecidableEq, Repr

/-- an adding observation `WObserver` registers: `filter` 0 `""`, 1 `tracked == True`, 2 `wstate == "s1"`,
3 `sex == "f" and tracked == True`, 4 `tracked == False`; `agg` 0 `len`, 1 sum of `entrance`, 2 sum of `age`;
observed when `((event.time - start) // step) % every == 0` -/
structure ObsSpec where
  name : String
  phase : Nat
  filter : Nat
  agg : Nat
  every : Nat
  add : List String
  exc : List String
  deriving DecidableEq, Repr

/-- one state of the machine: `State(allow_self_transition)`, its transitions in declaration order as
(output state, weight per sex in sixteenths) -/
structure StSpec where
  selfOk : Bool
  trans : List (Nat × List Nat)
  deriving DecidableEq, Repr

/-- the configuration of a run: `configuration(cfg)` + the parameters of the components -/
structure Config where
  seed : String            -- `str(random_seed) [+ str(additional_seed)]` (`RandomnessManager.setup`)
  pop : Nat                -- population.population_size
  mapSize : Nat            -- randomness.map_size
  start : Int              -- time.start
  step : Int               -- time.step_size (> 0)
  stop : Int               -- time.end
  keyCols : List Nat       -- randomness.key_columns, in order: 0 = "entrance", 1 = "key"
  keyBits : Nat            -- `key = floor(draw * 2^keyBits)`
  keyFloat : Bool          -- `key` is a float column in [0,1) (`_shift`) instead of an int column (`_spread`)
  sexW : Nat               -- weight of "m" in sixteenths (≤ 16)
  births : List (List Nat) -- per step number, per channel: simulants created by WPop's listener
  akPerPhase : Bool        -- the CRN-initialising draw uses `key<site>` instead of `key` as additional key
  order : List Nat         -- component order (= setup order = registration order): 0 WPop, 1 WMort, 2 WDisease,
                           --   3 WObserver, 4 / 5 / 6 WMod 0 / 1 / 2, 7 WStep (`Model/WholeDt.lean`)
  birthPrio : List Nat     -- priority of WPop's listener on each of the four channels
  mortPhase : Nat
  mortPrio : Nat
  disPhase : Nat
  disPrio : Nat
  mortP : List (List Nat)  -- [sex][state] sixteenths
  initW : List (List Nat)  -- [sex][state] sixteenths: weights of the initial state
  states : List StSpec
  fuel : Nat := 4096       -- bound on the collision-loop iterations explored by the model
  age : Option Nat := none           -- opt-in: WPop creates `age = floor(draw * 2^bits)`
  pipe : Option PipeSpec := none     -- opt-in: the mortality probability is the value of the pipeline `wmort.p`
  strats : List StratSpec := []      -- opt-in: what WObserver registers
  obsDefaults : List String := []    --   `stratification.default` of the configuration
  obs : List ObsSpec := []
  deriving Repr

/-- one row of the state table -/
structure Row where
  label : Nat
  tracked : Bool
  key : Nat                -- `floor(draw * 2^keyBits)`
  entrance : Int
  sex : Nat                -- 0 = "m", 1 = "f"
  st : Nat                 -- position of the state in `Config.states`
  exit : Option Int        -- `exit` column: NaN / the event time at which the simulant was untracked
  age : Nat := 0           -- `age` column (0 when the column is not configured)
  deriving DecidableEq, Repr

structure State where
  rows : List Row
  imap : IndexMap.IMap
  clock : Int
  res : Results.Ctx := {}                  -- the results context: registrations and `_raw_results`
  pvals : List (Nat × Rat) := []           -- the last value the pipeline `wmort.p` returned (label, value); a log
  deriving DecidableEq, Repr

/-- the random block as a function of seed string and size -/
abbrev Blk := String → Nat → Array Nat

/-- `RandomnessManager.setup`: `map_size = max(map_size, 10 * pop_size)` -/
def blockSize (cfg : Config) : Nat := max cfg.mapSize (10 * cfg.pop)

/-- `RandomnessStream._key(additional_key)` with the clock an integer (`SimpleClock`) -/
def seedStr (cfg : Config) (dp : String) (clock : Int) (ak : String) : String :=
  Stream.joinKey dp (toString clock) ak cfg.seed

/-- `IndexMap.__getitem__` for one label, then the bounds of `raw_draws[...]` -/
def posOf (im : IndexMap.IMap) (s : Nat) : Option Nat :=
  if im.useCrn then
    match im.map with
    | none => none
    | some m => IndexMap.posOfSim m (s : Int)
  else Stream.posIdentity im.size s

def strmErr : Stream.Err → Err
  | .lookup => .lookup
  | .index => .lookup
  | _ => .value

def imErr : IndexMap.Err → Err
  | .randomness => .randomness
  | .fuel => .fuel
  | .key => .lookup
  | .internal => .internal

/-- `np.floor(draw * 2**bits)` for a draw `d / 2^53` -/
def keyOf (bits d : Nat) : Nat := d / 2 ^ (53 - bits)

/-- the value of the `key` column as the index map sees it: an int column (`_spread`), or the float
`k / 2^bits` whose ten-digit integer is `_shift` = `floor(k / 2^bits * 10^10)` (exact for bits ≤ 20) -/
def keyVal (cfg : Config) (k : Nat) : IndexMap.KVal :=
  if cfg.keyFloat then .conv k ((k : Int) * 10000000000 / ((2 : Int) ^ cfg.keyBits)) else .int k

/-- the key tuple of a simulant: the configured key columns in order -/
def keyTuple (cfg : Config) (entrance : Int) (k : Nat) : IndexMap.Key :=
  cfg.keyCols.map fun c => if c = 0 then .int entrance else keyVal cfg k

/-- `PopulationManager._create_simulants`: `range(len + count)` minus the existing labels -/
def newLabels (rows : List Row) (k : Nat) : List Nat :=
  (List.range (rows.length + k)).filter fun l => !(rows.map (·.label)).contains l

/-- `p=[a/16, (16-a)/16]` -/
def sexWeights (cfg : Config) : Stream.Weights := .oneD [.val cfg.sexW, .val (16 - cfg.sexW)]

/-- one weight row per new simulant: `initW[sex]` -/
def initWeights (cfg : Config) (sexes : List Nat) : Stream.Weights :=
  .twoD (sexes.map fun sx => (cfg.initW.getD sx []).map Stream.Cell.val)

/-- the rows the initializers write for the new labels -/
def mkRows (clock : Int) (labels keys sexes sts : List Nat) (ages : List Nat := []) : List Row :=
  labels.zipIdx.map fun p => ⟨p.1, true, keys.getD p.2 0, clock, sexes.getD p.2 0, sts.getD p.2 0, none, ages.getD p.2 0⟩

/-- `age = np.floor(draw * 2**bits)` of the draws of a creation (`[]`: no `age` column) -/
def agesOf (cfg : Config) (kd : List Stream.Draw) : List Nat :=
  match cfg.age with
  | none => []
  | some b => kd.map fun d => keyOf b d.2.2

/-- the simulant creator with the initializers of the kit, in dependency order:
`WPop.on_initialize_simulants` (positional draw of the CRN-initialising stream → `key`; `entrance` =
creation time = the clock; `register_simulants` with the clock as salt; `sex` by `choice` at the
registered positions), `WMort` (`exit` = NaN), `WDisease` (initial state by `choice` with one weight
row per simulant). `site` is "init" or the channel number of the births listener. -/
def create (B : Blk) (cfg : Config) (site : String) (k : Nat) (s : State) : Except Err State :=
  let labels := newLabels s.rows k
  if labels.isEmpty then .ok s else
  let size := blockSize cfg
  let ksKey := seedStr cfg "wpop_crn" s.clock (if cfg.akPerPhase then "key" ++ site else "key")
  match Stream.getDrawInit (RandomBlock.memoBlk (B ksKey size)) size ksKey labels with
  | .error e => .error (strmErr e)
  | .ok kd =>
    let keys := kd.map fun d => keyOf cfg.keyBits d.2.2
    let batch := (labels.zip keys).map fun lk => ((lk.1 : Int), keyTuple cfg s.clock lk.2)
    match s.imap.update (IndexMap.hashPos size) cfg.fuel batch (.int s.clock) with
    | (_, .error e) => .error (imErr e)
    | (im, .ok _) =>
      let ksSex := seedStr cfg "wpop_sex" s.clock "sex"
      match Stream.choiceStream (RandomBlock.memoBlk (B ksSex size)) size (posOf im) ksSex 16 2
          (sexWeights cfg) labels with
      | .error e => .error (strmErr e)
      | .ok sexes =>
        let ksInit := seedStr cfg "wdis_init" s.clock "None"
        match Stream.choiceStream (RandomBlock.memoBlk (B ksInit size)) size (posOf im) ksInit 16
            cfg.states.length (initWeights cfg sexes) labels with
        | .error e => .error (strmErr e)
        | .ok sts => .ok { s with imap := im, rows := s.rows ++ mkRows s.clock labels keys sexes sts (agesOf cfg kd) }

/-- `WPop.births(phase)`: the schedule entry of the current step number `(clock - start) // step` -/
def births (B : Blk) (cfg : Config) (ph : Nat) (s : State) : Except Err State :=
  let sn := (s.clock - cfg.start) / cfg.step
  if 0 ≤ sn then
    match cfg.births[sn.toNat]? with
    | some row => create B cfg (toString ph) (row.getD ph 0) s
    | none => .ok s
  else .ok s

/-- `mortP[sex][state]` in sixteenths -/
def mortProb (cfg : Config) (r : Row) : Nat := (cfg.mortP.getD r.sex []).getD r.st 0

/-- is the row addressed by an event with index `evIdx` and visible through a default view -/
def live (evIdx : List Nat) (r : Row) : Bool := r.tracked && evIdx.contains r.label

/-! ### opt-in: lookup table + value pipeline of the mortality probability -/

def SEXES : List String := ["m", "f"]
def STATE_NAMES : List String := ["s0", "s1", "s2", "s3"]
def sexName (x : Nat) : String := SEXES.getD x "?"
def stateName (x : Nat) : String := STATE_NAMES.getD x "?"

/-- the name of the pipeline -/
def PIPE : String := "wmort.p"

/-- the common denominator the draws are brought to when they are compared with a pipeline value (every value of a
valid configuration is a multiple of `1 / PDEN`) -/
def PDEN : Nat := 2 ^ 32

/-- one data row of the `DataFrame` handed to `build_table`: key cells by name, `[age_start, age_end)`, the value
numerator -/
def tableRow (p : PipeSpec) (row : List Int) : Lookup.Row :=
  let nk := p.keys.length
  let keys := p.keys.zipIdx.map fun (k, i) => if k = 0 then sexName (row.getD i 0).toNat else stateName (row.getD i 0).toNat
  if p.edges.isEmpty then { keys := keys, starts := [], ends := [], vals := [row.getD nk 0] }
  else
    let b := (row.getD nk 0).toNat
    { keys := keys, starts := [p.edges.getD b 0], ends := [p.edges.getD (b + 1) 0], vals := [row.getD (nk + 1) 0] }

/-- `builder.lookup.build_table(data, key_columns, parameter_columns, ["p"])` with the manager's defaults
(`validate`, `extrapolate`): an `InterpolatedTable` when `age` is a parameter column, else a `CategoricalTable` -/
def mkTable (p : PipeSpec) : Except Lookup.Err Lookup.Table :=
  Lookup.build p.keys.length (if p.edges.isEmpty then 0 else 1) (p.rows.map (tableRow p)) true none

/-- the row of the state table with label `l` -/
def rowOf (rows : List Row) (l : Nat) : Option Row := rows.find? fun r => r.label == l

/-- what the table's population view reads for one requested label: its key attributes and its parameter value -/
def reqOf (p : PipeSpec) (rows : List Row) (l : Nat) : Lookup.Req :=
  match rowOf rows l with
  | some r => { label := l, keys := p.keys.map fun k => if k = 0 then sexName r.sex else stateName r.st,
                xs := if p.edges.isEmpty then [] else [(r.age : Int)] }
  | none => { label := l, keys := [], xs := [] }

def lookErr : Lookup.Err → Err
  | .key => .key
  | _ => .value

/-- `LookupTable.__call__(index)`: the value column as a Series over the index (`Table.call`; the clock is not a
parameter). A NaN cell cannot occur in an accepted call on a table that `build` accepted (`internal`). -/
def lookupSeries (p : PipeSpec) (t : Lookup.Table) (rows : List Row) (idx : List Nat) : Except Err Pipeline.Series :=
  match t.call 0 0 (idx.map (reqOf p rows)) with
  | .error e => .error (lookErr e)
  | .ok res =>
    if res.all (fun e => e.2.isSome) then
      .ok (res.map fun e => (e.1, ((((e.2.getD []).getD 0 0 : Int) : Rat) / (p.den : Nat))))
    else .error .internal

/-- `w[sex] / den` of a modifier for the simulant with label `l` (read through the modifier's own view) -/
def modW (m : ModSpec) (rows : List Row) (l : Nat) : Rat :=
  ((m.w.getD (((rowOf rows l).map (·.sex)).getD 0) 0 : Int) : Rat) / (m.den : Nat)

/-- one modifier applied to one simulant's value -/
def modOne (m : ModSpec) (w x : Rat) : Rat :=
  if m.kind = 0 then x * w else if m.kind = 1 then x + w else w

/-- `WMod.modify(index, value)` (replace combiner): label-aligned arithmetic on the Series -/
def modFn (m : ModSpec) (rows : List Row) : List Nat → Pipeline.Item → Id Pipeline.Item :=
  fun _ v => match v with
    | .se ser => .se (ser.map fun (e : Nat × Rat) => (e.1, modOne m (modW m rows e.1) e.2))
    | other => other

/-- `WMod.contribute(index)` (list combiner) -/
def contribFn (m : ModSpec) (rows : List Row) : List Nat → Id Pipeline.Item :=
  fun idx => .se (idx.map fun l => (l, modW m rows l))

/-- the source when the call is accepted (`lookupSeries` is checked by the caller before the pipeline runs) -/
def srcItem (p : PipeSpec) (t : Lookup.Table) (rows : List Row) : List Nat → Id Pipeline.Item :=
  fun idx => match lookupSeries p t rows idx with
    | .ok ser => .se ser
    | .error _ => .se []

def modSpecOf (p : PipeSpec) (k : Nat) : ModSpec := p.mods.getD k { kind := 0, den := 1, w := [1, 1] }

/-- the registration calls the components make during setup, in setup (= component) order – replace combiner:
`WMort` offers the source, `WMod k` (component `4 + k`) appends its modifier -/
def replaceOps (cfg : Config) (p : PipeSpec) (t : Lookup.Table) (rows : List Row) :
    List (Pipeline.Op Id (List Nat) Pipeline.Item (List Nat → Pipeline.Item → Id Pipeline.Item)) :=
  cfg.order.flatMap fun c =>
    if c = 1 then [.producer "wmort" PIPE { source := srcItem p t rows, combiner := Pipeline.replaceCombiner, post := none }]
    else if 4 ≤ c ∧ c < 7 then [.modifier "wmod" PIPE (modFn (modSpecOf p (c - 4)) rows)]
    else []

/-- `union_post_processor` as a post-processor on the list the list combiner built (`[]`: the values do not
broadcast – not reachable, every entry is a Series over the requested index) -/
def unionPost : List Pipeline.Item → Id (List Pipeline.Item) :=
  fun vs => match Pipeline.unionItems vs with
    | some r => [r]
    | none => []

/-- … list combiner + `union_post_processor`: the source returns `[table(index)]` -/
def unionOps (cfg : Config) (p : PipeSpec) (t : Lookup.Table) (rows : List Row) :
    List (Pipeline.Op Id (List Nat) (List Pipeline.Item) (List Nat → Id Pipeline.Item)) :=
  cfg.order.flatMap fun c =>
    if c = 1 then [.producer "wmort" PIPE { source := fun idx => [srcItem p t rows idx],
                                             combiner := Pipeline.listCombiner, post := some unionPost }]
    else if 4 ≤ c ∧ c < 7 then [.modifier "wmod" PIPE (contribFn (modSpecOf p (c - 4)) rows)]
    else []

/-- `self.pipeline(pop.index)`: the lookup (which may raise), then `Pipeline.call` of the pipeline the registration
calls built -/
def mortValue (cfg : Config) (p : PipeSpec) (t : Lookup.Table) (rows : List Row) (idx : List Nat) :
    Except Err Pipeline.Series :=
  match lookupSeries p t rows idx with
  | .error e => .error e
  | .ok _ =>
    if p.union then
      match ((({} : Pipeline.Manager Id (List Nat) (List Pipeline.Item) (List Nat → Id Pipeline.Item)).run
                (unionOps cfg p t rows)).1.getValue PIPE).call idx false with
      | .ok [Pipeline.Item.se ser] => .ok ser
      | _ => .error .internal
    else
      match ((({} : Pipeline.Manager Id (List Nat) Pipeline.Item (List Nat → Pipeline.Item → Id Pipeline.Item)).run
                (replaceOps cfg p t rows)).1.getValue PIPE).call idx false with
      | .ok (Pipeline.Item.se ser) => .ok ser
      | _ => .error .internal

/-- `draw / 2^53 < x` as `draw * PDEN < probNat x` (exact when `x` is a multiple of `1 / PDEN`) -/
def probNat (x : Rat) : Nat := (x * ((PDEN * 2 ^ 53 : Nat) : Rat)).floor.toNat

/-- the probabilities `WMort.act` hands to `filter_for_probability` for the tracked simulants `pop` of the event:
(scale of the draws, thresholds, the log of pipeline values). Without a pipeline: `mortP[sex][state] / 16`. -/
def mortProbs (cfg : Config) (s : State) (pop : List Row) : Except Err (Nat × List Nat × List (Nat × Rat)) :=
  match cfg.pipe with
  | none => .ok (16, pop.map (fun r => mortProb cfg r * 2 ^ 53), s.pvals)
  | some p =>
    match mkTable p with
    | .error _ => .error .internal
    | .ok t =>
      match mortValue cfg p t s.rows (pop.map (·.label)) with
      | .error e => .error e
      | .ok ser => .ok (PDEN, ser.map (fun e => probNat e.2), ser)

/-- `WMort.act`: the tracked simulants of the event index are filtered with
`filter_for_probability(index, p)`; those kept are untracked and get `exit = event.time` -/
def mort (B : Blk) (cfg : Config) (evIdx : List Nat) (evTime : Int) (s : State) : Except Err State :=
  let pop := s.rows.filter (live evIdx)
  if pop.isEmpty then .ok s else
  match mortProbs cfg s pop with
  | .error e => .error e
  | .ok (scale, ps, log) =>
    let size := blockSize cfg
    let ks := seedStr cfg "wmort" s.clock "None"
    match Stream.filterStream (RandomBlock.memoBlk (B ks size)) size (posOf s.imap) ks scale (pop.map (·.label))
        (.list ps) with
    | .error e => .error (strmErr e)
    | .ok dead =>
      .ok { s with pvals := log, rows := s.rows.map fun r =>
              if live evIdx r && dead.contains r.label then { r with tracked := false, exit := some evTime } else r }

/-! ### opt-in: the results system -/

/-- what `WObserver` registers (nothing when the component is not in the simulation) -/
def regStrats (cfg : Config) : List StratSpec := if cfg.order.contains 3 then cfg.strats else []
def regObs (cfg : Config) : List ObsSpec := if cfg.order.contains 3 then cfg.obs else []

/-- the four time-step channels, in the order `SimulationContext.step` emits them -/
def PHASES : List String := ["time_step__prepare", "time_step", "time_step__cleanup", "collect_metrics"]

/-- `register_stratification` / `register_binned_stratification` calls (exclusions always passed in code) -/
def preStrats (cfg : Config) : Except Results.Err (List Results.Strat) :=
  (regStrats cfg).foldlM (fun ss (sp : StratSpec) =>
    Results.addStratification [] ss sp.name sp.cats (some sp.excl) (if sp.kind = 4 then some sp.edges else none)) []

/-- … then the `register_adding_observation` calls: the context as it is when setup ends -/
def preRes (cfg : Config) : Except Results.Err Results.Ctx :=
  match preStrats cfg with
  | .error e => .error e
  | .ok strats =>
    (regObs cfg).foldlM (fun c (o : ObsSpec) =>
        Results.registerObservation c o.name (PHASES.getD o.phase "") .adding o.add o.exc)
      ({ defaults := cfg.obsDefaults, strats := strats } : Results.Ctx)

/-- … then `ResultsManager.on_post_setup` -/
def initRes (cfg : Config) : Except Results.Err Results.Ctx :=
  match preRes cfg with
  | .error e => .error e
  | .ok c => Results.postSetup c

/-- the mapper's output for one simulant -/
def rawCat (sp : StratSpec) (r : Row) : String :=
  if sp.kind = 0 then sexName r.sex
  else if sp.kind = 1 then stateName r.st
  else if sp.kind = 2 then sexName r.sex ++ "_" ++ stateName r.st
  else if sp.kind = 3 then (if r.tracked then "yes" else "no")
  else Results.binLabel sp.edges sp.cats (r.age : Int)

/-- `population.query(pop_filter)` for one simulant -/
def passesFilter (f : Nat) (r : Row) : Bool :=
  if f = 0 then true
  else if f = 1 then r.tracked
  else if f = 2 then r.st == 1
  else if f = 3 then r.sex == 1 && r.tracked
  else !r.tracked

/-- the aggregator's summand -/
def aggVal (a : Nat) (r : Row) : Int :=
  if a = 0 then 1 else if a = 1 then r.entrance else (r.age : Int)

/-- `ResultsManager._prepare_population(event)`: every simulant of `event.index`, tracked or not -/
def rawRows (cfg : Config) (evIdx : List Nat) (rows : List Row) : List Results.RawRow :=
  rows.map fun r => { inEvent := evIdx.contains r.label, raw := (regStrats cfg).map fun sp => rawCat sp r }

def obsInputs (cfg : Config) (evTime : Int) (rows : List Row) : List Results.ObsInput :=
  (regObs cfg).map fun o =>
    { name := o.name, toObserve := decide (((evTime - cfg.start) / cfg.step) % (o.every : Int) = 0),
      passes := rows.map (passesFilter o.filter), vals := rows.map (aggVal o.agg), payloads := [] }

/-- `ResultsManager.on_<phase>(event)` = `gather_results(phase, event)`; a mapper output outside the categories is a
`ValueError` -/
def observe (cfg : Config) (ph : Nat) (evIdx : List Nat) (evTime : Int) (s : State) : Except Err State :=
  match Results.gatherEvent s.res (PHASES.getD ph "") evTime (rawRows cfg evIdx s.rows) (obsInputs cfg evTime s.rows) with
  | .ok c => .ok { s with res := c }
  | .error _ => .error .value

/-- the draws the transition set of state `j` reads: `random.choice(affected.index, …)` – one block, read
at the position of every affected simulant (table positions; 0 where nothing is read) -/
def stateDraws (B : Blk) (cfg : Config) (evIdx : List Nat) (s : State) (j : Nat) (sp : StSpec) :
    Except Err (List Nat) :=
  let affected := s.rows.filter fun r => live evIdx r && r.st == j
  if affected.isEmpty || sp.trans.isEmpty then .ok [] else
  let size := blockSize cfg
  let ks := seedStr cfg ("transition_set." ++ "s" ++ toString j) s.clock "None"
  match Stream.getDraw (RandomBlock.memoBlk (B ks size)) size (posOf s.imap) ks (affected.map (·.label)) with
  | .error e => .error (strmErr e)
  | .ok ds =>
    .ok (s.rows.map fun r => if live evIdx r && r.st == j then ((ds.find? fun d => d.1 == r.label).map (·.2.2)).getD 0 else 0)

/-- the `Machine` of `WDisease` as the C17 model sees it at this event: weights per table position from
the `sex` column (`WTransition._p`), draws per table position from the transition sets' streams -/
def mkStates (B : Blk) (cfg : Config) (evIdx : List Nat) (s : State) :
    List (Nat × StSpec) → Except Err (List Machine.StateDef)
  | [] => .ok []
  | (j, sp) :: rest =>
    match stateDraws B cfg evIdx s j sp with
    | .error e => .error e
    | .ok ds =>
      match mkStates B cfg evIdx s rest with
      | .error e => .error e
      | .ok sds =>
        .ok ({ selfOk := sp.selfOk, transient := false,
               trans := sp.trans.map fun t => { out := t.1, w := s.rows.map fun r => t.2.getD r.sex 0 },
               draws := ds } :: sds)

/-- `WDisease.act`: `Machine.transition(event.index, event.time)`. The table positions of the whole event index are
handed to the C17 model together with the `tracked` column: the machine's own population view drops the untracked
simulants (`Machine.statePops` / `Row.seen`), exactly as the real `_get_state_pops` does -/
def disease (B : Blk) (cfg : Config) (evIdx : List Nat) (s : State) : Except Err State :=
  let idx := (s.rows.zipIdx.filter fun p => evIdx.contains p.1.label).map (·.2)
  if idx.isEmpty then .ok s else
  match mkStates B cfg evIdx s (cfg.states.zipIdx.map fun p => (p.2, p.1)) with
  | .error e => .error e
  | .ok sds =>
    let m : Machine.Mach := { wd := 16, dd := 2 ^ 53, states := sds }
    match Machine.transition m 2 (s.rows.map fun r => { st := r.st, other := 0, tracked := r.tracked }) idx with
    | .error _ => .error .value
    | .ok tab => .ok { s with rows := List.zipWith (fun r (mr : Machine.Row) => { r with st := mr.st }) s.rows tab }

/-- the registrations on channel `ph`, in registration order: (priority, listener) with listener 0 = births,
1 = mortality, 2 = disease, 3 = the results manager. The MANAGERS are set up before the components: the results
manager's listener (default priority) is the first registration of every channel; then the components in setup order. -/
def regs (cfg : Config) (ph : Nat) : List Ev.Reg :=
  (Gen.defaultPriority, 3) :: cfg.order.flatMap fun c =>
    if c = 0 then [(cfg.birthPrio.getD ph 5, 0)]
    else if c = 1 then (if cfg.mortPhase = ph then [(cfg.mortPrio, 1)] else [])
    else if c = 2 then (if cfg.disPhase = ph then [(cfg.disPrio, 2)] else [])
    else []

/-- one listener call -/
def act (B : Blk) (cfg : Config) (ph : Nat) (evIdx : List Nat) (evTime : Int) (who : Nat) (s : State) :
    Except Err State :=
  if who = 0 then births B cfg ph s
  else if who = 1 then mort B cfg evIdx evTime s
  else if who = 3 then observe cfg ph evIdx evTime s
  else disease B cfg evIdx s

def runListeners (B : Blk) (cfg : Config) (ph : Nat) (evIdx : List Nat) (evTime : Int) :
    List Ev.Reg → State → Except Err State
  | [], s => .ok s
  | r :: rs, s =>
    match act B cfg ph evIdx evTime r.2 s with
    | .ok s' => runListeners B cfg ph evIdx evTime rs s'
    | .error e => .error e

/-- `time_step_emitters[event](pop_to_update)`: the event index is the whole population as it is BEFORE
the listeners run, `event.time = clock + step`; listeners by priority bucket, registration order inside -/
def emit (B : Blk) (cfg : Config) (ph : Nat) (s : State) : Except Err State :=
  runListeners B cfg ph (s.rows.map (·.label)) (s.clock + cfg.step) (Ev.emitOrder Gen.nBuckets (regs cfg ph)) s

def runPhases (B : Blk) (cfg : Config) : List Nat → State → Except Err State
  | [], s => .ok s
  | ph :: phs, s =>
    match emit B cfg ph s with
    | .ok s' => runPhases B cfg phs s'
    | .error e => .error e

/-- `SimulationContext.step`: the four events in order, then `clock.step_forward` -/
def stepWhole (B : Blk) (cfg : Config) (s : State) : Except Err State :=
  match runPhases B cfg [0, 1, 2, 3] s with
  | .ok s' => .ok { s' with clock := s'.clock + cfg.step }
  | .error e => .error e

/-- the state `initialize_simulants` starts from: no table, empty index map
(`IndexMap(key_columns, max(map_size, 10 * pop))`), the clock stepped BACK by one step (fencepost) -/
def initState (cfg : Config) : State :=
  { rows := [], imap := { useCrn := !cfg.keyCols.isEmpty, size := blockSize cfg }, clock := cfg.start - cfg.step,
    res := match initRes cfg with | .ok c => c | .error _ => {} }

/-- `SimulationContext.initialize_simulants`: `step_backward`, create the initial population, `step_forward` -/
def initPopB (B : Blk) (cfg : Config) : Except Err State :=
  match create B cfg "init" cfg.pop (initState cfg) with
  | .ok s => .ok { s with clock := s.clock + cfg.step }
  | .error e => .error e

/-- `n` calls of `step()` -/
def iterWhole (B : Blk) (cfg : Config) : Nat → State → Except Err State
  | 0, s => .ok s
  | n + 1, s =>
    match stepWhole B cfg s with
    | .ok s' => iterWhole B cfg n s'
    | .error e => .error e

/-- `SimulationContext.run`: `while clock < stop: step()` -/
def runWholeB (B : Blk) (cfg : Config) : Nat → State → Except Err State
  | 0, s => .ok s
  | fuel + 1, s =>
    if s.clock < cfg.stop then
      match stepWhole B cfg s with
      | .ok s' => runWholeB B cfg fuel s'
      | .error e => .error e
    else .ok s

/-- the concrete simulation: the block numpy computes -/
def initPop (cfg : Config) : Except Err State := initPopB RandomBlock.blockOf cfg
def runWhole (cfg : Config) : Nat → State → Except Err State := runWholeB RandomBlock.blockOf cfg

def isPow2Le (n k : Nat) : Bool := (List.range (k + 1)).any fun e => n == 2 ^ e

/-- the opt-in parts: the kit's own requirements (column `age` exists where it is used, dyadic denominators so that
every value is a multiple of `1 / PDEN`, well-shaped table rows) and what the real code refuses at setup
(`build_table` validation; duplicate / unknown stratification or observation registrations) -/
def Config.extValid (cfg : Config) : Bool :=
  (match cfg.age with | some b => decide (b ≤ 53) | none => true)
  && (match cfg.pipe with
      | none => true
      | some p =>
        isPow2Le p.den 8 && decide p.keys.Nodup && p.keys.all (fun k => decide (k < 2))
        && (p.edges.isEmpty || (cfg.age.isSome && decide (2 ≤ p.edges.length)))
        && p.rows.all (fun row => decide (row.length = p.keys.length + (if p.edges.isEmpty then 1 else 2))
             && row.all (fun x => decide (0 ≤ x))
             && (p.keys.zipIdx.all fun (k, i) => decide ((row.getD i 0).toNat < (if k = 0 then 2 else cfg.states.length)))
             && (p.edges.isEmpty || decide ((row.getD p.keys.length 0).toNat + 1 < p.edges.length)))
        && decide (p.mods.length = 3)
        && p.mods.all (fun m => isPow2Le m.den 8 && decide (m.kind < 3) && decide (m.w.length = 2)
             && (!p.union || m.w.all fun x => decide (0 ≤ x ∧ x ≤ (m.den : Int))))
        && (match mkTable p with | .ok _ => true | .error _ => false))
  && cfg.strats.all (fun sp => decide (sp.kind < 5) && (decide (sp.kind ≠ 4) || cfg.age.isSome))
  && cfg.obs.all (fun o => decide (o.phase < 4) && decide (o.filter < 5) && decide (o.agg < 3) && decide (0 < o.every)
       && (decide (o.agg ≠ 2) || cfg.age.isSome))
  && (match initRes cfg with | .ok _ => true | .error _ => false)

/-- what the real code requires of a configuration before a run can start (the driver refuses anything
else; the harness generates only such configurations) -/
def Config.valid (cfg : Config) : Bool :=
  decide (0 < cfg.step) && decide (0 < blockSize cfg) && decide (cfg.sexW ≤ 16) && decide (cfg.keyBits ≤ 53)
  && cfg.keyCols.all (fun c => decide (c < 2)) && cfg.order.all (fun c => decide (c < 8)) && decide cfg.order.Nodup
  && decide (cfg.birthPrio.length = 4) && cfg.birthPrio.all (fun p => decide (p < 10))
  && decide (cfg.mortPrio < 10) && decide (cfg.disPrio < 10) && decide (cfg.mortPhase < 4) && decide (cfg.disPhase < 4)
  && decide (0 < cfg.states.length) && decide (cfg.initW.length = 2) && decide (cfg.mortP.length = 2)
  && cfg.initW.all (fun r => decide (r.length = cfg.states.length) && decide (0 < r.sum))
  && cfg.mortP.all (fun r => decide (r.length = cfg.states.length))
  && cfg.states.all (fun sp => sp.trans.all fun t => decide (t.1 < cfg.states.length) && decide (t.2.length = 2))
  && cfg.births.all (fun r => decide (r.length = 4))
  && cfg.extValid

end Viv.Whole
