import VivModel.Model.Whole
import VivModel.Model.Clock
/-! WHOLE-DT — the end-to-end model of `Model/Whole.lean` under a `DateTimeClock` with PER-SIMULANT clocks, composing
`Model/Clock.lean` (C10): the events of a step carry only the simulants that are DUE, the clock advances to the
earliest next-event time, every simulant's step is what the registered step-size modifiers ask for it (rounded by the
clock's post-processor), untracked simulants keep their clocks. Core Lean only.

Times are whole HOURS since 2021-01-01 00:00 (the harness keeps every time inside January 2021):
* seed strings carry `str(pd.Timestamp)` = `2021-01-DD HH:00:00` (`stamp`);
* the index map is salted with the Timestamp: `_convert_to_ten_digit_int` of a datetime column is
  `column.astype(int64) // 10^9`; under the pandas of this environment (3.0.6) a Timestamp built from year / month /
  day has MICROSECOND resolution, so that is `epoch-microseconds // 10^9` (`tenOf`) – the model follows the code as it
  behaves here;
* `entrance` / `exit` are stored by the kit as hours, so the `entrance` key column is an int column as before.

The listeners are the code of `Model/Whole.lean` with the time rendering as a parameter (`Tm`); with the rendering of a
`SimpleClock` they ARE the functions of `Model/Whole.lean` (`Props/WholeDt.lean`: `createT_simple`, `mortT_simple`,
`diseaseT_simple`, `actT_simple`). -/
namespace Viv.WholeDt
open Viv Viv.Whole

/-- how a clock value is rendered: in seed strings (`str(clock)`) and as the salt of the index map -/
structure Tm where
  str : Int → String
  salt : Int → IndexMap.Salt

/-- a `SimpleClock` with integer times -/
def Tm.simple : Tm := ⟨toString, .int⟩

def two (n : Int) : String := if n < 10 then "0" ++ toString n else toString n

/-- `str(pd.Timestamp)` of hour `h` of January 2021 -/
def stamp (h : Int) : String := "2021-01-" ++ two (h / 24 + 1) ++ " " ++ two (h % 24) ++ ":00:00"

/-- `_clip_to_seconds(column.astype(np.int64))` of a microsecond-resolution Timestamp: microseconds since the Unix epoch
(2021-01-01 = 1609459200 s) floor-divided by `pd.Timedelta(1, unit="s").value = 10^9` -/
def tenOf (h : Int) : Int := (1609459200 + 3600 * h) * 1000000 / 1000000000

/-- a `DateTimeClock` counted in hours of January 2021 -/
def Tm.dt : Tm := ⟨stamp, fun h => .conv h (tenOf h)⟩

def seedStrT (tm : Tm) (cfg : Config) (dp : String) (clock : Int) (ak : String) : String :=
  Stream.joinKey dp (tm.str clock) ak cfg.seed

/-- `Whole.create` with the time rendering as a parameter -/
def createT (tm : Tm) (B : Blk) (cfg : Config) (site : String) (k : Nat) (s : State) : Except Err State :=
  let labels := newLabels s.rows k
  if labels.isEmpty then .ok s else
  let size := blockSize cfg
  let ksKey := seedStrT tm cfg "wpop_crn" s.clock (if cfg.akPerPhase then "key" ++ site else "key")
  match Stream.getDrawInit (RandomBlock.memoBlk (B ksKey size)) size ksKey labels with
  | .error e => .error (strmErr e)
  | .ok kd =>
    let keys := kd.map fun d => keyOf cfg.keyBits d.2.2
    let batch := (labels.zip keys).map fun lk => ((lk.1 : Int), keyTuple cfg s.clock lk.2)
    match s.imap.update (IndexMap.hashPos size) cfg.fuel batch (tm.salt s.clock) with
    | (_, .error e) => .error (imErr e)
    | (im, .ok _) =>
      let ksSex := seedStrT tm cfg "wpop_sex" s.clock "sex"
      match Stream.choiceStream (RandomBlock.memoBlk (B ksSex size)) size (posOf im) ksSex 16 2
          (sexWeights cfg) labels with
      | .error e => .error (strmErr e)
      | .ok sexes =>
        let ksInit := seedStrT tm cfg "wdis_init" s.clock "None"
        match Stream.choiceStream (RandomBlock.memoBlk (B ksInit size)) size (posOf im) ksInit 16
            cfg.states.length (initWeights cfg sexes) labels with
        | .error e => .error (strmErr e)
        | .ok sts => .ok { s with imap := im, rows := s.rows ++ mkRows s.clock labels keys sexes sts (agesOf cfg kd) }

/-- `Whole.mort` with the time rendering as a parameter -/
def mortT (tm : Tm) (B : Blk) (cfg : Config) (evIdx : List Nat) (evTime : Int) (s : State) : Except Err State :=
  let pop := s.rows.filter (live evIdx)
  if pop.isEmpty then .ok s else
  match mortProbs cfg s pop with
  | .error e => .error e
  | .ok (scale, ps, log) =>
    let size := blockSize cfg
    let ks := seedStrT tm cfg "wmort" s.clock "None"
    match Stream.filterStream (RandomBlock.memoBlk (B ks size)) size (posOf s.imap) ks scale (pop.map (·.label))
        (.list ps) with
    | .error e => .error (strmErr e)
    | .ok dead =>
      .ok { s with pvals := log, rows := s.rows.map fun r =>
              if live evIdx r && dead.contains r.label then { r with tracked := false, exit := some evTime } else r }

def stateDrawsT (tm : Tm) (B : Blk) (cfg : Config) (evIdx : List Nat) (s : State) (j : Nat) (sp : StSpec) :
    Except Err (List Nat) :=
  let affected := s.rows.filter fun r => live evIdx r && r.st == j
  if affected.isEmpty || sp.trans.isEmpty then .ok [] else
  let size := blockSize cfg
  let ks := seedStrT tm cfg ("transition_set." ++ "s" ++ toString j) s.clock "None"
  match Stream.getDraw (RandomBlock.memoBlk (B ks size)) size (posOf s.imap) ks (affected.map (·.label)) with
  | .error e => .error (strmErr e)
  | .ok ds =>
    .ok (s.rows.map fun r => if live evIdx r && r.st == j then ((ds.find? fun d => d.1 == r.label).map (·.2.2)).getD 0 else 0)

def mkStatesT (tm : Tm) (B : Blk) (cfg : Config) (evIdx : List Nat) (s : State) :
    List (Nat × StSpec) → Except Err (List Machine.StateDef)
  | [] => .ok []
  | (j, sp) :: rest =>
    match stateDrawsT tm B cfg evIdx s j sp with
    | .error e => .error e
    | .ok ds =>
      match mkStatesT tm B cfg evIdx s rest with
      | .error e => .error e
      | .ok sds =>
        .ok ({ selfOk := sp.selfOk, transient := false,
               trans := sp.trans.map fun t => { out := t.1, w := s.rows.map fun r => t.2.getD r.sex 0 },
               draws := ds } :: sds)

/-- `Whole.disease` with the time rendering as a parameter -/
def diseaseT (tm : Tm) (B : Blk) (cfg : Config) (evIdx : List Nat) (s : State) : Except Err State :=
  let idx := (s.rows.zipIdx.filter fun p => evIdx.contains p.1.label).map (·.2)
  if idx.isEmpty then .ok s else
  match mkStatesT tm B cfg evIdx s (cfg.states.zipIdx.map fun p => (p.2, p.1)) with
  | .error e => .error e
  | .ok sds =>
    let m : Machine.Mach := { wd := 16, dd := 2 ^ 53, states := sds }
    match Machine.transition m 2 (s.rows.map fun r => { st := r.st, other := 0, tracked := r.tracked }) idx with
    | .error _ => .error .value
    | .ok tab => .ok { s with rows := List.zipWith (fun r (mr : Machine.Row) => { r with st := mr.st }) s.rows tab }

/-! ### the per-simulant clock -/

/-- the step-size modifiers `WStep` registers: modifier `j` asks for `mods[j][state]` hours (`none` = NaT) -/
structure DtSpec where
  std : Nat                          -- `time.standard_step_size` in hours (0 = not configured)
  mods : List (List (Option Nat))
  deriving DecidableEq, Repr

/-- the state of a run: the world of `Model/Whole.lean` and the clock of `Model/Clock.lean` (`base.clock = clk.now`) -/
structure DState where
  base : State
  clk : Clock.Clock
  deriving DecidableEq, Repr

/-- what the registered modifiers return for the simulant with label `i` when the step-size pipeline is evaluated:
each reads the CURRENT disease state through a view that does not filter on `tracked` -/
def modsOf (dt : DtSpec) (rows : List Row) (i : Nat) : List (Option Nat) :=
  match rowOf rows i with
  | some r => dt.mods.map fun m => (m.getD r.st none)
  | none => dt.mods.map fun _ => none

/-- `WPop.births(phase)`: the schedule entry of step number `(clock - start) // minimum step`; the creator runs the
initializers (`createT`) and the clock's own initializer (`Clock.create`: `next_event_time = event_time`,
`step_size = step_size`) -/
def birthsD (B : Blk) (cfg : Config) (ph : Nat) (d : DState) : Except Err DState :=
  let sn := (d.base.clock - cfg.start) / cfg.step
  if 0 ≤ sn then
    match cfg.births[sn.toNat]? with
    | some row =>
      match createT Tm.dt B cfg (toString ph) (row.getD ph 0) d.base with
      | .ok s' => .ok { base := s', clk := Clock.create d.clk (s'.rows.length - d.base.rows.length) }
      | .error e => .error e
    | none => .ok d
  else .ok d

/-- one listener call (0 births, 1 mortality, 3 the results manager, else the machine) -/
def actD (B : Blk) (cfg : Config) (ph : Nat) (evIdx : List Nat) (evTime : Int) (who : Nat) (d : DState) :
    Except Err DState :=
  if who = 0 then birthsD B cfg ph d
  else
    match (if who = 1 then mortT Tm.dt B cfg evIdx evTime d.base
           else if who = 3 then observe cfg ph evIdx evTime d.base
           else diseaseT Tm.dt B cfg evIdx d.base) with
    | .ok s' => .ok { d with base := s' }
    | .error e => .error e

def runListenersD (B : Blk) (cfg : Config) (ph : Nat) (evIdx : List Nat) (evTime : Int) :
    List Ev.Reg → DState → Except Err DState
  | [], d => .ok d
  | r :: rs, d =>
    match actD B cfg ph evIdx evTime r.2 d with
    | .ok d' => runListenersD B cfg ph evIdx evTime rs d'
    | .error e => .error e

/-- `time_step_emitters[event](pop_to_update)` with `pop_to_update = get_active_simulants(population.index,
clock.event_time)`: the event index is the DUE simulants (`Clock.active`) as they are before the listeners run, the
event time `clock + global step` -/
def emitD (B : Blk) (cfg : Config) (ph : Nat) (d : DState) : Except Err DState :=
  runListenersD B cfg ph (Clock.active d.clk) (Clock.eventTime d.clk) (Ev.emitOrder Gen.nBuckets (regs cfg ph)) d

def runPhasesD (B : Blk) (cfg : Config) : List Nat → DState → Except Err DState
  | [], d => .ok d
  | ph :: phs, d =>
    match emitD B cfg ph d with
    | .ok d' => runPhasesD B cfg phs d'
    | .error e => .error e

/-- `clock.step_forward(population.index)`: `Clock.stepForward` with the modifiers' answers computed from the table as
it is now; the world's clock follows -/
def tick (dt : DtSpec) (d : DState) : DState :=
  let c := Clock.stepForward d.clk (modsOf dt d.base.rows)
  { base := { d.base with clock := c.now }, clk := c }

/-- `SimulationContext.step` -/
def stepD (B : Blk) (cfg : Config) (dt : DtSpec) (d : DState) : Except Err DState :=
  match runPhasesD B cfg [0, 1, 2, 3] d with
  | .ok d' => .ok (tick dt d')
  | .error e => .error e

/-- `DateTimeClock.setup` + the state `initialize_simulants` starts from (`step_backward` done) -/
def initStateD (cfg : Config) (dt : DtSpec) : DState :=
  let c := Clock.stepBackward (Clock.configure cfg.start cfg.stop cfg.step dt.std)
  { base := { initState cfg with clock := c.now }, clk := c }

/-- `SimulationContext.initialize_simulants` -/
def initPopD (B : Blk) (cfg : Config) (dt : DtSpec) : Except Err DState :=
  let d := initStateD cfg dt
  match createT Tm.dt B cfg "init" cfg.pop d.base with
  | .ok s => .ok (tick dt { base := s, clk := Clock.create d.clk (s.rows.length - d.base.rows.length) })
  | .error e => .error e

def iterD (B : Blk) (cfg : Config) (dt : DtSpec) : Nat → DState → Except Err DState
  | 0, d => .ok d
  | n + 1, d =>
    match stepD B cfg dt d with
    | .ok d' => iterD B cfg dt n d'
    | .error e => .error e

/-- `SimulationContext.run`: `while clock < stop: step()` -/
def runD (B : Blk) (cfg : Config) (dt : DtSpec) : Nat → DState → Except Err DState
  | 0, d => .ok d
  | fuel + 1, d =>
    if d.clk.now < d.clk.stop then
      match stepD B cfg dt d with
      | .ok d' => runD B cfg dt fuel d'
      | .error e => .error e
    else .ok d

/-- what the harness keeps to (everything inside January 2021, whole days for start / stop, at least one modifier –
without one the clock drops the per-simulant columns) -/
def validD (cfg : Config) (dt : DtSpec) : Bool :=
  cfg.valid && decide (96 ≤ cfg.start) && decide (cfg.start % 24 = 0) && decide (cfg.stop % 24 = 0)
  && decide (cfg.stop ≤ 24 * 20) && decide (cfg.step ≤ 72) && decide (0 < dt.mods.length)
  && dt.mods.all (fun m => decide (m.length = cfg.states.length))
  && cfg.obs.isEmpty && cfg.strats.isEmpty && cfg.obsDefaults.isEmpty

end Viv.WholeDt
