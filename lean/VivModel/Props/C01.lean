import VivModel.Model.Engine
import VivModel.Props.C08
/-! C01 — seeded runs are reproducible, whatever the process state (model-level part).

The engine model (`Viv.Engine`) is a deterministic transition system whose only inputs are the world
and the handlers; what is proved here is that every channel named in the property is closed in the
model: the stepping API (`run`, `step…`, `take_steps` in any grouping, `run_until`, `run_for`, mixed
interactive drives, explicit step sizes equal to the clock's, loops of `take_steps(k)`), the process-global
context counter (name only), other simulations of the same process – earlier, unfinished or interleaved step
by step (`interleaving_irrelevant`) –, and the `set` / hash-seed iteration orders (`writeCols_perm`,
`strats_canonical`). The executable instance `schedSys` that `Driver/C01.lean` runs satisfies the hypotheses
(`schedSys_law`, `schedSys_const`).
That arbitrary user components, pandas and the interpreter add no other entropy is NOT a theorem –
it is explored by the cross-history differential (PARTIAL, see DESIGN.md C01). -/
namespace Viv.Props.C01
open Viv.Engine Viv.Ctx Viv.Ev Viv.Props.C08

/-! ### the stepping API does not matter -/

/-- a step of a running world succeeds, stays running, advances the clock by the step -/
theorem stepW_running {σ : Type} (h : Handler σ) (w : World σ) (hr : Running w.sim) :
    ∃ w', stepW h w = .ok w' ∧ Running w'.sim ∧ w'.sim.clock = w.sim.clock + w.sim.step ∧
      w'.sim.step = w.sim.step ∧ w'.sim.stop = w.sim.stop ∧ w'.name = w.name := by
  obtain ⟨s', hc, hr', hclk, hstep, hstop⟩ := call_step_running w.sim hr
  refine ⟨{ w with sim := s', user := applyNew h w.sim s' w.user }, ?_, hr', hclk, hstep, hstop, rfl⟩
  simp [stepW, hc]

/-- `run()` is `step()` iterated exactly as many times as the abstract run loop says -/
theorem run_eq_iter {σ : Type} (h : Handler σ) (fuel : Nat) (w : World σ) (hr : Running w.sim) :
    runW h fuel w = iter h (runLoop w.sim.stop w.sim.step fuel w.sim.clock).1 w := by
  induction fuel generalizing w with
  | zero => rfl
  | succ n ih =>
    by_cases hlt : w.sim.clock < w.sim.stop
    · obtain ⟨w', hs, hr', hclk, hstep, hstop, _⟩ := stepW_running h w hr
      have := ih w' hr'
      simp only [runW, hlt, if_true, hs, runLoop, iter]
      rw [this, hclk, hstep, hstop]
    · simp [runW, runLoop, hlt, iter]

/-- driving by `run()`, by `take_steps(⌈(stop−now)/step⌉)` / explicit `step()` calls, or by
`run_until(stop)` produces the same world – state table, results, clock, logs – for every handler. -/
theorem apis_agree {σ : Type} (h : Handler σ) (w : World σ) (hr : Running w.sim)
    (hpos : 0 < w.sim.step) (hlt : w.sim.clock < w.sim.stop) (fuel : Nat)
    (hf : (ceilDiv (w.sim.stop - w.sim.clock) w.sim.step).toNat ≤ fuel) :
    runW h fuel w = iter h (ceilDiv (w.sim.stop - w.sim.clock) w.sim.step).toNat w ∧
    runW h fuel w = runUntil h w.sim.stop w := by
  have := (run_steps_count w.sim.clock w.sim.stop w.sim.step hpos hlt fuel hf).1
  rw [run_eq_iter h fuel w hr, this]
  exact ⟨rfl, rfl⟩

/-- stepping `n` then `m` times is stepping `n + m` times (so the world after every single step is
the same however the steps are grouped) -/
theorem iter_add {σ : Type} (h : Handler σ) (n m : Nat) (w : World σ) :
    iter h (n + m) w = (iter h n w >>= iter h m) := by
  induction n generalizing w with
  | zero => simp [iter]; rfl
  | succ n ih =>
    rw [Nat.succ_add]
    simp only [iter]
    cases hs : stepW h w with
    | ok w' => simp only [ih w']
    | error f => rfl

/-! ### the same for a global step that changes from step to step (per-simulant clocks) -/

/-- shape facts read from interface/interactive.py on this run: `run_until` loops `while time < end`,
`take_steps` forwards its `step_size` argument unchanged, `step` restores the old size only when one was given
and the clock has not just recomputed its own step (per-simulant clocks, non-empty population: F33) -/
theorem gen_interactive_tables :
    Viv.Gen.runUntilLoopCmp = "Lt" ∧ Viv.Gen.takeStepsForwardsStepSize = true ∧
    Viv.Gen.interactiveStepRestoreGuard = "givenAndNotRecomputed" := by decide

/-- `take_steps(n)` without a step size is `n` engine steps, whatever the step function does to the global step -/
theorem takeSteps_none_eq_iter {W : Type} (S : VSys W) (n : Nat) (w : W) :
    S.takeSteps none n w = S.iter n w := by
  induction n generalizing w with
  | zero => rfl
  | succ n ih => simp only [VSys.takeSteps, VSys.istep, VSys.iter]; exact ih _

/-- `run()` is the engine step iterated as many times as it itself counts – for ANY step function -/
theorem vrun_eq_iter {W : Type} (S : VSys W) (stop : Int) (fuel : Nat) (w : W) :
    (S.run stop fuel w).2 = S.iter (S.run stop fuel w).1 w := by
  induction fuel generalizing w with
  | zero => rfl
  | succ n ih =>
    simp only [VSys.run]
    split
    · simp only [VSys.iter]; exact ih _
    · rfl

/-- `InteractiveContext.run_until(stop)` (hence `InteractiveContext.run()`) and `SimulationContext.run()` take the
same number of steps and reach the same world, for ANY step function – in particular when per-simulant clocks
change the global step during the run -/
theorem run_until_eq_run {W : Type} (S : VSys W) (stop : Int) (fuel : Nat) (w : W) :
    S.runUntil stop fuel w = S.run stop fuel w := by
  induction fuel generalizing w with
  | zero => rfl
  | succ n ih =>
    simp only [VSys.runUntil, VSys.run, VSys.takeSteps, VSys.istep]
    split
    · rw [ih]
    · rfl

/-- every step the run takes starts before the stop time, and the run ends at or after it (when fuel suffices):
no step is taken once the clock has reached the end, however the step size varies -/
theorem vrun_stops_at_end {W : Type} (S : VSys W) (stop : Int) (fuel : Nat) (w : W)
    (h : (S.run stop fuel w).1 < fuel) : stop ≤ S.time (S.run stop fuel w).2 := by
  induction fuel generalizing w with
  | zero => omega
  | succ n ih =>
    simp only [VSys.run] at h ⊢
    split
    · rename_i hlt
      simp only [hlt, if_true] at h
      exact ih _ (by omega)
    · rename_i hge; simp only at hge ⊢; omega

/-- a clock whose global step is 1 at time 0 and 3 afterwards -/
def varying : VSys (Int × Int) :=
  { step := fun w => (w.1 + w.2, 3), time := fun w => w.1, getStep := fun w => w.2, setStep := fun h w => (w.1, h),
    recomputed := fun _ => true }

/-- witness for the repaired defect F21: a precomputed step count overshoots the end when the global step grows
(`run()` stops at time 4 after 2 steps; `take_steps(ceil(4/1))` runs on to time 10) -/
theorem precomputed_count_overshoots :
    (varying.run 4 100 (0, 1)).2 = (4, 3) ∧ varying.runUntilPrecomputed 4 (0, 1) = (10, 3) := by decide

/-- witness for the stepping-API channel: `take_steps` called with the CURRENT step size (instead of none)
freezes the global step – the world differs from `n` engine steps as soon as the step changes -/
theorem explicit_current_step_freezes :
    varying.takeSteps (some (varying.getStep (0, 1))) 2 (0, 1) = (2, 3) ∧ varying.iter 2 (0, 1) = (4, 3) := by decide

/-- the repair of F33: after `step(h)` the clock keeps the step it has just recomputed (per-simulant clocks, non-empty
population), so the next default step starts from the recomputed step, not from a stale one -/
theorem explicit_step_keeps_recomputed {W : Type} (S : VSys W) (h : Int) (w : W)
    (hr : S.recomputed (S.step (S.setStep h w)) = true) :
    S.istep (some h) w = S.step (S.setStep h w) := by
  simp only [VSys.istep, hr, if_true]

/-- … and where the clock does not recompute (no per-simulant clocks, or nobody there) the override is undone: the
step size afterwards is the one in force before, for any lawful `getStep`/`setStep` -/
theorem explicit_step_restored_otherwise {W : Type} (S : VSys W) (h : Int) (w : W)
    (hr : S.recomputed (S.step (S.setStep h w)) = false) (law : ∀ x v, S.getStep (S.setStep x v) = x) :
    S.getStep (S.istep (some h) w) = S.getStep w := by
  simp only [VSys.istep, hr]; simp [law]

/-- witness for F33 as it was: restoring unconditionally leaves the stale step 1 where the clock had computed 3 -/
theorem stale_restore_witness :
    varying.setStep (varying.getStep (0, 1)) (varying.step (varying.setStep 1 (0, 1))) = (1, 1) ∧
    varying.istep (some 1) (0, 1) = (1, 3) := by decide

/-! ### every other way of driving: grouping, run_for, mixed drives, explicit step sizes -/

/-- `take_steps(a)` then `take_steps(b)` is `take_steps(a + b)`: how the steps are grouped into calls is irrelevant -/
theorem takeSteps_none_add {W : Type} (S : VSys W) (a b : Nat) (w : W) :
    S.takeSteps none (a + b) w = S.takeSteps none b (S.takeSteps none a w) := by
  induction a generalizing w with
  | zero => simp [VSys.takeSteps]
  | succ a ih => rw [Nat.succ_add]; simp only [VSys.takeSteps]; exact ih _

theorem viter_add_steps {W : Type} (S : VSys W) (n m : Nat) (w : W) : S.iter (n + m) w = S.iter m (S.iter n w) := by
  induction n generalizing w with
  | zero => simp [VSys.iter]
  | succ n ih => rw [Nat.succ_add]; simp only [VSys.iter]; exact ih _

/-- `run_for(d)` is `SimulationContext.run()` of a simulation whose end is `d` after the current time – same number of
steps, same world, for ANY step function -/
theorem run_for_eq_run {W : Type} (S : VSys W) (d : Int) (fuel : Nat) (w : W) :
    S.runFor d fuel w = S.run (S.time w + d) fuel w := by
  simp only [VSys.runFor, run_until_eq_run]

/-- every sequence of interactive driving operations with default step sizes – `step()`, `take_steps(n)`, `run_until(t)`,
`run_for(d)` in any order – is SOME number of engine steps: an interactive session can only reach worlds that `step()`
iterated reaches -/
theorem exec_is_iter {W : Type} (S : VSys W) (fuel : Nat) (ops : List VSys.Drive) (w : W) :
    ∃ n, S.exec fuel ops w = S.iter n w := by
  induction ops generalizing w with
  | nil => exact ⟨0, rfl⟩
  | cons op r ih =>
    cases op with
    | step =>
      obtain ⟨n, hn⟩ := ih (S.istep none w)
      exact ⟨1 + n, by simp only [VSys.exec, hn, viter_add_steps]; rfl⟩
    | take k =>
      obtain ⟨n, hn⟩ := ih (S.takeSteps none k w)
      refine ⟨k + n, ?_⟩
      show S.exec fuel r (S.takeSteps none k w) = _
      rw [hn, viter_add_steps, takeSteps_none_eq_iter]
    | untilT t =>
      obtain ⟨n, hn⟩ := ih (S.runUntil t fuel w).2
      refine ⟨(S.run t fuel w).1 + n, ?_⟩
      show S.exec fuel r (S.runUntil t fuel w).2 = _
      rw [hn, viter_add_steps, run_until_eq_run, vrun_eq_iter]
    | forD d =>
      obtain ⟨n, hn⟩ := ih (S.runFor d fuel w).2
      refine ⟨(S.run (S.time w + d) fuel w).1 + n, ?_⟩
      show S.exec fuel r (S.runFor d fuel w).2 = _
      rw [hn, viter_add_steps, run_for_eq_run, vrun_eq_iter]

/-- after any `n` engine steps that `run()` would also have taken, finishing with `run()` gives the world of the
uninterrupted `run()` -/
theorem run_after_prefix {W : Type} (S : VSys W) (stop : Int) (n : Nat) :
    ∀ (fuel : Nat) (w : W), n ≤ (S.run stop (fuel + n) w).1 →
      (S.run stop fuel (S.iter n w)).2 = (S.run stop (fuel + n) w).2 := by
  induction n with
  | zero => intro fuel w _; rfl
  | succ n ih =>
    intro fuel w h
    have e : fuel + (n + 1) = (fuel + n) + 1 := by omega
    rw [e] at h ⊢
    simp only [VSys.run] at h ⊢
    by_cases hlt : S.time w < stop
    · simp only [hlt, if_true] at h ⊢
      simp only [VSys.iter]
      exact ih fuel (S.step w) (by omega)
    · simp only [hlt, if_false] at h
      omega

/-- a MIXED interactive drive – any default-size operations that stay within the run, finished by `run_until(stop)` (or
`InteractiveContext.run()`, `run_for(stop - now)`) – ends in the world `SimulationContext.run()` ends in -/
theorem mixed_drive_eq_run {W : Type} (S : VSys W) (stop : Int) (fuel : Nat) (ops : List VSys.Drive) (w : W) (n : Nat)
    (hn : S.exec fuel ops w = S.iter n w) (hle : n ≤ (S.run stop (fuel + n) w).1) :
    (S.exec fuel (ops ++ [.untilT stop]) w) = (S.run stop (fuel + n) w).2 := by
  have happ : ∀ (ops : List VSys.Drive) (w : W), S.exec fuel (ops ++ [.untilT stop]) w = (S.runUntil stop fuel (S.exec fuel ops w)).2 := by
    intro ops
    induction ops with
    | nil => intro w; rfl
    | cons op r ih => intro w; cases op <;> simp only [List.cons_append, VSys.exec, ih]
  rw [happ, hn, run_until_eq_run]
  exact run_after_prefix S stop n fuel w hle

/-- a user loop `while time < stop: take_steps(k)` is `k · (number of chunks)` engine steps – the same steps `run()` takes,
possibly followed by up to `k − 1` more: every chunk starts before the end … -/
theorem run_chunks_is_iter {W : Type} (S : VSys W) (k : Nat) (stop : Int) (fuel : Nat) (w : W) :
    (S.runChunks k stop fuel w).2 = S.iter (k * (S.runChunks k stop fuel w).1) w := by
  induction fuel generalizing w with
  | zero => simp [VSys.runChunks, VSys.iter]
  | succ n ih =>
    simp only [VSys.runChunks]
    split
    · simp only [ih, Nat.mul_add, Nat.mul_one, takeSteps_none_eq_iter]
      rw [Nat.add_comm, viter_add_steps]
    · simp [VSys.iter]

/-- … and (fuel permitting) the loop ends at or after the end time -/
theorem run_chunks_reaches_end {W : Type} (S : VSys W) (k : Nat) (stop : Int) (fuel : Nat) (w : W)
    (h : (S.runChunks k stop fuel w).1 < fuel) : stop ≤ S.time (S.runChunks k stop fuel w).2 := by
  induction fuel generalizing w with
  | zero => omega
  | succ n ih =>
    simp only [VSys.runChunks] at h ⊢
    split
    · rename_i hlt
      simp only [hlt, if_true] at h
      exact ih _ (by omega)
    · rename_i hge; simp only at hge ⊢; omega

/-- a clock whose step never changes: no engine step recomputes the global step, and it stays `h` -/
def ConstStep {W : Type} (S : VSys W) (h : Int) (w : W) : Prop :=
  ∀ n, S.getStep (S.iter n w) = h ∧ S.recomputed (S.iter (n + 1) w) = false

theorem ConstStep.step {W : Type} {S : VSys W} {h : Int} {w : W} (c : ConstStep S h w) : ConstStep S h (S.step w) := by
  intro n
  have := c (n + 1)
  simpa [VSys.iter] using this

/-- `step(h)` / `take_steps(1, h)` with the explicit step size the clock has anyway is a default step (no per-simulant
clocks): the override changes nothing and is undone. Needs only that `setStep`/`getStep` behave like a field. -/
theorem explicit_equal_step_is_default {W : Type} (S : VSys W) (h : Int) (w : W)
    (law : ∀ v, S.setStep (S.getStep v) v = v) (c : ConstStep S h w) :
    S.istep (some h) w = S.step w := by
  have h0 : S.getStep w = h := (c 0).1
  have h1 : S.getStep (S.step w) = h := (c 1).1
  have hr : S.recomputed (S.step w) = false := (c 0).2
  have e : S.setStep h w = w := by rw [← h0]; exact law w
  simp only [VSys.istep, e, hr, h0]
  rw [← h1]; exact law _

/-- … hence a whole run driven by `while time < stop: step(h)` is `run()` -/
theorem run_explicit_eq_run {W : Type} (S : VSys W) (h stop : Int) (fuel : Nat) (w : W)
    (law : ∀ v, S.setStep (S.getStep v) v = v) (c : ConstStep S h w) :
    S.runExplicit h stop fuel w = (S.run stop fuel w).2 := by
  induction fuel generalizing w with
  | zero => rfl
  | succ n ih =>
    simp only [VSys.runExplicit, VSys.run]
    split
    · rw [explicit_equal_step_is_default S h w law c]; exact ih _ c.step
    · rfl

/-- the driver's executable instance obeys the field law -/
theorem schedSys_law (v : SW) : schedSys.setStep (schedSys.getStep v) v = v := rfl

/-- … and without a schedule (no per-simulant clocks) its step is constant, so every theorem above applies to what the
driver executes for fixed-step programs -/
theorem schedSys_const (w : SW) (hs : w.sched = []) : ConstStep schedSys w.step w := by
  have key : ∀ n (v : SW), v.sched = [] → (schedSys.iter n v).step = v.step ∧ (schedSys.iter n v).sched = [] ∧
      (schedSys.iter (n + 1) v).recomp = false := by
    intro n
    induction n with
    | zero =>
      intro v hv
      refine ⟨rfl, hv, ?_⟩
      simp [VSys.iter, schedSys, SW.engineStep, hv]
    | succ n ih =>
      intro v hv
      have hv' : (schedSys.step v).sched = [] := by simp [schedSys, SW.engineStep, hv]
      have hst : (schedSys.step v).step = v.step := by simp [schedSys, SW.engineStep, hv]
      obtain ⟨a, b, c⟩ := ih (schedSys.step v) hv'
      exact ⟨by simpa [VSys.iter, hst] using a, by simpa [VSys.iter] using b, by simpa [VSys.iter] using c⟩
  intro n
  obtain ⟨a, _, c⟩ := key n w hs
  exact ⟨a, c⟩

/-! ### the process-global context counter enters the name only -/

theorem stepW_name {σ : Type} (h : Handler σ) (w : World σ) (x : String) :
    stepW h { w with name := x } = (stepW h w).map (fun w' => { w' with name := x }) := by
  simp only [stepW]
  cases call "step" w.sim with
  | ok s' => rfl
  | error e => rfl

theorem iter_name {σ : Type} (h : Handler σ) (n : Nat) (w : World σ) (x : String) :
    iter h n { w with name := x } = (iter h n w).map (fun w' => { w' with name := x }) := by
  induction n generalizing w with
  | zero => rfl
  | succ n ih =>
    simp only [iter, stepW_name]
    cases stepW h w with
    | ok w' => simp only [Except.map]; exact ih w'
    | error f => rfl

/-- two contexts that differ only in how many contexts were created before them (their name) evolve
to worlds that differ only in the name -/
theorem context_name_only {σ : Type} (h : Handler σ) (n : Nat) (w : World σ) (x y : String) :
    (iter h n { w with name := x }).map (fun w' => (w'.sim, w'.user)) =
    (iter h n { w with name := y }).map (fun w' => (w'.sim, w'.user)) := by
  have hx := iter_name h n w x
  have hy := iter_name h n w y
  rw [hx, hy]
  cases iter h n w <;> rfl

/-! ### several simulations in one process: earlier, unfinished and interleaved ones -/

theorem stepAt_other {σ : Type} (h : Handler σ) (p : Proc σ) (i j : Nat) (hij : i ≠ j) :
    (p.stepAt h i).sims[j]? = p.sims[j]? := by
  simp [Proc.stepAt, hij]

theorem stepAt_self {σ : Type} (h : Handler σ) (p : Proc σ) (j : Nat) :
    (p.stepAt h j).sims[j]? = (p.sims[j]?).map (stepT h) := by
  simp [Proc.stepAt]

theorem iterT_succ_last {σ : Type} (h : Handler σ) (n : Nat) (w : World σ) : iterT h (n + 1) w = stepT h (iterT h n w) := by
  induction n generalizing w with
  | zero => rfl
  | succ n ih => simp only [iterT] at ih ⊢; exact ih _

/-- whatever the other simulations of the process do, and however their steps are interleaved with this one's, the
`j`-th simulation ends where it would have ended alone: in its own world stepped as often as the schedule names it -/
theorem interleaving_irrelevant {σ : Type} (h : Handler σ) (is : List Nat) (p : Proc σ) (j : Nat) :
    (p.schedule h is).sims[j]? = (p.sims[j]?).map (iterT h (is.count j)) := by
  induction is generalizing p with
  | nil =>
    simp only [Proc.schedule, List.foldl_nil, List.count_nil]
    cases p.sims[j]? <;> rfl
  | cons i r ih =>
    simp only [Proc.schedule, List.foldl_cons] at ih ⊢
    rw [ih (p.stepAt h i)]
    by_cases hij : i = j
    · subst hij
      rw [stepAt_self, List.count_cons_self, Option.map_map]
      rfl
    · rw [stepAt_other h p i j hij, List.count_cons_of_ne hij]

/-- creating another context changes nothing about the simulations that exist; the newcomer's name is the count -/
theorem create_keeps {σ : Type} (p : Proc σ) (s : Sim) (u : σ) (j : Nat) (hj : j < p.sims.length) :
    (p.create s u).sims[j]? = p.sims[j]? := by
  simp [Proc.create, List.getElem?_append_left hj]

theorem create_name {σ : Type} (p : Proc σ) (s : Sim) (u : σ) :
    ((p.create s u).sims[p.sims.length]?).map (·.name) = some s!"simulation_{p.created + 1}" := by
  simp [Proc.create]

/-! ### set / hash-seed iteration order -/

def Equiv {α : Type} (t t' : List (String × α)) : Prop := ∀ c, getCol t c = getCol t' c

theorem find_map_update {α : Type} (t : List (String × α)) (c c' : String) (v : α) :
    (t.map (fun p => if p.1 == c then (c, v) else p)).find? (·.1 == c') =
      if c' = c then (if t.any (·.1 == c) then some (c, v) else none) else t.find? (·.1 == c') := by
  induction t with
  | nil => simp
  | cons p t ih =>
    simp only [List.map_cons, List.find?_cons, List.any_cons]
    rw [ih]
    by_cases hp : p.1 = c <;> by_cases hc : c' = c <;> by_cases h3 : p.1 = c' <;> grind

theorem getCol_setCol {α : Type} (t : List (String × α)) (c c' : String) (v : α) :
    getCol (setCol t c v) c' = if c' = c then some v else getCol t c' := by
  unfold setCol getCol
  by_cases hany : t.any (·.1 == c) = true
  · simp only [hany, if_true, find_map_update]
    by_cases hc : c' = c <;> simp [hc]
  · simp only [hany, Bool.false_eq_true, if_false, List.find?_append]
    have hno : t.find? (·.1 == c) = none := by
      rw [List.find?_eq_none]; intro q hq hqc; apply hany; simp only [List.any_eq_true]; exact ⟨q, hq, hqc⟩
    by_cases hc : c' = c
    · subst hc; simp [hno]
    · have h1 : (c == c') = false := by simpa using fun h => hc h.symm
      simp [hc, h1]

theorem setCol_congr {α : Type} {t t' : List (String × α)} (h : Equiv t t') (c : String) (v : α) :
    Equiv (setCol t c v) (setCol t' c v) := by
  intro c'; rw [getCol_setCol, getCol_setCol, h c']

theorem writeCols_congr {α : Type} {t t' : List (String × α)} (h : Equiv t t') (ws : List (String × α)) :
    Equiv (writeCols t ws) (writeCols t' ws) := by
  induction ws generalizing t t' with
  | nil => exact h
  | cons w ws ih => exact ih (setCol_congr h w.1 w.2)

theorem setCol_comm {α : Type} (t : List (String × α)) (a b : String) (va vb : α) (hab : a ≠ b) :
    Equiv (setCol (setCol t a va) b vb) (setCol (setCol t b vb) a va) := by
  intro c
  simp only [getCol_setCol]
  by_cases h1 : c = a <;> by_cases h2 : c = b <;> simp_all

/-- writing a set of distinct columns in any iteration order yields the same table contents
(`for column in set(...)` in `PopulationView.update`; the `PYTHONHASHSEED` channel) -/
theorem writeCols_perm {α : Type} (t : List (String × α)) (ws ws' : List (String × α))
    (hp : ws.Perm ws') (hn : (ws.map (·.1)).Nodup) : Equiv (writeCols t ws) (writeCols t ws') := by
  induction hp generalizing t with
  | nil => intro c; rfl
  | cons x _ ih =>
    simp only [List.map_cons, List.nodup_cons] at hn
    exact ih (setCol t x.1 x.2) hn.2
  | swap x y l =>
    simp only [List.map_cons, List.nodup_cons, List.mem_cons, not_or] at hn
    exact writeCols_congr (setCol_comm t y.1 x.1 y.2 x.2 (fun h => hn.1.1 h)) l
  | trans h1 _ ih1 ih2 =>
    intro c
    have hn2 := (h1.map (·.1)).nodup_iff.mp hn
    rw [ih1 t hn c, ih2 t hn2 c]

theorem mem_dedup {α : Type} [DecidableEq α] (a : α) (l : List α) : a ∈ dedup l ↔ a ∈ l := by
  induction l with
  | nil => simp [dedup]
  | cons b l ih =>
    simp only [dedup]
    split
    · rename_i hb; rw [ih]; constructor
      · exact List.mem_cons_of_mem _
      · intro h; rcases List.mem_cons.mp h with rfl | h
        · exact hb
        · exact h
    · simp [ih]

theorem nodup_dedup {α : Type} [DecidableEq α] (l : List α) : (dedup l).Nodup := by
  induction l with
  | nil => simp [dedup]
  | cons b l ih =>
    simp only [dedup]
    split
    · exact ih
    · rename_i hb; exact List.nodup_cons.mpr ⟨fun h => hb ((mem_dedup b l).mp h), ih⟩

/-- `tuple(sorted(set(default + requested + additional) - set(excluded)))` is independent of the
order and multiplicity of its inputs: any two argument lists with the same members (as sets) give
the same tuple, for every total, transitive, antisymmetric order. -/
theorem strats_canonical {α : Type} [DecidableEq α] (le : α → α → Bool)
    (total : ∀ a b, le a b || le b a) (trans : ∀ a b c, le a b → le b c → le a c)
    (antisymm : ∀ a b, le a b → le b a → a = b) (d r a e d' r' a' e' : List α)
    (h : ∀ x, (x ∈ d ++ r ++ a ∧ x ∉ e) ↔ (x ∈ d' ++ r' ++ a' ∧ x ∉ e')) :
    canonStrats le d r a e = canonStrats le d' r' a' e' := by
  unfold canonStrats
  apply List.Perm.eq_of_pairwise (le := fun a b => le a b = true)
  · intro a b _ _ h1 h2; exact antisymm a b h1 h2
  · exact List.pairwise_mergeSort (fun a b c => trans a b c) (fun a b => total a b) _
  · exact List.pairwise_mergeSort (fun a b c => trans a b c) (fun a b => total a b) _
  · refine (List.mergeSort_perm _ _).trans (List.Perm.trans ?_ (List.mergeSort_perm _ _).symm)
    rw [List.perm_ext_iff_of_nodup (nodup_dedup _) (nodup_dedup _)]
    intro x
    rw [mem_dedup, mem_dedup]
    have := h x
    simp only [List.mem_filter, List.mem_append, List.contains_eq_mem, decide_eq_false_iff_not,
      Bool.not_eq_eq_eq_not, Bool.not_true] at this ⊢
    simpa using this

-- non-vacuity
example : Running (⟨{ st := "population_creation", setupDone := true, created := true }, 0, 1, 3, []⟩ : Sim) :=
  ⟨Or.inl rfl, rfl, rfl, rfl⟩
example : writeCols [("a", 1), ("b", 2)] [("b", 5), ("c", 7)] = [("a", 1), ("b", 5), ("c", 7)] := by decide
example : dedup [3, 1, 3, 2] = [1, 3, 2] := by decide
-- a mixed drive on the varying clock: step(), then run_until(4), is run() (2 steps, world (4, 3))
example : varying.exec 100 [.step, .untilT 4] (0, 1) = (varying.run 4 101 (0, 1)).2 := by decide
-- pairs of steps on the varying clock overrun the end by one step: run() stops at 4 after 2 steps, the loop of pairs too (2 = 1 pair)
example : (varying.runChunks 2 4 100 (0, 1)) = (1, (4, 3)) ∧ (varying.runChunks 2 5 100 (0, 1)) = (2, (10, 3)) := by decide
-- the driver's instance: a fixed-step world satisfies ConstStep; the explicit loop and run() agree on it
example : schedSys.runExplicit 2 5 10 { clock := 0, step := 2, stop := 5 } = (schedSys.run 5 10 { clock := 0, step := 2, stop := 5 }).2 := by decide
-- two simulations of one process, interleaved 0,1,0: the second took one step
example : (({ sims := [⟨⟨{ st := "population_creation", setupDone := true, created := true }, 0, 1, 3, []⟩, (0 : Nat), "a"⟩,
                       ⟨⟨{ st := "population_creation", setupDone := true, created := true }, 5, 2, 9, []⟩, (0 : Nat), "b"⟩] } : Proc Nat).schedule
            (fun _ _ _ u => u + 1) [0, 1, 0]).sims.map (fun w => (w.sim.clock, w.user)) = [(2, 8), (7, 4)] := by decide

end Viv.Props.C01
