import VivModel.Model.Engine
import VivModel.Props.C08
/-! C01 — seeded runs are reproducible, whatever the process state (model-level part).

The engine model (`Viv.Engine`) is a deterministic transition system whose only inputs are the world
and the handlers; what is proved here is that every channel named in the property is closed in the
model: the stepping API (`run`, `step…`, `take_steps`, `run_until`), the process-global context
counter (name only), and the `set` / hash-seed iteration orders (`writeCols_perm`, `strats_canonical`).
That arbitrary user components, pandas and the interpreter add no other entropy is NOT a theorem –
it is explored by the cross-history differential (PARTIAL, see DESIGN.md C01). -/
namespace Viv.Props.C01
open Viv.Engine Viv.Ctx Viv.Ev Viv.Props.C08

/-! ### the stepping API does not matter -/

/-- a step of a running world succeeds, stays running, advances the clock by the step -/
theorem stepW_running {σ : Type} (h : Handler σ) (w : World σ) (hr : Running w.sim) :
    ∃ w', stepW h w = .ok w' ∧ Running w'.sim ∧ w'.sim.clock = w.sim.clock + w.sim.step ∧
      w'.sim.step = w.sim.step ∧ w'.sim.stop = w.sim.stop ∧ w'.name = w.name := by
  obtain ⟨s', hc, hr', hclk, hstep, hstop⟩ := call_step_running w.sim hr
  refine ⟨{ w with sim := s', user := applyNew h w.sim s' w.user }, ?_, hr', hclk, hstep, hstop, rfl⟩
  simp [stepW, hc]

/-- `run()` is `step()` iterated exactly as many times as the abstract run loop says -/
theorem run_eq_iter {σ : Type} (h : Handler σ) (fuel : Nat) (w : World σ) (hr : Running w.sim) :
    runW h fuel w = iter h (runLoop w.sim.stop w.sim.step fuel w.sim.clock).1 w := by
  induction fuel generalizing w with
  | zero => rfl
  | succ n ih =>
    by_cases hlt : w.sim.clock < w.sim.stop
    · obtain ⟨w', hs, hr', hclk, hstep, hstop, _⟩ := stepW_running h w hr
      have := ih w' hr'
      simp only [runW, hlt, if_true, hs, runLoop, iter]
      rw [this, hclk, hstep, hstop]
    · simp [runW, runLoop, hlt, iter]

/-- driving by `run()`, by `take_steps(⌈(stop−now)/step⌉)` / explicit `step()` calls, or by
`run_until(stop)` produces the same world – state table, results, clock, logs – for every handler. -/
theorem apis_agree {σ : Type} (h : Handler σ) (w : World σ) (hr : Running w.sim)
    (hpos : 0 < w.sim.step) (hlt : w.sim.clock < w.sim.stop) (fuel : Nat)
    (hf : (ceilDiv (w.sim.stop - w.sim.clock) w.sim.step).toNat ≤ fuel) :
    runW h fuel w = iter h (ceilDiv (w.sim.stop - w.sim.clock) w.sim.step).toNat w ∧
    runW h fuel w = runUntil h w.sim.stop w := by
  have := (run_steps_count w.sim.clock w.sim.stop w.sim.step hpos hlt fuel hf).1
  rw [run_eq_iter h fuel w hr, this]
  exact ⟨rfl, rfl⟩

/-- stepping `n` then `m` times is stepping `n + m` times (so the world after every single step is
the same however the steps are grouped) -/
theorem iter_add {σ : Type} (h : Handler σ) (n m : Nat) (w : World σ) :
    iter h (n + m) w = (iter h n w >>= iter h m) := by
  induction n generalizing w with
  | zero => simp [iter]; rfl
  | succ n ih =>
    rw [Nat.succ_add]
    simp only [iter]
    cases hs : stepW h w with
    | ok w' => simp only [ih w']
    | error f => rfl

/-! ### the same for a global step that changes from step to step (per-simulant clocks) -/

/-- shape facts read from interface/interactive.py on this run: `run_until` loops `while time < end`,
`take_steps` forwards its `step_size` argument unchanged, `step` restores the old size only when one was given
and the clock has not just recomputed its own step (per-simulant clocks, non-empty population: F33) -/
theorem gen_interactive_tables :
    Viv.Gen.runUntilLoopCmp = "Lt" ∧ Viv.Gen.takeStepsForwardsStepSize = true ∧
    Viv.Gen.interactiveStepRestoreGuard = "givenAndNotRecomputed" := by decide

/-- `take_steps(n)` without a step size is `n` engine steps, whatever the step function does to the global step -/
theorem takeSteps_none_eq_iter {W : Type} (S : VSys W) (n : Nat) (w : W) :
    S.takeSteps none n w = S.iter n w := by
  induction n generalizing w with
  | zero => rfl
  | succ n ih => simp only [VSys.takeSteps, VSys.istep, VSys.iter]; exact ih _

/-- `run()` is the engine step iterated as many times as it itself counts – for ANY step function -/
theorem vrun_eq_iter {W : Type} (S : VSys W) (stop : Int) (fuel : Nat) (w : W) :
    (S.run stop fuel w).2 = S.iter (S.run stop fuel w).1 w := by
  induction fuel generalizing w with
  | zero => rfl
  | succ n ih =>
    simp only [VSys.run]
    split
    · simp only [VSys.iter]; exact ih _
    · rfl

/-- `InteractiveContext.run_until(stop)` (hence `InteractiveContext.run()`) and `SimulationContext.run()` take the
same number of steps and reach the same world, for ANY step function – in particular when per-simulant clocks
change the global step during the run -/
theorem run_until_eq_run {W : Type} (S : VSys W) (stop : Int) (fuel : Nat) (w : W) :
    S.runUntil stop fuel w = S.run stop fuel w := by
  induction fuel generalizing w with
  | zero => rfl
  | succ n ih =>
    simp only [VSys.runUntil, VSys.run, VSys.takeSteps, VSys.istep]
    split
    · rw [ih]
    · rfl

/-- every step the run takes starts before the stop time, and the run ends at or after it (when fuel suffices):
no step is taken once the clock has reached the end, however the step size varies -/
theorem vrun_stops_at_end {W : Type} (S : VSys W) (stop : Int) (fuel : Nat) (w : W)
    (h : (S.run stop fuel w).1 < fuel) : stop ≤ S.time (S.run stop fuel w).2 := by
  induction fuel generalizing w with
  | zero => omega
  | succ n ih =>
    simp only [VSys.run] at h ⊢
    split
    · rename_i hlt
      simp only [hlt, if_true] at h
      exact ih _ (by omega)
    · rename_i hge; simp only at hge ⊢; omega

/-- a clock whose global step is 1 at time 0 and 3 afterwards -/
def varying : VSys (Int × Int) :=
  { step := fun w => (w.1 + w.2, 3), time := fun w => w.1, getStep := fun w => w.2, setStep := fun h w => (w.1, h),
    recomputed := fun _ => true }

/-- witness for the repaired defect F21: a precomputed step count overshoots the end when the global step grows
(`run()` stops at time 4 after 2 steps; `take_steps(ceil(4/1))` runs on to time 10) -/
theorem precomputed_count_overshoots :
    (varying.run 4 100 (0, 1)).2 = (4, 3) ∧ varying.runUntilPrecomputed 4 (0, 1) = (10, 3) := by decide

/-- witness for the stepping-API channel: `take_steps` called with the CURRENT step size (instead of none)
freezes the global step – the world differs from `n` engine steps as soon as the step changes -/
theorem explicit_current_step_freezes :
    varying.takeSteps (some (varying.getStep (0, 1))) 2 (0, 1) = (2, 3) ∧ varying.iter 2 (0, 1) = (4, 3) := by decide

/-- the repair of F33: after `step(h)` the clock keeps the step it has just recomputed (per-simulant clocks, non-empty
population), so the next default step starts from the recomputed step, not from a stale one -/
theorem explicit_step_keeps_recomputed {W : Type} (S : VSys W) (h : Int) (w : W)
    (hr : S.recomputed (S.step (S.setStep h w)) = true) :
    S.istep (some h) w = S.step (S.setStep h w) := by
  simp only [VSys.istep, hr, if_true]

/-- … and where the clock does not recompute (no per-simulant clocks, or nobody there) the override is undone: the
step size afterwards is the one in force before, for any lawful `getStep`/`setStep` -/
theorem explicit_step_restored_otherwise {W : Type} (S : VSys W) (h : Int) (w : W)
    (hr : S.recomputed (S.step (S.setStep h w)) = false) (law : ∀ x v, S.getStep (S.setStep x v) = x) :
    S.getStep (S.istep (some h) w) = S.getStep w := by
  simp only [VSys.istep, hr]; simp [law]

/-- witness for F33 as it was: restoring unconditionally leaves the stale step 1 where the clock had computed 3 -/
theorem stale_restore_witness :
    varying.setStep (varying.getStep (0, 1)) (varying.step (varying.setStep 1 (0, 1))) = (1, 1) ∧
    varying.istep (some 1) (0, 1) = (1, 3) := by decide

/-! ### the process-global context counter enters the name only -/

theorem stepW_name {σ : Type} (h : Handler σ) (w : World σ) (x : String) :
    stepW h { w with name := x } = (stepW h w).map (fun w' => { w' with name := x }) := by
  simp only [stepW]
  cases call "step" w.sim with
  | ok s' => rfl
  | error e => rfl

theorem iter_name {σ : Type} (h : Handler σ) (n : Nat) (w : World σ) (x : String) :
    iter h n { w with name := x } = (iter h n w).map (fun w' => { w' with name := x }) := by
  induction n generalizing w with
  | zero => rfl
  | succ n ih =>
    simp only [iter, stepW_name]
    cases stepW h w with
    | ok w' => simp only [Except.map]; exact ih w'
    | error f => rfl

/-- two contexts that differ only in how many contexts were created before them (their name) evolve
to worlds that differ only in the name -/
theorem context_name_only {σ : Type} (h : Handler σ) (n : Nat) (w : World σ) (x y : String) :
    (iter h n { w with name := x }).map (fun w' => (w'.sim, w'.user)) =
    (iter h n { w with name := y }).map (fun w' => (w'.sim, w'.user)) := by
  have hx := iter_name h n w x
  have hy := iter_name h n w y
  rw [hx, hy]
  cases iter h n w <;> rfl

/-! ### set / hash-seed iteration order -/

def Equiv {α : Type} (t t' : List (String × α)) : Prop := ∀ c, getCol t c = getCol t' c

theorem find_map_update {α : Type} (t : List (String × α)) (c c' : String) (v : α) :
    (t.map (fun p => if p.1 == c then (c, v) else p)).find? (·.1 == c') =
      if c' = c then (if t.any (·.1 == c) then some (c, v) else none) else t.find? (·.1 == c') := by
  induction t with
  | nil => simp
  | cons p t ih =>
    simp only [List.map_cons, List.find?_cons, List.any_cons]
    rw [ih]
    by_cases hp : p.1 = c <;> by_cases hc : c' = c <;> by_cases h3 : p.1 = c' <;> grind

theorem getCol_setCol {α : Type} (t : List (String × α)) (c c' : String) (v : α) :
    getCol (setCol t c v) c' = if c' = c then some v else getCol t c' := by
  unfold setCol getCol
  by_cases hany : t.any (·.1 == c) = true
  · simp only [hany, if_true, find_map_update]
    by_cases hc : c' = c <;> simp [hc]
  · simp only [hany, Bool.false_eq_true, if_false, List.find?_append]
    have hno : t.find? (·.1 == c) = none := by
      rw [List.find?_eq_none]; intro q hq hqc; apply hany; simp only [List.any_eq_true]; exact ⟨q, hq, hqc⟩
    by_cases hc : c' = c
    · subst hc; simp [hno]
    · have h1 : (c == c') = false := by simpa using fun h => hc h.symm
      simp [hc, h1]

theorem setCol_congr {α : Type} {t t' : List (String × α)} (h : Equiv t t') (c : String) (v : α) :
    Equiv (setCol t c v) (setCol t' c v) := by
  intro c'; rw [getCol_setCol, getCol_setCol, h c']

theorem writeCols_congr {α : Type} {t t' : List (String × α)} (h : Equiv t t') (ws : List (String × α)) :
    Equiv (writeCols t ws) (writeCols t' ws) := by
  induction ws generalizing t t' with
  | nil => exact h
  | cons w ws ih => exact ih (setCol_congr h w.1 w.2)

theorem setCol_comm {α : Type} (t : List (String × α)) (a b : String) (va vb : α) (hab : a ≠ b) :
    Equiv (setCol (setCol t a va) b vb) (setCol (setCol t b vb) a va) := by
  intro c
  simp only [getCol_setCol]
  by_cases h1 : c = a <;> by_cases h2 : c = b <;> simp_all

/-- writing a set of distinct columns in any iteration order yields the same table contents
(`for column in set(...)` in `PopulationView.update`; the `PYTHONHASHSEED` channel) -/
theorem writeCols_perm {α : Type} (t : List (String × α)) (ws ws' : List (String × α))
    (hp : ws.Perm ws') (hn : (ws.map (·.1)).Nodup) : Equiv (writeCols t ws) (writeCols t ws') := by
  induction hp generalizing t with
  | nil => intro c; rfl
  | cons x _ ih =>
    simp only [List.map_cons, List.nodup_cons] at hn
    exact ih (setCol t x.1 x.2) hn.2
  | swap x y l =>
    simp only [List.map_cons, List.nodup_cons, List.mem_cons, not_or] at hn
    exact writeCols_congr (setCol_comm t y.1 x.1 y.2 x.2 (fun h => hn.1.1 h)) l
  | trans h1 _ ih1 ih2 =>
    intro c
    have hn2 := (h1.map (·.1)).nodup_iff.mp hn
    rw [ih1 t hn c, ih2 t hn2 c]

theorem mem_dedup {α : Type} [DecidableEq α] (a : α) (l : List α) : a ∈ dedup l ↔ a ∈ l := by
  induction l with
  | nil => simp [dedup]
  | cons b l ih =>
    simp only [dedup]
    split
    · rename_i hb; rw [ih]; constructor
      · exact List.mem_cons_of_mem _
      · intro h; rcases List.mem_cons.mp h with rfl | h
        · exact hb
        · exact h
    · simp [ih]

theorem nodup_dedup {α : Type} [DecidableEq α] (l : List α) : (dedup l).Nodup := by
  induction l with
  | nil => simp [dedup]
  | cons b l ih =>
    simp only [dedup]
    split
    · exact ih
    · rename_i hb; exact List.nodup_cons.mpr ⟨fun h => hb ((mem_dedup b l).mp h), ih⟩

/-- `tuple(sorted(set(default + requested + additional) - set(excluded)))` is independent of the
order and multiplicity of its inputs: any two argument lists with the same members (as sets) give
the same tuple, for every total, transitive, antisymmetric order. -/
theorem strats_canonical {α : Type} [DecidableEq α] (le : α → α → Bool)
    (total : ∀ a b, le a b || le b a) (trans : ∀ a b c, le a b → le b c → le a c)
    (antisymm : ∀ a b, le a b → le b a → a = b) (d r a e d' r' a' e' : List α)
    (h : ∀ x, (x ∈ d ++ r ++ a ∧ x ∉ e) ↔ (x ∈ d' ++ r' ++ a' ∧ x ∉ e')) :
    canonStrats le d r a e = canonStrats le d' r' a' e' := by
  unfold canonStrats
  apply List.Perm.eq_of_pairwise (le := fun a b => le a b = true)
  · intro a b _ _ h1 h2; exact antisymm a b h1 h2
  · exact List.pairwise_mergeSort (fun a b c => trans a b c) (fun a b => total a b) _
  · exact List.pairwise_mergeSort (fun a b c => trans a b c) (fun a b => total a b) _
  · refine (List.mergeSort_perm _ _).trans (List.Perm.trans ?_ (List.mergeSort_perm _ _).symm)
    rw [List.perm_ext_iff_of_nodup (nodup_dedup _) (nodup_dedup _)]
    intro x
    rw [mem_dedup, mem_dedup]
    have := h x
    simp only [List.mem_filter, List.mem_append, List.contains_eq_mem, decide_eq_false_iff_not,
      Bool.not_eq_eq_eq_not, Bool.not_true] at this ⊢
    simpa using this

-- non-vacuity
example : Running (⟨{ st := "population_creation", setupDone := true, created := true }, 0, 1, 3, []⟩ : Sim) :=
  ⟨Or.inl rfl, rfl, rfl, rfl⟩
example : writeCols [("a", 1), ("b", 2)] [("b", 5), ("c", 7)] = [("a", 1), ("b", 5), ("c", 7)] := by decide
example : dedup [3, 1, 3, 2] = [1, 3, 2] := by decide

end Viv.Props.C01
