import VivModel.Model.Engine
import VivModel.Gen.Src
import VivModel.Lemmas.PyAst
import VivModel.Lemmas.PyState
/-! C01 / C18 / C08, source tie: the Python source of `SimulationContext.run` (`Gen/Src.lean`, regenerated from the tree
under test on every run; `while` loops are evaluated with the fuel convention of the models) IS, for a call without
backups, the model's `VSys.run` - for EVERY step function, clock, stop time and fuel: `while current_time < stop_time:
step()`, the condition re-read from the clock before every step. Hence `run()` = stepwise driving (C01
`run_until_eq_run`, `vrun_eq_iter`), and a context restored at any boundary and continued with `run()` ends where the
uninterrupted run ends (C18 `resume_eq`) - also when the global step changes during the run. A step COUNT computed once
up front (two independent seeded changes, C01-4 and C18-3, did exactly that) is not this loop and breaks the obligation.
PARTIAL: the second copy of the loop (`backup_freq` given: wall-clock reads decide when `write_backup` is called) is
evaluated by the same semantics but only the branch without backups is proved here; the backup branch is tied by the
generated table `runLoopCmp`, by C18 `runB_*` and by correspondence. -/
namespace Viv.Props.C01Src
open Viv.Py Viv.Engine

/-- the Python objects `SimulationContext.run` touches -/
inductive EVv where
  | none | bool (b : Bool) | int (i : Int) | str (s : String)
  | self | clock | logger | path
  | stepFn | backupFn | debugFn | wallFn
  /-- a simulation time -/
  | time (t : Int)
  /-- a wall-clock reading / a wall-clock duration -/
  | wall (t : Int)
  | list (vs : List EVv)

/-- state: the simulation's world, the number of wall-clock readings taken so far, the backups written (newest last) -/
structure St (W : Type) where
  w : W
  reads : Nat
  backups : List W

abbrev M (W : Type) := SM (St W)

variable {W : Type}

def eGetAttr (S : VSys W) (stop : Int) : EVv → String → M W EVv
  | .self, a =>
    if a == "current_time" then do let st ← (get : M W (St W)); pure (.time (S.time st.w))
    else if a == "_clock" then pure .clock
    else if a == "step" then pure .stepFn
    else if a == "write_backup" then pure .backupFn
    else if a == "_logger" then pure .logger
    else throw "AttributeError"
  | .clock, a => if a == "stop_time" then pure (.time stop) else throw "AttributeError"
  | .logger, a => if a == "debug" then pure .debugFn else throw "AttributeError"
  | _, _ => throw "AttributeError"

/-- `wallclock n` is what the `n`-th call of `time()` returns: ANY function -/
def eworld (S : VSys W) (stop : Int) (wallclock : Nat → Int) (fuel : Nat) : World (M W) EVv where
  none := .none
  bool := .bool
  int := .int
  str := .str
  list := .list
  tuple := .list
  global n := if n == "time" then pure .wallFn else throw "NameError"
  truthy
    | .none => pure false
    | .bool b => pure b
    | .wall t => pure (t != 0)
    | _ => pure true
  getAttr := eGetAttr S stop
  setAttr _ _ _ := throw "AttributeError"
  call f args kws := match f, args, kws with
    | .stepFn, [], [] => do modify fun st => { st with w := S.step st.w }; pure .none
    | .backupFn, [.path], [] => do modify fun st => { st with backups := st.backups ++ [st.w] }; pure .none
    | .debugFn, [_], [] => pure .none
    | .wallFn, [], [] => do
      let st ← (get : M W (St W))
      set { st with reads := st.reads + 1 }
      pure (.wall (wallclock st.reads))
    | _, _, _ => throw "TypeError"
  cmp op l r := match l, r with
    | .time a, .time b => if op == "Lt" then pure (.bool (decide (a < b))) else throw "TypeError"
    | .wall a, .wall b => if op == "GtE" then pure (.bool (decide (a ≥ b))) else throw "TypeError"
    | _, _ => throw "TypeError"
  bin op l r := match l, r with
    | .wall a, .wall b => if op == "Add" then pure (.wall (a + b)) else throw "TypeError"
    | _, _ => throw "TypeError"
  neg _ := throw "TypeError"
  sub _ _ := throw "TypeError"
  slice _ _ := .none
  setItem _ _ _ := throw "TypeError"
  iter _ := throw "TypeError"
  unstar _ := throw "TypeError"
  format _ := pure (.str "")
  concat _ := pure (.str "")
  dict _ := throw "TypeError"
  whileLoop cond body loc := whileFuel cond body fuel loc
  other _ := throw "Unsupported"
  throw cls := throw cls
  rethrow := throw "reraise"
  catchAll body handler := tryCatch body (fun _ => handler)
  catchCls cls body handler := tryCatch body (fun e => if e == cls then handler else throw e)

theorem iterWhile_run (S : VSys W) (stop : Int) : ∀ (fuel : Nat) (st : St W),
    (iterWhile (fun s : St W => decide (S.time s.w < stop)) (fun s => { s with w := S.step s.w }) fuel st)
      = { st with w := (S.run stop fuel st.w).2 }
  | 0, st => rfl
  | fuel + 1, st => by
    simp only [iterWhile, VSys.run]
    by_cases h : S.time st.w < stop
    · simp [h, iterWhile_run S stop fuel]
    · simp [h]

/-- `SimulationContext.run()` without backups IS the model's `VSys.run`: `while current_time < stop_time: step()` - the
condition is re-evaluated before every step with the clock as it then is, so a global step that changes during the run
(per-simulant clocks) or an inexact float step cannot make it take a different number of steps than stepwise driving. -/
theorem engineRun_refines (S : VSys W) (stop : Int) (wallclock : Nat → Int) (fuel : Nat) (st : St W) :
    runM (Gen.Src.engineRun.run (eworld S stop wallclock fuel) [("self", .self), ("backup_path", .none), ("backup_freq", .none)]) st
      = (.ok EVv.none, { st with w := (S.run stop fuel st.w).2 }) := by
  rw [runM_func]
  simp only [Gen.Src.engineRun]
  rw [runM_block_cons, evalStmt]
  simp only [runM_bind]
  conv in (runM (evalExpr _ _ _) _) => simp [evalExpr]
  dsimp only
  conv in (runM ((eworld S stop wallclock fuel).truthy _) _) => simp [eworld]
  dsimp only
  simp only [Bool.false_eq_true, if_false]
  rw [runM_block_cons, evalStmt]
  have hwl : ∀ c b l, (eworld S stop wallclock fuel).whileLoop c b l = whileFuel c b fuel l := fun _ _ _ => rfl
  rw [hwl]
  generalize hrun : runM (whileFuel _ _ _ _) _ = r
  obtain ⟨loc', hr, _⟩ : ∃ loc', r = (.ok (.next, loc'),
      iterWhile (fun s : St W => decide (S.time s.w < stop)) (fun s => { s with w := S.step s.w }) fuel st) ∧
      (fun (loc : Locals EVv) (_ : St W) => loc.get "self" = some EVv.self) loc'
        (iterWhile (fun s : St W => decide (S.time s.w < stop)) (fun s => { s with w := S.step s.w }) fuel st) := by
    rw [← hrun]
    refine runM_whileFuel (fun (loc : Locals EVv) (_ : St W) => loc.get "self" = some EVv.self) _ _ _ _ ?hcond ?hbody fuel _ _ ?hinv
    case hinv => simp
    case hcond =>
      intro loc st1 h
      simp [evalExpr, eworld, eGetAttr, h]
    case hbody =>
      intro loc st1 h hc
      refine ⟨loc, ?_, h⟩
      simp [evalBlock, evalStmt, evalExpr, evalArgs, evalKws, eworld, eGetAttr, h]
  subst hr
  simp [iterWhile_run, eworld]
end Viv.Props.C01Src
