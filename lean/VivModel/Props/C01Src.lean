import VivModel.Model.Engine
import VivModel.Gen.Src
import VivModel.Lemmas.PyAst
import VivModel.Lemmas.PyState
/-! C01 / C18 / C08, source tie: the Python source of `SimulationContext.run` (`Gen/Src.lean`, regenerated from the tree
under test on every run; `while` loops are evaluated with the fuel convention of the models) IS, for a call without
backups, the model's `VSys.run` - for EVERY step function, clock, stop time and fuel: `while current_time < stop_time:
step()`, the condition re-read from the clock before every step. Hence `run()` = stepwise driving (C01
`run_until_eq_run`, `vrun_eq_iter`), and a context restored at any boundary and continued with `run()` ends where the
uninterrupted run ends (C18 `resume_eq`) - also when the global step changes during the run. A step COUNT computed once
up front (two independent seeded changes, C01-4 and C18-3, did exactly that) is not this loop and breaks the obligation.
The second copy of the loop (`backup_freq` given: wall-clock reads decide when `write_backup` is called) is proved too,
for ANY wall clock (`engineRun_backup_refines`): the simulation ends where the run without backups ends and the backups
written are, in order, worlds at step boundaries (a sublist of `VSys.runB`) - the premise of C18 `resume_eq`. -/
namespace Viv.Props.C01Src
open Viv.Py Viv.Engine

/-- the Python objects `SimulationContext.run` touches -/
inductive EVv where
  | none | bool (b : Bool) | int (i : Int) | str (s : String)
  | self | clock | logger | path
  | stepFn | backupFn | debugFn | wallFn
  /-- a simulation time -/
  | time (t : Int)
  /-- a wall-clock reading / a wall-clock duration -/
  | wall (t : Int)
  | list (vs : List EVv)

/-- state: the simulation's world, the number of wall-clock readings taken so far, the backups written (newest last) -/
structure St (W : Type) where
  w : W
  reads : Nat
  backups : List W

abbrev M (W : Type) := SM (St W)

variable {W : Type}

def eGetAttr (S : VSys W) (stop : Int) : EVv → String → M W EVv
  | .self, a =>
    if a == "current_time" then do let st ← (get : M W (St W)); pure (.time (S.time st.w))
    else if a == "_clock" then pure .clock
    else if a == "step" then pure .stepFn
    else if a == "write_backup" then pure .backupFn
    else if a == "_logger" then pure .logger
    else throw "AttributeError"
  | .clock, a => if a == "stop_time" then pure (.time stop) else throw "AttributeError"
  | .logger, a => if a == "debug" then pure .debugFn else throw "AttributeError"
  | _, _ => throw "AttributeError"

/-- `wallclock n` is what the `n`-th call of `time()` returns: ANY function -/
def eworld (S : VSys W) (stop : Int) (wallclock : Nat → Int) (fuel : Nat) : World (M W) EVv where
  none := .none
  bool := .bool
  int := .int
  str := .str
  list := .list
  newList vs := pure (.list vs)
  tuple := .list
  global n := if n == "time" then pure .wallFn else throw "NameError"
  truthy
    | .none => pure false
    | .bool b => pure b
    | .wall t => pure (t != 0)
    | _ => pure true
  getAttr := eGetAttr S stop
  setAttr _ _ _ := throw "AttributeError"
  call f args kws := match f, args, kws with
    | .stepFn, [], [] => do modify fun st => { st with w := S.step st.w }; pure .none
    | .backupFn, [.path], [] => do modify fun st => { st with backups := st.backups ++ [st.w] }; pure .none
    | .debugFn, [_], [] => pure .none
    | .wallFn, [], [] => do
      let st ← (get : M W (St W))
      set { st with reads := st.reads + 1 }
      pure (.wall (wallclock st.reads))
    | _, _, _ => throw "TypeError"
  cmp op l r := match l, r with
    | .time a, .time b => if op == "Lt" then pure (.bool (decide (a < b))) else throw "TypeError"
    | .wall a, .wall b => if op == "GtE" then pure (.bool (decide (a ≥ b))) else throw "TypeError"
    | _, _ => throw "TypeError"
  bin op l r := match l, r with
    | .wall a, .wall b => if op == "Add" then pure (.wall (a + b)) else throw "TypeError"
    | _, _ => throw "TypeError"
  neg _ := throw "TypeError"
  sub _ _ := throw "TypeError"
  slice _ _ := .none
  setItem _ _ _ := throw "TypeError"
  iter _ := throw "TypeError"
  unstar _ := throw "TypeError"
  format _ := pure (.str "")
  concat _ := pure (.str "")
  dict _ := throw "TypeError"
  whileLoop cond body loc := whileFuel cond body fuel loc
  other _ := throw "Unsupported"
  throw cls := throw cls
  rethrow := throw "reraise"
  catchAll body handler := tryCatch body (fun _ => handler)
  catchCls cls body handler := tryCatch body (fun e => if e == cls then handler else throw e)

theorem iterWhile_run (S : VSys W) (stop : Int) : ∀ (fuel : Nat) (st : St W),
    (iterWhile (fun s : St W => decide (S.time s.w < stop)) (fun s => { s with w := S.step s.w }) fuel st)
      = { st with w := (S.run stop fuel st.w).2 }
  | 0, st => rfl
  | fuel + 1, st => by
    simp only [iterWhile, VSys.run]
    by_cases h : S.time st.w < stop
    · simp [h, iterWhile_run S stop fuel]
    · simp [h]

/-- `SimulationContext.run()` without backups IS the model's `VSys.run`: `while current_time < stop_time: step()` - the
condition is re-evaluated before every step with the clock as it then is, so a global step that changes during the run
(per-simulant clocks) or an inexact float step cannot make it take a different number of steps than stepwise driving. -/
theorem engineRun_refines (S : VSys W) (stop : Int) (wallclock : Nat → Int) (fuel : Nat) (st : St W) :
    runM (Gen.Src.engineRun.run (eworld S stop wallclock fuel) [("self", .self), ("backup_path", .none), ("backup_freq", .none)]) st
      = (.ok EVv.none, { st with w := (S.run stop fuel st.w).2 }) := by
  rw [runM_func]
  simp only [Gen.Src.engineRun]
  rw [runM_block_cons, evalStmt]
  simp only [runM_bind]
  conv in (runM (evalExpr _ _ _) _) => simp [evalExpr]
  dsimp only
  conv in (runM ((eworld S stop wallclock fuel).truthy _) _) => simp [eworld]
  dsimp only
  simp only [Bool.false_eq_true, if_false]
  rw [runM_block_cons, evalStmt]
  have hwl : ∀ c b l, (eworld S stop wallclock fuel).whileLoop c b l = whileFuel c b fuel l := fun _ _ _ => rfl
  rw [hwl]
  generalize hrun : runM (whileFuel _ _ _ _) _ = r
  obtain ⟨loc', hr, _⟩ : ∃ loc', r = (.ok (.next, loc'),
      iterWhile (fun s : St W => decide (S.time s.w < stop)) (fun s => { s with w := S.step s.w }) fuel st) ∧
      (fun (loc : Locals EVv) (_ : St W) => loc.get "self" = some EVv.self) loc'
        (iterWhile (fun s : St W => decide (S.time s.w < stop)) (fun s => { s with w := S.step s.w }) fuel st) := by
    rw [← hrun]
    refine runM_whileFuel (fun (loc : Locals EVv) (_ : St W) => loc.get "self" = some EVv.self) _ _ _ _ ?hcond ?hbody fuel _ _ ?hinv
    case hinv => simp
    case hcond =>
      intro loc st1 h
      simp [evalExpr, eworld, eGetAttr, h]
    case hbody =>
      intro loc st1 h hc
      refine ⟨loc, ?_, h⟩
      simp [evalBlock, evalStmt, evalExpr, evalArgs, evalKws, eworld, eGetAttr, h]
  subst hr
  simp [iterWhile_run, eworld]

/-! ### the second copy of the loop: `backup_freq` given -/

/-- one pass of the backup loop: the simulation takes one step; then, depending on the wall clock, the world as it is at
that boundary is written as a backup, or nothing is -/
def BPass (S : VSys W) (s s' : St W) : Prop :=
  s'.w = S.step s.w ∧ (s'.backups = s.backups ∨ s'.backups = s.backups ++ [s'.w])

/-- the loop invariant of the backup loop: the arguments are where they were, `time_to_save` is some wall-clock time -/
def BInv (freq : Int) (loc : Locals EVv) (_ : St W) : Prop :=
  loc.get "self" = some EVv.self ∧ loc.get "backup_path" = some EVv.path ∧ loc.get "backup_freq" = some (EVv.wall freq) ∧
    ∃ t, loc.get "time_to_save" = some (EVv.wall t)

theorem reach_backups (S : VSys W) (stop : Int) : ∀ (fuel : Nat) (s s' : St W),
    Reach (fun s : St W => decide (S.time s.w < stop)) (BPass S) fuel s s' →
    s'.w = (S.run stop fuel s.w).2 ∧ ∃ bs, s'.backups = s.backups ++ bs ∧ bs.Sublist (S.runB stop fuel s.w).1
  | 0, s, s', h => by
    cases h
    exact ⟨rfl, [], by simp, by simp [VSys.runB]⟩
  | fuel + 1, s, s', h => by
    cases h with
    | done _ _ hc =>
      have : ¬ S.time s.w < stop := by simpa using hc
      exact ⟨by simp [VSys.run, this], [], by simp, by simp⟩
    | step _ _ s1 _ hc hr hrest =>
      have hlt : S.time s.w < stop := by simpa using hc
      obtain ⟨hw, bs, hb, hsub⟩ := reach_backups S stop fuel s1 s' hrest
      obtain ⟨h1, h2⟩ := hr
      refine ⟨by simp [VSys.run, hlt, hw, h1], ?_⟩
      simp only [VSys.runB, hlt, if_true]
      rcases h2 with h2 | h2
      · exact ⟨bs, by rw [hb, h2], by rw [h1] at hsub; exact hsub.cons _⟩
      · refine ⟨s1.w :: bs, by rw [hb, h2]; simp, ?_⟩
        rw [h1] at hsub ⊢
        exact hsub.cons_cons _

/-- `SimulationContext.run(backup_path, backup_freq)` as written, for ANY wall clock: the simulation ends exactly where
the run without backups ends (`VSys.run`), and the backups written during the call are, in order, a selection of the
worlds at the step boundaries (`VSys.runB` = the world after every completed step) - a backup is never taken inside a
step, and writing one changes nothing the run depends on. Which boundaries are selected is the wall clock's business. -/
theorem engineRun_backup_refines (S : VSys W) (stop : Int) (wallclock : Nat → Int) (fuel : Nat) (st : St W)
    (freq : Int) (hfreq : freq ≠ 0) :
    ∃ st', runM (Gen.Src.engineRun.run (eworld S stop wallclock fuel)
        [("self", .self), ("backup_path", .path), ("backup_freq", .wall freq)]) st = (.ok EVv.none, st') ∧
      st'.w = (S.run stop fuel st.w).2 ∧
      ∃ bs, st'.backups = st.backups ++ bs ∧ bs.Sublist (S.runB stop fuel st.w).1 := by
  rw [runM_func]
  simp only [Gen.Src.engineRun]
  rw [runM_block_cons, evalStmt]
  simp only [runM_bind]
  conv in (runM (evalExpr _ _ _) _) => simp [evalExpr]
  dsimp only
  have hfb : (freq != 0) = true := by simpa using hfreq
  conv in (runM ((eworld S stop wallclock fuel).truthy _) _) => simp [eworld, hfb]
  dsimp only
  simp only [if_true]
  pystep [eworld]
  rw [runM_block_cons, evalStmt]
  have hwl : ∀ c b l, (eworld S stop wallclock fuel).whileLoop c b l = whileFuel c b fuel l := fun _ _ _ => rfl
  rw [hwl]
  generalize hrun : runM (whileFuel _ _ _ _) _ = r
  obtain ⟨loc', st', hr, _, hreach⟩ : ∃ loc' st', r = (.ok (.next, loc'), st') ∧
      BInv freq loc' st' ∧
      Reach (fun s : St W => decide (S.time s.w < stop)) (BPass S) fuel
        { w := st.w, reads := st.reads + 1, backups := st.backups } st' := by
    rw [← hrun]
    refine runM_whileRel (BInv freq) _ (BPass S) _ _ ?hcond ?hbody fuel _ _ ?hinv
    case hinv => simp [BInv]
    case hcond =>
      intro loc st1 h
      simp [evalExpr, eworld, eGetAttr, h.1]
    case hbody =>
      intro loc st1 h hc
      obtain ⟨hs, hp, hf, t, ht⟩ := h
      pystep [eworld, eGetAttr, hs]
      by_cases hdue : wallclock st1.reads ≥ t
      · pystep [eworld, eGetAttr, hs, hp, hf, ht, hdue]
        exact ⟨_, _, by rw [runM_block_nil], by simp [BInv, hs, hp, hf], by simp [BPass]⟩
      · pystep [eworld, eGetAttr, hs, hp, hf, ht, hdue]
        exact ⟨_, _, by rw [runM_block_nil], ⟨hs, hp, hf, t, ht⟩, by simp [BPass]⟩
  subst hr
  obtain ⟨hw, bs, hb, hsub⟩ := reach_backups S stop fuel _ _ hreach
  exact ⟨st', by simp [eworld], hw, bs, hb, hsub⟩
end Viv.Props.C01Src
