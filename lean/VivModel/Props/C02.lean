import VivModel.Model.Stream
import VivModel.Model.Util
/-! C02 — a simulant's draw depends only on identity, time and decision point.

All statements are for EVERY block function `blk` (the numpy / SHA-1 side is a parameter), every block
size, every position lookup `pos`, every seed string and every request list (any subset, any order,
repeats). "Unrelated draws" for different seed strings is not a mathematical statement about SHA-1 / MT
and is sampled by the harness, not proved; what is proved is that the seed STRING changes whenever exactly
one of its four components changes (`joinKey_inj_each`). Changing several components at once can collide
because `_` is not escaped (`joinKey_ambiguous`, documented). Streams created with
`initializes_crn_attributes=True` are positional by design and excluded (`crn_init_stream_positional`). -/
namespace Viv.Props.C02
open Viv.Stream

variable (blk : String → Nat → Nat → Nat) (size : Nat) (pos : Sim → Option Nat) (ks : String)

/-- what one simulant gets: a function of its own position and the seed string only -/
def drawOf (s : Sim) : Option Draw := (pos s).map fun p => (s, p, blk ks size p)

/-- `get_draw` succeeds with `out` exactly when `out` is, entry by entry and in request order, `drawOf` of
the requested simulant: no entry depends on any other member of the request, on the request's length or on
the entry's place in it. -/
theorem getDraw_pointwise (req : List Sim) (out : List Draw) :
    getDraw blk size pos ks req = .ok out ↔ req.map (drawOf blk size pos ks) = out.map some := by
  induction req generalizing out with
  | nil =>
    cases out with
    | nil => simp [getDraw]
    | cons o os => simp [getDraw]
  | cons s ss ih =>
    unfold getDraw
    cases hp : pos s with
    | none =>
      cases out with
      | nil => simp [drawOf, hp]
      | cons o os => simp [drawOf, hp]
    | some p =>
      cases hr : getDraw blk size pos ks ss with
      | error e =>
        simp only [List.map_cons, drawOf, hp, Option.map_some]
        constructor
        · intro h; cases h
        · intro h
          cases out with
          | nil => simp at h
          | cons o os =>
            simp only [List.map_cons, List.cons.injEq] at h
            have := (ih os).mpr h.2
            rw [hr] at this; cases this
      | ok ds =>
        have hds := (ih ds).mp hr
        simp only [List.map_cons, drawOf, hp, Option.map_some]
        constructor
        · intro h; cases h; simp [hds]
        · intro h
          cases out with
          | nil => simp at h
          | cons o os =>
            simp only [List.map_cons, List.cons.injEq, Option.some.injEq] at h
            have h2 := (ih os).mpr h.2
            rw [hr] at h2; cases h2
            rw [← h.1]

/-- every entry of the result is the requested simulant's own `drawOf` -/
theorem getDraw_mem (req : List Sim) (out : List Draw) (h : getDraw blk size pos ks req = .ok out)
    (e : Draw) (he : e ∈ out) : e.1 ∈ req ∧ drawOf blk size pos ks e.1 = some e := by
  have hm := (getDraw_pointwise blk size pos ks req out).mp h
  have : some e ∈ out.map some := List.mem_map.mpr ⟨e, he, rfl⟩
  rw [← hm] at this
  obtain ⟨s, hs, hse⟩ := List.mem_map.mp this
  have h1 : e.1 = s := by
    unfold drawOf at hse
    cases hp : pos s with
    | none => simp [hp] at hse
    | some p => simp [hp] at hse; rw [← hse]
  rw [h1]; exact ⟨hs, hse⟩

/-- the request succeeds iff every requested simulant has a position -/
theorem getDraw_ok_iff (req : List Sim) :
    (∃ out, getDraw blk size pos ks req = .ok out) ↔ ∀ s ∈ req, (pos s).isSome := by
  induction req with
  | nil => simp [getDraw]
  | cons s ss ih =>
    unfold getDraw
    cases hp : pos s with
    | none => simp [hp]
    | some p =>
      cases hr : getDraw blk size pos ks ss with
      | error e =>
        have : ¬ ∀ s ∈ ss, (pos s).isSome := fun h => by
          obtain ⟨o, ho⟩ := ih.mpr h; rw [hr] at ho; cases ho
        simp only [List.mem_cons, forall_eq_or_imp, hp, Option.isSome_some, true_and]
        constructor
        · rintro ⟨o, ho⟩; cases ho
        · intro h; exact absurd h this
      | ok ds =>
        have := ih.mp ⟨ds, hr⟩
        simp only [List.mem_cons, forall_eq_or_imp, hp, Option.isSome_some, true_and]
        exact ⟨fun _ => this, fun _ => ⟨_, rfl⟩⟩

/-- the result is indexed exactly by the request, in request order (repeats included) -/
theorem getDraw_index (req : List Sim) (out : List Draw) (h : getDraw blk size pos ks req = .ok out) :
    out.map (·.1) = req := by
  induction req generalizing out with
  | nil => simp [getDraw] at h; subst h; rfl
  | cons s ss ih =>
    unfold getDraw at h
    cases hp : pos s with
    | none => simp [hp] at h
    | some p =>
      cases hr : getDraw blk size pos ks ss with
      | error e => simp [hp, hr] at h
      | ok ds =>
        simp only [hp, hr, Except.ok.injEq] at h
        subst h
        simp [ih ds hr]

/-- a request made of simulants of another (successful) request – a subset, in any order, with any
repeats – succeeds and returns for each of them the very entry of the larger request. -/
theorem getDraw_subset (req req' : List Sim) (out : List Draw)
    (h : getDraw blk size pos ks req = .ok out) (hsub : ∀ s ∈ req', s ∈ req) :
    ∃ out', getDraw blk size pos ks req' = .ok out' ∧ ∀ e ∈ out', e ∈ out := by
  have hall := (getDraw_ok_iff blk size pos ks req).mp ⟨out, h⟩
  obtain ⟨out', h'⟩ := (getDraw_ok_iff blk size pos ks req').mpr (fun s hs => hall s (hsub s hs))
  refine ⟨out', h', fun e he => ?_⟩
  obtain ⟨hin, hd⟩ := getDraw_mem blk size pos ks req' out' h' e he
  have hm := (getDraw_pointwise blk size pos ks req out).mp h
  have : some e ∈ req.map (drawOf blk size pos ks) := List.mem_map.mpr ⟨e.1, hsub _ hin, hd⟩
  rw [hm] at this
  obtain ⟨e', he', hee⟩ := List.mem_map.mp this
  cases hee; exact he'

/-- the exact form the harness observes: `get_draw(req)[s] == get_draw([s])[s]` for every `s` in `req`. -/
theorem getDraw_single (req : List Sim) (out : List Draw) (h : getDraw blk size pos ks req = .ok out)
    (s : Sim) (hs : s ∈ req) :
    ∃ d, getDraw blk size pos ks [s] = .ok [d] ∧ d ∈ out ∧ d.1 = s := by
  obtain ⟨out', h', hmem⟩ := getDraw_subset blk size pos ks req [s] out h (by simpa using hs)
  have hi := getDraw_index blk size pos ks [s] out' h'
  cases out' with
  | nil => simp at hi
  | cons d ds =>
    cases ds with
    | nil =>
      simp only [List.map_cons, List.map_nil, List.cons.injEq, and_true] at hi
      exact ⟨d, h', hmem d (by simp), hi⟩
    | cons d' ds' => simp at hi

theorem filterMap_of_map_some {α β : Type} (f : α → Option β) (l : List α) (out : List β)
    (h : l.map f = out.map some) : l.filterMap f = out := by
  induction l generalizing out with
  | nil => cases out <;> simp_all
  | cons a l ih =>
    cases out with
    | nil => simp at h
    | cons o os =>
      simp only [List.map_cons, List.cons.injEq] at h
      simp [h.1, ih os h.2]

/-- permuting the request permutes the result and changes no entry -/
theorem getDraw_perm (req req' : List Sim) (out : List Draw) (hp : req.Perm req')
    (h : getDraw blk size pos ks req = .ok out) :
    ∃ out', getDraw blk size pos ks req' = .ok out' ∧ out.Perm out' := by
  obtain ⟨out', h', _⟩ := getDraw_subset blk size pos ks req req' out h (fun s hs => hp.mem_iff.mpr hs)
  refine ⟨out', h', ?_⟩
  have h1 := (getDraw_pointwise blk size pos ks req out).mp h
  have h2 := (getDraw_pointwise blk size pos ks req' out').mp h'
  have e1 := filterMap_of_map_some _ _ _ h1
  have e2 := filterMap_of_map_some _ _ _ h2
  rw [← e1, ← e2]
  exact hp.filterMap _

/-- requests concatenate: asking for `a ++ b` is asking for `a` and for `b` -/
theorem getDraw_append (a b : List Sim) (oa ob : List Draw)
    (ha : getDraw blk size pos ks a = .ok oa) (hb : getDraw blk size pos ks b = .ok ob) :
    getDraw blk size pos ks (a ++ b) = .ok (oa ++ ob) := by
  rw [getDraw_pointwise] at *
  simp [ha, hb]

/-- a simulant requested several times gets the same entry every time -/
theorem getDraw_repeat (req : List Sim) (out : List Draw) (h : getDraw blk size pos ks req = .ok out)
    (e e' : Draw) (he : e ∈ out) (he' : e' ∈ out) (hs : e.1 = e'.1) : e = e' := by
  have h1 := (getDraw_mem blk size pos ks req out h e he).2
  have h2 := (getDraw_mem blk size pos ks req out h e' he').2
  rw [hs, h2] at h1
  cases h1; rfl

/-- no history: in ANY sequence of requests to a stream, the answer at place `i` is the answer to request
`i` alone – whatever was asked before or after, on the same or other seed strings. -/
theorem draw_history_free (reqs : List (String × List Sim)) (i : Nat) :
    (answerAll blk size pos reqs)[i]? = reqs[i]?.map (fun r => getDraw blk size pos r.1 r.2) := by
  simp [answerAll]

/-- … in particular the last answer after any history is the answer with no history -/
theorem draw_after_history (hist : List (String × List Sim)) (r : String × List Sim) :
    (answerAll blk size pos (hist ++ [r])).getLast? = some (getDraw blk size pos r.1 r.2) := by
  simp [answerAll]

/-- every draw lies in [0, 1): numerators are below 2^53, GIVEN the block contract (numpy's
`random_sample` returns `k / 2^53`, `k < 2^53`; trusted base). -/
theorem draw_range (hblk : ∀ k n p, blk k n p < 2 ^ 53) (req : List Sim) (out : List Draw)
    (h : getDraw blk size pos ks req = .ok out) : ∀ e ∈ out, e.2.2 < 2 ^ 53 := by
  intro e he
  have := (getDraw_mem blk size pos ks req out h e he).2
  unfold drawOf at this
  cases hp : pos e.1 with
  | none => simp [hp] at this
  | some p => simp [hp] at this; rw [← this]; exact hblk _ _ _

/-- without key columns: distinct simulants inside the block have distinct positions, all in range.
Outside the guard (`size ≤ s`) the lookup is refused (`IndexError` in the real code). -/
theorem positions_distinct_identity (s s' p : Nat) (h : posIdentity size s = some p)
    (h' : posIdentity size s' = some p) : s = s' ∧ p < size := by
  unfold posIdentity at h h'
  split at h
  · split at h'
    · cases h; cases h'; exact ⟨rfl, by assumption⟩
    · cases h'
  · cases h

theorem posIdentity_guard (s : Nat) (h : size ≤ s) : posIdentity size s = none := by
  unfold posIdentity; split
  · rename_i h'; exact absurd h' (Nat.not_lt.mpr h)
  · rfl

theorem mem_of_lookup (m : List (Sim × Nat)) (s p : Nat) (h : m.lookup s = some p) : (s, p) ∈ m := by
  induction m with
  | nil => simp at h
  | cons a m ih =>
    obtain ⟨a1, a2⟩ := a
    simp only [List.lookup_cons] at h
    by_cases e : s = a1
    · have b : (s == a1) = true := by simp [e]
      simp only [b, Option.some.injEq] at h
      subst h; subst e; simp
    · have b : (s == a1) = false := by simp [e]
      simp only [b] at h
      exact List.mem_cons_of_mem _ (ih h)

/-- with key columns: if the map's positions are pairwise distinct (the C03 invariant `update_inv`),
distinct simulants have distinct positions. -/
theorem positions_distinct_map (m : List (Sim × Nat)) (hnd : (m.map (·.2)).Nodup) (s s' p : Nat)
    (h : posMap m s = some p) (h' : posMap m s' = some p) : s = s' := by
  unfold posMap at h h'
  induction m with
  | nil => simp at h
  | cons a m ih =>
    obtain ⟨a1, a2⟩ := a
    simp only [List.map_cons, List.nodup_cons] at hnd
    simp only [List.lookup_cons] at h h'
    by_cases e1 : s = a1 <;> by_cases e2 : s' = a1
    · rw [e1, e2]
    · have b1 : (s == a1) = true := by simp [e1]
      have b2 : (s' == a1) = false := by simp [e2]
      simp only [b1, b2, Option.some.injEq] at h h'
      exfalso; apply hnd.1; rw [h]
      exact List.mem_map.mpr ⟨(s', p), mem_of_lookup m s' p h', rfl⟩
    · have b1 : (s == a1) = false := by simp [e1]
      have b2 : (s' == a1) = true := by simp [e2]
      simp only [b1, b2, Option.some.injEq] at h h'
      exfalso; apply hnd.1; rw [h']
      exact List.mem_map.mpr ⟨(s, p), mem_of_lookup m s p h, rfl⟩
    · have b1 : (s == a1) = false := by simp [e1]
      have b2 : (s' == a1) = false := by simp [e2]
      simp only [b1, b2] at h h'
      exact ih hnd.2 h h'

/-- distinct simulants in one result read distinct positions of the block, for every position lookup that
is injective on its domain (both lookups above are, under their guards). -/
theorem positions_distinct (hinj : ∀ s s' p, pos s = some p → pos s' = some p → s = s')
    (req : List Sim) (out : List Draw) (h : getDraw blk size pos ks req = .ok out)
    (e e' : Draw) (he : e ∈ out) (he' : e' ∈ out) (hne : e.1 ≠ e'.1) : e.2.1 ≠ e'.2.1 := by
  have h1 := (getDraw_mem blk size pos ks req out h e he).2
  have h2 := (getDraw_mem blk size pos ks req out h e' he').2
  unfold drawOf at h1 h2
  cases hp : pos e.1 with
  | none => simp [hp] at h1
  | some p =>
    cases hp' : pos e'.1 with
    | none => simp [hp'] at h2
    | some p' =>
      simp only [hp, hp', Option.map_some, Option.some.injEq] at h1 h2
      intro heq
      apply hne
      have e1 : e.2.1 = p := by rw [← h1]
      have e2 : e'.2.1 = p' := by rw [← h2]
      rw [e1, e2] at heq
      exact hinj _ _ p hp (heq ▸ hp')

/-! ### the seed string -/

theorem joinKey_toList (a b c d : String) :
    (joinKey a b c d).toList = a.toList ++ '_' :: (b.toList ++ '_' :: (c.toList ++ '_' :: d.toList)) := by
  simp [joinKey]

theorem joinKey_inj_key (a a' b c d : String) (h : joinKey a b c d = joinKey a' b c d) : a = a' := by
  have h0 := congrArg String.toList h
  rw [joinKey_toList, joinKey_toList] at h0
  exact String.toList_inj.mp (List.append_cancel_right h0)

theorem joinKey_inj_time (a b b' c d : String) (h : joinKey a b c d = joinKey a b' c d) : b = b' := by
  have h0 := congrArg String.toList h
  rw [joinKey_toList, joinKey_toList] at h0
  have h1 := List.append_cancel_left h0
  simp only [List.cons.injEq, true_and] at h1
  exact String.toList_inj.mp (List.append_cancel_right h1)

theorem joinKey_inj_addKey (a b c c' d : String) (h : joinKey a b c d = joinKey a b c' d) : c = c' := by
  have h0 := congrArg String.toList h
  rw [joinKey_toList, joinKey_toList] at h0
  have h1 := List.append_cancel_left h0
  simp only [List.cons.injEq, true_and] at h1
  have h2 := List.append_cancel_left h1
  simp only [List.cons.injEq, true_and] at h2
  exact String.toList_inj.mp (List.append_cancel_right h2)

theorem joinKey_inj_seed (a b c d d' : String) (h : joinKey a b c d = joinKey a b c d') : d = d' := by
  have h0 := congrArg String.toList h
  rw [joinKey_toList, joinKey_toList] at h0
  have h1 := List.append_cancel_left h0
  simp only [List.cons.injEq, true_and] at h1
  have h2 := List.append_cancel_left h1
  simp only [List.cons.injEq, true_and] at h2
  have h3 := List.append_cancel_left h2
  simp only [List.cons.injEq, true_and] at h3
  exact String.toList_inj.mp h3

/-- changing exactly one of decision point / time / additional key / seed changes the seed string (and
with it the SHA-1 input; that the block then is "unrelated" is the hash's business – partial). -/
theorem joinKey_inj_each (a a' b b' c c' d d' : String) :
    (a ≠ a' → joinKey a b c d ≠ joinKey a' b c d) ∧ (b ≠ b' → joinKey a b c d ≠ joinKey a b' c d) ∧
    (c ≠ c' → joinKey a b c d ≠ joinKey a b c' d) ∧ (d ≠ d' → joinKey a b c d ≠ joinKey a b c d') :=
  ⟨fun n h => n (joinKey_inj_key _ _ _ _ _ h), fun n h => n (joinKey_inj_time _ _ _ _ _ h),
   fun n h => n (joinKey_inj_addKey _ _ _ _ _ h), fun n h => n (joinKey_inj_seed _ _ _ _ _ h)⟩

/-- the documented ambiguity: `_` is not escaped, so two DIFFERENT (decision point, additional key) pairs
can give the same seed string when several components change at once. Outside what is claimed. -/
theorem joinKey_ambiguous :
    joinKey "a" "5" "b_5_c" "0" = joinKey "a_5_b" "5" "c" "0" ∧ ("a", "b_5_c") ≠ ("a_5_b", "c") := by decide

/-! ### explicit exclusion -/

/-- streams created with `initializes_crn_attributes=True` hand out the block positionally: entry `i` of
the request reads position `i`, whoever is asked for. This is by design (the simulants cannot be
registered before their key columns exist) and such streams are excluded from the property. -/
theorem crn_init_stream_positional (req : List Sim) (out : List Draw)
    (h : getDrawInit blk size ks req = .ok out) :
    out = req.zipIdx.map (fun x => (x.1, x.2, blk ks size x.2)) ∧ req.length ≤ size := by
  unfold getDrawInit at h
  split at h
  · cases h; exact ⟨rfl, by assumption⟩
  · cases h

/-- … and therefore they do NOT have the property: the same simulant gets different draws in two orders. -/
theorem crn_init_stream_not_pointwise :
    getDrawInit (fun _ _ p => p + 7) 10 "k" [3, 4] = .ok [(3, 0, 7), (4, 1, 8)] ∧
    getDrawInit (fun _ _ p => p + 7) 10 "k" [4, 3] = .ok [(4, 0, 7), (3, 1, 8)] := by decide

/-! ### one stream per decision point -/

theorem getStream_duplicate_rejected (known : List String) (dp : String) (h : dp ∈ known) :
    getStream known dp = .error .duplicate := by
  simp [getStream, h]

theorem getStream_keeps_nodup (known known' : List String) (dp : String) (hn : known.Nodup)
    (h : getStream known dp = .ok known') : known'.Nodup ∧ dp ∈ known' := by
  unfold getStream at h
  split at h
  · cases h
  · rename_i hc
    cases h
    refine ⟨?_, by simp⟩
    rw [List.nodup_append]
    refine ⟨hn, by simp, ?_⟩
    intro a ha b hb hab
    simp at hb; subst hb; subst hab
    exact hc (by simpa using ha)

/-! ### non-vacuity -/

example : getDraw (fun _ _ p => p * 3) 10 (posIdentity 10) "k" [4, 2, 4, 9] =
    .ok [(4, 4, 12), (2, 2, 6), (4, 4, 12), (9, 9, 27)] := by decide
example : getDraw (fun _ _ p => p * 3) 10 (posIdentity 10) "k" [4, 10] = .error .lookup := by decide
example : getDraw (fun _ _ p => p * 3) 10 (posMap [(0, 7), (1, 3), (5, 0)]) "k" [5, 0] =
    .ok [(5, 0, 0), (0, 7, 21)] := by decide
example : getDraw (fun _ _ p => p * 3) 10 (posMap [(0, 7), (1, 3)]) "k" [5] = .error .lookup := by decide
example : joinKey "dp" "2020-01-01 00:00:00" "None" "0" = "dp_2020-01-01 00:00:00_None_0" := by decide

end Viv.Props.C02
