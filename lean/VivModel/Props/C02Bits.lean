import VivModel.Model.Sha1
import VivModel.Model.MT19937
import VivModel.Model.RandomBlock
import VivModel.Props.C02
/-! C02, bit level — the random block is no longer a parameter.

`Viv.Props.C02` is stated for every block function `blk` and `draw_range` there assumes the contract
"numerator < 2^53". Here the two external functions are modelled (`Model/Sha1.lean`: SHA-1 and `get_hash`;
`Model/MT19937.lean`: numpy's legacy `RandomState(seed).random_sample`) and the contract is PROVED for the
concrete block `Viv.RandomBlock.realBlk ks size p = numerator (getHash ks) size p`, for all seed strings,
sizes and positions. The models are tied to hashlib / numpy by the correspondence harness (driver ops
`hash`, `mt`, and `draw` with `rng 1`: the driver computes the block from the seed string alone). -/
namespace Viv.Props.C02Bits
open Viv.Stream Viv.RandomBlock

/-! ### arrays of words -/

theorem getElem!_set! (a : Array Nat) (i j v : Nat) :
    (a.set! i v)[j]! = if i = j ∧ j < a.size then v else a[j]! := by
  simp only [Array.getElem!_eq_getD, Array.getD_eq_getD_getElem?, Array.set!_eq_setIfInBounds,
    Array.getElem?_setIfInBounds]
  by_cases h : i = j
  · by_cases h2 : j < a.size <;> simp [h, h2]
  · simp [h]

theorem getElem!_push (a : Array Nat) (j v : Nat) :
    (a.push v)[j]! = if j < a.size then a[j]! else if j = a.size then v else 0 := by
  simp only [Array.getElem!_eq_getD, Array.getD_eq_getD_getElem?, Array.getElem?_push]
  by_cases h : j = a.size
  · simp [h]
  · by_cases h2 : j < a.size
    · simp [h, h2]
    · simp [h, h2]

theorem getElem!_empty (c j : Nat) : (Array.emptyWithCapacity c : Array Nat)[j]! = 0 := by
  simp

/-! ### SHA-1 / get_hash -/
section sha1
open Viv.Sha1

theorem seedModulus_eq : seedModulus = 2 ^ 32 - 1 := by decide

/-- `get_hash` is below its modulus 2^32 − 1, for every key -/
theorem getHash_lt (k : String) : getHash k < 4294967295 :=
  Nat.mod_lt _ (by decide)

/-- … so `np.random.RandomState(seed=get_hash(key))` never raises "Seed must be between 0 and 2**32 - 1" and
the `seed &= 0xffffffff` of `mt19937_seed` is the identity on it -/
theorem getHash_is_numpy_seed (k : String) : getHash k < 2 ^ 32 ∧ getHash k % Viv.MT19937.W = getHash k := by
  have := getHash_lt k
  refine ⟨by omega, Nat.mod_eq_of_lt ?_⟩
  show getHash k < 4294967296
  omega

/-- a word of the chaining value / working variables is a 32-bit word -/
def Vars.WF (v : Vars) : Prop := v.a < W ∧ v.b < W ∧ v.c < W ∧ v.d < W ∧ v.e < W

theorem add32_lt (a b : Nat) : add32 a b < W := Nat.mod_lt _ (by decide)

theorem rotl_lt (n x : Nat) : rotl n x < W := Nat.mod_lt _ (by decide)

theorem init_wf : Vars.WF init := by unfold Vars.WF; decide

/-- one compression step yields 32-bit words whatever it is given -/
theorem compress_lt (h : Vars) (chunk : List Nat) : Vars.WF (compress h chunk) :=
  ⟨add32_lt _ _, add32_lt _ _, add32_lt _ _, add32_lt _ _, add32_lt _ _⟩

theorem chunks_wf (f : Nat) (bytes : List Nat) (h : Vars) (hw : Vars.WF h) : Vars.WF (chunks f bytes h) := by
  induction f generalizing bytes h with
  | zero => exact hw
  | succ f ih => exact ih _ _ (compress_lt _ _)

theorem mulW_add_lt (a b X : Nat) (ha : a < X) (hb : b < W) : a * W + b < X * W := by
  have : (a + 1) * W ≤ X * W := Nat.mul_le_mul_right _ ha
  rw [Nat.add_mul, Nat.one_mul] at this
  omega

/-- the digest is a 160-bit number, for every message -/
theorem sha1Bytes_lt (msg : List Nat) : sha1Bytes msg < 2 ^ 160 := by
  unfold sha1Bytes
  obtain ⟨ha, hb, hc, hd, he⟩ := chunks_wf ((pad msg).length / 64) (pad msg) init init_wf
  have h1 := mulW_add_lt _ _ W ha hb
  have h2 := mulW_add_lt _ _ _ h1 hc
  have h3 := mulW_add_lt _ _ _ h2 hd
  have h4 := mulW_add_lt _ _ _ h3 he
  have : W * W * W * W * W = 2 ^ 160 := by decide
  rw [this] at h4
  exact h4

theorem sha1_lt (s : String) : sha1 s < 2 ^ 160 := sha1Bytes_lt _

/-- the padded message is a whole number of 64-byte chunks, at least one (so `chunks` consumes all of it) -/
theorem pad_length (msg : List Nat) : (pad msg).length % 64 = 0 ∧ msg.length + 9 ≤ (pad msg).length := by
  have hb : ∀ k n, (beBytes k n).length = k := by
    intro k n; induction k with
    | zero => rfl
    | succ k ih => simp [beBytes, ih]
  simp only [pad, List.length_append, List.length_cons, List.length_replicate, hb]
  omega

end sha1

/-! ### Mersenne twister -/
section mt
open Viv.MT19937

/- the loops run on the literal fuel 624: keep the unifier from unrolling them -/
attribute [local irreducible] seedLoop genLoop sampleLoop

theorem W_eq : W = 2 ^ 32 := by decide

/-- every word of the key array is a 32-bit word (reads outside the array give 0) -/
def WF (key : Array Nat) : Prop := ∀ i : Nat, key[i]! < W

theorem seedNext_lt (p i : Nat) : seedNext p i < W := Nat.mod_lt _ (by decide)

theorem seedLoop_wf (f pos s : Nat) (key : Array Nat) (hk : WF key) (hs : s < W) :
    WF (seedLoop f pos s key) := by
  induction f generalizing pos s key with
  | zero => rw [seedLoop]; exact hk
  | succ f ih =>
    rw [seedLoop]
    refine ih _ _ _ ?_ (seedNext_lt _ _)
    intro i
    rw [getElem!_push]
    split
    · exact hk i
    · split
      · exact hs
      · decide

theorem seedLoop_size (f pos s : Nat) (key : Array Nat) : (seedLoop f pos s key).size = key.size + f := by
  induction f generalizing pos s key with
  | zero => rw [seedLoop]; rfl
  | succ f ih => rw [seedLoop, ih, Array.size_push]; omega

/-- `mt19937_seed` leaves 624 32-bit words, for every seed -/
theorem seed_wf (s : Nat) : WF (seed s).key ∧ (seed s).key.size = 624 := by
  have hW : s % W < W := Nat.mod_lt _ (by decide)
  have h0 : WF (Array.emptyWithCapacity N : Array Nat) := fun i => by rw [getElem!_empty]; decide
  have h1 := seedLoop_wf N 0 (s % W) (Array.emptyWithCapacity N) h0 hW
  have h2 := seedLoop_size N 0 (s % W) (Array.emptyWithCapacity N)
  have h3 : (Array.emptyWithCapacity N : Array Nat).size + N = 624 := by simp [N]
  exact ⟨h1, h2.trans h3⟩

theorem twistWord_lt (a b src : Nat) (h : src < W) : twistWord a b src < W := by
  rw [W_eq] at *
  unfold twistWord
  have hy : (a &&& upperMask) ||| (b &&& lowerMask) < 2 ^ 32 :=
    Nat.or_lt_two_pow (Nat.and_lt_two_pow _ (by decide)) (Nat.and_lt_two_pow _ (by decide))
  refine Nat.xor_lt_two_pow (Nat.xor_lt_two_pow h ?_) ?_
  · exact Nat.lt_of_le_of_lt (Nat.shiftRight_le _ _) hy
  · split <;> decide

theorem genLoop_wf (f i : Nat) (key : Array Nat) (hk : WF key) : WF (genLoop f i key) := by
  induction f generalizing i key with
  | zero => rw [genLoop]; exact hk
  | succ f ih =>
    rw [genLoop]
    refine ih _ _ ?_
    intro j
    rw [getElem!_set!]
    split
    · exact twistWord_lt _ _ _ (hk _)
    · exact hk j

theorem genLoop_size (f i : Nat) (key : Array Nat) : (genLoop f i key).size = key.size := by
  induction f generalizing i key with
  | zero => rw [genLoop]
  | succ f ih => rw [genLoop, ih, Array.set!_eq_setIfInBounds, Array.size_setIfInBounds]

/-- the block regeneration keeps 32-bit words -/
theorem gen_wf (key : Array Nat) (hk : WF key) : WF (gen key) := genLoop_wf _ _ _ hk

theorem temper_lt (y : Nat) (h : y < W) : temper y < W := by
  rw [W_eq] at *
  unfold temper
  have sr : ∀ (z n : Nat), z < 2 ^ 32 → z >>> n < 2 ^ 32 := fun z n hz =>
    Nat.lt_of_le_of_lt (Nat.shiftRight_le _ _) hz
  have h1 : y ^^^ (y >>> 11) < 2 ^ 32 := Nat.xor_lt_two_pow h (sr _ _ h)
  have h2 := Nat.xor_lt_two_pow h1
    (Nat.and_lt_two_pow ((y ^^^ (y >>> 11)) <<< 7) (y := 0x9d2c5680) (by decide))
  have h3 := Nat.xor_lt_two_pow h2 (Nat.and_lt_two_pow
    ((y ^^^ y >>> 11 ^^^ (y ^^^ y >>> 11) <<< 7 &&& 0x9d2c5680) <<< 15) (y := 0xefc60000) (by decide))
  exact Nat.xor_lt_two_pow h3 (sr _ _ h3)

/-- `genrand_int32` returns a 32-bit word and leaves a well-formed state -/
theorem nextU32_lt (s : State) (hs : WF s.key) : (nextU32 s).1 < W ∧ WF (nextU32 s).2.key := by
  unfold nextU32
  by_cases h : s.pos ≥ N
  · simp only [h, if_true]
    exact ⟨temper_lt _ (gen_wf _ hs _), gen_wf _ hs⟩
  · simp only [h, if_false]
    exact ⟨temper_lt _ (hs _), hs⟩

/-- the numerator built from two 32-bit words is below 2^53: `a >> 5 < 2^27`, `b >> 6 < 2^26` -/
theorem doubleNum_lt (a b : Nat) (ha : a < W) (hb : b < W) : doubleNum a b < 2 ^ 53 := by
  unfold doubleNum
  rw [Nat.shiftRight_eq_div_pow, Nat.shiftRight_eq_div_pow]
  have : W = 4294967296 := rfl
  omega

/-- … and it is exactly representable: the value `a>>5 · 2^26 + b>>6` has the two parts in disjoint bit ranges -/
theorem doubleNum_parts (a b : Nat) (hb : b < W) :
    doubleNum a b / 67108864 = a >>> 5 ∧ doubleNum a b % 67108864 = b >>> 6 := by
  unfold doubleNum
  rw [Nat.shiftRight_eq_div_pow, Nat.shiftRight_eq_div_pow]
  have : W = 4294967296 := rfl
  omega

theorem nextDouble_lt (s : State) (hs : WF s.key) : (nextDouble s).1 < 2 ^ 53 ∧ WF (nextDouble s).2.key := by
  unfold nextDouble
  have h1 := nextU32_lt s hs
  have h2 := nextU32_lt (nextU32 s).2 h1.2
  exact ⟨doubleNum_lt _ _ h1.1 h2.1, h2.2⟩

theorem sampleLoop_lt (n : Nat) (s : State) (out : Array Nat) (hs : WF s.key)
    (ho : ∀ i : Nat, out[i]! < 2 ^ 53) : ∀ i : Nat, (sampleLoop n s out)[i]! < 2 ^ 53 := by
  induction n generalizing s out with
  | zero => rw [sampleLoop]; exact ho
  | succ n ih =>
    have h := nextDouble_lt s hs
    rw [sampleLoop]
    refine ih _ _ h.2 ?_
    intro i
    rw [getElem!_push]
    split
    · exact ho i
    · split
      · exact h.1
      · decide

theorem sampleLoop_size (n : Nat) (s : State) (out : Array Nat) : (sampleLoop n s out).size = out.size + n := by
  induction n generalizing s out with
  | zero => rw [sampleLoop]; rfl
  | succ n ih => rw [sampleLoop, ih, Array.size_push]; omega

/-- `random_sample(size)` has `size` entries -/
theorem block_size (sd size : Nat) : (block sd size).size = size := by
  unfold block; rw [sampleLoop_size]; simp

/-- THE BLOCK CONTRACT, proved: every entry of `RandomState(seed).random_sample(size)` is `k / 2^53` with
`k < 2^53`, i.e. lies in [0, 1) – for ALL seeds, sizes and positions. -/
theorem numerator_lt (sd size pos : Nat) : numerator sd size pos < 2 ^ 53 := by
  unfold numerator
  have h := sampleLoop_lt size (seed sd) (Array.emptyWithCapacity size) (seed_wf sd).1
    (fun i => by rw [getElem!_empty]; decide) pos
  rw [Array.getElem!_eq_getD, Array.getD_eq_getD_getElem?] at h
  exact h

end mt

/-! ### the draws of a stream over the concrete block -/

theorem realBlk_lt (ks : String) (size p : Nat) : realBlk ks size p < 2 ^ 53 := numerator_lt _ _ _

/-- `Viv.Props.C02.draw_range` WITHOUT contract hypothesis: every draw `get_draw` returns, over the block
`RandomState(get_hash(seed string)).random_sample(size)`, lies in [0, 1) (numerator below 2^53). -/
theorem draw_range_concrete (size : Nat) (pos : Sim → Option Nat) (ks : String) (req : List Sim)
    (out : List Draw) (h : getDraw realBlk size pos ks req = .ok out) : ∀ e ∈ out, e.2.2 < 2 ^ 53 :=
  Viv.Props.C02.draw_range realBlk size pos ks realBlk_lt req out h

/-- the same for the positional init stream (excluded from C02, but its draws are in range as well) -/
theorem draw_range_concrete_init (size : Nat) (ks : String) (req : List Sim) (out : List Draw)
    (h : getDrawInit realBlk size ks req = .ok out) : ∀ e ∈ out, e.2.2 < 2 ^ 53 := by
  obtain ⟨ho, _⟩ := Viv.Props.C02.crn_init_stream_positional realBlk size ks req out h
  intro e he
  rw [ho] at he
  obtain ⟨x, _, hx⟩ := List.mem_map.mp he
  rw [← hx]
  exact realBlk_lt _ _ _

/-- `getDraw` only evaluates the block function at its own seed string and size -/
theorem getDraw_congr_blk (b1 b2 : String → Nat → Nat → Nat) (size : Nat) (pos : Sim → Option Nat)
    (ks : String) (hb : ∀ p, b1 ks size p = b2 ks size p) (req : List Sim) :
    getDraw b1 size pos ks req = getDraw b2 size pos ks req := by
  induction req with
  | nil => rfl
  | cons s ss ih => simp only [getDraw, ih, hb]

/-- the driver computes the block once per seed string (`memoBlk`) – the same function as `realBlk` -/
theorem getDraw_memo (size : Nat) (pos : Sim → Option Nat) (ks : String) (req : List Sim) :
    getDraw (memoBlk (blockOf ks size)) size pos ks req = getDraw realBlk size pos ks req :=
  getDraw_congr_blk _ _ size pos ks
    (fun _ => by simp only [memoBlk, realBlk, blockOf, Viv.MT19937.numerator]) req

end Viv.Props.C02Bits
