import VivModel.Model.Sha1
import VivModel.Model.MT19937
import VivModel.Model.RandomBlock
import VivModel.Props.C02
/-! C02, bit level — the random block is no longer a parameter.

`Viv.Props.C02` is stated for every block function `blk`, and `draw_range` there assumes the contract
"numerator < 2^53". Here the two external functions are modelled (`Model/Sha1.lean`: SHA-1 and `get_hash`;
`Model/MT19937.lean`: numpy's legacy `RandomState(seed).random_sample`) and the contract is PROVED for the
concrete block `Viv.RandomBlock.realBlk ks size p = numerator (getHash ks) size p`, for all seed strings,
sizes and positions (`numerator_lt`, `draw_range_concrete`).

Beyond the range: `mt19937_gen` (in-place, three loops) is proved to compute the defining linear recurrence
of MT19937 (`gen_recurrence`); the generator's outputs and the block's entries get a closed form over the
word sequence of the seed (`word_seed`, `word_recurrence`, `outputs_eq`, `numerator_eq`), hence the block is
prefix-stable (`numerator_prefix_stable`) and a draw is a function of (seed string, position) only
(`draw_value_concrete`). Known answers (FIPS 180 vectors, `init_genrand(5489)`, numpy's first double, one
complete `get_draw` value from the seed-string components) are evaluated by the kernel (`decide +kernel`:
plain kernel reduction, no `Lean.ofReduceBool`); the MT ones go through the closed form because unrolling the
624-word array loops inside the kernel takes minutes.

NOT proved (and not provable): that blocks of different seed strings are "unrelated" – a statistical
property of SHA-1 / MT19937. That hashlib / numpy compute the modelled functions is established by the
correspondence harness (driver ops `hash`, `sha`, `mt`, `mtw`, and `draw` after `rng 1`: the driver computes
the block from the seed string alone), not by proof. -/
namespace Viv.Props.C02Bits
open Viv.Stream Viv.RandomBlock

/-! ### arrays of words -/

theorem getElem!_set! (a : Array Nat) (i j v : Nat) :
    (a.set! i v)[j]! = if i = j ∧ j < a.size then v else a[j]! := by
  simp only [Array.getElem!_eq_getD, Array.getD_eq_getD_getElem?, Array.set!_eq_setIfInBounds,
    Array.getElem?_setIfInBounds]
  by_cases h : i = j
  · by_cases h2 : j < a.size <;> simp [h, h2]
  · simp [h]

theorem getElem!_push (a : Array Nat) (j v : Nat) :
    (a.push v)[j]! = if j < a.size then a[j]! else if j = a.size then v else 0 := by
  simp only [Array.getElem!_eq_getD, Array.getD_eq_getD_getElem?, Array.getElem?_push]
  by_cases h : j = a.size
  · simp [h]
  · by_cases h2 : j < a.size
    · simp [h, h2]
    · simp [h, h2]

theorem getElem!_empty (c j : Nat) : (Array.emptyWithCapacity c : Array Nat)[j]! = 0 := by
  simp

/-! ### SHA-1 / get_hash -/
section sha1
open Viv.Sha1

theorem seedModulus_eq : seedModulus = 2 ^ 32 - 1 := by decide

/-- `get_hash` is below its modulus 2^32 − 1, for every key -/
theorem getHash_lt (k : String) : getHash k < 4294967295 :=
  Nat.mod_lt _ (by decide)

/-- … so `np.random.RandomState(seed=get_hash(key))` never raises "Seed must be between 0 and 2**32 - 1" and
the `seed &= 0xffffffff` of `mt19937_seed` is the identity on it -/
theorem getHash_is_numpy_seed (k : String) : getHash k < 2 ^ 32 ∧ getHash k % Viv.MT19937.W = getHash k := by
  have := getHash_lt k
  refine ⟨by omega, Nat.mod_eq_of_lt ?_⟩
  show getHash k < 4294967296
  omega

/-- a word of the chaining value / working variables is a 32-bit word -/
def Vars.WF (v : Vars) : Prop := v.a < W ∧ v.b < W ∧ v.c < W ∧ v.d < W ∧ v.e < W

theorem add32_lt (a b : Nat) : add32 a b < W := Nat.mod_lt _ (by decide)

theorem rotl_lt (n x : Nat) : rotl n x < W := Nat.mod_lt _ (by decide)

theorem init_wf : Vars.WF init := by unfold Vars.WF; decide

/-- one compression step yields 32-bit words whatever it is given -/
theorem compress_lt (h : Vars) (chunk : List Nat) : Vars.WF (compress h chunk) :=
  ⟨add32_lt _ _, add32_lt _ _, add32_lt _ _, add32_lt _ _, add32_lt _ _⟩

theorem chunks_wf (f : Nat) (bytes : List Nat) (h : Vars) (hw : Vars.WF h) : Vars.WF (chunks f bytes h) := by
  induction f generalizing bytes h with
  | zero => exact hw
  | succ f ih => exact ih _ _ (compress_lt _ _)

theorem mulW_add_lt (a b X : Nat) (ha : a < X) (hb : b < W) : a * W + b < X * W := by
  have : (a + 1) * W ≤ X * W := Nat.mul_le_mul_right _ ha
  rw [Nat.add_mul, Nat.one_mul] at this
  omega

/-- the digest is a 160-bit number, for every message -/
theorem sha1Bytes_lt (msg : List Nat) : sha1Bytes msg < 2 ^ 160 := by
  unfold sha1Bytes
  obtain ⟨ha, hb, hc, hd, he⟩ := chunks_wf ((pad msg).length / 64) (pad msg) init init_wf
  have h1 := mulW_add_lt _ _ W ha hb
  have h2 := mulW_add_lt _ _ _ h1 hc
  have h3 := mulW_add_lt _ _ _ h2 hd
  have h4 := mulW_add_lt _ _ _ h3 he
  have : W * W * W * W * W = 2 ^ 160 := by decide
  rw [this] at h4
  exact h4

theorem sha1_lt (s : String) : sha1 s < 2 ^ 160 := sha1Bytes_lt _

/-- the padded message is a whole number of 64-byte chunks, at least one (so `chunks` consumes all of it) -/
theorem pad_length (msg : List Nat) : (pad msg).length % 64 = 0 ∧ msg.length + 9 ≤ (pad msg).length := by
  have hb : ∀ k n, (beBytes k n).length = k := by
    intro k n; induction k with
    | zero => rfl
    | succ k ih => simp [beBytes, ih]
  simp only [pad, List.length_append, List.length_cons, List.length_replicate, hb]
  omega

end sha1

/-! ### Mersenne twister -/
section mt
open Viv.MT19937

/- the loops run on the literal fuel 624: keep the unifier from unrolling them -/
attribute [local irreducible] seedLoop genLoop sampleLoop

theorem W_eq : W = 2 ^ 32 := by decide

/-- every word of the key array is a 32-bit word (reads outside the array give 0) -/
def WF (key : Array Nat) : Prop := ∀ i : Nat, key[i]! < W

theorem seedNext_lt (p i : Nat) : seedNext p i < W := Nat.mod_lt _ (by decide)

theorem seedLoop_wf (f pos s : Nat) (key : Array Nat) (hk : WF key) (hs : s < W) :
    WF (seedLoop f pos s key) := by
  induction f generalizing pos s key with
  | zero => rw [seedLoop]; exact hk
  | succ f ih =>
    rw [seedLoop]
    refine ih _ _ _ ?_ (seedNext_lt _ _)
    intro i
    rw [getElem!_push]
    split
    · exact hk i
    · split
      · exact hs
      · decide

theorem seedLoop_size (f pos s : Nat) (key : Array Nat) : (seedLoop f pos s key).size = key.size + f := by
  induction f generalizing pos s key with
  | zero => rw [seedLoop]; rfl
  | succ f ih => rw [seedLoop, ih, Array.size_push]; omega

/-- `mt19937_seed` leaves 624 32-bit words, for every seed -/
theorem seed_wf (s : Nat) : WF (seed s).key ∧ (seed s).key.size = 624 := by
  have hW : s % W < W := Nat.mod_lt _ (by decide)
  have h0 : WF (Array.emptyWithCapacity N : Array Nat) := fun i => by rw [getElem!_empty]; decide
  have h1 := seedLoop_wf N 0 (s % W) (Array.emptyWithCapacity N) h0 hW
  have h2 := seedLoop_size N 0 (s % W) (Array.emptyWithCapacity N)
  have h3 : (Array.emptyWithCapacity N : Array Nat).size + N = 624 := by simp [N]
  exact ⟨h1, h2.trans h3⟩

theorem twistWord_lt (a b src : Nat) (h : src < W) : twistWord a b src < W := by
  rw [W_eq] at *
  unfold twistWord
  have hy : (a &&& upperMask) ||| (b &&& lowerMask) < 2 ^ 32 :=
    Nat.or_lt_two_pow (Nat.and_lt_two_pow _ (by decide)) (Nat.and_lt_two_pow _ (by decide))
  refine Nat.xor_lt_two_pow (Nat.xor_lt_two_pow h ?_) ?_
  · exact Nat.lt_of_le_of_lt (Nat.shiftRight_le _ _) hy
  · split <;> decide

theorem genLoop_wf (f i : Nat) (key : Array Nat) (hk : WF key) : WF (genLoop f i key) := by
  induction f generalizing i key with
  | zero => rw [genLoop]; exact hk
  | succ f ih =>
    rw [genLoop]
    refine ih _ _ ?_
    intro j
    rw [getElem!_set!]
    split
    · exact twistWord_lt _ _ _ (hk _)
    · exact hk j

theorem genLoop_size (f i : Nat) (key : Array Nat) : (genLoop f i key).size = key.size := by
  induction f generalizing i key with
  | zero => rw [genLoop]
  | succ f ih => rw [genLoop, ih, Array.set!_eq_setIfInBounds, Array.size_setIfInBounds]

/-- the block regeneration keeps 32-bit words -/
theorem gen_wf (key : Array Nat) (hk : WF key) : WF (gen key) := genLoop_wf _ _ _ hk

theorem temper_lt (y : Nat) (h : y < W) : temper y < W := by
  rw [W_eq] at *
  unfold temper
  have sr : ∀ (z n : Nat), z < 2 ^ 32 → z >>> n < 2 ^ 32 := fun z n hz =>
    Nat.lt_of_le_of_lt (Nat.shiftRight_le _ _) hz
  have h1 : y ^^^ (y >>> 11) < 2 ^ 32 := Nat.xor_lt_two_pow h (sr _ _ h)
  have h2 := Nat.xor_lt_two_pow h1
    (Nat.and_lt_two_pow ((y ^^^ (y >>> 11)) <<< 7) (y := 0x9d2c5680) (by decide))
  have h3 := Nat.xor_lt_two_pow h2 (Nat.and_lt_two_pow
    ((y ^^^ y >>> 11 ^^^ (y ^^^ y >>> 11) <<< 7 &&& 0x9d2c5680) <<< 15) (y := 0xefc60000) (by decide))
  exact Nat.xor_lt_two_pow h3 (sr _ _ h3)

/-- `genrand_int32` returns a 32-bit word and leaves a well-formed state -/
theorem nextU32_lt (s : State) (hs : WF s.key) : (nextU32 s).1 < W ∧ WF (nextU32 s).2.key := by
  unfold nextU32
  by_cases h : s.pos ≥ N
  · simp only [h, if_true]
    exact ⟨temper_lt _ (gen_wf _ hs _), gen_wf _ hs⟩
  · simp only [h, if_false]
    exact ⟨temper_lt _ (hs _), hs⟩

/-- the numerator built from two 32-bit words is below 2^53: `a >> 5 < 2^27`, `b >> 6 < 2^26` -/
theorem doubleNum_lt (a b : Nat) (ha : a < W) (hb : b < W) : doubleNum a b < 2 ^ 53 := by
  unfold doubleNum
  rw [Nat.shiftRight_eq_div_pow, Nat.shiftRight_eq_div_pow]
  have : W = 4294967296 := rfl
  omega

/-- … and it is exactly representable: the value `a>>5 · 2^26 + b>>6` has the two parts in disjoint bit ranges -/
theorem doubleNum_parts (a b : Nat) (hb : b < W) :
    doubleNum a b / 67108864 = a >>> 5 ∧ doubleNum a b % 67108864 = b >>> 6 := by
  unfold doubleNum
  rw [Nat.shiftRight_eq_div_pow, Nat.shiftRight_eq_div_pow]
  have : W = 4294967296 := rfl
  omega

theorem nextDouble_lt (s : State) (hs : WF s.key) : (nextDouble s).1 < 2 ^ 53 ∧ WF (nextDouble s).2.key := by
  unfold nextDouble
  have h1 := nextU32_lt s hs
  have h2 := nextU32_lt (nextU32 s).2 h1.2
  exact ⟨doubleNum_lt _ _ h1.1 h2.1, h2.2⟩

theorem sampleLoop_lt (n : Nat) (s : State) (out : Array Nat) (hs : WF s.key)
    (ho : ∀ i : Nat, out[i]! < 2 ^ 53) : ∀ i : Nat, (sampleLoop n s out)[i]! < 2 ^ 53 := by
  induction n generalizing s out with
  | zero => rw [sampleLoop]; exact ho
  | succ n ih =>
    have h := nextDouble_lt s hs
    rw [sampleLoop]
    refine ih _ _ h.2 ?_
    intro i
    rw [getElem!_push]
    split
    · exact ho i
    · split
      · exact h.1
      · decide

theorem sampleLoop_size (n : Nat) (s : State) (out : Array Nat) : (sampleLoop n s out).size = out.size + n := by
  induction n generalizing s out with
  | zero => rw [sampleLoop]; rfl
  | succ n ih => rw [sampleLoop, ih, Array.size_push]; omega

/-- `random_sample(size)` has `size` entries -/
theorem block_size (sd size : Nat) : (block sd size).size = size := by
  unfold block; rw [sampleLoop_size]; simp

/-- THE BLOCK CONTRACT, proved: every entry of `RandomState(seed).random_sample(size)` is `k / 2^53` with
`k < 2^53`, i.e. lies in [0, 1) – for ALL seeds, sizes and positions. -/
theorem numerator_lt (sd size pos : Nat) : numerator sd size pos < 2 ^ 53 := by
  unfold numerator
  have h := sampleLoop_lt size (seed sd) (Array.emptyWithCapacity size) (seed_wf sd).1
    (fun i => by rw [getElem!_empty]; decide) pos
  rw [Array.getElem!_eq_getD, Array.getD_eq_getD_getElem?] at h
  exact h

/-- `omega` with the constants 624 and 397 spelled out -/
local macro "omegaN" : tactic => `(tactic| ((try simp only [N, M] at *) <;> omega))

/-! ### the regeneration computes the defining recurrence -/

/-- iterations from `i` on leave the words below `i` alone -/
theorem genLoop_below (f i : Nat) (key : Array Nat) (j : Nat) (hj : j < i) :
    (genLoop f i key)[j]! = key[j]! := by
  induction f generalizing i key with
  | zero => rw [genLoop]
  | succ f ih =>
    rw [genLoop, ih (i + 1) _ (by omega), getElem!_set!]
    have : ¬ (i = j ∧ j < key.size) := by omega
    simp [this]

/-- the loop invariant of `mt19937_gen`: started at `i` on `key` (words below `i` already new, from `i` on still old),
the word written at `j ≥ i` is the twist of the old `key[j]`, the old `key[j+1]` (the NEW word 0 for the last one) and
the word 397 ahead – old while `j + 397 < 624`, else the new word `j + 397 - 624`. -/
theorem genLoop_spec (f i : Nat) (key : Array Nat) (hs : key.size = N) (hf : i + f = N) (j : Nat)
    (hij : i ≤ j) (hj : j < N) :
    (genLoop f i key)[j]! = twistWord key[j]!
      (if j + 1 < N then key[j + 1]! else (genLoop f i key)[0]!)
      (if j + M < N then key[j + M]! else (genLoop f i key)[j + M - N]!) := by
  induction f generalizing i key with
  | zero => omega
  | succ f ih =>
    have hN : N = 624 := rfl
    have hM : M = 397 := rfl
    rw [genLoop]
    by_cases hji : j = i
    · subst hji
      -- the word written now; later iterations do not touch it, nor the new words it read
      rw [genLoop_below f (j + 1) _ j (by omega), getElem!_set!]
      simp only [hs, hj, and_self, if_true]
      congr 1
      · split
        · rename_i h; rw [Nat.mod_eq_of_lt h]
        · rename_i h
          have h1 : (j + 1) % N = 0 := by omegaN
          rw [h1, genLoop_below f (j + 1) _ 0 (by omega), getElem!_set!]
          have : ¬ (j = 0 ∧ 0 < key.size) := by omega
          simp [this]
      · split
        · rename_i h; rw [Nat.mod_eq_of_lt h]
        · rename_i h
          have h1 : (j + M) % N = j + M - N := by omegaN
          rw [h1, genLoop_below f (j + 1) _ (j + M - N) (by omega), getElem!_set!]
          have : ¬ (j = j + M - N ∧ j + M - N < key.size) := by omega
          simp [this]
    · have hs' : (key.set! i (twistWord key[i]! key[(i + 1) % N]! key[(i + M) % N]!)).size = N := by
        rw [Array.set!_eq_setIfInBounds, Array.size_setIfInBounds]; exact hs
      rw [ih (i + 1) _ hs' (by omega) (by omega)]
      have e1 : ∀ v, (key.set! i v)[j]! = key[j]! := fun v => by
        rw [getElem!_set!]; have : ¬ (i = j ∧ j < key.size) := by omega
        simp [this]
      have e2 : ∀ v, (key.set! i v)[j + 1]! = key[j + 1]! := fun v => by
        rw [getElem!_set!]; have : ¬ (i = j + 1 ∧ j + 1 < key.size) := by omega
        simp [this]
      have e3 : ∀ v, (key.set! i v)[j + M]! = key[j + M]! := fun v => by
        rw [getElem!_set!]; have : ¬ (i = j + M ∧ j + M < key.size) := by omega
        simp [this]
      rw [e1, e2, e3]

/-- two consecutive blocks of the word sequence: the key, then the regenerated key -/
def seq2 (key : Array Nat) (j : Nat) : Nat := if j < N then key[j]! else (gen key)[j - N]!

/-- `mt19937_gen` computes the defining linear recurrence of MT19937 (Matsumoto–Nishimura 1998, (w, n, m, r) =
(32, 624, 397, 31)): `x[k+624] = x[k+397] ⊕ ((x[k] upper | x[k+1] lower) · A)` over the old block followed by the new one. -/
theorem gen_recurrence (key : Array Nat) (hs : key.size = N) (k : Nat) (hk : k < N) :
    seq2 key (k + N) = twistWord (seq2 key k) (seq2 key (k + 1)) (seq2 key (k + M)) := by
  have hN : N = 624 := rfl
  have hM : M = 397 := rfl
  have h0 : ¬ (k + N < N) := by omega
  have h1 : k + N - N = k := by omega
  have hg : gen key = genLoop N 0 key := rfl
  simp only [seq2, h0, hk, if_false, if_true, h1]
  rw [hg, genLoop_spec N 0 key hs (by omega) k (by omega) hk]
  have e1 : (if k + 1 < N then key[k + 1]! else (genLoop N 0 key)[0]!) =
      (if k + 1 < N then key[k + 1]! else (genLoop N 0 key)[k + 1 - N]!) := by
    by_cases h : k + 1 < N
    · simp only [h, if_true]
    · have : k + 1 - N = 0 := by omega
      simp only [h, if_false, this]
  rw [e1]


/-! ### the word sequence of a seed -/

/-- the seeding recurrence as a function of the index: `x[0] = seed mod 2^32`,
`x[i+1] = (1812433253 · (x[i] ⊕ x[i]≫30) + i + 1) mod 2^32` -/
def seedWord (sd : Nat) : Nat → Nat
  | 0 => sd % W
  | i + 1 => seedNext (seedWord sd i) i

/-- the seeding loop's running value `t` iterations after it held `s` at index `pos` -/
def seedFrom (s pos : Nat) : Nat → Nat
  | 0 => s
  | t + 1 => seedFrom (seedNext s pos) (pos + 1) t

theorem seedFrom_seedWord (sd i t : Nat) : seedFrom (seedWord sd i) i t = seedWord sd (i + t) := by
  induction t generalizing i with
  | zero => rfl
  | succ t ih =>
    have h := ih (i + 1)
    rw [seedWord] at h
    rw [seedFrom, h]
    congr 1; omega

theorem getElem!_of_size_le (a : Array Nat) (j : Nat) (h : a.size ≤ j) : a[j]! = 0 := by
  simp [h]

theorem seedLoop_getElem (f pos s : Nat) (key : Array Nat) (j : Nat) :
    (seedLoop f pos s key)[j]! =
      if j < key.size then key[j]! else if j < key.size + f then seedFrom s pos (j - key.size) else 0 := by
  induction f generalizing pos s key with
  | zero =>
    rw [seedLoop]
    by_cases h : j < key.size
    · simp [h]
    · simp [h]
  | succ f ih =>
    rw [seedLoop, ih, Array.size_push, getElem!_push]
    by_cases h1 : j < key.size
    · have : j < key.size + 1 := by omega
      simp [h1, this]
    · by_cases h2 : j = key.size
      · subst h2
        simp [seedFrom]
      · have a1 : ¬ j < key.size + 1 := by omega
        by_cases h3 : j < key.size + 1 + f
        · have a2 : j < key.size + (f + 1) := by omega
          have a3 : j - key.size = (j - (key.size + 1)) + 1 := by omega
          simp only [h1, a1, h3, a2, if_true, if_false]
          rw [a3, seedFrom]
        · have a2 : ¬ j < key.size + (f + 1) := by omega
          simp only [h1, a1, h3, a2, if_false]

/-- `mt19937_seed` fills the key with the seeding recurrence -/
theorem seed_key_getElem (sd j : Nat) (hj : j < N) : (seed sd).key[j]! = seedWord sd j := by
  have hk : (seed sd).key = seedLoop N 0 (sd % W) (Array.emptyWithCapacity N) := rfl
  have hz : (Array.emptyWithCapacity N : Array Nat).size = 0 := by simp
  have h0 : seedWord sd 0 = sd % W := rfl
  rw [hk, seedLoop_getElem, hz]
  simp only [Nat.not_lt_zero, if_false, Nat.zero_add, hj, if_true, Nat.sub_zero]
  rw [← h0, seedFrom_seedWord, Nat.zero_add]

/-- the key after `b` regenerations -/
def blockKey (sd : Nat) : Nat → Array Nat
  | 0 => (seed sd).key
  | b + 1 => gen (blockKey sd b)

theorem blockKey_size (sd b : Nat) : (blockKey sd b).size = N := by
  induction b with
  | zero => exact (seed_wf sd).2
  | succ b ih => rw [blockKey]; unfold gen; rw [genLoop_size]; exact ih

/-- THE WORD SEQUENCE of seed `sd`: word `n` is word `n mod 624` of the key after `n / 624` regenerations.
Words 0 … 623 are the seeding recurrence (`word_seed`), every later word is given by the linear recurrence
(`word_recurrence`) – which is the definition of MT19937 seeded by `init_genrand`. -/
def word (sd n : Nat) : Nat := (blockKey sd (n / N))[n % N]!

theorem word_seed (sd n : Nat) (hn : n < N) : word sd n = seedWord sd n := by
  unfold word
  have h1 : n / N = 0 := Nat.div_eq_of_lt hn
  rw [h1, Nat.mod_eq_of_lt hn, blockKey, seed_key_getElem sd n hn]

theorem word_recurrence (sd n : Nat) :
    word sd (n + N) = twistWord (word sd n) (word sd (n + 1)) (word sd (n + M)) := by
  have hk : n % N < N := Nat.mod_lt _ (by decide)
  have h := gen_recurrence (blockKey sd (n / N)) (blockKey_size _ _) (n % N) hk
  have hg : gen (blockKey sd (n / N)) = blockKey sd (n / N + 1) := rfl
  have hd : (n + N) / N = n / N + 1 := by omegaN
  have hm : (n + N) % N = n % N := by omegaN
  have c0 : ¬ (n % N + N < N) := by omega
  have c1 : n % N + N - N = n % N := by omega
  simp only [seq2, hg, c0, c1, hk, if_true, if_false] at h
  unfold word
  rw [hd, hm, h]
  have e1 : (if n % N + 1 < N then (blockKey sd (n / N))[n % N + 1]! else (blockKey sd (n / N + 1))[n % N + 1 - N]!) =
      (blockKey sd ((n + 1) / N))[(n + 1) % N]! := by
    by_cases c : n % N + 1 < N
    · have a : (n + 1) / N = n / N := by omegaN
      have b : (n + 1) % N = n % N + 1 := by omegaN
      simp only [c, if_true, a, b]
    · have a : (n + 1) / N = n / N + 1 := by omegaN
      have b : (n + 1) % N = n % N + 1 - N := by omegaN
      simp only [c, if_false, a, b]
  have e2 : (if n % N + M < N then (blockKey sd (n / N))[n % N + M]! else (blockKey sd (n / N + 1))[n % N + M - N]!) =
      (blockKey sd ((n + M) / N))[(n + M) % N]! := by
    by_cases c : n % N + M < N
    · have a : (n + M) / N = n / N := by omegaN
      have b : (n + M) % N = n % N + M := by omegaN
      simp only [c, if_true, a, b]
    · have a : (n + M) / N = n / N + 1 := by omegaN
      have b : (n + M) % N = n % N + M - N := by omegaN
      simp only [c, if_false, a, b]
  rw [e1, e2]


/-! ### the generator hands out the tempered word sequence -/

/-- state of the generator of seed `sd` after `t` outputs: the key after `b` regenerations, `pos` words of it used -/
def Reached (sd t : Nat) (s : State) : Prop := ∃ b, s.key = blockKey sd b ∧ s.pos ≤ N ∧ N * b + s.pos = N + t

theorem reached_seed (sd : Nat) : Reached sd 0 (seed sd) := ⟨0, rfl, Nat.le_refl _, rfl⟩

/-- `genrand_int32`: output number `t` (from 0) is the tempered word `624 + t` -/
theorem nextU32_reached (sd t : Nat) (s : State) (h : Reached sd t s) :
    (nextU32 s).1 = temper (word sd (N + t)) ∧ Reached sd (t + 1) (nextU32 s).2 := by
  obtain ⟨b, hk, hp, ht⟩ := h
  unfold nextU32
  by_cases c : s.pos ≥ N
  · have a : (N + t) / N = b + 1 := by omegaN
    have a' : (N + t) % N = 0 := by omegaN
    simp only [c, if_true, word, a, a', hk]
    refine ⟨rfl, b + 1, rfl, by omegaN, by omegaN⟩
  · have a : (N + t) / N = b := by omegaN
    have a' : (N + t) % N = s.pos := by omegaN
    simp only [c, if_false, word, a, a', hk]
    refine ⟨trivial, b, rfl, by omegaN, by omegaN⟩

/-- the first `n` outputs after `t` earlier ones -/
theorem outputs_reached (sd : Nat) (n t : Nat) (s : State) (h : Reached sd t s) :
    outputs n s = (List.range n).map (fun i => temper (word sd (N + t + i))) := by
  induction n generalizing t s with
  | zero => rfl
  | succ n ih =>
    have h1 := nextU32_reached sd t s h
    rw [outputs]
    simp only [h1.1, ih (t + 1) _ h1.2, List.range_succ_eq_map, List.map_cons, List.map_map]
    congr 1
    apply List.map_congr_left
    intro i _
    simp only [Function.comp]
    congr 2; omega

/-- CLOSED FORM of `genrand_int32`: the outputs of `RandomState(sd)` are the tempered words 624, 625, … -/
theorem outputs_eq (sd n : Nat) :
    outputs n (seed sd) = (List.range n).map (fun i => temper (word sd (N + i))) := by
  rw [outputs_reached sd n 0 _ (reached_seed sd)]; rfl

/-- double number `p` of the stream: outputs `2p` and `2p + 1` -/
def doubleAt (sd p : Nat) : Nat := doubleNum (temper (word sd (N + 2 * p))) (temper (word sd (N + 2 * p + 1)))

theorem nextDouble_reached (sd t : Nat) (s : State) (h : Reached sd t s) :
    (nextDouble s).1 = doubleNum (temper (word sd (N + t))) (temper (word sd (N + t + 1))) ∧
      Reached sd (t + 2) (nextDouble s).2 := by
  have h1 := nextU32_reached sd t s h
  have h2 := nextU32_reached sd (t + 1) _ h1.2
  have e : nextDouble s = (doubleNum (nextU32 s).1 (nextU32 (nextU32 s).2).1, (nextU32 (nextU32 s).2).2) := rfl
  rw [e]
  exact ⟨by simp only [h1.1, h2.1]; rfl, h2.2⟩

theorem sampleLoop_getElem (sd : Nat) (n q : Nat) (s : State) (out : Array Nat) (h : Reached sd (2 * q) s) (j : Nat) :
    (sampleLoop n s out)[j]! =
      if j < out.size then out[j]! else if j < out.size + n then doubleAt sd (q + (j - out.size)) else 0 := by
  induction n generalizing q s out with
  | zero =>
    rw [sampleLoop]
    by_cases c : j < out.size
    · simp [c]
    · simp [c]
  | succ n ih =>
    have h1 := nextDouble_reached sd (2 * q) s h
    rw [sampleLoop, ih (q + 1) _ _ (by rw [Nat.mul_add]; exact h1.2), Array.size_push, getElem!_push, h1.1]
    by_cases c1 : j < out.size
    · have : j < out.size + 1 := by omega
      simp [c1, this]
    · by_cases c2 : j = out.size
      · subst c2
        simp [doubleAt]
      · have a1 : ¬ j < out.size + 1 := by omega
        by_cases c3 : j < out.size + 1 + n
        · have a2 : j < out.size + (n + 1) := by omega
          have a3 : q + 1 + (j - (out.size + 1)) = q + (j - out.size) := by omega
          simp only [c1, a1, c3, a2, if_true, if_false, a3]
        · have a2 : ¬ j < out.size + (n + 1) := by omega
          simp only [c1, a1, c3, a2, if_false]

/-- CLOSED FORM of the block: entry `p` of `RandomState(sd).random_sample(size)` is the double built from the
tempered words `624 + 2p` and `624 + 2p + 1` of the seed's word sequence -/
theorem numerator_eq (sd size p : Nat) (hp : p < size) : numerator sd size p = doubleAt sd p := by
  unfold numerator block
  have h := sampleLoop_getElem sd size 0 (seed sd) (Array.emptyWithCapacity size) (reached_seed sd) p
  have hz : (Array.emptyWithCapacity size : Array Nat).size = 0 := by simp
  rw [hz] at h
  simp only [Nat.not_lt_zero, if_false, Nat.zero_add, hp, if_true, Nat.sub_zero] at h
  rw [← h, Array.getElem!_eq_getD, Array.getD_eq_getD_getElem?]
  rfl

/-- the block is prefix-stable: a draw at a position does not depend on the block's size (so it does not matter how
many draws `random_sample` is asked for, as long as the position is inside) -/
theorem numerator_prefix_stable (sd size size' p : Nat) (hp : p < size) (hp' : p < size') :
    numerator sd size p = numerator sd size' p := by
  rw [numerator_eq sd size p hp, numerator_eq sd size' p hp']


/-! ### known answers, evaluated by the kernel -/

/-- the first 227 outputs only need the seeding recurrence: `x[624+n] = twist(x[n], x[n+1], x[n+397])` -/
theorem word_first (sd n : Nat) (h : n + M < N) :
    word sd (N + n) = twistWord (seedWord sd n) (seedWord sd (n + 1)) (seedWord sd (n + M)) := by
  rw [Nat.add_comm N n, word_recurrence, word_seed sd n (by omegaN), word_seed sd (n + 1) (by omegaN),
    word_seed sd (n + M) h]

/-- `init_genrand(5489)` (the reference implementation's default seed): `mt[1]`, `mt[623]` -/
theorem seed_5489_known : (seed 5489).key[0]! = 5489 ∧ (seed 5489).key[1]! = 1301868182 ∧
    (seed 5489).key[623]! = 79981964 := by
  rw [seed_key_getElem _ _ (by decide), seed_key_getElem _ _ (by decide), seed_key_getElem _ _ (by decide)]
  decide +kernel

/-- the first outputs of `genrand_int32` after `init_genrand(5489)`: 3499211612, 581869302, 3890346734
(the published reference output of mt19937ar.c begins with these) -/
theorem outputs_5489_known : outputs 3 (seed 5489) = [3499211612, 581869302, 3890346734] := by
  rw [outputs_eq]
  simp only [List.range_succ_eq_map, List.range_zero, List.map_cons, List.map_nil, Nat.add_zero]
  rw [show N + (0 + 1) = N + 1 from rfl, show N + (0 + 1 + 1) = N + 2 from rfl,
    ← Nat.add_zero N, word_first 5489 0 (by decide), word_first 5489 1 (by decide), word_first 5489 2 (by decide)]
  decide +kernel

/-- `np.random.RandomState(5489).random_sample(size)[0] = 7338378580900475 / 2^53` (0.8147236863931789), any size -/
theorem numerator_5489_known (size : Nat) (h : 0 < size) : numerator 5489 size 0 = 7338378580900475 := by
  rw [numerator_eq _ _ _ h]
  unfold doubleAt
  rw [show N + 2 * 0 = N + 0 from rfl, show N + 0 + 1 = N + 1 from rfl, word_first 5489 0 (by decide),
    word_first 5489 1 (by decide)]
  decide +kernel

/-- every multiple of 2^-53 in [0, 1) is the value of some pair of outputs: the bound of `numerator_lt` is tight -/
theorem doubleNum_surj (k : Nat) (h : k < 2 ^ 53) : ∃ a b, a < W ∧ b < W ∧ doubleNum a b = k := by
  refine ⟨(k / 67108864) * 32, (k % 67108864) * 64, ?_, ?_, ?_⟩
  · have : W = 4294967296 := rfl
    omega
  · have : W = 4294967296 := rfl
    omega
  · unfold doubleNum
    rw [Nat.shiftRight_eq_div_pow, Nat.shiftRight_eq_div_pow]
    omega

end mt

/-! ### the draws of a stream over the concrete block -/

theorem realBlk_lt (ks : String) (size p : Nat) : realBlk ks size p < 2 ^ 53 := numerator_lt _ _ _

/-- `Viv.Props.C02.draw_range` WITHOUT contract hypothesis: every draw `get_draw` returns, over the block
`RandomState(get_hash(seed string)).random_sample(size)`, lies in [0, 1) (numerator below 2^53). -/
theorem draw_range_concrete (size : Nat) (pos : Sim → Option Nat) (ks : String) (req : List Sim)
    (out : List Draw) (h : getDraw realBlk size pos ks req = .ok out) : ∀ e ∈ out, e.2.2 < 2 ^ 53 :=
  Viv.Props.C02.draw_range realBlk size pos ks realBlk_lt req out h

/-- over the concrete block a simulant's draw is a function of the seed string and of its position alone – not of the
request (`Viv.Props.C02.getDraw_pointwise`), and not even of the block's size: it is the double built from the tempered
words `624 + 2p`, `624 + 2p + 1` of the word sequence of `get_hash(seed string)`. -/
theorem draw_value_concrete (size : Nat) (pos : Sim → Option Nat) (ks : String) (req : List Sim)
    (out : List Draw) (h : getDraw realBlk size pos ks req = .ok out) :
    ∀ e ∈ out, e.2.1 < size → e.2.2 = doubleAt (Viv.Sha1.getHash ks) e.2.1 := by
  intro e he hlt
  have hd := (Viv.Props.C02.getDraw_mem realBlk size pos ks req out h e he).2
  unfold Viv.Props.C02.drawOf at hd
  cases hp : pos e.1 with
  | none => simp [hp] at hd
  | some p =>
    simp only [hp, Option.map_some, Option.some.injEq] at hd
    rw [← hd] at hlt ⊢
    exact numerator_eq _ _ _ hlt

/-- the same for the positional init stream (excluded from C02, but its draws are in range as well) -/
theorem draw_range_concrete_init (size : Nat) (ks : String) (req : List Sim) (out : List Draw)
    (h : getDrawInit realBlk size ks req = .ok out) : ∀ e ∈ out, e.2.2 < 2 ^ 53 := by
  obtain ⟨ho, _⟩ := Viv.Props.C02.crn_init_stream_positional realBlk size ks req out h
  intro e he
  rw [ho] at he
  obtain ⟨x, _, hx⟩ := List.mem_map.mp he
  rw [← hx]
  exact realBlk_lt _ _ _

/-- `getDraw` only evaluates the block function at its own seed string and size -/
theorem getDraw_congr_blk (b1 b2 : String → Nat → Nat → Nat) (size : Nat) (pos : Sim → Option Nat)
    (ks : String) (hb : ∀ p, b1 ks size p = b2 ks size p) (req : List Sim) :
    getDraw b1 size pos ks req = getDraw b2 size pos ks req := by
  induction req with
  | nil => rfl
  | cons s ss ih => simp only [getDraw, ih, hb]

/-- the driver computes the block once per seed string (`memoBlk`) – the same function as `realBlk` -/
theorem getDraw_memo (size : Nat) (pos : Sim → Option Nat) (ks : String) (req : List Sim) :
    getDraw (memoBlk (blockOf ks size)) size pos ks req = getDraw realBlk size pos ks req :=
  getDraw_congr_blk _ _ size pos ks
    (fun _ => by simp only [memoBlk, realBlk, blockOf, Viv.MT19937.numerator]) req

/-! ### known answers of the hash and of the whole chain, evaluated by the kernel -/
section kat
open Viv.Stream Viv.RandomBlock
open Viv.Sha1

/-- FIPS 180 test vectors and the padding boundary (55 bytes: one chunk, 56 bytes: two), a non-ASCII key -/
theorem sha1_abc : sha1 "abc" = 0xa9993e364706816aba3e25717850c26c9cd0d89d := by decide +kernel

theorem sha1_empty : sha1 "" = 0xda39a3ee5e6b4b0d3255bfef95601890afd80709 := by decide +kernel

theorem sha1_two_chunks : sha1 "abcdbcdecdefdefgefghfghighijhijkijkljklmklmnlmnomnopnopq" =
    0x84983e441c3bd26ebaae4aa1f95129e5e54670f1 := by decide +kernel

theorem sha1_padding_boundary :
    sha1 (String.ofList (List.replicate 55 'a')) = 0xc1c8bbdc22796e28c0e15163d20899b65621d65a ∧
    sha1 (String.ofList (List.replicate 56 'a')) = 0xc2db330f6083854c99d4b5bfb6e8f29f201be699 ∧
    (pad (List.replicate 55 97)).length = 64 ∧ (pad (List.replicate 56 97)).length = 128 := by decide +kernel

theorem sha1_utf8 : utf8Bytes "é€😀" = [0xc3, 0xa9, 0xe2, 0x82, 0xac, 0xf0, 0x9f, 0x98, 0x80] ∧
    sha1 "é€😀" = 0xc18ebd62bacc0aac83670707d9204486ec605731 := by decide +kernel

/-- `get_hash("dp_2020-01-01 00:00:00_None_0") == 382894730` -/
theorem getHash_known : getHash "dp_2020-01-01 00:00:00_None_0" = 382894730 := by decide +kernel

/-- position 0 of the block of a seed string, spelled out down to the seeding recurrence -/
theorem realBlk_first (ks : String) (size : Nat) (h : 0 < size) :
    realBlk ks size 0 =
      Viv.MT19937.doubleNum
        (Viv.MT19937.temper (Viv.MT19937.twistWord (seedWord (getHash ks) 0) (seedWord (getHash ks) 1)
          (seedWord (getHash ks) 397)))
        (Viv.MT19937.temper (Viv.MT19937.twistWord (seedWord (getHash ks) 1) (seedWord (getHash ks) 2)
          (seedWord (getHash ks) 398))) := by
  unfold realBlk
  rw [numerator_eq _ _ _ h]
  unfold doubleAt
  rw [show Viv.MT19937.N + 2 * 0 = Viv.MT19937.N + 0 from rfl,
    show Viv.MT19937.N + 0 + 1 = Viv.MT19937.N + 1 from rfl,
    word_first _ 0 (by decide), word_first _ 1 (by decide)]
  rfl

/-- END TO END, by the kernel: decision point "dp", clock 0, no additional key, seed 0 ⇒ seed string ⇒ SHA-1 ⇒
mod 2^32−1 ⇒ `mt19937_seed` ⇒ twist ⇒ tempering ⇒ the first double of the block, whatever the block's size:
`RandomnessStream("dp", lambda: 0, 0, …).get_draw(…)` reads 4320964812480132 / 2^53 at position 0. -/
theorem realBlk_known (size : Nat) (h : 0 < size) :
    realBlk (joinKey "dp" "0" "None" "0") size 0 = 4320964812480132 := by
  rw [realBlk_first _ _ h]
  decide +kernel

/-- … and one clock tick later it reads another number. (An instance: that blocks of different seed strings are
"unrelated" is a statistical property of SHA-1 / MT19937 and not a theorem here.) -/
theorem realBlk_next_time_known (size : Nat) (h : 0 < size) :
    realBlk (joinKey "dp" "1" "None" "0") size 0 = 1933818757770324 ∧
    realBlk (joinKey "dp" "1" "None" "0") size 0 ≠ realBlk (joinKey "dp" "0" "None" "0") size 0 := by
  rw [realBlk_first _ _ h, realBlk_first _ _ h]
  decide +kernel

end kat

end Viv.Props.C02Bits
