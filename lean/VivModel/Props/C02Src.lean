import VivModel.Model.Stream
import VivModel.Gen.Src
import VivModel.Lemmas.PyAst
import VivModel.Lemmas.PyState
/-! C02, source tie: the Python sources of `RandomnessStream._key` and `RandomnessStream.get_draw` (`Gen/Src.lean`,
regenerated from the tree under test on every run) evaluated by `Py.evalBlock` ARE the model's `joinKey` / `getDraw` /
`getDrawInit` (`Model/Stream.lean`): the block a draw is read from is identified by the string
`key _ clock _ additional key _ seed` and by the index map's size, and by nothing else; an ordinary stream reads it at the
positions the index map gives for the requested simulants, in request order; a CRN-initialising stream reads its first
`len(index)` entries; an empty request touches nothing. The translated function is evaluated in a STATELESS monad
(`Except String`): there is no place where a block, a key or a previous request could be remembered – a source edit that
adds one (an attribute written and read back, a module-level cache) no longer evaluates and breaks the obligation.
`numpy.random.RandomState(seed).random_sample(size)` is the block function `blk` (bit-level model: `Props/C02Bits`),
`get_hash` is identified with its argument (SHA-1 model: same file), `pd.Series(values, index=index)` pairs values with
labels positionally and refuses a length mismatch. -/
namespace Viv.Props.C02Src
open Viv.Py Viv.Stream

inductive SFn where
  | join | strFn | lenFn | getHash | clock | keyMethod | randomState | series
  /-- `np.asarray` / `np.array` / `list`-like copies: the same values -/
  | ident
  | sample (ks : String)

/-- the Python objects `RandomnessStream._key` and `get_draw` touch -/
inductive SV where
  | none | bool (b : Bool) | int (i : Int) | str (s : String)
  | self | indexMap | floatT
  | modPd | modNp | modNpRandom
  /-- the requested `pd.Index` -/
  | idx (req : List Sim)
  /-- an object whose only use is its `str()`: the clock value, the additional key, the seed -/
  | printable (s : String)
  /-- `get_hash(seed string)`: the numpy seed, identified by the string it was computed from -/
  | seedOf (ks : String)
  | rstate (ks : String)
  /-- `random_state.random_sample(size)` -/
  | block (ks : String) (size : Nat)
  | sliceTo (n : Nat)
  | positions (ps : List Nat)
  /-- entries read from a block: (position, numerator) -/
  | values (vs : List (Nat × Nat))
  | series (ds : List Draw)
  | fn (f : SFn)
  | list (vs : List SV)

/-- a stream: decision point, printed clock value, printed seed, block size, index map, kind -/
structure Strm where
  key : String
  time : String
  seed : String
  size : Nat
  pos : Sim → Option Nat
  crnInit : Bool

abbrev M := Except String

def strs : List SV → Option (List String)
  | [] => some []
  | .str s :: rest => (strs rest).map (s :: ·)
  | _ => Option.none

def sGetAttr (st : Strm) : SV → String → M SV
  | .self, a =>
    if a == "key" then pure (.str st.key)
    else if a == "clock" then pure (.fn .clock)
    else if a == "seed" then pure (.printable st.seed)
    else if a == "index_map" then pure .indexMap
    else if a == "initializes_crn_attributes" then pure (.bool st.crnInit)
    else if a == "_key" then pure (.fn .keyMethod)
    else throw "AttributeError"
  | .str sep, a => if a == "join" && sep == "_" then pure (.fn .join) else throw "AttributeError"
  | .idx req, a => if a == "empty" then pure (.bool req.isEmpty) else throw "AttributeError"
  | .modPd, a => if a == "Series" then pure (.fn .series) else throw "AttributeError"
  | .modNp, a =>
    if a == "random" then pure .modNpRandom
    else if a == "asarray" || a == "array" then pure (.fn .ident) else throw "AttributeError"
  | .modNpRandom, a => if a == "RandomState" then pure (.fn .randomState) else throw "AttributeError"
  | .rstate ks, a =>
    if a == "random_sample" || a == "uniform" || a == "random" then pure (.fn (.sample ks)) else throw "AttributeError"
  | _, _ => throw "AttributeError"

def sGlobal (n : String) : M SV :=
  if n == "str" then pure (.fn .strFn) else if n == "len" then pure (.fn .lenFn)
  else if n == "get_hash" then pure (.fn .getHash) else if n == "pd" then pure .modPd
  else if n == "np" then pure .modNp else if n == "float" then pure .floatT else throw "NameError"

/-- `pd.Series(values, index=index)`: one value per label or `ValueError` -/
def mkSeries (vs : List (Nat × Nat)) (req : List Sim) : M SV :=
  if vs.length = req.length then pure (.series ((req.zip vs).map fun (s, pv) => (s, pv.1, pv.2))) else throw "ValueError"

def sPrim (st : Strm) : SFn → List SV → List (String × SV) → M SV
  | .join, [.list vs], [] => match strs vs with
    | some ss => pure (.str ("_".intercalate ss))
    | Option.none => throw "TypeError"
  | .strFn, [.printable s], [] => pure (.str s)
  | .strFn, [.str s], [] => pure (.str s)
  | .clock, [], [] => pure (.printable st.time)
  | .lenFn, [.indexMap], [] => pure (.int st.size)
  | .lenFn, [.idx req], [] => pure (.int req.length)
  | .getHash, [.str ks], [] => pure (.seedOf ks)
  | .randomState, [], [(_, .seedOf ks)] => pure (.rstate ks)
  | .randomState, [.seedOf ks], [] => pure (.rstate ks)
  | .sample ks, [.int n], [] => pure (.block ks n.toNat)
  | .sample ks, [], [(_, .int n)] => pure (.block ks n.toNat)
  | .ident, [.positions ps], [] => pure (.positions ps)
  | .ident, [.values vs], [] => pure (.values vs)
  | .series, [], [(_, .idx _), (_, .floatT)] => pure (.series [])
  | .series, [.values vs], [(_, .idx req)] => mkSeries vs req
  | _, _, _ => throw "TypeError"

def sSub (blk : String → Nat → Nat → Nat) (st : Strm) : SV → SV → M SV
  | .block ks size, .sliceTo n => pure (.values ((List.range (min n size)).map fun i => (i, blk ks size i)))
  | .block ks size, .positions ps => pure (.values (ps.map fun p => (p, blk ks size p)))
  | .indexMap, .idx req => match req.mapM st.pos with
    | some ps => pure (.positions ps)
    | Option.none => throw "LookupError"
  | _, _ => throw "TypeError"

def sworldWith (blk : String → Nat → Nat → Nat) (st : Strm) (keyMethod : SV → M SV) : World M SV where
  none := .none
  bool := .bool
  int := .int
  str := .str
  list := .list
  newList vs := pure (.list vs)
  tuple := .list
  global := sGlobal
  truthy
    | .none => pure false
    | .bool b => pure b
    | _ => pure true
  getAttr := sGetAttr st
  setAttr _ _ _ := throw "AttributeError"
  call f args kws := match f with
    | .fn .keyMethod => match args, kws with
      | [ak], [] => keyMethod ak
      | _, _ => throw "TypeError"
    | .fn g => sPrim st g args kws
    | _ => throw "TypeError"
  cmp _ _ _ := throw "TypeError"
  bin _ _ _ := throw "TypeError"
  neg _ := throw "TypeError"
  sub := sSub blk st
  slice lo hi := match lo, hi with
    | .none, .int n => .sliceTo n.toNat
    | _, _ => .none
  setItem _ _ _ := throw "TypeError"
  iter _ := throw "TypeError"
  unstar _ := throw "TypeError"
  format
    | .printable s => pure (.str s)
    | .str s => pure (.str s)
    | _ => throw "TypeError"
  concat vs := match strs vs with
    | some ss => pure (.str (String.join ss))
    | Option.none => throw "TypeError"
  dict _ := throw "TypeError"
  whileLoop _ _ _ := throw "Unsupported"
  other _ := throw "Unsupported"
  throw cls := throw cls
  rethrow := throw "reraise"
  catchAll body handler := tryCatch body (fun _ => handler)
  catchCls cls body handler := tryCatch body (fun e => if e == cls then handler else throw e)

def sworld0 (blk : String → Nat → Nat → Nat) (st : Strm) : World M SV := sworldWith blk st fun _ => throw "TypeError"

/-- the f-string form of the same string -/
theorem inter4 (a b c d : String) : "_".intercalate [a, b, c, d] = ((a ++ "_" ++ b) ++ "_" ++ c) ++ "_" ++ d := by rfl

theorem join_pieces (a b c d : String) : String.join [a, "_", b, "_", c, "_", d] = "_".intercalate [a, b, c, d] := by
  rw [inter4]
  simp [String.join, String.append_assoc]

/-- `RandomnessStream._key(additional_key)` is the model's seed string -/
theorem streamKey_refines (blk : String → Nat → Nat → Nat) (st : Strm) (ak : String) :
    Gen.Src.streamKey.run (sworld0 blk st) [("self", .self), ("additional_key", .printable ak)]
      = pure (SV.str (joinKey st.key st.time ak st.seed)) := by
  simp [Func.run, Gen.Src.streamKey, evalBlock, evalStmt, evalExpr, evalArgs, evalKws, sworld0, sworldWith, sGetAttr, sGlobal, sPrim,
    strs, joinKey, join_pieces, String.append_assoc]


/-- the full world: `self._key(additional_key)` is a call into the translated source of `_key` -/
def sworld (blk : String → Nat → Nat → Nat) (st : Strm) : World M SV :=
  sworldWith blk st fun ak => Gen.Src.streamKey.run (sworld0 blk st) [("self", .self), ("additional_key", ak)]

/-- the model's per-simulant recursion is "look every label up, then read the block at those positions" -/
theorem getDraw_eq (blk : String → Nat → Nat → Nat) (size : Nat) (pos : Sim → Option Nat) (ks : String) (req : List Sim) :
    getDraw blk size pos ks req = match req.mapM pos with
      | some ps => .ok ((req.zip (ps.map fun p => (p, blk ks size p))).map fun (s, pv) => (s, pv.1, pv.2))
      | Option.none => .error .lookup := by
  induction req with
  | nil => rfl
  | cons s ss ih =>
    simp only [getDraw, List.mapM_cons]
    cases hp : pos s with
    | none => simp
    | some p =>
      rw [ih]
      cases hm : ss.mapM pos with
      | none => simp
      | some ps => simp

theorem mapM_length {α β : Type} (f : α → Option β) : ∀ (xs : List α) (ys : List β), xs.mapM f = some ys → ys.length = xs.length
  | [], ys, h => by simp at h; subst h; rfl
  | x :: xs, ys, h => by
    simp only [List.mapM_cons] at h
    cases hx : f x with
    | none => simp [hx] at h
    | some y =>
      cases hxs : xs.mapM f with
      | none => simp [hx, hxs] at h
      | some ys' =>
        simp [hx, hxs] at h
        subst h
        simp [mapM_length f xs ys' hxs]

theorem zip_range_from (g : Nat → Nat) : ∀ (req : List Sim) (k : Nat),
    (req.zip ((List.range' k req.length).map fun i => (i, g i))).map (fun x => (x.1, x.2.1, x.2.2))
      = (req.zipIdx k).map fun (s, i) => (s, i, g i)
  | [], _ => rfl
  | s :: ss, k => by
    simp only [List.length_cons, List.range'_succ, List.map_cons, List.zip_cons_cons, List.zipIdx_cons]
    rw [zip_range_from g ss (k + 1)]

theorem zip_range (g : Nat → Nat) (req : List Sim) :
    (req.zip ((List.range req.length).map fun i => (i, g i))).map (fun x => (x.1, x.2.1, x.2.2))
      = req.zipIdx.map fun (s, i) => (s, i, g i) := by
  rw [List.range_eq_range']; exact zip_range_from g req 0

theorem zip_range_plain (g : Nat → Nat) (req : List Sim) :
    req.zip ((List.range req.length).map fun i => (i, g i)) = req.zipIdx.map fun x => (x.1, x.2, g x.2) := by
  have h := zip_range g req
  have hid : (fun (x : Sim × Nat × Nat) => (x.1, x.2.1, x.2.2)) = id := by funext x; rfl
  rw [hid, List.map_id] at h
  rw [h]

/-- what the model says `get_draw` returns -/
def expected (blk : String → Nat → Nat → Nat) (st : Strm) (ak : String) (req : List Sim) : Except Err (List Draw) :=
  if req.isEmpty then .ok []
  else if st.crnInit then getDrawInit blk st.size (joinKey st.key st.time ak st.seed) req
  else getDraw blk st.size st.pos (joinKey st.key st.time ak st.seed) req

set_option maxHeartbeats 1000000 in
/-- `RandomnessStream.get_draw(index, additional_key)`: the block is identified by the seed string `_key` builds –
decision point, clock, additional key, seed and nothing else – its size is the index map's, an ordinary stream reads it
at the requested simulants' own positions in request order, a CRN-initialising stream reads its first `len(index)`
entries; nothing is remembered between calls (the function has no state to remember it in). -/
theorem getDraw_refines (blk : String → Nat → Nat → Nat) (st : Strm) (ak : String) (req : List Sim) :
    (Gen.Src.streamGetDraw.run (sworld blk st) [("self", .self), ("index", .idx req), ("additional_key", .printable ak)]).toOption
      = (expected blk st ak req).toOption.map SV.series := by
  rw [exc_func]
  simp only [Gen.Src.streamGetDraw]
  rcases st with ⟨key, time, seed, size, pos, crnInit⟩
  -- every case distinction the function can make is decided FIRST; the statements are then run one after the other,
  -- however many there are (so inlining a local or returning early does not change the proof)
  by_cases hreq : req = []
  · subst hreq
    repeat pystepE [sworld, sworldWith, sGetAttr, sGlobal, sPrim, sSub, streamKey_refines, mkSeries]
    simp [expected, Except.toOption]
  · have hne : req.isEmpty = false := by cases req <;> simp_all
    cases crnInit
    · cases hm : List.mapM pos req with
      | none =>
        repeat pystepE [sworld, sworldWith, sGetAttr, sGlobal, sPrim, sSub, streamKey_refines, mkSeries, hne, hm]
        simp [expected, hne, getDraw_eq, hm, Except.toOption]
      | some ps =>
        have hl := mapM_length pos req ps hm
        repeat pystepE [sworld, sworldWith, sGetAttr, sGlobal, sPrim, sSub, streamKey_refines, mkSeries, hne, hm, hl]
        simp [expected, hne, getDraw_eq, hm, Except.toOption]
    · by_cases hle : req.length ≤ size
      · have hmin : min req.length size = req.length := Nat.min_eq_left hle
        repeat pystepE [sworld, sworldWith, sGetAttr, sGlobal, sPrim, sSub, streamKey_refines, mkSeries, hne, hmin]
        simp [expected, hne, getDrawInit, hle, Except.toOption, zip_range_plain]
      · have hmin : min req.length size = size := Nat.min_eq_right (by omega)
        have hne2 : ¬ size = req.length := by omega
        repeat pystepE [sworld, sworldWith, sGetAttr, sGlobal, sPrim, sSub, streamKey_refines, mkSeries, hne, hmin, hne2]
        simp [expected, hne, getDrawInit, hle, Except.toOption]

/-- non-vacuity: three simulants on an ordinary stream with a toy block; simulant 7 sits at position 2 -/
example :
    let st : Strm := ⟨"dp", "5", "42", 10, fun s => if s = 7 then some 2 else if s < 10 then some s else Option.none, false⟩
    (Gen.Src.streamGetDraw.run (sworld (fun _ _ p => 100 + p) st)
        [("self", .self), ("index", .idx [7, 0, 3]), ("additional_key", .printable "x")]).toOption.isSome = true := by
  intro st
  rw [getDraw_refines]
  decide

end Viv.Props.C02Src
