import VivModel.Gen.Tables
import VivModel.Model.Util
import VivModel.Model.IndexMap
import VivModel.Lemmas.IndexMap
/-! C03 — the randomness index is injective, stable and in range.

Everything is proved for EVERY hash function `h : Key → Salt → Nat` with values below the block size,
every block size, every map satisfying the invariant, every batch, every clock time and every fuel
(`update_inv`, `update_stable`, `update_registers_batch`), lifted to EVERY history of batches by
induction (`updates_inv`, `updates_from_empty`), and then instantiated with the concrete `_hash`
arithmetic through `hashPos_lt` (`imap_update_inv`).

Termination of the collision loop is a hypothesis – `update … = .ok m'` – not a theorem: it is false in
general (`collision_loop_may_diverge`; on the real code: a full block, or – practically – block size 7, where two
colliding keys are only separated at salt 90 001; observation F11 of DESIGN.md). -/
namespace Viv.Props.C03
open Viv.IndexMap

/-- the property's invariant of `IndexMap._map`: keys pairwise distinct, positions pairwise distinct
(no two simulants share a position), every position inside the block -/
def Inv (size : Nat) (m : List Entry) : Prop :=
  (m.map (·.key)).Nodup ∧ (m.map (·.pos)).Nodup ∧ ∀ e ∈ m, e.pos < size

theorem inv_nil (size : Nat) : Inv size [] := ⟨List.nodup_nil, List.nodup_nil, by simp⟩

/-- entries whose (key, position) pairs all lie in a mapping with distinct positions, and whose keys are
distinct, have distinct positions -/
theorem pos_nodup_of_mem (res : List KV) (hv : (valsOf res).Nodup) :
    ∀ (es : List Entry), (es.map (·.key)).Nodup → (∀ e ∈ es, (e.key, e.pos) ∈ res) → (es.map (·.pos)).Nodup
  | [], _, _ => List.nodup_nil
  | a :: as, hk, hm => by
    simp only [List.map_cons, List.nodup_cons] at hk ⊢
    refine ⟨?_, pos_nodup_of_mem res hv as hk.2 (fun e he => hm e (List.mem_cons_of_mem _ he))⟩
    intro hin
    simp only [List.mem_map] at hin
    obtain ⟨b, hb, hbp⟩ := hin
    have h1 := hm a List.mem_cons_self
    have h2 := hm b (List.mem_cons_of_mem _ hb)
    rw [hbp] at h2
    have := key_eq_of_val_eq res hv h1 h2
    exact hk.1 (by rw [this]; exact List.mem_map_of_mem (f := (·.key)) hb)

/-- **Injective and in range, one update.** For every hash into `[0, size)`: a successful update of a
map satisfying the invariant yields a map satisfying the invariant. -/
theorem update_inv (h : Key → Salt → Nat) (size fuel : Nat) (hh : ∀ k s, h k s < size)
    (m : List Entry) (batch : List (Int × Key)) (t : Salt) (m' : List Entry)
    (hI : Inv size m) (hu : update h fuel m batch t = .ok m') : Inv size m' := by
  obtain ⟨res, newE, _, hnd, hperm, hrows, ⟨c, hc, hcmem⟩, hvr, _, hmem⟩ :=
    update_ok_spec h fuel m batch t m' hI.2.1 hu
  have hkeys : ((m ++ newE).map (·.key)).Nodup := by
    have : newE.map (·.key) = batch.map (·.2) := by
      rw [← hrows]; simp [rowOf, List.map_map, Function.comp_def]
    rw [List.map_append, this]; exact hnd
  refine ⟨(hperm.map _).nodup_iff.mpr hkeys,
    (hperm.map _).nodup_iff.mpr (pos_nodup_of_mem res hvr _ hkeys hmem), ?_⟩
  intro e he
  have he' := hperm.mem_iff.mp he
  have hin := hmem e he'
  rw [hc] at hin
  rcases List.mem_append.mp hin with hin | hin
  · simp only [List.mem_map] at hin
    obtain ⟨e0, he0, heq⟩ := hin
    have : e0.pos = e.pos := by simpa [kvOf] using congrArg Prod.snd heq
    rw [← this]; exact hI.2.2 e0 he0
  · obtain ⟨_, hp | ⟨s, hp⟩⟩ := hcmem _ hin
    · simp only at hp; rw [hp]; exact hh _ _
    · simp only at hp; rw [hp]; exact hh _ _

/-- **Stable, one update.** Every row of the old map is a row of the new map: a position once assigned
never changes, and the simulant keeps its key. (Needs only distinct old positions.) -/
theorem update_stable (h : Key → Salt → Nat) (fuel : Nat) (m : List Entry) (batch : List (Int × Key))
    (t : Salt) (m' : List Entry) (hpos : (m.map (·.pos)).Nodup) (hu : update h fuel m batch t = .ok m') :
    ∀ e ∈ m, e ∈ m' := by
  obtain ⟨_, newE, _, _, hperm, _⟩ := update_ok_spec h fuel m batch t m' hpos hu
  intro e he
  exact hperm.mem_iff.mpr (List.mem_append_left _ he)

/-- **Every new simulant is registered, nobody else.** The new map has exactly one more row per batch
row; each batch row `(s, k)` got a position. -/
theorem update_registers_batch (h : Key → Salt → Nat) (fuel : Nat) (m : List Entry) (batch : List (Int × Key))
    (t : Salt) (m' : List Entry) (hpos : (m.map (·.pos)).Nodup) (hu : update h fuel m batch t = .ok m') :
    m'.length = m.length + batch.length ∧ (m'.map rowOf).Perm (m.map rowOf ++ batch) ∧
    ∀ r ∈ batch, ∃ p, (⟨r.1, r.2, p⟩ : Entry) ∈ m' := by
  obtain ⟨_, newE, _, _, hperm, hrows, _⟩ := update_ok_spec h fuel m batch t m' hpos hu
  refine ⟨?_, ?_, ?_⟩
  · rw [hperm.length_eq, List.length_append, ← hrows, List.length_map]
  · have := hperm.map rowOf
    rwa [List.map_append, hrows] at this
  · intro r hr
    rw [← hrows] at hr
    simp only [List.mem_map] at hr
    obtain ⟨e, he, rfl⟩ := hr
    exact ⟨e.pos, hperm.mem_iff.mpr (List.mem_append_right _ he)⟩

/-- **All histories.** For every list of registration batches (any sizes, any clock times): if every
update finishes, the final map satisfies the invariant and still contains every row of the map the
history started from. Induction over the history. -/
theorem updates_inv (h : Key → Salt → Nat) (size fuel : Nat) (hh : ∀ k s, h k s < size) :
    ∀ (hist : List (List (Int × Key) × Salt)) (m m' : List Entry),
      Inv size m → updates h fuel m hist = .ok m' → Inv size m' ∧ ∀ e ∈ m, e ∈ m'
  | [], m, m', hI, hu => by
    simp only [updates, Except.ok.injEq] at hu
    subst hu; exact ⟨hI, fun _ he => he⟩
  | (b, t) :: rest, m, m', hI, hu => by
    simp only [updates] at hu
    split at hu
    · rename_i m1 h1
      have hI1 := update_inv h size fuel hh m b t m1 hI h1
      obtain ⟨hI', hst⟩ := updates_inv h size fuel hh rest m1 m' hI1 hu
      exact ⟨hI', fun e he => hst e (update_stable h fuel m b t m1 hI.2.1 h1 e he)⟩
    · cases hu

/-- … in particular from the empty map (`_map is None`), which is how every real map starts. -/
theorem updates_from_empty (h : Key → Salt → Nat) (size fuel : Nat) (hh : ∀ k s, h k s < size)
    (hist : List (List (Int × Key) × Salt)) (m' : List Entry) (hu : updates h fuel [] hist = .ok m') :
    Inv size m' :=
  (updates_inv h size fuel hh hist [] m' (inv_nil size) hu).1

/-- a position assigned at any point of a history is still the simulant's position at the end:
stability across every split of a history into "before" and "after" -/
theorem updates_append_stable (h : Key → Salt → Nat) (size fuel : Nat) (hh : ∀ k s, h k s < size)
    (before after : List (List (Int × Key) × Salt)) (m0 m1 m2 : List Entry) (hI : Inv size m0)
    (h1 : updates h fuel m0 before = .ok m1) (h2 : updates h fuel m1 after = .ok m2) :
    updates h fuel m0 (before ++ after) = .ok m2 ∧ ∀ e ∈ m1, e ∈ m2 := by
  have hI1 := (updates_inv h size fuel hh before m0 m1 hI h1).1
  refine ⟨?_, (updates_inv h size fuel hh after m1 m2 hI1 h2).2⟩
  clear hI hI1
  induction before generalizing m0 with
  | nil => simp only [updates, Except.ok.injEq] at h1; subst h1; simpa using h2
  | cons bt rest ih =>
    obtain ⟨b, t⟩ := bt
    simp only [updates, List.cons_append] at h1 ⊢
    split at h1
    · rename_i mx hx; exact ih mx h1
    · cases h1

/-- **Duplicates are rejected.** If the union of old and new keys contains a key twice, `update` raises
`RandomnessError` – whatever the hash, the fuel, the labels. -/
theorem update_dup_rejected (h : Key → Salt → Nat) (fuel : Nat) (m : List Entry) (batch : List (Int × Key))
    (t : Salt) (hdup : ¬ (m.map (·.key) ++ batch.map (·.2)).Nodup) :
    update h fuel m batch t = .error .randomness := by
  unfold update
  have : nodupB (List.map (fun x => x.2) (m.map rowOf ++ batch)) = false := by
    cases hb : nodupB (List.map (fun x => x.2) (m.map rowOf ++ batch))
    · rfl
    · exfalso; apply hdup
      have := (nodupB_iff _).mp hb
      simpa [rowOf, List.map_append, List.map_map, Function.comp_def] using this
  simp only [this, Bool.not_false, ↓reduceIte]

/-- … and conversely nothing but duplicate-free key sets is ever mapped. -/
theorem update_ok_keys_nodup (h : Key → Salt → Nat) (fuel : Nat) (m : List Entry) (batch : List (Int × Key))
    (t : Salt) (m' : List Entry) (hu : update h fuel m batch t = .ok m') :
    (m.map (·.key) ++ batch.map (·.2)).Nodup := by
  apply Classical.byContradiction
  intro hdup
  rw [update_dup_rejected h fuel m batch t hdup] at hu
  cases hu

/-- **A rejected update leaves the map unchanged** (object level: `IndexMap.update` raising leaves
`_map` as it was – for every error, in particular duplicates). -/
theorem imap_update_error_unchanged (h : Key → Salt → Nat) (fuel : Nat) (im : IMap) (batch : List (Int × Key))
    (t : Salt) (e : Err) (he : (im.update h fuel batch t).2 = .error e) : (im.update h fuel batch t).1 = im := by
  unfold IMap.update at he ⊢
  by_cases hc : (batch.isEmpty || !im.useCrn) = true
  · rw [if_pos hc]
  · rw [if_neg hc] at he ⊢
    cases hx : update h fuel (im.map.getD []) batch t with
    | ok m' => simp [hx] at he
    | error e' => simp

theorem imap_update_dup_rejected (h : Key → Salt → Nat) (fuel : Nat) (im : IMap) (batch : List (Int × Key))
    (t : Salt) (hcrn : im.useCrn = true) (hne : batch ≠ [])
    (hdup : ¬ ((im.map.getD []).map (·.key) ++ batch.map (·.2)).Nodup) :
    im.update h fuel batch t = (im, .error .randomness) := by
  unfold IMap.update
  have : (batch.isEmpty || !im.useCrn) = false := by
    cases batch with
    | nil => exact absurd rfl hne
    | cons _ _ => simp [hcrn]
  simp [this, update_dup_rejected h fuel _ batch t hdup]

/-- the `internal` error of the model (a row without position after collision resolution, which the
real code would turn into a NaN position) cannot occur -/
theorem update_ne_internal (h : Key → Salt → Nat) (fuel : Nat) (m : List Entry) (batch : List (Int × Key))
    (t : Salt) (hpos : (m.map (·.pos)).Nodup) : update h fuel m batch t ≠ .error .internal :=
  update_never_internal h fuel m batch t hpos

/-! ### the concrete hash -/

/-- **In range.** `_hash` ends with Python's `% len(self)`: for a positive block size the position is
below the block size, whatever the int64 arithmetic before it produced (negative values included). -/
theorem hashPos_lt (size : Nat) (key : Key) (salt : Salt) (h : 0 < size) : hashPos size key salt < size := by
  unfold hashPos
  have h1 : (0 : Int) < (size : Int) := by omega
  have := Int.emod_lt_of_pos (hashRaw key salt) h1
  have := Int.emod_nonneg (hashRaw key salt) (Int.ne_of_gt h1)
  omega

/-- numpy's wrap-around keeps every intermediate value inside int64 -/
theorem wrap64_range (x : Int) : -9223372036854775808 ≤ wrap64 x ∧ wrap64 x < 9223372036854775808 := by
  unfold wrap64
  have h1 := Int.emod_nonneg (x + 9223372036854775808) (b := 18446744073709551616) (by decide)
  have h2 := Int.emod_lt_of_pos (x + 9223372036854775808) (b := 18446744073709551616) (by decide)
  omega

/-- `_spread` and `_digit` stay in their ranges: a ten-digit integer, a decimal digit -/
theorem spread_range (m : Int) : 0 ≤ spread m ∧ spread m < tenDigitModulus := by
  unfold spread tenDigitModulus
  exact ⟨Int.emod_nonneg _ (by decide), Int.emod_lt_of_pos _ (by decide)⟩

theorem digit_range (m : Int) (n : Nat) : 0 ≤ digit m n ∧ digit m n < 10 := by
  unfold digit
  exact ⟨Int.emod_nonneg _ (by decide), Int.emod_lt_of_pos _ (by decide)⟩

def IMapInv (im : IMap) : Prop := ∀ m, im.map = some m → Inv im.size m

/-- **The object, with the real hash.** For every `IndexMap` with a positive block size whose `_map`
satisfies the invariant, every call of `update` – accepted, rejected or a no-op – leaves an object whose
`_map` satisfies the invariant and still contains every earlier row; the block size and the CRN flag
never change. -/
theorem imap_update_inv (fuel : Nat) (im im' : IMap) (batch : List (Int × Key)) (t : Salt) (hs : 0 < im.size)
    (hI : IMapInv im) (him' : im' = (im.update (hashPos im.size) fuel batch t).1) :
    IMapInv im' ∧ im'.size = im.size ∧ im'.useCrn = im.useCrn ∧
    ∀ m, im.map = some m → ∃ m', im'.map = some m' ∧ ∀ e ∈ m, e ∈ m' := by
  have key : im' = im ∨ ∃ m', update (hashPos im.size) fuel (im.map.getD []) batch t = .ok m' ∧
      im' = { im with map := some m' } := by
    rw [him']
    unfold IMap.update
    split
    · exact Or.inl rfl
    · split
      · rename_i m' hx; exact Or.inr ⟨m', hx, rfl⟩
      · exact Or.inl rfl
  rcases key with hk | ⟨m', hx, hk⟩
  · rw [hk]; exact ⟨hI, rfl, rfl, fun m hm => ⟨m, hm, fun _ he => he⟩⟩
  · have hold : Inv im.size (im.map.getD []) := by
      cases hm : im.map with
      | none => exact inv_nil _
      | some m => exact hI m hm
    have hI' := update_inv (hashPos im.size) im.size fuel (fun k s => hashPos_lt im.size k s hs) _ batch t m' hold hx
    rw [hk]
    refine ⟨?_, rfl, rfl, ?_⟩
    · intro m hm; simp only [Option.some.injEq] at hm; subst hm; exact hI'
    · intro m hm
      refine ⟨m', rfl, ?_⟩
      have := update_stable (hashPos im.size) fuel _ batch t m' hold.2.1 hx
      rw [hm] at this
      exact this

/-- `__getitem__` after an update: a simulant registered earlier is still looked up at its position
(simulant labels pairwise distinct, as the population manager guarantees) -/
theorem get_stable (h : Key → Salt → Nat) (fuel : Nat) (m : List Entry) (batch : List (Int × Key))
    (t : Salt) (m' : List Entry) (hpos : (m.map (·.pos)).Nodup)
    (hsims : (m.map (·.sim) ++ batch.map (·.1)).Nodup)
    (hu : update h fuel m batch t = .ok m') :
    (m'.map (·.sim)).Nodup ∧ ∀ e ∈ m, posOfSim m' e.sim = some e.pos := by
  have hs' : (m'.map (·.sim)).Nodup := by
    obtain ⟨_, hperm, _⟩ := update_registers_batch h fuel m batch t m' hpos hu
    have := (hperm.map (·.1))
    simp only [List.map_map, List.map_append] at this
    have h2 : (List.map (Prod.fst ∘ rowOf) m') = m'.map (·.sim) := by
      apply List.map_congr_left; intro e _; rfl
    have h3 : (List.map (Prod.fst ∘ rowOf) m) = m.map (·.sim) := by
      apply List.map_congr_left; intro e _; rfl
    rw [h2, h3] at this
    exact this.nodup_iff.mpr hsims
  exact ⟨hs', fun e he => posOfSim_of_mem m' hs' e (update_stable h fuel m batch t m' hpos hu e he)⟩

/-! ### termination is a hypothesis, and has to be -/

/-- If the hash ignores the salt on a colliding key (on the real code: the salt shift
`ncols · _spread(salt)` vanishes modulo the block size – e.g. size 7, for every salt below 90 001, the first one for
which `_spread` wraps 10^10; or the block is full) and the key's position is taken, the collision loop never
finishes: for EVERY fuel the model runs out of fuel. -/
theorem collision_loop_may_diverge (h : Key → Salt → Nat) (k : Key) (p : Nat)
    (hblind : ∀ s, h k (.int s) = p) :
    ∀ (fuel salt : Nat) (cur : List KV), p ∈ valsOf cur → k ∉ keysOf cur → (valsOf cur).Nodup →
      resolveLoop h fuel salt [k] cur = none := by
  intro fuel
  induction fuel with
  | zero => intros; rfl
  | succ f ih =>
    intro salt cur hp hk hv
    unfold resolveLoop
    simp only [List.isEmpty_cons, Bool.false_eq_true, ↓reduceIte, List.map_cons, List.map_nil, hblind]
    have hdd : dropDup (cur ++ [(k, p)]) = cur := by
      rw [dropDup_append_eq cur _ hv]
      simp [dropDup, hp]
    rw [hdd]
    have hdiff : diff (keysOf [(k, p)]) (keysOf cur) = [k] := by
      have hk' : k ∉ List.map (fun x : KV => x.1) cur := hk
      simp [diff, keysOf, sortKeys, List.filter, hk', uniq, isort, insertBy]
    rw [hdiff]
    exact ih (salt + 1) cur hp hk hv

/-! ### non-vacuity: the hypotheses are inhabited by concrete maps and the real hash -/

-- block size 5, keys 0, 1, 5: the first two hash to 1 and 0, the third collides and is re-hashed to 2
example : update (hashPos 5) 10 [] [(0, [.int 0]), (1, [.int 1]), (2, [.int 5])] (.int 0) =
    .ok [⟨0, [.int 0], 1⟩, ⟨1, [.int 1], 0⟩, ⟨2, [.int 5], 2⟩] := by decide
example : Inv 5 [⟨0, [.int 0], 1⟩, ⟨1, [.int 1], 0⟩, ⟨2, [.int 5], 2⟩] := by
  refine ⟨by decide, by decide, by decide⟩
-- a later batch (relabelled, two columns are fine too) keeps the earlier rows
example : update (hashPos 5) 10 [⟨0, [.int 0], 1⟩, ⟨1, [.int 1], 0⟩] [(7, [.int 5])] (.int 3) =
    .ok [⟨0, [.int 0], 1⟩, ⟨1, [.int 1], 0⟩, ⟨7, [.int 5], 4⟩] := by decide
-- duplicate key (inside the batch / with the old map) is rejected
example : update (hashPos 5) 10 [⟨0, [.int 0], 1⟩] [(1, [.int 0])] (.int 3) = .error .randomness := by decide
example : update (hashPos 5) 10 [] [(0, [.int 4]), (1, [.int 4])] (.int 3) = .error .randomness := by decide
-- block size 7 divides 111111: keys 1 and 2 collide and the salt never separates them
example : update (hashPos 7) 50 [] [(0, [.int 1]), (1, [.int 2])] (.int 0) = .error .fuel := by decide

/-- the hash constants of the model are those of the working tree's randomness/index_map.py (regenerated on every
run): the ten-digit modulus, the `primes` list of `_hash` (whose last entry really is 27) and the `_spread` multiplier -/
theorem gen_index_map_constants :
    Viv.IndexMap.tenDigitModulus = Viv.Gen.indexMapTenDigitModulus ∧ Viv.IndexMap.primes = Viv.Gen.indexMapPrimes ∧
    Viv.IndexMap.spreadMul = Viv.Gen.indexMapSpreadMul := by decide

end Viv.Props.C03
