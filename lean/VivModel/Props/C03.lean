import VivModel.Model.IndexMap
namespace Viv.Props.C03
open Viv.IndexMap

theorem hashPos_lt (size : Nat) (key : Key) (salt : Salt) (h : 0 < size) : hashPos size key salt < size := by
  unfold hashPos
  have h1 : (0 : Int) < (size : Int) := by omega
  have := Int.emod_lt_of_pos (hashRaw key salt) h1
  have := Int.emod_nonneg (hashRaw key salt) (Int.ne_of_gt h1)
  omega

end Viv.Props.C03
