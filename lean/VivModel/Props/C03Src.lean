import VivModel.Model.IndexMap
import VivModel.Gen.Src
import VivModel.Lemmas.PyAst
import VivModel.Lemmas.PyState

/-!
# C03 — source tie: `IndexMap.update` as written evaluates to the model's `IMap.update`

`Gen.Src.indexMapUpdate` is the syntax tree of `IndexMap.update` in /repo's working tree (regenerated on every run by
`vcheck/py2lean.py`). `update_refines` evaluates that tree under a world whose primitives are the model's own pieces
(`nodupB`, `buildFinal` = the collision loop `_build_final_mapping`, `attach` = reindex + index replacement + sort) and shows,
for every hash function, fuel, salt, stored map and batch, that the outcome — the stored map after the call and whether the
call raised — is the model's `IMap.update`. The *order* in which the source does things is therefore checked: empty-batch
short-circuit, old ++ new concatenation, the uniqueness test and its `RandomnessError`, the build, the reindex, the write to
`self._map` last (a raise anywhere leaves the stored map as it was).

Modelled rather than verified here: the primitives themselves (their tie to pandas is the C03 correspondence check), and
`final_mapping.index = …` as an in-place mutation read back by `sort_index` (the `pending` component of the state).
-/
namespace Viv.Props.C03Src
open Viv.Py Viv.IndexMap

inductive KFn where
  | parse | droplevel (rows : List (Int × Key)) | len | unique (ks : List Key) | build
  | reindex (final : List KV) | sortIndex (final : List KV) (ks : List Key)

/-- the Python objects `IndexMap.update` touches -/
inductive KW where
  | none | bool (b : Bool) | int (i : Int) | str (s : String)
  | self | clockT
  /-- the frame of new keys: (simulant, key) rows in frame order -/
  | frame (batch : List (Int × Key))
  | newIdx (batch : List (Int × Key))
  /-- the (simulant, key) index of old map ++ new rows -/
  | finalIdx (rows : List (Int × Key))
  | keysV (ks : List Key)
  /-- a key → position mapping (a Series indexed by key) -/
  | kvs (final : List KV)
  /-- that mapping reindexed by the keys of every row; its `.index` is about to be replaced by the row index -/
  | reindexed (final : List KV) (ks : List Key)
  | entries (es : List Entry)
  | fn (f : KFn)
  | list (vs : List KW)

/-- state: the map object, and the index assigned to the freshly reindexed Series (`final_mapping.index = …` mutates that
local object in place; it is read back by the `sort_index` that follows) -/
structure St where
  im : IMap
  pending : Option (List (Int × Key)) := Option.none

abbrev M := SM St

def kGetAttr : KW → String → M KW
  | .self, a =>
    if a == "_use_crn" then do let s ← (get : M St); pure (.bool s.im.useCrn)
    else if a == "_parse_new_keys" then pure (.fn .parse)
    else if a == "_build_final_mapping" then pure (.fn .build)
    else throw "AttributeError"
  | .frame batch, a => if a == "empty" then pure (.bool batch.isEmpty) else throw "AttributeError"
  | .finalIdx rows, a => if a == "droplevel" then pure (.fn (.droplevel rows)) else throw "AttributeError"
  | .keysV ks, a => if a == "unique" then pure (.fn (.unique ks)) else throw "AttributeError"
  | .kvs final, a => if a == "reindex" then pure (.fn (.reindex final)) else throw "AttributeError"
  | .reindexed final ks, a => if a == "sort_index" then pure (.fn (.sortIndex final ks)) else throw "AttributeError"
  | _, _ => throw "AttributeError"

def kSetAttr : KW → String → KW → M Unit
  | .reindexed _ _, a, .finalIdx rows => if a == "index" then modify fun s => { s with pending := some rows } else throw "AttributeError"
  | .self, a, .entries es => if a == "_map" then modify fun s => { s with im := { s.im with map := some es } } else throw "AttributeError"
  | _, _, _ => throw "AttributeError"

def kPrim (h : Key → Salt → Nat) (fuel : Nat) (t : Salt) : KFn → List KW → List (String × KW) → M KW
  | .parse, [.frame batch], [] => do
    let s ← (get : M St)
    pure (.list [.newIdx batch, .finalIdx ((s.im.map.getD []).map rowOf ++ batch)])
  | .droplevel rows, [.int 0], [] => pure (.keysV (rows.map (·.2)))
  | .len, [.keysV ks], [] => pure (.int ks.length)
  | .unique ks, [], [] => pure (.keysV (uniq ks))
  | .build, [.newIdx batch, .clockT], [] => do
    let s ← (get : M St)
    match buildFinal h fuel (s.im.map.getD []) batch t with
    | some final => pure (.kvs final)
    | Option.none => throw "CollisionLoopFuel"
  | .reindex final, [.keysV ks], [] => pure (.reindexed final ks)
  | .sortIndex final _, [], [(_, .int 0)] => do
    let s ← (get : M St)
    match s.pending with
    | some rows => match attach final rows with
      | some es => pure (.entries (sortEntries es))
      | Option.none => throw "KeyError"
    | Option.none => throw "AttributeError"
  | _, _, _ => throw "TypeError"

def kworld (h : Key → Salt → Nat) (fuel : Nat) (t : Salt) : World M KW where
  none := .none
  bool := .bool
  int := .int
  str := .str
  list := .list
  newList vs := pure (.list vs)
  tuple := .list
  global n := if n == "len" then pure (.fn .len) else throw "NameError"
  truthy
    | .none => pure false
    | .bool b => pure b
    | _ => pure true
  getAttr := kGetAttr
  setAttr := kSetAttr
  call f args kws := match f with
    | .fn g => kPrim h fuel t g args kws
    | _ => throw "TypeError"
  cmp op l r := match l, r with
    | .int a, .int b => if op == "NotEq" then pure (.bool (a != b)) else if op == "Eq" then pure (.bool (a == b)) else throw "TypeError"
    | _, _ => throw "TypeError"
  bin _ _ _ := throw "TypeError"
  neg _ := throw "TypeError"
  sub _ _ := throw "TypeError"
  slice _ _ := .none
  setItem _ _ _ := throw "TypeError"
  iter
    | .list vs => pure vs
    | _ => throw "TypeError"
  unstar _ := throw "TypeError"
  format _ := throw "TypeError"
  concat _ := throw "TypeError"
  dict _ := throw "TypeError"
  whileLoop _ _ _ := throw "Unsupported"
  other _ := throw "Unsupported"
  throw cls := throw cls
  rethrow := throw "reraise"
  catchAll body handler := tryCatch body (fun _ => handler)
  catchCls cls body handler := tryCatch body (fun e => if e == cls then handler else throw e)

theorem mem_uniq (x : Key) : ∀ (ks : List Key), x ∈ uniq ks ↔ x ∈ ks
  | [] => by simp [uniq]
  | k :: ks => by
    simp only [uniq, List.mem_cons, List.mem_filter, mem_uniq x ks]
    by_cases hx : x = k
    · simp [hx]
    · simp [hx]

theorem uniq_length_le : ∀ (ks : List Key), (uniq ks).length ≤ ks.length
  | [] => by simp [uniq]
  | k :: ks => by
    simp only [uniq, List.length_cons]
    have := List.length_filter_le (fun x => x != k) (uniq ks)
    have := uniq_length_le ks
    omega

/-- `len(keys) == len(keys.unique())` is the model's "no duplicates" test -/
theorem uniq_length_eq_iff : ∀ (ks : List Key), (uniq ks).length = ks.length ↔ nodupB ks = true
  | [] => by simp [uniq, nodupB]
  | k :: ks => by
    have ih := uniq_length_eq_iff ks
    have hle := uniq_length_le ks
    have hfl := List.length_filter_le (fun x => x != k) (uniq ks)
    simp only [uniq, nodupB, List.length_cons, Bool.and_eq_true, Bool.not_eq_true']
    by_cases hk : k ∈ ks
    · have hku : k ∈ uniq ks := (mem_uniq k ks).mpr hk
      have hlt : ((uniq ks).filter (fun x => x != k)).length < (uniq ks).length :=
        List.length_filter_lt_length_iff_exists.mpr ⟨k, hku, by simp⟩
      have hc : ks.contains k = true := by simpa using hk
      constructor
      · intro h; omega
      · intro h; exact absurd hk (by simpa using h.1)
    · have hku : k ∉ uniq ks := fun h => hk ((mem_uniq k ks).mp h)
      have hf : (uniq ks).filter (fun x => x != k) = uniq ks := by
        apply List.filter_eq_self.mpr
        intro a ha
        have : a ≠ k := fun h => hku (h ▸ ha)
        simpa using this
      have hc : ks.contains k = false := by simpa using hk
      rw [hf]
      constructor
      · intro h; exact ⟨by simpa using hk, ih.mp (by omega)⟩
      · intro h; have := ih.mpr h.2; omega


/-- the `!=` of the two lengths, as the world evaluates it -/
theorem len_ne (ks : List Key) : (((ks.length : Int) != ((uniq ks).length : Int)) = !nodupB ks) := by
  by_cases h : nodupB ks = true
  · have := (uniq_length_eq_iff ks).mpr h
    simp [h, this]
  · have hne : ¬ (uniq ks).length = ks.length := fun e => h ((uniq_length_eq_iff ks).mp e)
    have : ¬ ((ks.length : Int) = ((uniq ks).length : Int)) := by omega
    simp [h, this]

/-- what a run leaves, in the model's vocabulary: the map object and whether the call succeeded -/
def outcome (r : Except String KW × St) : IMap × Bool := (r.2.im, r.1.toBool)

/-- `IndexMap.update(new_keys, clock_time)`: the model's `IMap.update` - nothing happens for an empty frame or without key
columns; duplicate keys (among old and new rows together) are refused BEFORE anything is computed; the final mapping is
built from the old map and the new keys' hashes by collision resolution, re-attached to every (simulant, key) row and
sorted; `_map` is assigned LAST, so a refused or failed registration leaves the map exactly as it was. -/
theorem update_refines (h : Key → Salt → Nat) (fuel : Nat) (t : Salt) (im : IMap) (batch : List (Int × Key)) :
    outcome (runM (Gen.Src.indexMapUpdate.run (kworld h fuel t) [("self", .self), ("new_keys", .frame batch), ("clock_time", .clockT)])
        ⟨im, Option.none⟩)
      = ((im.update h fuel batch t).1, (im.update h fuel batch t).2.toBool) := by
  rw [runM_func]
  simp only [Gen.Src.indexMapUpdate]
  rcases im with ⟨useCrn, size, map⟩
  by_cases hb : batch.isEmpty = true
  · repeat pystep [kworld, kGetAttr, kSetAttr, kPrim, hb]
    simp [IMap.update, hb, outcome, Except.toBool]
  · cases useCrn
    · repeat pystep [kworld, kGetAttr, kSetAttr, kPrim, hb]
      simp [IMap.update, hb, outcome, Except.toBool]
    · have hb' : batch.isEmpty = false := by simpa using hb
      -- the keys of old rows ++ new rows, in the normal form `simp` gives them
      have hks : (List.map rowOf (map.getD []) ++ batch).map (·.2)
          = List.map ((fun x => x.snd) ∘ rowOf) (map.getD []) ++ List.map (fun x => x.snd) batch := by simp
      have hiff := uniq_length_eq_iff (List.map ((fun x => x.snd) ∘ rowOf) (map.getD []) ++ List.map (fun x => x.snd) batch)
      have hlen : (List.map ((fun x => x.snd) ∘ rowOf) (map.getD []) ++ List.map (fun x => x.snd) batch).length
          = (map.getD []).length + batch.length := by simp
      cases hn : nodupB (List.map ((fun x => x.snd) ∘ rowOf) (map.getD []) ++ List.map (fun x => x.snd) batch)
      · have hne : ¬ ((↑(map.getD []).length + ↑batch.length : Int)
            = ↑(uniq (List.map ((fun x => x.snd) ∘ rowOf) (map.getD []) ++ List.map (fun x => x.snd) batch)).length) := by
          intro e
          have : (uniq (List.map ((fun x => x.snd) ∘ rowOf) (map.getD []) ++ List.map (fun x => x.snd) batch)).length
              = (List.map ((fun x => x.snd) ∘ rowOf) (map.getD []) ++ List.map (fun x => x.snd) batch).length := by omega
          have := hiff.mp this
          simp [hn] at this
        repeat pystep [kworld, kGetAttr, kSetAttr, kPrim, hb', hne]
        simp [IMap.update, Viv.IndexMap.update, hb', hks, hn, outcome, Except.toBool]
      · have heq : ((↑(map.getD []).length + ↑batch.length : Int)
            = ↑(uniq (List.map ((fun x => x.snd) ∘ rowOf) (map.getD []) ++ List.map (fun x => x.snd) batch)).length) := by
          have := hiff.mpr hn
          omega
        cases hf : buildFinal h fuel (map.getD []) batch t with
        | none =>
          repeat pystep [kworld, kGetAttr, kSetAttr, kPrim, hb', heq, hf]
          simp [IMap.update, Viv.IndexMap.update, hb', hks, hn, hf, outcome, Except.toBool]
        | some final =>
          cases ha : attach final (List.map rowOf (map.getD []) ++ batch) with
          | none =>
            repeat pystep [kworld, kGetAttr, kSetAttr, kPrim, hb', heq, hf, ha]
            simp [IMap.update, Viv.IndexMap.update, hb', hks, hn, hf, ha, outcome, Except.toBool]
          | some es =>
            repeat pystep [kworld, kGetAttr, kSetAttr, kPrim, hb', heq, hf, ha]
            simp [IMap.update, Viv.IndexMap.update, hb', hks, hn, hf, ha, outcome, Except.toBool]
end Viv.Props.C03Src
