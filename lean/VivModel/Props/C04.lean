import VivModel.Model.Util
import VivModel.Model.IndexMap
import VivModel.Lemmas.IndexMap
import VivModel.Props.C03
/-! C04 — same identity, same randomness across scenarios.

The position a key receives is stated without any reference to simulant labels, to the order of the
batch, or to the other simulants (`noncolliding_keeps_hash`): that *is* the property, with its permitted
exception – the first hashed position coincides with that of a simulant registered with or before it –
as the hypothesis. `crn_pair` puts two arbitrary simulations side by side; `update_relabel` and
`update_batch_perm_noncolliding` are the invariance statements for index labels and batch order.
All theorems hold for every hash function `h`, every block size, every fuel; termination of the
collision loop is the hypothesis `update … = .ok m'` (see Props/C03.lean). -/
namespace Viv.Props.C04
open Viv.IndexMap

/-- keys of a successfully updated map are pairwise distinct -/
theorem update_keys_nodup (h : Key → Salt → Nat) (fuel : Nat) (m : List Entry) (batch : List (Int × Key))
    (t : Salt) (m' : List Entry) (hpos : (m.map (·.pos)).Nodup) (hu : update h fuel m batch t = .ok m') :
    (m'.map (·.key)).Nodup := by
  obtain ⟨_, newE, _, hnd, hperm, hrows, _⟩ := update_ok_spec h fuel m batch t m' hpos hu
  have : newE.map (·.key) = batch.map (·.2) := by
    rw [← hrows]; simp [rowOf, List.map_map, Function.comp_def]
  refine (hperm.map _).nodup_iff.mpr ?_
  rw [List.map_append, this]; exact hnd

/-- **First claim wins** (strongest form, order-aware): a new key whose first hashed position
`h k t` is used neither by the old map nor by a key *earlier in the same batch* keeps exactly that
position. -/
theorem first_claim_keeps_hash (h : Key → Salt → Nat) (fuel : Nat) (m : List Entry)
    (pre post : List (Int × Key)) (s : Int) (k : Key) (t : Salt) (m' : List Entry)
    (hpos : (m.map (·.pos)).Nodup)
    (hold : h k t ∉ m.map (·.pos))
    (hpre : ∀ r ∈ pre, h r.2 t ≠ h k t)
    (hu : update h fuel m (pre ++ (s, k) :: post) t = .ok m') :
    (⟨s, k, h k t⟩ : Entry) ∈ m' := by
  obtain ⟨res, newE, hbf, _, hperm, hrows, _, _, hkr, hmem⟩ :=
    update_ok_spec h fuel m _ t m' hpos hu
  -- (k, h k t) survives the first drop_duplicates, hence is in the final key-indexed mapping
  have hin : (k, h k t) ∈ res := by
    unfold buildFinal at hbf
    simp only at hbf
    apply resolve_keeps_first h fuel _ _ res hbf
    have : m.map kvOf ++ ((pre ++ (s, k) :: post).map (·.2)).map (fun k => (k, h k t)) =
        (m.map kvOf ++ (pre.map (·.2)).map (fun k => (k, h k t))) ++
          (k, h k t) :: (post.map (·.2)).map (fun k => (k, h k t)) := by
      simp [List.map_append, List.append_assoc]
    rw [this]
    apply mem_dropDup_of_fresh
    simp only [valsOf_append, List.mem_append, not_or]
    refine ⟨by rw [valsOf_kvOf]; exact hold, ?_⟩
    intro hc
    simp only [valsOf, List.map_map, List.mem_map, Function.comp] at hc
    obtain ⟨r, hr, heq⟩ := hc
    exact hpre r hr heq
  -- the row of (s, k) carries the position the mapping holds for k
  have hrow : (s, k) ∈ newE.map rowOf := by rw [hrows]; simp
  simp only [List.mem_map] at hrow
  obtain ⟨e, he, her⟩ := hrow
  have hes : e.sim = s ∧ e.key = k := by simpa [rowOf] using her
  have h1 := hmem e (List.mem_append_right _ he)
  have h2 := lookup_of_mem res hkr h1
  rw [hes.2, lookup_of_mem res hkr hin] at h2
  have : e = ⟨s, k, h k t⟩ := by
    cases e; simp_all
  rw [← this]
  exact hperm.mem_iff.mpr (List.mem_append_right _ he)

/-- **The property.** If `update` succeeds, `(s, k)` is a row of the batch, the first hashed position
`p₀ = h k t` of `k` is not a position of the old map and no other key of the batch hashes to `p₀`,
then `k` is registered at `p₀` – whatever the simulant labels, the order of the batch and the other
members of batch and map are. -/
theorem noncolliding_keeps_hash (h : Key → Salt → Nat) (fuel : Nat) (m : List Entry)
    (batch : List (Int × Key)) (s : Int) (k : Key) (t : Salt) (m' : List Entry)
    (hpos : (m.map (·.pos)).Nodup)
    (hin : (s, k) ∈ batch)
    (hold : h k t ∉ m.map (·.pos))
    (hbatch : ∀ r ∈ batch, r.2 ≠ k → h r.2 t ≠ h k t)
    (hu : update h fuel m batch t = .ok m') :
    (⟨s, k, h k t⟩ : Entry) ∈ m' := by
  obtain ⟨pre, post, rfl⟩ := List.append_of_mem hin
  have hnd := Viv.IndexMap.update_ok_spec h fuel m _ t m' hpos hu
  obtain ⟨_, _, _, hnd, _⟩ := hnd
  apply first_claim_keeps_hash h fuel m pre post s k t m' hpos hold _ hu
  intro r hr
  apply hbatch r (List.mem_append_left _ hr)
  -- keys are pairwise distinct, so a row before (s, k) has another key
  intro heq
  have h2 := (List.nodup_append.mp hnd).2.1
  simp only [List.map_append, List.map_cons] at h2
  have h3 := (List.nodup_append.mp h2).2.2 r.2 (List.mem_map_of_mem (f := (·.2)) hr) k List.mem_cons_self
  exact h3 heq

/-- **Two simulations.** Two arbitrary maps (any earlier histories), two arbitrary batches (any labels,
any order, any other members) that both register key `k` at clock time `t`, with the same hash (same
seed, same block size): if in both the first hashed position of `k` is free and unshared, `k` is
registered at the same position in both – and looking the key up returns that position. -/
theorem crn_pair (h : Key → Salt → Nat) (fuel₁ fuel₂ : Nat) (m₁ m₂ : List Entry)
    (b₁ b₂ : List (Int × Key)) (s₁ s₂ : Int) (k : Key) (t : Salt) (m₁' m₂' : List Entry)
    (hpos₁ : (m₁.map (·.pos)).Nodup) (hpos₂ : (m₂.map (·.pos)).Nodup)
    (hin₁ : (s₁, k) ∈ b₁) (hin₂ : (s₂, k) ∈ b₂)
    (hold₁ : h k t ∉ m₁.map (·.pos)) (hold₂ : h k t ∉ m₂.map (·.pos))
    (hb₁ : ∀ r ∈ b₁, r.2 ≠ k → h r.2 t ≠ h k t) (hb₂ : ∀ r ∈ b₂, r.2 ≠ k → h r.2 t ≠ h k t)
    (hu₁ : update h fuel₁ m₁ b₁ t = .ok m₁') (hu₂ : update h fuel₂ m₂ b₂ t = .ok m₂') :
    ∃ p, (⟨s₁, k, p⟩ : Entry) ∈ m₁' ∧ (⟨s₂, k, p⟩ : Entry) ∈ m₂' ∧
      posOfKey m₁' k = some p ∧ posOfKey m₂' k = some p := by
  have e1 := noncolliding_keeps_hash h fuel₁ m₁ b₁ s₁ k t m₁' hpos₁ hin₁ hold₁ hb₁ hu₁
  have e2 := noncolliding_keeps_hash h fuel₂ m₂ b₂ s₂ k t m₂' hpos₂ hin₂ hold₂ hb₂ hu₂
  exact ⟨h k t, e1, e2,
    posOfKey_of_mem m₁' (update_keys_nodup h fuel₁ m₁ b₁ t m₁' hpos₁ hu₁) _ e1,
    posOfKey_of_mem m₂' (update_keys_nodup h fuel₂ m₂ b₂ t m₂' hpos₂ hu₂) _ e2⟩

/-- … and through `__getitem__` (simulant labels pairwise distinct in each simulation): the two
simulants, whatever their labels, read the same position of the random block. With the pointwise
definition of `get_draw` (C02) they therefore receive the same draws at every decision point. -/
theorem crn_pair_get (h : Key → Salt → Nat) (fuel₁ fuel₂ : Nat) (m₁ m₂ : List Entry)
    (b₁ b₂ : List (Int × Key)) (s₁ s₂ : Int) (k : Key) (t : Salt) (m₁' m₂' : List Entry)
    (hpos₁ : (m₁.map (·.pos)).Nodup) (hpos₂ : (m₂.map (·.pos)).Nodup)
    (hin₁ : (s₁, k) ∈ b₁) (hin₂ : (s₂, k) ∈ b₂)
    (hold₁ : h k t ∉ m₁.map (·.pos)) (hold₂ : h k t ∉ m₂.map (·.pos))
    (hb₁ : ∀ r ∈ b₁, r.2 ≠ k → h r.2 t ≠ h k t) (hb₂ : ∀ r ∈ b₂, r.2 ≠ k → h r.2 t ≠ h k t)
    (hsim₁ : (m₁'.map (·.sim)).Nodup) (hsim₂ : (m₂'.map (·.sim)).Nodup)
    (hu₁ : update h fuel₁ m₁ b₁ t = .ok m₁') (hu₂ : update h fuel₂ m₂ b₂ t = .ok m₂') :
    getAll m₁' [s₁] = getAll m₂' [s₂] ∧ getAll m₁' [s₁] = .ok [(h k t : Int)] := by
  have e1 := noncolliding_keeps_hash h fuel₁ m₁ b₁ s₁ k t m₁' hpos₁ hin₁ hold₁ hb₁ hu₁
  have e2 := noncolliding_keeps_hash h fuel₂ m₂ b₂ s₂ k t m₂' hpos₂ hin₂ hold₂ hb₂ hu₂
  have p1 : posOfSim m₁' s₁ = some (h k t) := by
    have := posOfSim_of_mem m₁' hsim₁ _ e1; simpa using this
  have p2 : posOfSim m₂' s₂ = some (h k t) := by
    have := posOfSim_of_mem m₂' hsim₂ _ e2; simpa using this
  simp [getAll, p1, p2]

/-- **Two whole simulations.** As `crn_pair`, with arbitrary earlier histories (the maps `m₁`, `m₂` are the
results of any histories from the empty map) and arbitrary later histories: at the end of both simulations
the key is still found at the same position. -/
theorem crn_pair_histories (h : Key → Salt → Nat) (size fuel : Nat) (hh : ∀ k s, h k s < size)
    (before₁ before₂ later₁ later₂ : List (List (Int × Key) × Salt))
    (m₁ m₂ : List Entry) (b₁ b₂ : List (Int × Key)) (s₁ s₂ : Int) (k : Key) (t : Salt)
    (m₁' m₂' f₁ f₂ : List Entry)
    (hb₁ : updates h fuel [] before₁ = .ok m₁) (hb₂ : updates h fuel [] before₂ = .ok m₂)
    (hin₁ : (s₁, k) ∈ b₁) (hin₂ : (s₂, k) ∈ b₂)
    (hold₁ : h k t ∉ m₁.map (·.pos)) (hold₂ : h k t ∉ m₂.map (·.pos))
    (hc₁ : ∀ r ∈ b₁, r.2 ≠ k → h r.2 t ≠ h k t) (hc₂ : ∀ r ∈ b₂, r.2 ≠ k → h r.2 t ≠ h k t)
    (hu₁ : update h fuel m₁ b₁ t = .ok m₁') (hu₂ : update h fuel m₂ b₂ t = .ok m₂')
    (hl₁ : updates h fuel m₁' later₁ = .ok f₁) (hl₂ : updates h fuel m₂' later₂ = .ok f₂) :
    posOfKey f₁ k = some (h k t) ∧ posOfKey f₂ k = some (h k t) := by
  have hI₁ := C03.updates_from_empty h size fuel hh before₁ m₁ hb₁
  have hI₂ := C03.updates_from_empty h size fuel hh before₂ m₂ hb₂
  have e₁ := noncolliding_keeps_hash h fuel m₁ b₁ s₁ k t m₁' hI₁.2.1 hin₁ hold₁ hc₁ hu₁
  have e₂ := noncolliding_keeps_hash h fuel m₂ b₂ s₂ k t m₂' hI₂.2.1 hin₂ hold₂ hc₂ hu₂
  have hI₁' := C03.update_inv h size fuel hh m₁ b₁ t m₁' hI₁ hu₁
  have hI₂' := C03.update_inv h size fuel hh m₂ b₂ t m₂' hI₂ hu₂
  obtain ⟨hF₁, hs₁⟩ := C03.updates_inv h size fuel hh later₁ m₁' f₁ hI₁' hl₁
  obtain ⟨hF₂, hs₂⟩ := C03.updates_inv h size fuel hh later₂ m₂' f₂ hI₂' hl₂
  exact ⟨posOfKey_of_mem f₁ hF₁.1 _ (hs₁ _ e₁), posOfKey_of_mem f₂ hF₂.1 _ (hs₂ _ e₂)⟩
/-! ### index labels -/

def relabel (f : Int → Int) (e : Entry) : Entry := { e with sim := f e.sim }
def relabelRow (f : Int → Int) (r : Int × Key) : Int × Key := (f r.1, r.2)

theorem kvOf_relabel (f : Int → Int) (m : List Entry) : (m.map (relabel f)).map kvOf = m.map kvOf := by
  simp [List.map_map, Function.comp_def, relabel, kvOf]

/-- **Relabelling commutes with `update`.** Give every simulant another state-table index (any function
`f` – the order of the labels may change, so the relabelled old map `m₂` is any rearrangement of the
relabelled rows, e.g. the one sorted by the new labels): the update succeeds iff it succeeded before,
with the same error otherwise, and the new map is the relabelled new map, up to the order of rows.
Positions never depend on labels. -/
theorem update_relabel (h : Key → Salt → Nat) (fuel : Nat) (f : Int → Int) (m m₂ : List Entry)
    (batch : List (Int × Key)) (t : Salt) (hpos : (m.map (·.pos)).Nodup)
    (hperm : m₂.Perm (m.map (relabel f))) :
    (∀ m', update h fuel m batch t = .ok m' →
      ∃ m₂', update h fuel m₂ (batch.map (relabelRow f)) t = .ok m₂' ∧ m₂'.Perm (m'.map (relabel f))) ∧
    (∀ e, update h fuel m batch t = .error e → update h fuel m₂ (batch.map (relabelRow f)) t = .error e) := by
  have hkv : (m₂.map kvOf).Perm (m.map kvOf) := by
    have := hperm.map kvOf; rwa [kvOf_relabel] at this
  have hkeys₂ : (m₂.map rowOf ++ batch.map (relabelRow f)).map (·.2) =
      m₂.map (·.key) ++ batch.map (·.2) := by
    simp [rowOf, relabelRow, List.map_map, Function.comp_def]
  have hkeys : (m.map rowOf ++ batch).map (·.2) = m.map (·.key) ++ batch.map (·.2) := by
    simp [rowOf, List.map_map, Function.comp_def]
  have hkperm : (m₂.map (·.key) ++ batch.map (·.2)).Perm (m.map (·.key) ++ batch.map (·.2)) := by
    apply List.Perm.append_right
    have := hkv.map (·.1)
    simpa [kvOf, List.map_map, Function.comp_def] using this
  have hpos₂ : (m₂.map (·.pos)).Nodup := by
    have := hkv.map (·.2)
    have h2 : (m₂.map (·.pos)).Perm (m.map (·.pos)) := by
      simpa [kvOf, List.map_map, Function.comp_def] using this
    exact h2.nodup_iff.mpr hpos
  have hbk : (batch.map (relabelRow f)).map (·.2) = batch.map (·.2) := by
    simp [relabelRow, List.map_map, Function.comp_def]
  -- the key-indexed mappings built by the two updates extend the two old maps by the same entries
  have hbuild : ∀ (a a' : List Entry) (bt bt' : List (Int × Key)), (a'.map kvOf).Perm (a.map kvOf) →
      (a.map (·.pos)).Nodup → bt'.map (·.2) = bt.map (·.2) →
      ∀ res, buildFinal h fuel a bt t = some res →
        ∃ r, res = a.map kvOf ++ r ∧ buildFinal h fuel a' bt' t = some (a'.map kvOf ++ r) := by
    intro a a' bt bt' hp hv hb res hres
    unfold buildFinal at hres ⊢
    simp only at hres ⊢
    obtain ⟨r, hr⟩ := resolve_prefix h fuel _ _ _ res (by rw [valsOf_kvOf]; exact hv) hres
    refine ⟨r, hr, ?_⟩
    rw [hb]
    exact resolve_congr h fuel _ _ _ _ r hp (by rw [valsOf_kvOf]; exact hv) (hr ▸ hres)
  constructor
  · intro m' hu
    obtain ⟨res, newE, hbf, hnd, hpm, hrows, _, _, hkr, hmem⟩ := update_ok_spec h fuel m batch t m' hpos hu
    obtain ⟨r, hr, hbf₂⟩ := hbuild m m₂ batch (batch.map (relabelRow f)) hkv hpos hbk res hbf
    have hres₂perm : (m₂.map kvOf ++ r).Perm res := by rw [hr]; exact hkv.append_right r
    have hkp : (keysOf (m₂.map kvOf ++ r)).Perm (keysOf res) := hres₂perm.map _
    have hkr₂ : (keysOf (m₂.map kvOf ++ r)).Nodup := hkp.nodup_iff.mpr hkr
    -- the rows the second update attaches
    have hat : attach (m₂.map kvOf ++ r) (m₂.map rowOf ++ batch.map (relabelRow f)) =
        some (m₂ ++ newE.map (relabel f)) := by
      apply (attach_spec _ _ _).mpr
      constructor
      · rw [List.map_append, ← hrows]
        simp [List.map_map, Function.comp_def, rowOf, relabel, relabelRow]
      · intro e he
        apply lookup_of_mem _ hkr₂
        rcases List.mem_append.mp he with he | he
        · exact List.mem_append_left _ (List.mem_map_of_mem (f := kvOf) he)
        · simp only [List.mem_map] at he
          obtain ⟨e0, he0, rfl⟩ := he
          have := hmem e0 (List.mem_append_right _ he0)
          exact hres₂perm.mem_iff.mpr this
    refine ⟨sortEntries (m₂ ++ newE.map (relabel f)), ?_, ?_⟩
    · unfold update
      simp only
      have hn : nodupB ((m₂.map rowOf ++ batch.map (relabelRow f)).map (·.2)) = true := by
        rw [hkeys₂]; exact (nodupB_iff _).mpr (hkperm.nodup_iff.mpr hnd)
      simp only [hn, hbf₂, hat, Bool.not_true, Bool.false_eq_true, ↓reduceIte]
    · refine (sortEntries_perm _).trans ?_
      have : (m'.map (relabel f)).Perm (m.map (relabel f) ++ newE.map (relabel f)) := by
        have := hpm.map (relabel f); rwa [List.map_append] at this
      exact (hperm.append_right _).trans this.symm
  · intro e hu
    unfold update at hu ⊢
    simp only at hu ⊢
    rw [hkeys] at hu
    rw [hkeys₂]
    cases hn : nodupB (m.map (·.key) ++ batch.map (·.2)) with
    | false =>
      have hn₂ : nodupB (m₂.map (·.key) ++ batch.map (·.2)) = false := by
        cases hx : nodupB (m₂.map (·.key) ++ batch.map (·.2))
        · rfl
        · have := hkperm.nodup_iff.mp ((nodupB_iff _).mp hx)
          rw [(nodupB_iff _).mpr this] at hn; cases hn
      rw [hn] at hu
      rw [hn₂]
      simpa using hu
    | true =>
      have hn₂ : nodupB (m₂.map (·.key) ++ batch.map (·.2)) = true :=
        (nodupB_iff _).mpr (hkperm.nodup_iff.mpr ((nodupB_iff _).mp hn))
      rw [hn] at hu
      rw [hn₂]
      simp only [Bool.not_true, Bool.false_eq_true, ↓reduceIte] at hu ⊢
      cases hbf : buildFinal h fuel m batch t with
      | none =>
        rw [hbf] at hu
        cases hbf₂ : buildFinal h fuel m₂ (batch.map (relabelRow f)) t with
        | none => simpa using hu
        | some res₂ =>
          exfalso
          obtain ⟨r, _, hback⟩ := hbuild m₂ m (batch.map (relabelRow f)) batch hkv.symm hpos₂ hbk.symm res₂ hbf₂
          rw [hbf] at hback; cases hback
      | some res =>
        exfalso
        rw [hbf] at hu
        have hni := update_never_internal h fuel m batch t hpos
        unfold update at hni
        simp only at hni
        rw [hkeys, hn] at hni
        simp only [Bool.not_true, Bool.false_eq_true, ↓reduceIte, hbf] at hni
        simp only at hu
        cases hat : attach res (m.map rowOf ++ batch) with
        | none => rw [hat] at hni; exact hni rfl
        | some es => rw [hat] at hu; cases hu

/-! ### batch order -/

/-- **Permuting a batch does not move non-colliding keys.** Register the same rows in two different
orders on the same map: every key whose first hashed position is free and unshared sits at that
position in both results (only keys that collide on their first hash may depend on the order). -/
theorem update_batch_perm_noncolliding (h : Key → Salt → Nat) (fuel₁ fuel₂ : Nat) (m : List Entry)
    (b₁ b₂ : List (Int × Key)) (hperm : b₂.Perm b₁) (s : Int) (k : Key) (t : Salt) (m₁' m₂' : List Entry)
    (hpos : (m.map (·.pos)).Nodup) (hin : (s, k) ∈ b₁)
    (hold : h k t ∉ m.map (·.pos)) (hb : ∀ r ∈ b₁, r.2 ≠ k → h r.2 t ≠ h k t)
    (hu₁ : update h fuel₁ m b₁ t = .ok m₁') (hu₂ : update h fuel₂ m b₂ t = .ok m₂') :
    (⟨s, k, h k t⟩ : Entry) ∈ m₁' ∧ (⟨s, k, h k t⟩ : Entry) ∈ m₂' :=
  ⟨noncolliding_keeps_hash h fuel₁ m b₁ s k t m₁' hpos hin hold hb hu₁,
   noncolliding_keeps_hash h fuel₂ m b₂ s k t m₂' hpos (hperm.mem_iff.mpr hin) hold
     (fun r hr => hb r (hperm.mem_iff.mp hr)) hu₂⟩

/-- rows of the old map are the same in both orders as well (stability is order-independent) -/
theorem update_batch_perm_old (h : Key → Salt → Nat) (fuel₁ fuel₂ : Nat) (m : List Entry)
    (b₁ b₂ : List (Int × Key)) (t : Salt) (m₁' m₂' : List Entry) (hpos : (m.map (·.pos)).Nodup)
    (hu₁ : update h fuel₁ m b₁ t = .ok m₁') (hu₂ : update h fuel₂ m b₂ t = .ok m₂') :
    ∀ e ∈ m, e ∈ m₁' ∧ e ∈ m₂' := by
  obtain ⟨_, _, _, _, hp1, _⟩ := update_ok_spec h fuel₁ m b₁ t m₁' hpos hu₁
  obtain ⟨_, _, _, _, hp2, _⟩ := update_ok_spec h fuel₂ m b₂ t m₂' hpos hu₂
  exact fun e he => ⟨hp1.mem_iff.mpr (List.mem_append_left _ he), hp2.mem_iff.mpr (List.mem_append_left _ he)⟩

/-! ### non-vacuity, and the permitted exception is a real one -/

-- block size 5, clock time 0; first hashes: key 0 ↦ 1, key 5 ↦ 1, key 8 ↦ 4.
example : hashPos 5 [.int 0] (.int 0) = 1 ∧ hashPos 5 [.int 5] (.int 0) = 1 ∧ hashPos 5 [.int 8] (.int 0) = 4 := by decide
-- run 1: keys 0, 5, 8 under labels 0, 1, 2. Key 8 is non-colliding and sits at 4; key 5 collides with key 0
-- (registered with it) – the permitted exception – and is moved
example : update (hashPos 5) 10 [] [(0, [.int 0]), (1, [.int 5]), (2, [.int 8])] (.int 0) =
    .ok [⟨0, [.int 0], 1⟩, ⟨1, [.int 5], 2⟩, ⟨2, [.int 8], 4⟩] := by decide
-- run 2: other labels, other order, key 0 does not exist. Key 8 sits at 4 again (`crn_pair`); key 5 is now
-- non-colliding and sits at its first hash 1: the exception in the property statement is a real one
example : update (hashPos 5) 10 [] [(9, [.int 8]), (4, [.int 5])] (.int 0) =
    .ok [⟨4, [.int 5], 1⟩, ⟨9, [.int 8], 4⟩] := by decide

end Viv.Props.C04
