import VivModel.Model.IndexMap
import VivModel.Gen.Src
import VivModel.Lemmas.PyAst
import VivModel.Lemmas.PyState
/-! C04 (and C02 / C03), source tie: the Python source of `IndexMap.__getitem__` (`Gen/Src.lean`, regenerated from the
tree under test on every run) evaluated by `Py.evalBlock` in a stateless monad IS the model's `IMap.get`: every requested
simulant gets the position registered FOR IT, in the order of the request - a full-population request in any order, a
subset, a repeated label alike (`Series.loc[index]` on the simulant level is the model's `getAll`). -/
namespace Viv.Props.C04Src
open Viv.Py Viv.IndexMap

/-- the Python objects `IndexMap.__getitem__` touches -/
inductive IV where
  | none | bool (b : Bool) | int (i : Int) | str (s : String)
  | self
  /-- the requested `pd.Index` of simulant labels -/
  | idx (l : List Int)
  /-- `self._map` (a Series of positions indexed by (simulant, key…)) -/
  | mapV (m : List Entry)
  | locOf (m : List Entry)
  /-- positions, in some order (a Series / an array) -/
  | positions (ps : List Int)
  | toNumpy (ps : List Int)
  | list (vs : List IV)

abbrev M := Except String

def iworld (im : IMap) : World M IV where
  none := .none
  bool := .bool
  int := .int
  str := .str
  list := .list
  newList vs := pure (.list vs)
  tuple := .list
  global _ := throw "NameError"
  truthy
    | .none => pure false
    | .bool b => pure b
    | _ => pure true
  getAttr o a := match o with
    | .self =>
      if a == "_use_crn" then pure (.bool im.useCrn)
      else if a == "_map" then pure (match im.map with | some m => .mapV m | Option.none => .none)
      else throw "AttributeError"
    | .mapV m => if a == "loc" then pure (.locOf m) else throw "AttributeError"
    | .positions ps => if a == "to_numpy" then pure (.toNumpy ps) else if a == "values" then pure (.positions ps) else throw "AttributeError"
    | .idx l => if a == "values" then pure (.positions l) else throw "AttributeError"
    | _ => throw "AttributeError"
  setAttr _ _ _ := throw "AttributeError"
  call f args kws := match f, args, kws with
    | .toNumpy ps, [], [] => pure (.positions ps)
    | _, _, _ => throw "TypeError"
  cmp op l r := match r with
    | .none => if op == "Is" then pure (.bool (match l with | .none => true | _ => false)) else throw "TypeError"
    | _ => throw "TypeError"
  bin _ _ _ := throw "TypeError"
  neg _ := throw "TypeError"
  sub o k := match o, k with
    -- `Series.loc[index]` on the first index level: the rows of the requested simulants IN REQUEST ORDER; an unknown label: KeyError
    | .locOf m, .idx l => match getAll m l with
      | .ok ps => pure (.positions ps)
      | .error _ => throw "KeyError"
    | _, _ => throw "TypeError"
  slice _ _ := .none
  setItem _ _ _ := throw "TypeError"
  iter _ := throw "TypeError"
  unstar _ := throw "TypeError"
  format _ := throw "TypeError"
  concat _ := throw "TypeError"
  dict _ := throw "TypeError"
  whileLoop _ _ _ := throw "Unsupported"
  other _ := throw "Unsupported"
  throw cls := throw cls
  rethrow := throw "reraise"
  catchAll body handler := tryCatch body (fun _ => handler)
  catchCls cls body handler := tryCatch body (fun e => if e == cls then handler else throw e)

/-- `IndexMap.__getitem__(index)`: the model's `IMap.get` - without key columns the labels themselves; with key columns the
registered positions of exactly the requested simulants, in REQUEST order, whatever else is registered and however many
simulants are asked for; an empty map is refused -/
theorem getItem_refines (im : IMap) (index : List Int) :
    (Gen.Src.indexMapGetItem.run (iworld im) [("self", .self), ("index", .idx index)]).toOption
      = (im.get index).toOption.map IV.positions := by
  rw [exc_func]
  simp only [Gen.Src.indexMapGetItem]
  rcases im with ⟨useCrn, size, map⟩
  cases useCrn
  · repeat pystepE [iworld]
    simp [IMap.get, Except.toOption]
  · cases map with
    | none =>
      repeat pystepE [iworld]
      simp [IMap.get, Except.toOption]
    | some m =>
      cases hg : getAll m index with
      | error e =>
        repeat pystepE [iworld, hg]
        simp [IMap.get, hg, Except.toOption]
      | ok ps =>
        repeat pystepE [iworld, hg]
        simp [IMap.get, hg, Except.toOption]

end Viv.Props.C04Src
