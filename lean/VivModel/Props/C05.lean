import VivModel.Model.Stream
import VivModel.Model.Util
/-! C05 — decisions are monotone functions of the common draw.

Filter: for every population, draw list and probability list (integers over one denominator).
Choice: for every weight row (integers over any common unit), every draw `d / D`.
`exp` is not modelled: `filter_for_rate` is `filter_for_probability ∘ rate_to_probability` in the code and
`rate_mono` holds for EVERY monotone `f` with `f 0 = 0` (the harness checks that the real
`rate_to_probability` is one).

Full statement that is NOT provable (finding F9, recorded): "a zero-weight option is never picked".
Proved: `choice_nonzero_partial` (… given `0 < d` or a positive first weight) and the witness
`choice_zero_draw_picks_zero_weight` (draw exactly 0 with a leading zero weight picks option 0). -/
namespace Viv.Props.C05
open Viv.Stream

/-! ### filter_for_probability -/

/-- pointwise `≤` of two probability lists of the same length -/
inductive AllLe : List Nat → List Nat → Prop
  | nil : AllLe [] []
  | cons {a b : Nat} {as bs : List Nat} : a ≤ b → AllLe as bs → AllLe (a :: as) (b :: bs)

/-- the result is exactly: zip population, draws and probabilities, keep `draw < probability`, project -/
theorem filter_exact {α : Type} (pop : List α) (ds ps : List Nat) :
    filterProb pop ds ps = ((pop.zip (ds.zip ps)).filter (fun x => decide (x.2.1 < x.2.2))).map (·.1) := by
  induction pop generalizing ds ps with
  | nil => simp [filterProb]
  | cons x xs ih =>
    cases ds with
    | nil => simp [filterProb]
    | cons d ds =>
      cases ps with
      | nil => simp [filterProb]
      | cons p ps =>
        by_cases h : d < p <;> simp [filterProb, keep, h, ih]

/-- kept ⇔ own draw below own probability -/
theorem filter_iff {α : Type} (pop : List α) (ds ps : List Nat) (x : α) :
    x ∈ filterProb pop ds ps ↔ ∃ d p, (x, d, p) ∈ pop.zip (ds.zip ps) ∧ d < p := by
  rw [filter_exact]
  simp only [List.mem_map, List.mem_filter, decide_eq_true_eq]
  constructor
  · rintro ⟨⟨y, d, p⟩, ⟨hm, hlt⟩, rfl⟩; exact ⟨d, p, hm, hlt⟩
  · rintro ⟨d, p, hm, hlt⟩; exact ⟨(x, d, p), ⟨hm, hlt⟩, rfl⟩

/-- the result has the order of the input: it is an order-preserving sub-list of the population -/
theorem filter_sublist {α : Type} (pop : List α) (ds ps : List Nat) :
    (filterProb pop ds ps).Sublist pop := by
  induction pop generalizing ds ps with
  | nil => simp [filterProb]
  | cons x xs ih =>
    cases ds with
    | nil => simp [filterProb]
    | cons d ds =>
      cases ps with
      | nil => simp [filterProb]
      | cons p ps =>
        simp only [filterProb]
        split
        · exact (ih ds ps).cons_cons x
        · exact (ih ds ps).cons x

/-- raising probabilities (pointwise) never removes anybody: the old result is a sub-list of the new one -/
theorem filter_mono {α : Type} (pop : List α) (ds ps ps' : List Nat) (h : AllLe ps ps') :
    (filterProb pop ds ps).Sublist (filterProb pop ds ps') := by
  induction h generalizing pop ds with
  | nil => cases pop <;> cases ds <;> simp [filterProb]
  | @cons p p' ps ps' hp _ ih =>
    cases pop with
    | nil => simp [filterProb]
    | cons x xs =>
      cases ds with
      | nil => simp [filterProb]
      | cons d ds =>
        simp only [filterProb, keep]
        by_cases h1 : d < p
        · have h2 : d < p' := Nat.lt_of_lt_of_le h1 hp
          simp only [h1, h2, decide_true, if_true]
          exact (ih xs ds).cons_cons x
        · by_cases h2 : d < p'
          · simp only [h1, h2, decide_true, decide_false, if_true, Bool.false_eq_true, if_false]
            exact (ih xs ds).cons x
          · simp only [h1, h2, decide_false, Bool.false_eq_true, if_false]
            exact ih xs ds

theorem allLe_replicate (n p p' : Nat) (h : p ≤ p') :
    AllLe (List.replicate n p) (List.replicate n p') := by
  induction n with
  | zero => exact .nil
  | succ n ih => simp only [List.replicate_succ]; exact .cons h ih

/-- scalar form of `filter_mono` -/
theorem filter_mono_scalar {α : Type} (pop : List α) (ds : List Nat) (p p' : Nat) (h : p ≤ p') :
    (filterProb pop ds (List.replicate pop.length p)).Sublist
      (filterProb pop ds (List.replicate pop.length p')) :=
  filter_mono pop ds _ _ (allLe_replicate pop.length p p' h)

/-- probability 0 selects nobody -/
theorem filter_zero {α : Type} (pop : List α) (ds ps : List Nat) (h : ∀ p ∈ ps, p = 0) :
    filterProb pop ds ps = [] := by
  induction pop generalizing ds ps with
  | nil => simp [filterProb]
  | cons x xs ih =>
    cases ds with
    | nil => simp [filterProb]
    | cons d ds =>
      cases ps with
      | nil => simp [filterProb]
      | cons p ps =>
        have hp : p = 0 := h p (by simp)
        subst hp
        simp only [filterProb, keep, Nat.not_lt_zero, decide_false, Bool.false_eq_true, if_false]
        exact ih ds ps (fun q hq => h q (List.mem_cons_of_mem _ hq))

/-- probability 1 or more selects everybody – from `draw < 1` (`D` is the common denominator: `d < D` is
C02's `draw_range`, `D ≤ p` is "p ≥ 1") -/
theorem filter_one {α : Type} (D : Nat) (pop : List α) (ds ps : List Nat)
    (hld : ds.length = pop.length) (hlp : ps.length = pop.length)
    (hd : ∀ d ∈ ds, d < D) (hp : ∀ p ∈ ps, D ≤ p) : filterProb pop ds ps = pop := by
  induction pop generalizing ds ps with
  | nil => simp [filterProb]
  | cons x xs ih =>
    cases ds with
    | nil => simp at hld
    | cons d ds =>
      cases ps with
      | nil => simp at hlp
      | cons p ps =>
        have h1 : d < p := Nat.lt_of_lt_of_le (hd d (by simp)) (hp p (by simp))
        simp only [filterProb, keep, h1, decide_true, if_true, List.cons.injEq, true_and]
        exact ih ds ps (by simpa using hld) (by simpa using hlp)
          (fun q hq => hd q (List.mem_cons_of_mem _ hq)) (fun q hq => hp q (List.mem_cons_of_mem _ hq))

/-- `filter_for_rate`: for every monotone conversion `f` with `f 0 = 0` (standing for
`1 − exp(−min(r, 250))`), raising rates never removes anybody and rate 0 selects nobody. -/
theorem rate_mono {α : Type} (f : Nat → Nat) (hf : ∀ a b, a ≤ b → f a ≤ f b) (h0 : f 0 = 0)
    (pop : List α) (ds rs rs' : List Nat) (h : AllLe rs rs') :
    (filterProb pop ds (rs.map f)).Sublist (filterProb pop ds (rs'.map f)) ∧
    ((∀ r ∈ rs, r = 0) → filterProb pop ds (rs.map f) = []) := by
  refine ⟨filter_mono pop ds _ _ ?_, fun hz => filter_zero pop ds _ ?_⟩
  · induction h with
    | nil => exact .nil
    | cons hab _ ih => exact .cons (hf _ _ hab) ih
  · intro p hp
    obtain ⟨r, hr, rfl⟩ := List.mem_map.mp hp
    rw [hz r hr, h0]

/-- the stream-level function uses the COMMON draw of C02 (`getDraw` at the same seed string) and nothing
else; an empty population is returned as is; the result is a sub-list of the population's index. -/
theorem filterStream_common_draw (blk : String → Nat → Nat → Nat) (size : Nat) (pos : Sim → Option Nat)
    (ks : String) (scale : Nat) (idx : List Sim) (probs : Probs) (kept : List Sim)
    (h : filterStream blk size pos ks scale idx probs = .ok kept) :
    kept.Sublist idx ∧
    (idx ≠ [] → ∃ ds ps, getDraw blk size pos ks idx = .ok ds ∧ broadcast idx probs = .ok ps ∧
      kept = filterProb idx (ds.map fun d => d.2.2 * scale) ps) := by
  unfold filterStream at h
  split at h
  · rename_i he
    cases h
    have : idx = [] := by simpa using he
    exact ⟨by simp, fun hne => absurd this hne⟩
  · cases hd : getDraw blk size pos ks idx with
    | error e => simp [hd] at h
    | ok ds =>
      cases hb : broadcast idx probs with
      | error e => simp [hd, hb] at h
      | ok ps =>
        simp only [hd, hb, Except.ok.injEq] at h
        subst h
        exact ⟨filter_sublist _ _ _, fun _ => ⟨ds, ps, rfl, rfl, rfl⟩⟩

/-- malformed probability arguments are refused, never silently re-aligned -/
theorem broadcast_rejects (idx : List Sim) :
    (∀ ps, ps.length ≠ idx.length → broadcast idx (.list ps) = .error .length) ∧
    (∀ ps, ps.length ≠ idx.length → ps.length ≠ 1 → broadcast idx (.tuple ps) = .error .length) ∧
    (∀ i ps, i ≠ idx → broadcast idx (.series i ps) = .error .labels) := by
  refine ⟨?_, ?_, ?_⟩
  · intro ps h; simp [broadcast, h]
  · intro ps h h1; simp [broadcast, h, h1]
  · intro i ps h; simp [broadcast, h]

/-! ### choice: counting cumulative bins -/

/-- counting the cumulative bins that satisfy a predicate which, once false, stays false for larger bins -/
theorem count_zero (P : Nat → Bool) (hP : ∀ a b, a ≤ b → P b = true → P a = true) (acc : Nat) (ws : List Nat)
    (h : P acc = false) : ((cumsumFrom acc ws).filter P).length = 0 := by
  induction ws generalizing acc with
  | nil => simp [cumsumFrom]
  | cons w ws ih =>
    have h1 : P (acc + w) = false := by
      cases hq : P (acc + w) with
      | false => rfl
      | true => rw [hP acc (acc + w) (Nat.le_add_right _ _) hq] at h; cases h
    simp only [cumsumFrom, List.filter_cons, h1, Bool.false_eq_true, if_false]
    exact ih (acc + w) h1

theorem take_succ_sum (ws : List Nat) (k : Nat) (hk : k < ws.length) :
    (ws.take (k + 1)).sum = (ws.take k).sum + ws[k] := by
  induction ws generalizing k with
  | nil => simp at hk
  | cons w ws ih =>
    cases k with
    | zero => simp
    | succ k =>
      simp only [List.take_succ_cons, List.sum_cons, List.getElem_cons_succ]
      rw [ih k (by simpa using hk)]; omega

theorem count_interval (P : Nat → Bool) (hP : ∀ a b, a ≤ b → P b = true → P a = true) (acc : Nat)
    (ws : List Nat) (k : Nat) (hk : k < ws.length) :
    ((cumsumFrom acc ws).filter P).length = k ↔
      (k = 0 ∨ P (acc + (ws.take k).sum) = true) ∧ P (acc + (ws.take (k + 1)).sum) = false := by
  induction ws generalizing acc k with
  | nil => simp at hk
  | cons w ws ih =>
    simp only [cumsumFrom, List.filter_cons]
    cases hq : P (acc + w) with
    | true =>
      simp only [if_true, List.length_cons]
      cases k with
      | zero =>
        simp only [List.take_succ_cons, List.take_zero, List.sum_cons, List.sum_nil, Nat.add_zero, hq]
        constructor
        · intro h; omega
        · rintro ⟨_, h⟩; cases h
      | succ k =>
        have hk' : k < ws.length := by simpa using hk
        have := ih (acc + w) k hk'
        simp only [List.take_succ_cons, List.sum_cons, ← Nat.add_assoc]
        constructor
        · intro h
          have h' := this.mp (by omega)
          refine ⟨Or.inr ?_, h'.2⟩
          cases h'.1 with
          | inl h0 => subst h0; simpa using hq
          | inr h1 => exact h1
        · rintro ⟨h1, h2⟩
          have : ((cumsumFrom (acc + w) ws).filter P).length = k := by
            apply this.mpr
            refine ⟨?_, h2⟩
            cases h1 with
            | inl h0 => omega
            | inr h1 => exact Or.inr h1
          omega
    | false =>
      simp only [Bool.false_eq_true, if_false]
      rw [count_zero P hP (acc + w) ws hq]
      cases k with
      | zero => simp [hq]
      | succ k =>
        constructor
        · intro h; omega
        · rintro ⟨h1, _⟩
          exfalso
          cases h1 with
          | inl h0 => omega
          | inr h1 =>
            simp only [List.take_succ_cons, List.sum_cons] at h1
            have := hP (acc + w) (acc + (w + (ws.take k).sum)) (by omega) h1
            rw [this] at hq; cases hq

theorem count_lt (P : Nat → Bool) (acc : Nat)
    (ws : List Nat) (hne : ws ≠ []) (h : P (acc + ws.sum) = false) :
    ((cumsumFrom acc ws).filter P).length < ws.length := by
  induction ws generalizing acc with
  | nil => exact absurd rfl hne
  | cons w ws ih =>
    simp only [cumsumFrom, List.filter_cons, List.length_cons]
    cases ws with
    | nil =>
      simp only [List.sum_cons, List.sum_nil, Nat.add_zero] at h
      simp [cumsumFrom, h]
    | cons w' ws' =>
      have := ih (acc + w) (by simp) (by simpa [Nat.add_assoc] using h)
      split
      · simp only [List.length_cons] at *; omega
      · simp only [List.length_cons] at *; omega

/-- the bin predicate `c / W < d / D` is downward closed in `c` -/
theorem below_antitone (D x : Nat) : ∀ a b, a ≤ b → decide (b * D < x) = true → decide (a * D < x) = true := by
  intro a b hab h
  simp only [decide_eq_true_eq] at *
  exact Nat.lt_of_le_of_lt (Nat.mul_le_mul_right D hab) h

/-- inverse CDF: option `k` is picked ⇔ the draw lies in the `k`-th cumulative-weight interval,
`C_{k−1} / W < d / D ≤ C_k / W` with `C_j = w₀ + … + w_j` (cross-multiplied). For `k = 0` there is no lower
condition: the first interval is closed at 0, `[0, C₀]` (this is where F9 lives). -/
theorem choice_interval (w : List Nat) (d D k : Nat) (hk : k < w.length) :
    choiceIdx w d D = k ↔
      (k = 0 ∨ (w.take k).sum * D < d * w.sum) ∧ d * w.sum ≤ (w.take (k + 1)).sum * D := by
  unfold choiceIdx binsBelow
  rw [count_interval _ (below_antitone D (d * w.sum)) 0 w k hk]
  simp [Nat.not_lt]

/-- the chosen index is always a valid option when the draw is below 1 -/
theorem choiceIdx_lt (w : List Nat) (d D : Nat) (hne : w ≠ []) (hd : d < D) : choiceIdx w d D < w.length := by
  unfold choiceIdx binsBelow
  apply count_lt _ 0 w hne
  simp only [Nat.zero_add, decide_eq_false_iff_not, Nat.not_lt]
  rw [Nat.mul_comm]
  exact Nat.mul_le_mul_left _ (Nat.le_of_lt hd)

/-- PARTIAL (F9). Full statement wanted by the property: `w[k] = 0 → choiceIdx w d D ≠ k`.
False at `d = 0` with `w[0] = 0` (witness below). Proved: a zero-weight option is never picked GIVEN a
positive draw or a positive first weight. -/
theorem choice_nonzero_partial (w : List Nat) (d D k : Nat) (hW : 0 < w.sum)
    (hk : w[k]? = some 0) (h : 0 < d ∨ 0 < w.headD 0) : choiceIdx w d D ≠ k := by
  intro hc
  obtain ⟨hlt, hwk⟩ := List.getElem?_eq_some_iff.mp hk
  have hi := (choice_interval w d D k hlt).mp hc
  rw [take_succ_sum w k hlt, hwk, Nat.add_zero] at hi
  cases hi.1 with
  | inl h0 =>
    subst h0
    simp only [List.take_zero, List.sum_nil, Nat.zero_mul, Nat.le_zero_eq, Nat.mul_eq_zero] at hi
    have hd0 : d = 0 := by
      cases hi.2 with
      | inl h => exact h
      | inr h => omega
    cases h with
    | inl h => omega
    | inr h =>
      cases w with
      | nil => simp at hlt
      | cons a as => simp at hwk h; omega
  | inr h1 => exact absurd hi.2 (Nat.not_le.mpr h1)

/-- F9, the witness: a draw of exactly 0 with a leading zero weight picks the zero-weight option … -/
theorem choice_zero_draw_picks_zero_weight : choiceIdx [0, 1] 0 16 = 0 ∧ choiceIdx [0, 0, 3, 1] 0 16 = 0 := by
  decide

/-- … through the whole `_choice` as well, while the smallest positive draw does not -/
theorem choice_zero_draw_whole :
    choiceAll 1 2 (.oneD [.val 0, .val 1]) [0, 1] (2 ^ 53) = .ok [0, 1] := by decide

/-! ### choice: scaling -/

theorem cumsumFrom_scale (c acc : Nat) (w : List Nat) :
    cumsumFrom (c * acc) (w.map (c * ·)) = (cumsumFrom acc w).map (c * ·) := by
  induction w generalizing acc with
  | nil => simp [cumsumFrom]
  | cons a as ih =>
    simp only [List.map_cons, cumsumFrom, ← Nat.mul_add]
    rw [ih (acc + a)]

theorem sum_scale (c : Nat) (w : List Nat) : (w.map (c * ·)).sum = c * w.sum := by
  induction w with
  | nil => simp
  | cons a as ih => simp [ih, Nat.mul_add]

/-- the decision is unchanged by rescaling the weight row by any positive integer factor … -/
theorem choice_scale (c : Nat) (hc : 0 < c) (w : List Nat) (d D : Nat) :
    choiceIdx (w.map (c * ·)) d D = choiceIdx w d D := by
  unfold choiceIdx binsBelow
  have h0 : cumsumFrom 0 (w.map (c * ·)) = (cumsumFrom 0 w).map (c * ·) := by
    have := cumsumFrom_scale c 0 w
    simpa using this
  rw [h0, sum_scale, List.filter_map, List.length_map]
  congr 1
  apply List.filter_congr
  intro b _
  simp only [Function.comp]
  have h1 : c * b * D = c * (b * D) := Nat.mul_assoc _ _ _
  have h2 : d * (c * w.sum) = c * (d * w.sum) := Nat.mul_left_comm _ _ _
  rw [h1, h2]
  exact decide_eq_decide.mpr (Nat.mul_lt_mul_left hc)

/-- … hence by any positive rational factor `a / b`: rows `w`, `w'` with `a·w = b·w'` decide alike -/
theorem choice_scale_rat (a b : Nat) (ha : 0 < a) (hb : 0 < b) (w w' : List Nat) (d D : Nat)
    (h : w.map (a * ·) = w'.map (b * ·)) : choiceIdx w d D = choiceIdx w' d D := by
  rw [← choice_scale a ha w, ← choice_scale b hb w', h]

/-! ### choice: rows, residual placeholder -/

theorem spell_of_no_residual (Q : Nat) (row : List Cell) (h : row.any Cell.isResidual = false) :
    spell Q row = row.map Cell.num := by
  unfold spell
  apply List.map_congr_left
  intro c hc
  cases c with
  | val n => rfl
  | residual =>
    have : row.any Cell.isResidual = true := List.any_eq_true.mpr ⟨_, hc, rfl⟩
    rw [this] at h; cases h

/-- whatever `_set_residual_probability` accepts, each resolved row is a function (`spell`) of its own
input row alone -/
theorem setResidual_ok (Q : Nat) (m : List (List Cell)) (rows : List (List Nat))
    (h : setResidual Q m = .ok rows) : rows = m.map (spell Q) := by
  unfold setResidual at h
  split at h
  · split at h
    · cases h
    · split at h
      · cases h
      · cases h; rfl
  · rename_i hn
    cases h
    apply List.map_congr_left
    intro row hr
    symm
    apply spell_of_no_residual
    cases hq : row.any Cell.isResidual with
    | false => rfl
    | true => exact absurd (List.any_eq_true.mpr ⟨row, hr, hq⟩) hn

/-- each simulant's choice is computed from its own draw and its own (resolved) weight row only -/
theorem choice_pointwise (Q n : Nat) (p : Weights) (draws : List Nat) (D : Nat) (idx : List Nat)
    (h : choiceAll Q n p draws D = .ok idx) :
    ∃ rows, alignRows draws.length ((normalizeShape draws.length n p).map (spell Q)) = .ok rows ∧
      idx = List.zipWith (fun w d => choiceIdx w d D) rows draws := by
  unfold choiceAll at h
  cases hs : setResidual Q (normalizeShape draws.length n p) with
  | error e => simp [hs] at h
  | ok rows0 =>
    have := setResidual_ok Q _ rows0 hs
    subst this
    simp only [hs] at h
    split at h
    · cases h
    · cases ha : alignRows draws.length ((normalizeShape draws.length n p).map (spell Q)) with
      | error e => simp [ha] at h
      | ok rows =>
        simp only [ha] at h
        split at h
        · cases h; exact ⟨rows, rfl, rfl⟩
        · cases h

/-- rows are aligned with draws one to one (or a single row is used for everybody) -/
theorem alignRows_ok (n : Nat) (rows out : List (List Nat)) (h : alignRows n rows = .ok out) :
    (rows.length = n ∧ out = rows) ∨ (rows.length = 1 ∧ out = List.replicate n (rows.headD [])) := by
  unfold alignRows at h
  split at h
  · cases h; exact Or.inl ⟨by assumption, rfl⟩
  · split at h
    · cases h; exact Or.inr ⟨by assumption, rfl⟩
    · cases h

theorem spell_sum_split (row : List Cell) :
    (spell Q row).sum = rowSum row + residualCount row * (Q - rowSum row) := by
  unfold spell
  generalize Q - rowSum row = r
  unfold rowSum residualCount
  induction row with
  | nil => simp
  | cons c cs ih =>
    cases c with
    | val n =>
      simp only [List.map_cons, List.sum_cons, List.filter_cons, Cell.isResidual, Cell.num,
        Bool.false_eq_true, if_false, ih]
      omega
    | residual =>
      simp only [List.map_cons, List.sum_cons, List.filter_cons, Cell.isResidual, Cell.num, if_true,
        List.length_cons, ih, Nat.succ_mul]
      omega

/-- with the placeholder resolved the row sums to exactly 1 (`Q`) -/
theorem spell_sum (Q : Nat) (row : List Cell) (h1 : residualCount row = 1) (hs : rowSum row ≤ Q) :
    (spell Q row).sum = Q := by
  rw [spell_sum_split, h1]; omega

theorem map_num_val (l : List Nat) : (l.map Cell.val).map Cell.num = l := by
  induction l with
  | nil => rfl
  | cons a as ih => simp only [List.map_cons, Cell.num, ih]

theorem no_residual_in_spelled (l : List Nat) : (l.map Cell.val).any Cell.isResidual = false := by
  induction l with
  | nil => rfl
  | cons a as ih => simp [Cell.isResidual, ih]

theorem any_residual_of_count (row : List Cell) (h : residualCount row = 1) : row.any Cell.isResidual = true := by
  unfold residualCount at h
  cases hq : row.any Cell.isResidual with
  | true => rfl
  | false =>
    have : row.filter Cell.isResidual = [] := by
      apply List.filter_eq_nil_iff.mpr
      intro c hc hr
      have : row.any Cell.isResidual = true := List.any_eq_true.mpr ⟨c, hc, hr⟩
      rw [this] at hq; cases hq
    rw [this] at h; cases h

/-- placeholder ≡ spelled-out: a matrix whose every row holds one placeholder and other weights summing to
at most 1 decides exactly like the matrix with `1 − Σ` written in its place. -/
theorem choice_residual (Q n : Nat) (m : List (List Cell)) (draws : List Nat) (D : Nat)
    (hcount : ∀ row ∈ m, residualCount row = 1) (hsum : ∀ row ∈ m, rowSum row ≤ Q) :
    choiceAll Q n (.twoD m) draws D =
      choiceAll Q n (.twoD (m.map fun row => (spell Q row).map Cell.val)) draws D := by
  have h2 : setResidual Q (m.map fun row => (spell Q row).map Cell.val) = .ok (m.map (spell Q)) := by
    unfold setResidual
    have : (m.map fun row => (spell Q row).map Cell.val).any (·.any Cell.isResidual) = false := by
      rw [List.any_map]
      apply List.any_eq_false.mpr
      intro row _
      simp only [Function.comp, no_residual_in_spelled, Bool.false_eq_true, not_false_eq_true]
    simp only [this, Bool.false_eq_true, if_false, List.map_map]
    congr 1
    apply List.map_congr_left
    intro row _
    exact map_num_val _
  have h1 : setResidual Q m = .ok (m.map (spell Q)) := by
    unfold setResidual
    split
    · have a : m.any (fun row => residualCount row != 1) = false := by
        apply List.any_eq_false.mpr
        intro row hr; simp [hcount row hr]
      have b : m.any (fun row => decide (Q < rowSum row)) = false := by
        apply List.any_eq_false.mpr
        intro row hr; simp [Nat.not_lt.mpr (hsum row hr)]
      simp [a, b]
    · rename_i hn
      cases m with
      | nil => rfl
      | cons r rs =>
        exfalso; apply hn
        exact List.any_eq_true.mpr ⟨r, by simp, any_residual_of_count r (hcount r (by simp))⟩
  unfold choiceAll
  simp only [normalizeShape, h1, h2]

/-- the stream-level `choice` decides with the COMMON draw of C02 (`getDraw` at the same seed string, numerators
over 2^53) and nothing else -/
theorem choiceStream_common_draw (blk : String → Nat → Nat → Nat) (size : Nat) (pos : Sim → Option Nat)
    (ks : String) (Q n : Nat) (p : Weights) (idx : List Sim) (out : List Nat)
    (h : choiceStream blk size pos ks Q n p idx = .ok out) :
    ∃ ds, getDraw blk size pos ks idx = .ok ds ∧ choiceAll Q n p (ds.map (·.2.2)) (2 ^ 53) = .ok out := by
  unfold choiceStream at h
  cases hd : getDraw blk size pos ks idx with
  | error e => simp [hd] at h
  | ok ds => exact ⟨ds, rfl, by simpa [hd] using h⟩

/-- every KIND of stream handle decides in the same way: on a stream created with `initializes_crn_attributes=True`
(whose common draw is positional by design, excluded from C02) filter and choice are the same functions of that
stream's own `getDrawInit`, so every theorem above about `filterProb` / `choiceAll` applies to it unchanged. -/
theorem init_stream_same_decisions (blk : String → Nat → Nat → Nat) (size : Nat) (ks : String) (idx : List Sim)
    (ds : List Draw) (hd : getDrawInit blk size ks idx = .ok ds) :
    (∀ scale probs, idx ≠ [] → filterStreamInit blk size ks scale idx probs =
        (match broadcast idx probs with
         | .error e => .error e
         | .ok ps => .ok (filterProb idx (ds.map fun d => d.2.2 * scale) ps))) ∧
    (∀ Q n p, choiceStreamInit blk size ks Q n p idx = choiceAll Q n p (ds.map (·.2.2)) (2 ^ 53)) := by
  constructor
  · intro scale probs hne
    unfold filterStreamInit
    have : idx.isEmpty = false := by cases idx <;> simp_all
    simp only [this, hd, Bool.false_eq_true, if_false]
    cases broadcast idx probs <;> rfl
  · intro Q n p
    simp [choiceStreamInit, hd]

/-! ### choice: rejections -/

/-- two (or more) placeholders in a row are refused -/
theorem residual_two_rejected (Q : Nat) (m : List (List Cell)) (row : List Cell) (hr : row ∈ m)
    (h : 2 ≤ residualCount row) : setResidual Q m = .error .residualCount := by
  unfold setResidual
  have h0 : row.any Cell.isResidual = true := by
    cases hq : row.any Cell.isResidual with
    | true => rfl
    | false =>
      have : row.filter Cell.isResidual = [] := by
        apply List.filter_eq_nil_iff.mpr
        intro c hc hcr
        have : row.any Cell.isResidual = true := List.any_eq_true.mpr ⟨c, hc, hcr⟩
        rw [this] at hq; cases hq
      unfold residualCount at h; rw [this] at h; simp at h
  have a : m.any (·.any Cell.isResidual) = true := List.any_eq_true.mpr ⟨row, hr, h0⟩
  have b : m.any (fun row => residualCount row != 1) = true :=
    List.any_eq_true.mpr ⟨row, hr, by simp; omega⟩
  simp [a, b]

/-- as the code stands, a row WITHOUT placeholder in a matrix that uses the placeholder elsewhere is refused
too (`np.sum(residual_mask, axis=1) - 1` is −1 for it) -/
theorem residual_missing_rejected (Q : Nat) (m : List (List Cell)) (row row' : List Cell) (hr : row ∈ m)
    (hr' : row' ∈ m) (h : row.any Cell.isResidual = true) (h' : residualCount row' = 0) :
    setResidual Q m = .error .residualCount := by
  unfold setResidual
  have a : m.any (·.any Cell.isResidual) = true := List.any_eq_true.mpr ⟨row, hr, h⟩
  have b : m.any (fun row => residualCount row != 1) = true :=
    List.any_eq_true.mpr ⟨row', hr', by simp [h']⟩
  simp [a, b]

/-- a placeholder next to weights that sum to more than 1 is refused -/
theorem residual_sum_rejected (Q : Nat) (m : List (List Cell)) (row : List Cell) (hr : row ∈ m)
    (hall : ∀ r ∈ m, residualCount r = 1) (h : Q < rowSum row) : setResidual Q m = .error .residualSum := by
  unfold setResidual
  have a : m.any (·.any Cell.isResidual) = true :=
    List.any_eq_true.mpr ⟨row, hr, any_residual_of_count row (hall row hr)⟩
  have b : m.any (fun row => residualCount row != 1) = false := by
    apply List.any_eq_false.mpr
    intro r hr; simp [hall r hr]
  have c : m.any (fun row => decide (Q < rowSum row)) = true :=
    List.any_eq_true.mpr ⟨row, hr, by simp [h]⟩
  simp [a, b, c]

/-- a row of weights that sums to 0 offers nothing to choose from and is refused (the division `0/0`
raises under `numpy.seterr(all="raise")`); so `0 < w.sum` in the theorems above excludes nothing accepted. -/
theorem zero_row_rejected (Q n : Nat) (p : Weights) (draws : List Nat) (D : Nat) (rows : List (List Nat))
    (hs : setResidual Q (normalizeShape draws.length n p) = .ok rows) (w : List Nat) (hw : w ∈ rows)
    (h0 : w.sum = 0) : choiceAll Q n p draws D = .error .zeroRow := by
  unfold choiceAll
  have : rows.any (fun w => w.sum == 0) = true := List.any_eq_true.mpr ⟨w, hw, by simp [h0]⟩
  simp [hs, this]

/-- a weight matrix whose number of rows is neither 1 nor the number of draws is refused -/
theorem shape_rejected (n : Nat) (rows : List (List Nat)) (h1 : rows.length ≠ n) (h2 : rows.length ≠ 1) :
    alignRows n rows = .error .shape := by
  simp [alignRows, h1, h2]

/-! ### non-vacuity -/

example : filterProb ["a", "b", "c", "d"] [3, 8, 5, 0] [4, 8, 16, 0] = ["a", "c"] := by decide
example : broadcast [4, 2] (.series [2, 4] [1, 1]) = .error .labels := by decide
example : choiceIdx [2, 0, 2] 8 16 = 0 := by decide     -- draw exactly on an edge stays left
example : choiceIdx [2, 0, 2] 9 16 = 2 := by decide     -- and never lands on the zero-weight middle option
example : choiceIdx [2, 0, 2] 15 16 = 2 := by decide
example : choiceAll 4 3 (.oneD [.val 1, .residual, .val 1]) [0, 4, 5, 12, 13, 15] 16 = .ok [0, 0, 1, 1, 2, 2] := by decide
example : choiceAll 4 2 (.oneD [.residual, .residual]) [1] 16 = .error .residualCount := by decide
example : choiceAll 4 2 (.oneD [.val 5, .residual]) [1] 16 = .error .residualSum := by decide
example : choiceAll 4 2 (.twoD [[.val 1, .residual], [.val 1, .val 3]]) [1, 2] 16 = .error .residualCount := by decide
example : choiceAll 4 2 (.twoD [[.val 1, .val 3], [.val 1, .val 3], [.val 1, .val 3]]) [1, 2] 16 = .error .shape := by decide
example : choiceAll 4 2 (.oneD [.val 1, .val 1, .val 2]) [15] 16 = .error .index := by decide
example : choiceAll 4 2 (.twoD [[.val 1, .val 1], [.val 0, .val 0]]) [3, 5] 16 = .error .zeroRow := by decide

end Viv.Props.C05
