import VivModel.Props.C02Src
/-! C05, source tie: the Python source of `RandomnessStream.filter_for_probability` (`Gen/Src.lean`, regenerated from the
tree under test on every run) evaluated by `Py.evalBlock` IS the model's `filterStream` / `filterStreamInit`
(`Model/Stream.lean`): an empty population is returned as it is; otherwise the COMMON draw is requested once, for the
population's whole index in its own order, by a call INTO the translated `get_draw` (which calls into the translated
`_key`: three translated functions deep) - so a CRN-initialising stream reads positions `0 … n-1` for exactly this index;
`draws < probability` broadcasts the probability as pandas does (scalar, list / array of the population's length, tuple,
identically labelled Series; anything else is refused) and exactly the simulants whose draw is below their probability are
kept, in the population's order, as the same kind of object (Index or frame) that was handed over. Stateless monad. -/
namespace Viv.Props.C05Src
open Viv.Py Viv.Stream Viv.Props.C02Src

inductive FFn where
  | len | isinstance | getDraw | npArray
  /-- `mask.to_numpy()`: the same booleans -/
  | sameMask (bs : List Bool)

/-- the Python objects `RandomnessStream.filter_for_probability` touches; the stream's own objects are C02Src's -/
inductive FV where
  | none | bool (b : Bool) | int (i : Int) | str (s : String)
  | self | modPd | modNp | pdIndex
  /-- the population as handed over: a `pd.Index` (`isIndex`) or a frame / Series with that index -/
  | pop (isIndex : Bool) (idx : List Sim)
  | ak (s : String)
  | probs (p : Probs)
  /-- what `get_draw` returned (a value of the stream's world) -/
  | sv (v : SV)
  | mask (bs : List Bool)
  | fn (f : FFn)
  | list (vs : List FV)

abbrev M := Except String

def fworld (blk : String → Nat → Nat → Nat) (st : Strm) (scale : Nat) : World M FV where
  none := .none
  bool := .bool
  int := .int
  str := .str
  list := .list
  newList vs := pure (.list vs)
  tuple := .list
  global n :=
    if n == "len" then pure (.fn .len) else if n == "isinstance" then pure (.fn .isinstance)
    else if n == "pd" then pure .modPd else if n == "np" then pure .modNp else throw "NameError"
  truthy
    | .none => pure false
    | .bool b => pure b
    | _ => pure true
  getAttr o a := match o with
    | .self => if a == "get_draw" then pure (.fn .getDraw) else throw "AttributeError"
    | .modPd => if a == "Index" then pure .pdIndex else throw "AttributeError"
    | .modNp => if a == "array" || a == "asarray" then pure (.fn .npArray) else throw "AttributeError"
    | .pop _ idx => if a == "index" then pure (.pop true idx) else throw "AttributeError"
    | .mask bs =>
      if a == "to_numpy" then pure (.fn (.sameMask bs)) else if a == "values" then pure (.mask bs) else throw "AttributeError"
    | _ => throw "AttributeError"
  setAttr _ _ _ := throw "AttributeError"
  call f args kws := match f, args, kws with
    | .fn .len, [.pop _ idx], [] => pure (.int idx.length)
    | .fn .isinstance, [.pop isIndex _, .pdIndex], [] => pure (.bool isIndex)
    | .fn .getDraw, [.pop true idx, .ak ak], [] =>
      .sv <$> Gen.Src.streamGetDraw.run (sworld blk st) [("self", .self), ("index", .idx idx), ("additional_key", .printable ak)]
    | .fn .npArray, [.mask bs], [] => pure (.mask bs)
    | .fn (.sameMask bs), [], [] => pure (.mask bs)
    | _, _, _ => throw "TypeError"
  cmp op l r := match l, r with
    | .int a, .int b => if op == "Eq" then pure (.bool (a == b)) else throw "TypeError"
    | .sv (.series ds), .probs p =>
      if op == "Lt" then match broadcast (ds.map (·.1)) p with
        | .ok ps => pure (.mask ((ds.zip ps).map fun (d, q) => keep (d.2.2 * scale) q))
        | .error _ => throw "ValueError"
      else throw "TypeError"
    | _, _ => throw "TypeError"
  bin _ _ _ := throw "TypeError"
  neg _ := throw "TypeError"
  sub o k := match o, k with
    | .pop isIndex idx, .mask bs =>
      if bs.length = idx.length then pure (.pop isIndex ((idx.zip bs).filterMap fun (s, b) => if b then some s else Option.none))
      else throw "IndexError"
    | _, _ => throw "TypeError"
  slice _ _ := .none
  setItem _ _ _ := throw "TypeError"
  iter _ := throw "TypeError"
  unstar _ := throw "TypeError"
  format _ := throw "TypeError"
  concat _ := throw "TypeError"
  dict _ := throw "TypeError"
  whileLoop _ _ _ := throw "Unsupported"
  other _ := throw "Unsupported"
  throw cls := throw cls
  rethrow := throw "reraise"
  catchAll body handler := tryCatch body (fun _ => handler)
  catchCls cls body handler := tryCatch body (fun e => if e == cls then handler else throw e)

theorem getDraw_labels (blk : String → Nat → Nat → Nat) (size : Nat) (pos : Sim → Option Nat) (ks : String) :
    ∀ (req : List Sim) (ds : List Draw), getDraw blk size pos ks req = .ok ds → ds.map (·.1) = req
  | [], ds, h => by simp [getDraw] at h; subst h; rfl
  | s :: ss, ds, h => by
    simp only [getDraw] at h
    cases hp : pos s with
    | none => simp [hp] at h
    | some p =>
      cases hr : getDraw blk size pos ks ss with
      | error e => simp [hp, hr] at h
      | ok ds' =>
        simp [hp, hr] at h
        subst h
        simp [getDraw_labels blk size pos ks ss ds' hr]

theorem zipIdx_fst (req : List Sim) (k : Nat) : (req.zipIdx k).map (·.1) = req := by
  induction req generalizing k with
  | nil => rfl
  | cons a l ih => simp [List.zipIdx_cons, ih]

theorem getDrawInit_labels (blk : String → Nat → Nat → Nat) (size : Nat) (ks : String) (req : List Sim) (ds : List Draw)
    (h : getDrawInit blk size ks req = .ok ds) : ds.map (·.1) = req := by
  unfold getDrawInit at h
  by_cases hle : req.length ≤ size
  · simp only [hle, if_true] at h
    injection h with h
    subst h
    simp only [List.map_map]
    exact zipIdx_fst req 0
  · simp [hle] at h

theorem broadcast_length (idx : List Sim) (p : Probs) (ps : List Nat) (h : broadcast idx p = .ok ps) : ps.length = idx.length := by
  cases p with
  | scalar q => simp [broadcast] at h; subst h; simp
  | list qs =>
    by_cases hq : qs.length = idx.length
    · simp [broadcast, hq] at h; subst h; exact hq
    · simp [broadcast, hq] at h
  | tuple qs =>
    by_cases hq : qs.length = idx.length
    · simp [broadcast, hq] at h; subst h; exact hq
    · by_cases h1 : qs.length = 1
      · have hne : ¬ (1 = idx.length) := by omega
        simp [broadcast, h1, hne] at h; subst h; simp
      · simp [broadcast, hq, h1] at h
  | series i qs =>
    by_cases hq : i = idx ∧ qs.length = idx.length
    · simp [broadcast, hq] at h; subst h; exact hq.2
    · simp [broadcast, hq] at h

/-- `population[mask]` with the mask computed entry by entry is the model's `filterProb` -/
theorem mask_filter : ∀ (idx : List Sim) (ds ps : List Nat), ds.length = idx.length → ps.length = idx.length →
    (idx.zip ((ds.zip ps).map fun (d, q) => keep d q)).filterMap (fun (s, b) => if b then some s else Option.none)
      = filterProb idx ds ps
  | [], _, _, _, _ => by simp [filterProb]
  | s :: ss, d :: ds, q :: ps, h1, h2 => by
    simp only [List.length_cons, Nat.add_right_cancel_iff] at h1 h2
    have ih := mask_filter ss ds ps h1 h2
    cases hk : keep d q <;> simp [filterProb, hk, ih]
  | _ :: _, [], _, h1, _ => by simp at h1
  | _ :: _, _ :: _, [], _, h2 => by simp at h2

/-- what the model says `filter_for_probability` keeps -/
def expectedKeep (blk : String → Nat → Nat → Nat) (st : Strm) (scale : Nat) (ak : String) (idx : List Sim) (p : Probs) :
    Except Err (List Sim) :=
  if st.crnInit then filterStreamInit blk st.size (joinKey st.key st.time ak st.seed) scale idx p
  else filterStream blk st.size st.pos (joinKey st.key st.time ak st.seed) scale idx p

theorem filter_refines (blk : String → Nat → Nat → Nat) (st : Strm) (scale : Nat) (ak : String) (isIndex : Bool)
    (idx : List Sim) (p : Probs) :
    (Gen.Src.streamFilterForProbability.run (fworld blk st scale)
        [("self", .self), ("population", .pop isIndex idx), ("probability", .probs p), ("additional_key", .ak ak)]).toOption
      = (expectedKeep blk st scale ak idx p).toOption.map (FV.pop isIndex) := by
  rw [exc_func]
  simp only [Gen.Src.streamFilterForProbability]
  by_cases hemp : idx = []
  · subst hemp
    pystepE [fworld]
    cases hc : st.crnInit <;> simp [expectedKeep, hc, filterStream, filterStreamInit, Except.toOption]
  · pystepE [fworld, hemp]
    have hidx : evalStmt (fworld blk st scale)
        [("self", FV.self), ("population", FV.pop isIndex idx), ("probability", FV.probs p), ("additional_key", FV.ak ak)]
        (Stmt.assign (Expr.name "index")
          (((Expr.glob "isinstance").call [Expr.name "population", (Expr.glob "pd").attr "Index"] []).ifE
            (Expr.name "population") ((Expr.name "population").attr "index")))
        = .ok (.next, Locals.set [("self", FV.self), ("population", FV.pop isIndex idx), ("probability", FV.probs p),
            ("additional_key", FV.ak ak)] "index" (FV.pop true idx)) := by
      cases isIndex <;> simp [evalStmt, evalExpr, evalArgs, evalKws, assignTo, fworld]
    rw [exc_block_cons, hidx]
    dsimp only
    have hd := getDraw_refines blk st ak idx
    rcases hr : Gen.Src.streamGetDraw.run (sworld blk st) [("self", .self), ("index", .idx idx), ("additional_key", .printable ak)] with e | v
    · rw [hr] at hd
      pystepE [fworld, hr]
      have hne : idx.isEmpty = false := by cases idx <;> simp_all
      rcases st with ⟨key, time, seed, size, pos, crnInit⟩
      cases crnInit
      · cases hg : getDraw blk size pos (joinKey key time ak seed) idx with
        | error e' => simp [expectedKeep, filterStream, hne, hg, Except.toOption]
        | ok ds => simp [expected, hne, hg, Except.toOption] at hd
      · cases hg : getDrawInit blk size (joinKey key time ak seed) idx with
        | error e' => simp [expectedKeep, filterStreamInit, hne, hg, Except.toOption]
        | ok ds => simp [expected, hne, hg, Except.toOption] at hd
    · rw [hr] at hd
      pystepE [fworld, hr]
      have hne : idx.isEmpty = false := by cases idx <;> simp_all
      rcases st with ⟨key, time, seed, size, pos, crnInit⟩
      -- the draws the model names, whichever kind of stream this is
      obtain ⟨ds, hv, hlab, hmodel⟩ : ∃ ds, v = SV.series ds ∧ ds.map (·.1) = idx ∧
          expectedKeep blk ⟨key, time, seed, size, pos, crnInit⟩ scale ak idx p
            = match broadcast idx p with
              | .error e => .error e
              | .ok ps => .ok (filterProb idx (ds.map fun d => d.2.2 * scale) ps) := by
        cases crnInit
        · cases hg : getDraw blk size pos (joinKey key time ak seed) idx with
          | error e' => simp [expected, hne, hg, Except.toOption] at hd
          | ok ds =>
            refine ⟨ds, ?_, getDraw_labels _ _ _ _ _ _ hg, ?_⟩
            · simpa [expected, hne, hg, Except.toOption] using hd
            · simp [expectedKeep, filterStream, hne, hg]
              cases broadcast idx p <;> rfl
        · cases hg : getDrawInit blk size (joinKey key time ak seed) idx with
          | error e' => simp [expected, hne, hg, Except.toOption] at hd
          | ok ds =>
            refine ⟨ds, ?_, getDrawInit_labels _ _ _ _ _ hg, ?_⟩
            · simpa [expected, hne, hg, Except.toOption] using hd
            · simp [expectedKeep, filterStreamInit, hne, hg]
              cases broadcast idx p <;> rfl
      subst hv
      rw [hmodel]
      cases hb : broadcast idx p with
      | error e' =>
        pystepE [fworld, hlab, hb]
        simp [Except.toOption]
      | ok ps =>
        have hpl := broadcast_length idx p ps hb
        have hdl : ds.length = idx.length := by rw [← hlab]; simp
        pystepE [fworld, hlab, hb]
        pystepE [fworld, hlab, hb, hpl, hdl]
        have hm := mask_filter idx (ds.map fun d => d.2.2 * scale) ps (by simp [hdl]) hpl
        simp [Except.toOption, ← hm, List.zip_map_left, List.map_map, Function.comp_def]
end Viv.Props.C05Src
