import VivModel.Model.Lifecycle
import VivModel.Model.Context
/-! C06 — the lifecycle only ever advances in the legal order.

General part: for EVERY lifecycle definition and EVERY request sequence (induction).
Engine part: over the tables regenerated from `engine.py` / `lifecycle.py` (`decide` on the
complete finite tables). -/
namespace Viv.Props.C06
open Viv.LC Viv.Ctx

/-- `set_state` succeeds exactly when the target exists and is a legal successor, and then the new
state is the target. -/
theorem setState_ok_iff (lc : LifeCycle) (cur tgt s : String) :
    setState lc cur tgt = .ok s ↔ (s = tgt ∧ (allStates lc).contains tgt ∧ validNext lc cur tgt) := by
  unfold setState
  split
  · rename_i h; simp_all
  · split
    · rename_i h1 h2
      constructor
      · intro h; cases h; exact ⟨rfl, by simpa using h1, h2⟩
      · rintro ⟨rfl, _, _⟩; rfl
    · rename_i h1 h2; simp_all

/-- a refused request (unknown or illegal target) leaves the current state unchanged: the rest of the
history is processed from the same state. -/
theorem setState_err_unchanged (lc : LifeCycle) (cur r : String) (rs : List String) (e : Err)
    (h : setState lc cur r = .error e) :
    runReqs lc cur (r :: rs) = ((runReqs lc cur rs).1, false :: (runReqs lc cur rs).2) := by
  simp [runReqs, h]

/-- for every lifecycle and every request list: all requests accepted ⇔ the list is a path of the
declared order. -/
theorem accepts_iff_legal (lc : LifeCycle) (cur : String) (rs : List String) :
    (runReqs lc cur rs).2.all id = true ↔ Legal lc cur rs := by
  induction rs generalizing cur with
  | nil => simp [runReqs]; exact Legal.nil cur
  | cons r rs ih =>
    unfold runReqs
    cases h : setState lc cur r with
    | ok s =>
      have := (setState_ok_iff lc cur r s).mp h
      obtain ⟨rfl, hc, hv⟩ := this
      simp only [List.all_cons, id, Bool.true_and]
      rw [ih]
      constructor
      · intro hl; exact Legal.cons hv hc hl
      · intro hl; cases hl with | cons _ _ hl => exact hl
    | error e =>
      simp only [List.all_cons, id, Bool.false_and]
      constructor
      · intro hf; cases hf
      · intro hl
        cases hl with
        | cons hv hc _ =>
          have : setState lc cur r = .ok r := (setState_ok_iff lc cur r r).mpr ⟨rfl, hc, hv⟩
          rw [this] at h; cases h

/-- the state reached is always the last accepted request (or the start): the final state of any
history is determined by its accepted sub-sequence. -/
theorem final_state_accepted (lc : LifeCycle) (cur : String) (rs : List String) :
    (runReqs lc cur rs).1 = ((rs.zip (runReqs lc cur rs).2).filter (·.2) |>.map (·.1)).getLast?.getD cur := by
  induction rs generalizing cur with
  | nil => simp [runReqs]
  | cons r rs ih =>
    unfold runReqs
    cases h : setState lc cur r with
    | ok s =>
      obtain ⟨rfl, _, _⟩ := (setState_ok_iff lc cur r s).mp h
      simp only [List.zip_cons_cons, List.filter_cons_of_pos, List.map_cons]
      rw [ih s]
      cases hl : ((rs.zip (runReqs lc s rs).2).filter (·.2) |>.map (·.1)) with
      | nil => simp
      | cons a l =>
        obtain ⟨x, hx⟩ : ∃ x, (a :: l).getLast? = some x := ⟨_, List.getLast?_eq_some_getLast (by simp)⟩
        have : (s :: a :: l).getLast? = some x := by rw [List.getLast?_cons_cons]; exact hx
        simp [hx, this]
    | error e =>
      simp only [List.zip_cons_cons]
      rw [ih cur]
      simp

theorem all_true_replicate : ∀ l : List Bool, l.all id = true → l = List.replicate l.length true
  | [], _ => rfl
  | b :: l, h => by
    simp only [List.all_cons, id, Bool.and_eq_true] at h
    simp only [List.length_cons, List.replicate_succ]
    rw [h.1, ← all_true_replicate l h.2]

theorem runReqs_length (lc : LifeCycle) (cur : String) (rs : List String) :
    (runReqs lc cur rs).2.length = rs.length := by
  induction rs generalizing cur with
  | nil => simp [runReqs]
  | cons r rs ih =>
    unfold runReqs
    cases setState lc cur r <;> simp [ih]

/-- after a refused request the legal continuation is still accepted. -/
theorem legal_prefix_continues (lc : LifeCycle) (cur bad : String) (rs : List String) (e : Err)
    (h : setState lc cur bad = .error e) (hl : Legal lc cur rs) :
    (runReqs lc cur (bad :: rs)).2 = false :: List.replicate rs.length true := by
  rw [setState_err_unchanged lc cur bad rs e h]
  have hall := (accepts_iff_legal lc cur rs).mpr hl
  have := all_true_replicate _ hall
  rw [runReqs_length] at this
  simp [← this]

/-- `add_phase` keeps state names unique across the lifecycle (what makes `get_state` unambiguous). -/
theorem addPhase_nodup (lc lc' : LifeCycle) (p : Phase) (h : (allStates lc).Nodup)
    (ha : addPhase lc p = some lc') : (allStates lc').Nodup := by
  unfold addPhase at ha
  split at ha; · cases ha
  split at ha; · cases ha
  split at ha; · cases ha
  split at ha; · cases ha
  rename_i _ h1 h2 h3
  cases ha
  simp only [allStates, List.flatMap_append, List.flatMap_cons, List.flatMap_nil, List.append_nil]
  rw [List.nodup_append]
  refine ⟨h, by simpa using h2, ?_⟩
  intro a ha b hb hab
  subst hab
  apply h3
  simp only [List.any_eq_true]
  exact ⟨a, hb, by simpa [allStates] using ha⟩

/-! ### Engine lifecycle (regenerated tables) -/

/-- the generated lifecycle has exactly the successor table the property describes:
initialization, setup, post_setup, population_creation, (prepare, step, cleanup, metrics)+,
simulation_end, report. -/
theorem engine_order :
    states.map (fun s => (s, states.filter (validNext lifecycle s))) =
      [("initialization", ["setup"]), ("setup", ["post_setup"]), ("post_setup", ["population_creation"]),
       ("population_creation", ["time_step__prepare"]), ("time_step__prepare", ["time_step"]),
       ("time_step", ["time_step__cleanup"]), ("time_step__cleanup", ["collect_metrics"]),
       ("collect_metrics", ["time_step__prepare", "simulation_end"]),
       ("simulation_end", ["report"]), ("report", [])] := by decide

/-- the control state a context is in when it rests in lifecycle state `st` after legal calls -/
def coherent (st : String) (log : List String) : Ctl :=
  { st := st, log := log,
    setupDone := st ≠ "initialization",
    frozen := st ≠ "initialization",
    created := !(["initialization", "setup", "post_setup"].contains st) }

def methods : List String := ["setup", "initialize_simulants", "step", "finalize", "report"]

/-- every context method, called in ANY lifecycle state, either runs completely or is refused at
its first state change with no listener run and the state unchanged (10 states × 5 methods). -/
theorem context_call_atomic :
    (states.all fun st => methods.all fun m =>
      match callCtl m (coherent st ["<earlier>"]) with
      | .ok _ => true
      | .error (_, c) => c == coherent st ["<earlier>"]) = true := by decide

/-- … and the same for a context driven only by direct state requests (no `setup()` ever ran): a
method whose first state change is illegal changes nothing. -/
theorem context_call_refused_unchanged_bare :
    (states.all fun st => methods.all fun m =>
      let c0 : Ctl := { st := st }
      match (skeletonOf m).head? with
      | some (.set t) =>
        validNext lifecycle st t || (match callCtl m c0 with
          | .ok _ => false
          | .error (_, c) => c == c0)
      | _ => true) = true := by decide

/-- which method is accepted where: exactly the documented call order. -/
theorem context_call_table :
    (states.map fun st => (st, methods.filter fun m =>
      match callCtl m (coherent st []) with | .ok _ => true | .error _ => false)) =
      [("initialization", ["setup"]), ("setup", []), ("post_setup", ["initialize_simulants"]),
       ("population_creation", ["step"]), ("time_step__prepare", []), ("time_step", []),
       ("time_step__cleanup", []), ("collect_metrics", ["step", "finalize"]),
       ("simulation_end", ["report"]), ("report", [])] := by decide

/-- the legal order of calls succeeds, emitting the events in the documented order. -/
theorem legal_run :
    (do let c ← callCtl "setup" { st := "initialization" }
        let c ← callCtl "initialize_simulants" c
        let c ← callCtl "step" c
        let c ← callCtl "step" c
        let c ← callCtl "finalize" c
        callCtl "report" c) =
    .ok { st := "report", setupDone := true, created := true, frozen := true,
          log := ["setup_components", "emit:post_setup", "create",
                  "emit:time_step__prepare", "emit:time_step", "emit:time_step__cleanup", "emit:collect_metrics",
                  "emit:time_step__prepare", "emit:time_step", "emit:time_step__cleanup", "emit:collect_metrics",
                  "emit:simulation_end", "emit:report"] } := by decide

def isEventAct : Viv.Gen.Act → Bool
  | .emit _ => true | .create => true | .setupComponents => true | _ => false

def isSetAct : Viv.Gen.Act → Bool
  | .set _ => true | _ => false

/-- in every context method a state change precedes the first listener-running action (so no
listener can run before the requested transition has been validated and entered). -/
theorem set_precedes_emit :
    (Viv.Gen.skeleton.all fun (_, acts) =>
      let ex := expand acts
      !(ex.any isEventAct) || (ex.takeWhile (fun a => !isEventAct a)).any isSetAct) = true := by decide

/-- a listener that raises during one of the four step events leaves the context in that (legally entered)
state with the earlier events of the step delivered; from there every context method is refused without
any effect (`context_call_atomic`, `context_call_table`) – the run cannot silently continue. -/
theorem listener_failure_keeps_entered_state :
    (["time_step__prepare", "time_step", "time_step__cleanup", "collect_metrics"].all fun e =>
      match callCtl "step" { (coherent "collect_metrics" []) with failOn := e } with
      | .ok _ => false
      | .error (f, c) =>
        f == .other && c.st == e && c.failOn == "" &&
        c.log == (["time_step__prepare", "time_step", "time_step__cleanup", "collect_metrics"].takeWhile (· ≠ e)).map ("emit:" ++ ·) &&
        (e == "collect_metrics" || methods.all fun m =>
          match callCtl m c with | .ok _ => false | .error (_, c') => c' == c)) = true := by decide

-- non-vacuity: the hypotheses of the general theorems are inhabited by the engine lifecycle
example : Legal lifecycle "initialization" ["setup", "post_setup", "population_creation", "time_step__prepare"] := by
  refine .cons (by decide) (by decide) (.cons (by decide) (by decide) (.cons (by decide) (by decide)
    (.cons (by decide) (by decide) (.nil _))))
example : setState lifecycle "setup" "report" = .error .transition := by decide
example : setState lifecycle "setup" "nowhere" = .error .unknown := by decide
example : (runReqs lifecycle "initialization" ["setup", "report", "post_setup"]) = ("post_setup", [true, false, true]) := by decide

end Viv.Props.C06
